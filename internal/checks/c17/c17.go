// Package c17: parse.Value accepts every JSON value and reads it back
// faithfully, and the parse.Config switches do what they say.
package c17

import (
	"encoding/json"
	"fmt"
	"hash/fnv"
	"math"
	"math/big"
	"math/rand"
	"strconv"
	"strings"

	"github.com/elastic/go-ucfg/parse"

	"verif/internal/harness"
	"verif/internal/model"
)

type check struct{}

func init() { harness.Register(check{}) }

func (check) ID() string { return "C17" }

const (
	docsPerCase     = 20
	wordDocsPerCase = 2
	quickRandom     = 1000
	thoroughRandom  = 100000
	enumChunk       = 4096
	enumMaxLen      = 6
	quickEnumCases  = 24
)

var enumAlpha = []byte("[]{}\",:\\a1 ")

func enumTotal() int {
	t, p := 0, 1
	for l := 0; l <= enumMaxLen; l++ {
		t += p
		p *= len(enumAlpha)
	}
	return t
}

func enumString(i int) string {
	l, pow := 0, 1
	for i >= pow {
		i -= pow
		pow *= len(enumAlpha)
		l++
	}
	b := make([]byte, l)
	for k := l - 1; k >= 0; k-- {
		b[k] = enumAlpha[i%len(enumAlpha)]
		i /= len(enumAlpha)
	}
	return string(b)
}

func randomCases(tier string) int {
	if tier == "thorough" {
		return thoroughRandom
	}
	return quickRandom
}

func (check) Cases(tier string) int {
	if tier == "thorough" {
		return thoroughRandom + (enumTotal()+enumChunk-1)/enumChunk
	}
	return quickRandom + quickEnumCases
}

func (check) Exhaustive(string) bool { return false }

func (check) Rule() string {
	return "each random case: 20 documents = a random data tree (objects over a key pool incl. \"\", spaces, quotes, backslash, non-ASCII; arrays; strings over an alphabet with quote, backslash, solidus, control, DEL, non-ASCII, astral, Unicode spaces and all syntax characters, strings ending in backslashes; integers at the int64/uint64/2^53 boundaries; integer numerals beyond 64 bits of both signs; floats incl. extremes; true/false/null; {} and []) rendered by our own renderer (compact / indented / whitespace with probability 8..95% at every position JSON allows; every escape spelling incl. upper/lower/mixed hex and surrogate pairs; fraction and exponent respellings of numbers), validated against encoding/json, parsed with parse.Value and with all 24 legal parse.Config values; ~1/7 of the documents additionally spell some strings with single quotes; plus 2 top-level comma word lists per case; plus 6 nested-literal documents per case (arrays/objects, nested up to 3 deep, under a config with Object, StringDQuote and/or StringSQuote off, whose elements / member values open with a disabled { \" or ' and hold the other container's closer, colons, quotes, spaces; mixed with normal scalars, enabled-quote strings holding stop characters, unquoted and enabled-quote keys; each run with IgnoreCommas off and on); plus 4 top-level comma documents per case (a complete dq-string / sq-string / array / object / word followed by a comma and nothing, a quoted value, a container, a word or 2-3 more values; all 24 configs); plus wide/deep documents (quick: one deep per case, one wide every 4th case; thorough: every 5th / 20th): 0-3 wrapper levels, a wide array or object with 0-6 (deep) or 100-60000 (wide, clustered around 10000) siblings drawn from a 1-3 kind palette of 14 element kinds (empty containers with and without blanks, scalars, short strings, small containers), a tail chain of arrays/objects placed first/middle/last whose depth aims at exactly 10000 (35%), 9999, 10001, beyond, or anything below, siblings before the child at 0/1/30/100% of the tail levels, three whitespace layouts; half of them parsed right after an over-limit, unterminated or empty-object-heavy document; parsed with parse.Value and one more config; plus 6 float-syntax boundary documents per case (a number with fraction and/or exponent - plain, scaled, scientific, 0.x, arbitrary point position, e/E, signed and zero-padded exponents - whose exact value is an integer or within a fraction of one at 2^31, 2^32, 2^52..2^54, 2^62..2^65 of both signs, offset by 0, +-1, the rounding ties, +-ulp or at random; at top level or 1-3 levels deep as array element / object member between other values, whitespace at every position; parse.Value and one more config); after every successful canonical comparison the key sets of all objects are compared exactly (a member holding null, [] or {} must be a key of the map); plus (thorough: all, quick: a seed-chosen slice of) strings of length <= 6 over [ ] { } \" , : \\ a 1 space that encoding/json accepts. Non-trivial = the document has at least one container or one escaped string; distinct = distinct document text."
}

func (check) Assumptions() []string {
	return []string{
		"encoding/json (UseNumber) is the second witness that a generated text is valid JSON for the generating tree; a disagreement is counted as generator_error and reported as INCONCLUSIVE, never as a violation",
		"canonical comparison: numbers by value (uint64/int64/float64 all fine), nil == {} == [] (the parser documents []/{} -> nil), nil list elements stay; the canonical form alone would also equate an absent key with a nil member, therefore the key sets of every object are compared exactly afterwards: each member of the document is a key of the returned map (value nil for null; nil or an empty list/map for [] and {}), no other keys",
		"float-syntax numbers at the 64 bit / 2^53 boundaries: the exact rational value is known by construction; accepted is any Go number equal to it or equal to the float64 nearest to it (round to nearest even, big.Rat.Float64), whatever the Go type",
		"numbers: integers in digit spelling over the whole int64/uint64 range; fraction/exponent spellings only for values a float64 holds exactly (|n| <= 2^53) or for float64 data (compared with the correctly rounded value); integer NUMERALS (digits only) no 64 bit type holds, of both signs, near the 64 bit span and up to 10^39, exact or anywhere inside the rounding interval, must come back as the nearest float64 (what encoding/json makes of them); the numerals just below MinInt64 whose float64 is -2^63 may come back as their text or as -2^63 (2 such documents per case); nothing beyond float64 range; no duplicate object keys",
		"single-quoted strings are taken verbatim (documented: no unescaping) and never contain a single quote",
		"config rules: (1) a document using only enabled syntax must parse as under DefaultConfig (or as the generating data); (2) a document OPENING with a disabled bracket/quote must come back as its literal trimmed text, judged only without any comma in the text or under IgnoreCommas; random JSON documents using disabled syntax only deeper inside are not judged (their commas make the literal reading split them); the nested-literal documents judge exactly that position: an array element / object member value opening with a disabled opener is the raw text up to the container's next stop character (comma or ] in an array, comma or } in an object), no bracket or quote matching, trimmed; expectation built constructively and cross-checked by an own raw-slicing reader of that rule (disagreement = generator_error); object keys opening with a DISABLED quote are not generated (the parser reads quoted keys regardless of the flags); (3) plain-word comma lists: list without IgnoreCommas, one string with it; IgnoreCommas after a quoted first element is not generated",
		"nesting: the parser refuses documents nested deeper than encoding/json does (10000 open arrays/objects); a document whose deepest value sits inside at most 10000 containers must parse and read back faithfully whatever its width, its earlier elements or what was parsed before in the process; a deeper document may be refused or parsed faithfully (both accepted, anything else is a violation); wide/deep results are compared by a linear-time structural hash of the same canonical form",
		"IgnoreCommas with a comma after a COMPLETE top-level value whose opener is enabled (quoted string, array, object; also trailing comma): the result must not be a list built from that comma; the whole trimmed text as one string or an error are both accepted, but one shape (first value kind x what follows) must always get the same kind within a case; with IgnoreCommas off and all used syntax enabled a,b,c is the list of the values (trailing comma not judged)",
		"invalid JSON, trailing commas, unquoted strings inside containers are outside this property (C07 covers crashes on malformed input)",
	}
}

// ---------------------------------------------------------------- configs

var configs []parse.Config // all legal configs, DefaultConfig first

func init() {
	configs = append(configs, parse.DefaultConfig)
	for m := 0; m < 32; m++ {
		c := parse.Config{Array: m&1 != 0, Object: m&2 != 0, StringDQuote: m&4 != 0, StringSQuote: m&8 != 0, IgnoreCommas: m&16 != 0}
		if c.Object && !c.Array {
			continue // rejected by validateConfig
		}
		if c == parse.DefaultConfig {
			continue
		}
		configs = append(configs, c)
	}
}

func b01(b bool) byte {
	if b {
		return '1'
	}
	return '0'
}

func cfgName(c parse.Config) string {
	return string([]byte{'A', b01(c.Array), 'O', b01(c.Object), 'D', b01(c.StringDQuote), 'S', b01(c.StringSQuote), 'I', b01(c.IgnoreCommas)})
}

// single deviations from the default, used to minimise a config deviation
var toggles = []struct {
	name string
	cfg  parse.Config
}{
	{"Object-off", parse.Config{Array: true, Object: false, StringDQuote: true, StringSQuote: true}},
	{"Array+Object-off", parse.Config{Array: false, Object: false, StringDQuote: true, StringSQuote: true}},
	{"StringDQuote-off", parse.Config{Array: true, Object: true, StringDQuote: false, StringSQuote: true}},
	{"StringSQuote-off", parse.Config{Array: true, Object: true, StringDQuote: true, StringSQuote: false}},
	{"IgnoreCommas-on", parse.Config{Array: true, Object: true, StringDQuote: true, StringSQuote: true, IgnoreCommas: true}},
}

func usesDisabled(s syntax, c parse.Config) bool {
	return (s.arr && !c.Array) || (s.obj && !c.Object) || (s.dq && !c.StringDQuote) || (s.sq && !c.StringSQuote)
}

func disabledOpen(s syntax, c parse.Config) string {
	switch {
	case s.open == '[' && !c.Array:
		return "array"
	case s.open == '{' && !c.Object:
		return "object"
	case s.open == '"' && !c.StringDQuote:
		return "dquote"
	case s.open == '\'' && !c.StringSQuote:
		return "squote"
	}
	return ""
}

// ---------------------------------------------------------------- running

type outcome struct {
	panicked  bool
	pv, where string
	err       error
	val       interface{}
	canon     string
}

func (o outcome) String() string {
	switch {
	case o.panicked:
		return fmt.Sprintf("PANIC %q at %s", o.pv, o.where)
	case o.err != nil:
		return fmt.Sprintf("error %q", o.err.Error())
	}
	return fmt.Sprintf("%s (%T)", o.canon, o.val)
}

func (o outcome) same(p outcome) bool {
	if o.panicked || p.panicked {
		return o.panicked == p.panicked
	}
	if (o.err != nil) != (p.err != nil) {
		return false
	}
	return o.err != nil || o.canon == p.canon
}

func (o outcome) is(want string) bool { return !o.panicked && o.err == nil && o.canon == want }

type runner struct {
	res     *harness.R
	verbose bool
}

func (c *runner) parseDefault(text string) outcome {
	var o outcome
	c.res.Eval(1)
	o.panicked, o.pv, o.where = harness.Safe(func() { o.val, o.err = parse.Value(text) })
	if !o.panicked && o.err == nil {
		o.canon = model.CanonIfc(o.val)
	}
	return o
}

func (c *runner) parseCfg(text string, cfg parse.Config) outcome {
	var o outcome
	c.res.Eval(1)
	o.panicked, o.pv, o.where = harness.Safe(func() { o.val, o.err = parse.ValueWithConfig(text, cfg) })
	if !o.panicked && o.err == nil {
		o.canon = model.CanonIfc(o.val)
	}
	return o
}

func panicSig(o outcome) string {
	fn := o.where
	if i := strings.Index(fn, "<"); i >= 0 {
		fn = fn[:i]
	}
	if fn == "" {
		fn = "unknown"
	}
	return "panic:" + fn
}

// ---------------------------------------------------------------- witness

func ratOfInt(v interface{}) *big.Rat {
	switch x := v.(type) {
	case int64:
		return new(big.Rat).SetInt64(x)
	case uint64:
		return new(big.Rat).SetInt(new(big.Int).SetUint64(x))
	}
	return nil
}

// sameWitness compares the generating tree with what encoding/json decoded.
func sameWitness(n *model.Node, w interface{}) bool {
	switch {
	case n == nil || n.Kind == model.KNil:
		return w == nil
	case n.Kind == model.KPrim:
		switch p := n.Prim.(type) {
		case bool:
			b, ok := w.(bool)
			return ok && b == p
		case string:
			s, ok := w.(string)
			return ok && s == p
		case float64:
			num, ok := w.(json.Number)
			if !ok {
				return false
			}
			f, err := strconv.ParseFloat(string(num), 64)
			if err != nil || f != p {
				return false
			}
			// an integer literal must denote the float exactly
			// a numeral no 64 bit integer type holds denotes the nearest float64
			if digitsOnly(string(num)) && len(num) < 400 && fits64(string(num)) {
				r, ok := new(big.Rat).SetString(string(num))
				fr := new(big.Rat).SetFloat64(p)
				return ok && fr != nil && r.Cmp(fr) == 0
			}
			return true
		default:
			num, ok := w.(json.Number)
			if !ok {
				return false
			}
			if len(num) > 64 {
				return false
			}
			r, ok := new(big.Rat).SetString(string(num))
			return ok && r.Cmp(ratOfInt(p)) == 0
		}
	case isList(n):
		l, ok := w.([]interface{})
		if !ok || len(l) != len(n.A) {
			return false
		}
		for i := range l {
			if !sameWitness(n.A[i], l[i]) {
				return false
			}
		}
		return true
	}
	m, ok := w.(map[string]interface{})
	if !ok || len(m) != len(n.D) {
		return false
	}
	for k, v := range n.D {
		x, ok := m[k]
		if !ok || !sameWitness(v, x) {
			return false
		}
	}
	return true
}

func decodeJSON(text string) (interface{}, error) {
	if !json.Valid([]byte(text)) {
		return nil, fmt.Errorf("not valid JSON")
	}
	dec := json.NewDecoder(strings.NewReader(text))
	dec.UseNumber()
	var w interface{}
	if err := dec.Decode(&w); err != nil {
		return nil, err
	}
	return w, nil
}

// fromWitness converts an encoding/json value (UseNumber) into a tree.
func fromWitness(w interface{}) (*model.Node, bool) {
	switch x := w.(type) {
	case nil:
		return model.Nil(), true
	case bool:
		return model.P(x), true
	case string:
		return model.P(x), true
	case json.Number:
		s := string(x)
		if i, err := strconv.ParseInt(s, 10, 64); err == nil {
			return model.P(i), true
		}
		if u, err := strconv.ParseUint(s, 10, 64); err == nil {
			return model.P(u), true
		}
		if f, err := strconv.ParseFloat(s, 64); err == nil && (strings.ContainsAny(s, ".eE") || beyond64(f)) {
			return model.P(f), true
		}
		return nil, false
	case []interface{}:
		n := model.List()
		for _, e := range x {
			ch, ok := fromWitness(e)
			if !ok {
				return nil, false
			}
			n.A = append(n.A, ch)
		}
		return n, true
	case map[string]interface{}:
		n := model.Dict()
		for k, e := range x {
			ch, ok := fromWitness(e)
			if !ok {
				return nil, false
			}
			n.D[k] = ch
		}
		return n, true
	}
	return nil, false
}

// ---------------------------------------------------------------- the check of one document

func hashKey(s string) string {
	h := fnv.New64a()
	h.Write([]byte(s))
	return strconv.FormatUint(h.Sum64(), 36)
}

// checkDoc judges one witnessed document: text denotes the data d.
func (c *runner) checkDoc(d *model.Node, text, origin string) {
	res := c.res
	want := d.Canon()
	toks := tokenize(text)
	syn := syntaxOf(text, toks)
	res.Ev("documents", 1)
	if syn.nontrivial {
		res.Key(hashKey(text))
	}
	for _, tk := range toks {
		if tk.k == 'w' {
			res.SetAdd("ws_placement", tk.place)
		}
	}
	res.SetAdd("value_kind", "top:"+kindOf(d))

	// parse.Value
	o0 := c.parseDefault(text)
	switch {
	case o0.panicked:
		res.Ev("default_failed", 1)
		res.Violate(panicSig(o0), "parse.Value(%q) panicked: %q at %s; data %s", text, o0.pv, o0.where, d)
	case !o0.is(want):
		res.Ev("default_failed", 1)
		sig, note := c.classify(d, text, toks, want, o0)
		res.Violate(sig, "parse.Value(%q): got %s, want %s%s [%s]", text, o0, want, note, origin)
	default:
		res.Ev("default_ok", 1)
		c.checkMembers(d, o0, text, "parse.Value", true)
	}
	if c.verbose {
		fmt.Printf("doc %q -> %s (want %s)\n", text, o0, want)
	}

	// parse.ValueWithConfig, every legal config
	hasComma := strings.Contains(text, ",")
	trimmed := strings.TrimSpace(text)
	if trimmed != strings.Trim(text, " \t\r\n") {
		res.Ev("generator_error", 1)
		res.Inconc("document edges are not JSON whitespace: %q", text)
		return
	}
	for _, cfg := range configs {
		name := cfgName(cfg)
		if cfg == parse.DefaultConfig {
			o := c.parseCfg(text, cfg)
			if !o.same(o0) {
				res.Violate("value-differs-from-valuewithconfig-default", "Value(%q) = %s but ValueWithConfig(DefaultConfig) = %s", text, o0, o)
			}
			res.SetAdd("config_rule", name+":default")
			continue
		}
		if what := disabledOpen(syn, cfg); what != "" {
			// rule 2: taken literally
			if hasComma && !cfg.IgnoreCommas {
				res.Ev("cfg_not_judged_comma_in_literal", 1)
				continue
			}
			o := c.parseCfg(text, cfg)
			res.Ev("cfg_rule2_literal_checked", 1)
			res.SetAdd("config_rule", name+":literal-"+what)
			if o.panicked {
				res.Violate(panicSig(o), "ValueWithConfig(%q, %s) panicked: %q at %s", text, name, o.pv, o.where)
				continue
			}
			if s, ok := o.val.(string); o.err != nil || !ok || s != trimmed {
				res.Violate("disabled-"+what+"-open-not-literal", "ValueWithConfig(%q, %s): the document opens with disabled %s syntax, want the literal text %q, got %s", text, name, what, trimmed, o)
			}
			continue
		}
		if usesDisabled(syn, cfg) {
			res.Ev("cfg_not_judged_nested_disabled_syntax", 1)
			continue
		}
		// rule 1 (and 4): only enabled syntax -> as under DefaultConfig
		o := c.parseCfg(text, cfg)
		res.Ev("cfg_rule1_same_as_default_checked", 1)
		res.SetAdd("config_rule", name+":enabled-only")
		if cfg.IgnoreCommas && syn.arr && hasComma && o.is(want) {
			res.Ev("cfg_rule4_list_inside_brackets_under_ignorecommas", 1)
		}
		if o.is(want) {
			c.checkMembers(d, o, text, "ValueWithConfig["+name+"]", false)
			continue
		}
		if o.same(o0) {
			continue
		}
		if o.panicked {
			res.Violate(panicSig(o), "ValueWithConfig(%q, %s) panicked: %q at %s", text, name, o.pv, o.where)
			continue
		}
		culprit := name
		for _, t := range toggles {
			if usesDisabled(syn, t.cfg) || disabledOpen(syn, t.cfg) != "" {
				continue
			}
			if !contained(t.cfg, cfg) {
				continue
			}
			if ot := c.parseCfg(text, t.cfg); !ot.is(want) && !ot.same(o0) {
				culprit = t.name
				break
			}
		}
		res.Violate("enabled-syntax-parses-differently:"+culprit, "ValueWithConfig(%q, %s): document uses only enabled syntax; got %s, DefaultConfig gives %s, data %s", text, name, o, o0, want)
	}
}

// contained: every deviation of t from the default is also a deviation of c.
func contained(t, c parse.Config) bool {
	d := parse.DefaultConfig
	return (t.Array == d.Array || c.Array == t.Array) &&
		(t.Object == d.Object || c.Object == t.Object) &&
		(t.StringDQuote == d.StringDQuote || c.StringDQuote == t.StringDQuote) &&
		(t.StringSQuote == d.StringSQuote || c.StringSQuote == t.StringSQuote) &&
		(t.IgnoreCommas == d.IgnoreCommas || c.IgnoreCommas == t.IgnoreCommas)
}

// classify attributes a failing document to the narrowest cause it can
// demonstrate by re-spelling the same data.
func (c *runner) classify(d *model.Node, text string, toks []tok, want string, o0 outcome) (sig, note string) {
	generic := "json-roundtrip-mismatch"
	if o0.err != nil {
		generic = "json-rejected"
	}
	passes := func(t string) bool { return c.parseDefault(t).is(want) }

	feats := detect(text, toks)
	if feats.any() {
		clean := rewrite(text, toks, feats)
		if w, err := decodeJSONTwin(clean); err != nil || !sameWitness(d, w) {
			c.res.Ev("classifier_rewrite_not_witnessed", 1)
		}
		if passes(clean) {
			c.res.Ev("failing_doc_passes_with_known_features_respelled", 1)
			for f := 0; f < nFeat; f++ {
				if !feats[f] {
					continue
				}
				rm := feats
				rm[f] = false
				only := rewrite(text, toks, rm)
				if !passes(only) {
					return featSig[f], fmt.Sprintf("; fails with only this feature kept: %q; passes as %q", only, clean)
				}
			}
			return generic + ":feature-interaction", fmt.Sprintf("; features %s each pass alone; passes as %q", feats, clean)
		}
		note = fmt.Sprintf("; still fails as %q with the known-fragile features %s respelled", clean, feats)
		text, toks = clean, tokenize(clean)
	}

	// not explained by a known feature: narrow it down by data, whitespace, token
	if base := compactJSON(d); !passes(base) {
		m := d
	descend:
		for {
			var kids []*model.Node
			if m.Kind == model.KSub {
				for _, k := range m.SortedKeys() {
					kids = append(kids, m.D[k])
				}
				kids = append(kids, m.A...)
			}
			for _, k := range kids {
				if !c.parseDefault(compactJSON(k)).is(k.Canon()) {
					m = k
					continue descend
				}
			}
			break
		}
		return generic + ":value:" + kindOf(m) + floatDetail(m), note + fmt.Sprintf("; smallest failing sub-value in plain spelling: %q", compactJSON(m))
	}
	if nows := withoutWS(text, toks, -1); nows != text && passes(nows) {
		for i, tk := range toks {
			if tk.k == 'w' {
				if one := withoutWS(text, toks, i); !passes(one) {
					return generic + ":ws:" + tk.place, note + fmt.Sprintf("; fails with only that whitespace kept: %q", one)
				}
			}
		}
		return generic + ":ws", note + "; passes with all whitespace removed"
	}
	for _, tk := range toks {
		if tk.k != 'q' && tk.k != 'p' && tk.k != 's' {
			continue
		}
		t := text[tk.s:tk.e]
		var w string
		switch tk.k {
		case 's':
			w = model.PrimCanon(t[1 : len(t)-1])
		default:
			v, err := decodeJSON(t)
			if err != nil {
				continue
			}
			n, ok := fromWitness(v)
			if !ok {
				continue
			}
			w = n.Canon()
		}
		if !c.parseDefault(t).is(w) {
			kind := map[byte]string{'q': "dq-string", 's': "sq-string", 'p': "scalar"}[tk.k]
			if tk.k == 'p' && digitsOnly(t) && !fits64(t) {
				kind = "integer-numeral-beyond-64-bits:positive"
				if t[0] == '-' {
					kind = "integer-numeral-beyond-64-bits:negative"
				}
			}
			return generic + ":spelling:" + kind, note + fmt.Sprintf("; the token %q fails on its own", t)
		}
	}
	return generic, note
}

// decodeJSONTwin decodes a document that may contain single quoted strings by
// respelling those first.
func decodeJSONTwin(text string) (interface{}, error) {
	if strings.IndexByte(text, '\'') < 0 {
		return decodeJSON(text)
	}
	var b strings.Builder
	for _, tk := range tokenize(text) {
		if tk.k == 's' && tk.e-tk.s >= 2 {
			b.WriteString(plainJSONString(text[tk.s+1 : tk.e-1]))
		} else {
			b.WriteString(text[tk.s:tk.e])
		}
	}
	return decodeJSON(b.String())
}

// ---------------------------------------------------------------- top-level comma lists

var wordPool = []string{"a", "b", "foo", "bar", "x1", "hello world", "ünï", "日本", "a b c", "k_v", "x-y", "v1.2.3", "Zed", "nil", "yes", "no", "tru", "nul", "a.b", "$x", "w"}

func plainWord(w string) bool {
	if w == "null" || w == "" {
		return false
	}
	switch w {
	case "t", "T", "true", "TRUE", "True", "on", "ON", "f", "F", "false", "FALSE", "False", "off", "OFF":
		return false
	}
	if _, err := strconv.ParseFloat(w, 64); err == nil {
		return false
	}
	if _, err := strconv.ParseInt(w, 0, 64); err == nil {
		return false
	}
	if _, err := strconv.ParseUint(w, 0, 64); err == nil {
		return false
	}
	return strings.TrimSpace(w) == w && !strings.ContainsAny(w, "[]{},:\"'")
}

func (c *runner) wordDoc(r *rand.Rand) {
	res := c.res
	n := 2 + r.Intn(3)
	list := model.List()
	var b strings.Builder
	pad := func() {
		if r.Intn(3) == 0 {
			b.WriteString(wsChars[r.Intn(len(wsChars))])
		}
	}
	pad()
	for i := 0; i < n; i++ {
		if i > 0 {
			pad()
			b.WriteByte(',')
			pad()
		}
		switch x := r.Intn(10); {
		case x < 7 || i == 0:
			w := wordPool[r.Intn(len(wordPool))]
			if !plainWord(w) {
				w = "w"
			}
			b.WriteString(w)
			list.A = append(list.A, model.P(w))
		case x < 9:
			v := int64(r.Intn(200) - 100)
			b.WriteString(strconv.FormatInt(v, 10))
			list.A = append(list.A, model.P(v))
		default:
			v := r.Intn(2) == 0
			b.WriteString(strconv.FormatBool(v))
			list.A = append(list.A, model.P(v))
		}
	}
	pad()
	text := b.String()
	whole := strings.TrimSpace(text)
	res.Ev("word_list_documents", 1)
	for _, cfg := range configs {
		o := c.parseCfg(text, cfg)
		name := cfgName(cfg)
		if o.panicked {
			res.Violate(panicSig(o), "ValueWithConfig(%q, %s) panicked: %q at %s", text, name, o.pv, o.where)
			continue
		}
		if cfg.IgnoreCommas {
			res.SetAdd("config_rule", name+":words-one-string")
			if s, ok := o.val.(string); o.err != nil || !ok || s != whole {
				sig := "ignorecommas-toplevel-wrong-value"
				if l, isList := o.val.([]interface{}); isList && len(l) > 1 {
					sig = "ignorecommas-toplevel-comma-still-splits"
				}
				res.Violate(sig, "ValueWithConfig(%q, %s): want the single string %q, got %s", text, name, whole, o)
			}
		} else {
			res.SetAdd("config_rule", name+":words-list")
			if !o.is(list.Canon()) {
				res.Violate("toplevel-comma-list-wrong", "ValueWithConfig(%q, %s): want the list %s, got %s", text, name, list.Canon(), o)
			}
		}
	}
}

// ---------------------------------------------------------------- cases

func (check) Run(seed int64, tier string, idx int, verbose bool) harness.Result {
	res := harness.NewR(idx)
	c := &runner{res: res, verbose: verbose}
	nr := randomCases(tier)
	if idx >= nr {
		c.runEnum(seed, tier, idx-nr)
		return res.Done()
	}
	r := rand.New(rand.NewSource(harness.Mix(seed, "C17", idx)))
	note := func(set, v string) {
		if strings.HasPrefix(set, "ev:") {
			res.Ev(set[3:]+"_"+v, 1)
			return
		}
		res.SetAdd(set, v)
	}
	for k := 0; k < docsPerCase; k++ {
		depth := 1 + r.Intn(3)
		if tier == "thorough" && r.Intn(8) == 0 {
			depth = 4 + r.Intn(2)
		}
		d := genValue(r, depth, true, func(kind string) { res.SetAdd("value_kind", kind) })
		rd := newRend(r, r.Intn(7) == 0, note)
		text, twin := rd.document(d)
		res.SetAdd("style", rd.styleTag)
		origin := rd.styleTag
		if rd.usedSQ {
			origin += "+single-quotes"
			res.Ev("documents_with_single_quoted_strings", 1)
		} else {
			res.Ev("documents_pure_json", 1)
			if text != twin {
				res.Ev("generator_error", 1)
				res.Inconc("renderer: twin differs without single quotes: %q vs %q", text, twin)
				continue
			}
		}
		w, err := decodeJSON(twin)
		if err != nil || !sameWitness(d, w) {
			res.Ev("generator_error", 1)
			res.Inconc("renderer bug: encoding/json disagrees on %q (err %v) for data %s", twin, err, d)
			continue
		}
		c.checkDoc(d, text, origin)
		if idx < 2 && k == 0 {
			res.Sample = map[string]interface{}{"text": text, "data": d.String(), "expected_canon": d.Canon(), "configs": len(configs)}
		}
	}
	for k := 0; k < wordDocsPerCase; k++ {
		c.wordDoc(r)
	}
	for k := 0; k < nestedDocsPerCase; k++ {
		c.nestedDoc(r, tier)
	}
	c.commaDocs(r)
	for k := 0; k < zoneDocsPerCase; k++ {
		c.zoneDoc(r)
	}
	for k := 0; k < floatLitDocsPerCase; k++ {
		c.floatLitDoc(r)
	}
	// wide / deep documents cost 10-50 ms each: every case (deep) and every 4th
	// case (wide) in the quick tier, every 5th / 20th in the thorough tier
	deepEvery, wideEvery := 1, 4
	if tier == "thorough" {
		deepEvery, wideEvery = 5, 20
	}
	if idx%deepEvery == 0 {
		c.bigDoc(r, false)
	}
	if idx%wideEvery == 0 {
		c.bigDoc(r, true)
	}
	return res.Done()
}

func (c *runner) runEnum(seed int64, tier string, chunk int) {
	total := enumTotal()
	start := chunk * enumChunk
	if tier != "thorough" {
		r := rand.New(rand.NewSource(harness.Mix(seed, "C17enum", chunk)))
		start = r.Intn(total/enumChunk+1) * enumChunk
	}
	for i := start; i < start+enumChunk && i < total; i++ {
		s := enumString(i)
		c.res.Ev("enumerated_strings", 1)
		w, err := decodeJSON(s)
		if err != nil {
			continue
		}
		d, ok := fromWitness(w)
		if !ok {
			c.res.Ev("enumerated_valid_json_not_representable", 1)
			continue
		}
		c.res.Ev("enumerated_valid_json", 1)
		c.checkDoc(d, s, "enumerated")
	}
	if c.verbose {
		fmt.Printf("enumerated strings %d..%d of %d\n", start, start+enumChunk, total)
	}
}

// floatDetail narrows the sig of a failing float64 value: an integral value
// inside the span of the 64 bit integer types but beyond float64's exact
// integers is a class of its own (it can be mistaken for an integer).
func floatDetail(m *model.Node) string {
	if m == nil || m.Kind != model.KPrim {
		return ""
	}
	f, ok := m.Prim.(float64)
	if !ok || f != math.Trunc(f) {
		return ""
	}
	if a := math.Abs(f); a >= 1<<53 && f >= -(1<<63) && f < 1<<64 {
		return ":integral-in-64-bit-span-beyond-2^53"
	}
	return ""
}
