package c17

import (
	"fmt"
	"math/rand"
	"strconv"
	"strings"

	"github.com/elastic/go-ucfg/parse"

	"verif/internal/model"
)

// Top-level commas after COMPLETE values: quoted strings (both styles), arrays
// and objects, trailing commas - not only after unquoted words.
//
// IgnoreCommas on ("a top-level comma no longer builds a list"):
//   - the text opens unquoted, or with an opener that is disabled: the whole
//     trimmed text is one string (pinned by rules 2 and 3 already);
//   - the text opens with an ENABLED quote/bracket and a comma follows the
//     complete first value: the result must NOT be built from the comma. What
//     it is instead - the whole text as one string, or an error - is not pinned;
//     both are accepted, but the same shape must always get the same kind.
// IgnoreCommas off: with every syntax the text uses enabled, a,b,c is the list
// of the values (trailing commas are not judged).

const commaDocsPerCase = 4

type commaVal struct {
	kind string // dq-string sq-string array object word
	text string
	node *model.Node
	open byte
}

var commaStrings = []string{"a", "b", "", "a,b", "x y", "é", "[1]", "{k}", "1", "null", ","}

func genCommaVal(r *rand.Rand, kind string) commaVal {
	one := model.P(int64(1))
	switch kind {
	case "dq-string":
		s := commaStrings[r.Intn(len(commaStrings))]
		return commaVal{kind, plainJSONString(s), model.P(s), '"'}
	case "sq-string":
		s := commaStrings[r.Intn(len(commaStrings))]
		return commaVal{kind, "'" + s + "'", model.P(s), '\''}
	case "array":
		switch r.Intn(5) {
		case 0:
			return commaVal{kind, "[]", model.List(), '['}
		case 1:
			return commaVal{kind, "[1,2]", model.List(one, model.P(int64(2))), '['}
		case 2:
			return commaVal{kind, `["x"]`, model.List(model.P("x")), '['}
		case 3:
			return commaVal{kind, "[ [1] , null ]", model.List(model.List(one), model.Nil()), '['}
		}
		return commaVal{kind, "[1]", model.List(one), '['}
	case "object":
		switch r.Intn(4) {
		case 0:
			return commaVal{kind, "{}", model.Dict(), '{'}
		case 1:
			return commaVal{kind, `{"a":1,"b":2}`, model.Dict().Set("a", one).Set("b", model.P(int64(2))), '{'}
		case 2:
			return commaVal{kind, `{"b":[1]}`, model.Dict().Set("b", model.List(one)), '{'}
		}
		return commaVal{kind, `{"a":1}`, model.Dict().Set("a", one), '{'}
	}
	if r.Intn(4) == 0 {
		v := int64(r.Intn(200) - 100)
		return commaVal{"word", strconv.FormatInt(v, 10), model.P(v), 0}
	}
	w := wordPool[r.Intn(len(wordPool))]
	if !plainWord(w) {
		w = "w"
	}
	return commaVal{"word", w, model.P(w), 0}
}

var commaFirstKinds = []string{"dq-string", "sq-string", "array", "object", "word"}
var commaRestClasses = []string{"trailing", "quoted", "container", "word", "multi"}

func openerEnabled(open byte, cfg parse.Config) bool {
	switch open {
	case '"':
		return cfg.StringDQuote
	case '\'':
		return cfg.StringSQuote
	case '[':
		return cfg.Array
	case '{':
		return cfg.Object
	}
	return true
}

func (c *runner) commaDoc(r *rand.Rand, first, rest string, seen map[string]string) {
	res := c.res
	vals := []commaVal{genCommaVal(r, first)}
	switch rest {
	case "quoted":
		vals = append(vals, genCommaVal(r, []string{"dq-string", "sq-string"}[r.Intn(2)]))
	case "container":
		vals = append(vals, genCommaVal(r, []string{"array", "object"}[r.Intn(2)]))
	case "word":
		vals = append(vals, genCommaVal(r, "word"))
	case "multi":
		for i, n := 0, 2+r.Intn(2); i < n; i++ {
			vals = append(vals, genCommaVal(r, commaFirstKinds[r.Intn(len(commaFirstKinds))]))
		}
	}
	var b strings.Builder
	pad := func() {
		if r.Intn(3) == 0 {
			b.WriteString(wsChars[r.Intn(len(wsChars))])
		}
	}
	pad()
	list := model.List()
	for i, v := range vals {
		if i > 0 {
			b.WriteByte(',')
			pad()
		}
		b.WriteString(v.text)
		list.A = append(list.A, v.node)
		pad()
	}
	if rest == "trailing" {
		b.WriteByte(',')
		pad()
	}
	text := b.String()
	whole := strings.TrimSpace(text)
	shape := first + "/" + rest
	res.Ev("comma_after_value_documents", 1)
	res.SetAdd("comma_shape", shape)
	res.Key(hashKey("comma|" + text))
	syn := syntaxOf(text, tokenize(text))
	firstCanon := vals[0].node.Canon()
	for _, cfg := range configs {
		name := cfgName(cfg)
		allEnabled := !usesDisabled(syn, cfg)
		if !cfg.IgnoreCommas {
			if rest == "trailing" || !allEnabled {
				continue
			}
			o := c.parseCfg(text, cfg)
			res.Ev("comma_list_without_ignorecommas_checked", 1)
			if o.panicked {
				res.Violate(panicSig(o), "ValueWithConfig(%q, %s) panicked: %q at %s", text, name, o.pv, o.where)
			} else if !o.is(list.Canon()) {
				res.Violate("toplevel-comma-list-wrong:after-"+first, "ValueWithConfig(%q, %s): want the list %s, got %s", text, name, list.Canon(), o)
			}
			continue
		}
		o := c.parseCfg(text, cfg)
		if o.panicked {
			res.Violate(panicSig(o), "ValueWithConfig(%q, %s) panicked: %q at %s", text, name, o.pv, o.where)
			continue
		}
		s, isStr := o.val.(string)
		literal := o.err == nil && isStr && s == whole
		if first == "word" || !openerEnabled(vals[0].open, cfg) {
			// opens unquoted or with a disabled opener: one literal string
			res.Ev("comma_ignorecommas_literal_opening_checked", 1)
			if !literal {
				sig := "ignorecommas-toplevel-wrong-value"
				if l, isList := o.val.([]interface{}); isList && len(l) > 1 {
					sig = "ignorecommas-toplevel-comma-still-splits"
				}
				res.Violate(sig, "ValueWithConfig(%q, %s): the text opens with unquoted or disabled syntax, want the single string %q, got %s", text, name, whole, o)
			}
			continue
		}
		res.Ev("comma_ignorecommas_after_complete_value_checked", 1)
		kind := "error"
		switch {
		case o.err != nil:
		case literal:
			kind = "literal"
		default:
			sig := "ignorecommas-comma-after-" + first + "-wrong-value"
			// "built from the comma": a list whose first element is what the first value alone gives
			if l, isList := o.val.([]interface{}); isList && len(l) >= 2 && (model.CanonIfc(l[0]) == firstCanon || c.parseCfg(vals[0].text, cfg).is(model.CanonIfc(l[0]))) {
				sig = "ignorecommas-comma-after-" + first + "-builds-list"
				if rest == "trailing" {
					sig += ":trailing-comma"
				}
			}
			res.Violate(sig, "ValueWithConfig(%q, %s): with IgnoreCommas a top-level comma must not build a list (accepted: the whole text %q as one string, or an error), got %s", text, name, whole, o)
			continue
		}
		res.SetAdd("ignorecommas_after_value_outcome", shape+":"+kind)
		if prev, ok := seen[shape]; ok && prev != kind {
			res.Violate("ignorecommas-inconsistent-outcome:"+shape, fmt.Sprintf("ValueWithConfig(%q, %s) is of kind %s, another document of the same shape in this case was of kind %s", text, name, kind, prev))
		}
		seen[shape] = kind
	}
}

func (c *runner) commaDocs(r *rand.Rand) {
	seen := map[string]string{}
	first := commaFirstKinds[r.Intn(len(commaFirstKinds))]
	rest := commaRestClasses[r.Intn(len(commaRestClasses))]
	for k := 0; k < commaDocsPerCase; k++ {
		if k == commaDocsPerCase-1 {
			first = commaFirstKinds[r.Intn(len(commaFirstKinds))]
			rest = commaRestClasses[r.Intn(len(commaRestClasses))]
		}
		c.commaDoc(r, first, rest, seen)
	}
}
