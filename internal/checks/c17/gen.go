package c17

import (
	"math"
	"math/big"
	"math/rand"
	"strconv"
	"strings"
	"unicode/utf16"

	"verif/internal/model"
)

// ---------------------------------------------------------------- data trees

var keyPool = []string{
	"", "a", "b", "c", "a b", "k\"q", "ключ", "日本", "😀", "k\\", "a/b", "x:y", "[k]", "{k}",
	"k,", "'k'", " lead", "trail ", "\t", "null", "1", "a.b", "é",
}

// Written with rune numbers so that no tool on the way re-encodes them.
var (
	nbsp    = string(rune(0xA0))
	lineSep = string(rune(0x2028))
	nel     = string(rune(0x85))
	nonChar = string(rune(0xFFFF))
	bsU     = string(rune(0x5C)) + "u"
	bsU41   = bsU + "0041" // the six characters backslash u 0 0 4 1 as DATA
	bsU5c   = bsU + "005c" // JSON escape of a backslash
)

var strPieces = []string{
	`"`, `\`, `/`, "\b", "\f", "\n", "\r", "\t", "\x01", "\x00", "\x1f", "\x7f",
	"é", "日本", "😀", "𝄞", nbsp, lineSep, nel, nonChar,
	"[", "]", "{", "}", ",", ":", "'", " ", "  ",
	"a", "b", "z", "Q", "0", "1", "null", "true", "u0041", bsU41, `\n`, "$", "#",
}

var wholeStrings = []string{
	"", " ", "null", "true", "false", "123", "1.5", "-1", "0x10", "[1,2]", `{"a":1}`, "a,b", `\`, `\\`, `\\\`,
	`"`, `""`, "'", "''", "on", "-", "a b", "x", "/", "//", `\/`, `"\`, `\"`,
}

var intPool = []interface{}{
	int64(0), int64(1), int64(-1), int64(7), int64(8), int64(10), int64(42), int64(100), int64(-100), int64(255),
	int64(1000000), int64(123456789), int64(1) << 31, int64(1) << 32, int64(-1) << 31,
	int64(math.MaxInt64), int64(math.MinInt64), int64(math.MaxInt64 - 1), int64(math.MinInt64 + 1),
	int64(1) << 53, int64(1)<<53 - 1, int64(1)<<53 + 1, -(int64(1) << 53), -(int64(1)<<53 + 1), -(int64(1)<<53 - 1),
	uint64(1) << 63, uint64(1)<<63 + 1, uint64(math.MaxUint64), uint64(math.MaxUint64 - 1), uint64(1) << 53, uint64(1)<<53 + 1,
}

var floatPool = []float64{
	1.5, -0.25, 1e21, 1e-7, 2.5e3, 0.1, 0.5, -0.5, 3.141592653589793, 1e300, -1e300, 5e-324,
	1.7976931348623157e308, 2.2250738585072014e-308, 100.0, 1e22, 1e23, 123456.789, -2.5, 0.001, 1e-5, 6.02214076e23,
	math.Copysign(0, -1), 9007199254740992.0, 18446744073709551616.0, 0.30000000000000004, 1e15, 1e16, 12.0,
	// integer valued beyond the 64 bit integer types, both signs
	-1e19, -12345678901234567890.0, -9223372036854777856.0, -18446744073709551616.0, -1.5e19, -1e20, -3e25,
	3e19, 36893488147419103232.0, 1e30, -1e30,
	// integer valued inside the span of the 64 bit integer types, at its limits
	9223372036854775808.0, -9223372036854775808.0, 9223372036854774784.0, 9223372036854777856.0, -9223372036854774784.0,
	18446744073709549568.0, 4611686018427387904.0, -4611686018427387904.0, 9007199254740994.0, -9007199254740992.0, 1e18, 1e19,
}

// beyond64 says that f is an integer no 64 bit integer type holds and whose
// float64 is not an in-range integer either (the numerals just below MinInt64
// round to -2^63 and are judged separately).
func beyond64(f float64) bool {
	return f == math.Trunc(f) && (f < -(1<<63) || f >= (1<<64)) && math.Abs(f) < 1e40
}

func fits64(s string) bool {
	if _, err := strconv.ParseInt(s, 10, 64); err == nil {
		return true
	}
	_, err := strconv.ParseUint(s, 10, 64)
	return err == nil
}

func genString(r *rand.Rand) string {
	if r.Intn(8) == 0 {
		return wholeStrings[r.Intn(len(wholeStrings))]
	}
	var b strings.Builder
	for i, n := 0, r.Intn(7); i < n; i++ {
		b.WriteString(strPieces[r.Intn(len(strPieces))])
	}
	if r.Intn(9) == 0 {
		b.WriteString(strings.Repeat(`\`, 1+r.Intn(3)))
	}
	return b.String()
}

func genInt(r *rand.Rand) interface{} {
	switch r.Intn(6) {
	case 0:
		return int64(r.Intn(2001) - 1000)
	case 1:
		return r.Int63() - r.Int63()
	case 2:
		return r.Uint64()
	}
	return intPool[r.Intn(len(intPool))]
}

func genFloat(r *rand.Rand) float64 {
	if r.Intn(7) == 0 {
		// an integer beyond int64 / uint64, both signs, near the 64 bit span or far away
		for {
			m := math.Ldexp(1+3*r.Float64(), 63)
			if r.Intn(3) == 0 {
				m = (1 + 8*r.Float64()) * math.Pow(10, float64(19+r.Intn(20)))
			}
			f := math.Trunc(m)
			if r.Intn(5) < 3 {
				f = -f
			}
			if beyond64(f) {
				return f
			}
		}
	}
	if r.Intn(9) == 0 {
		// an integer a float64 holds, inside the span of the 64 bit integer
		// types: 2^k (k = 53..64) or anything between 2^53 and 2^64, both signs
		f := math.Ldexp(1, 53+r.Intn(12))
		if r.Intn(2) == 0 {
			f = math.Trunc(math.Ldexp(1+r.Float64(), 53+r.Intn(11)))
		}
		if r.Intn(3) == 0 {
			f = -f
		}
		return f
	}
	switch r.Intn(6) {
	case 0:
		return float64(r.Intn(2000001)-1000000) / 1000
	case 1:
		for {
			f := math.Float64frombits(r.Uint64())
			if !math.IsNaN(f) && !math.IsInf(f, 0) {
				return f
			}
		}
	case 2:
		return r.NormFloat64() * math.Pow(10, float64(r.Intn(40)-20))
	}
	return floatPool[r.Intn(len(floatPool))]
}

// genValue draws a JSON value. kinds records what was drawn.
func genValue(r *rand.Rand, depth int, top bool, kinds func(string)) *model.Node {
	x := r.Intn(100)
	if depth <= 0 {
		x = r.Intn(60)
	} else if top && r.Intn(100) < 80 {
		x = 60 + r.Intn(40)
	}
	switch {
	case x < 22:
		kinds("string")
		return model.P(genString(r))
	case x < 36:
		kinds("int")
		return model.P(genInt(r))
	case x < 46:
		kinds("float")
		return model.P(genFloat(r))
	case x < 51:
		if r.Intn(2) == 0 {
			kinds("true")
			return model.P(true)
		}
		kinds("false")
		return model.P(false)
	case x < 56:
		kinds("null")
		return model.Nil()
	case x < 58:
		kinds("empty-array")
		return model.List()
	case x < 60:
		kinds("empty-object")
		return model.Dict()
	case x < 80:
		kinds("array")
		n := model.List()
		for i, c := 0, 1+r.Intn(4); i < c; i++ {
			n.A = append(n.A, genValue(r, depth-1, false, kinds))
		}
		return n
	default:
		kinds("object")
		n := model.Dict()
		for i, c := 0, 1+r.Intn(4); i < c; i++ {
			n.D[keyPool[r.Intn(len(keyPool))]] = genValue(r, depth-1, false, kinds)
		}
		return n
	}
}

func isList(n *model.Node) bool { return n.Kind == model.KSub && (n.HasA || len(n.A) > 0) }

func kindOf(n *model.Node) string {
	switch {
	case n == nil || n.Kind == model.KNil:
		return "null"
	case n.Kind == model.KPrim:
		switch n.Prim.(type) {
		case bool:
			return "bool"
		case string:
			return "string"
		case float64:
			return "float"
		}
		return "int"
	case isList(n):
		if len(n.A) == 0 {
			return "empty-array"
		}
		return "array"
	}
	if len(n.D) == 0 {
		return "empty-object"
	}
	return "object"
}

// ---------------------------------------------------------------- numbers

// dec is the exact decimal value digits x 10^exp of a number.
type dec struct {
	neg    bool
	digits string
	exp    int
}

func decOf(v interface{}) (d dec, isInt bool, mag uint64) {
	switch x := v.(type) {
	case int64:
		if x < 0 {
			mag = uint64(-(x + 1)) + 1
			return dec{true, strconv.FormatUint(mag, 10), 0}, true, mag
		}
		return dec{false, strconv.FormatUint(uint64(x), 10), 0}, true, uint64(x)
	case uint64:
		return dec{false, strconv.FormatUint(x, 10), 0}, true, x
	case float64:
		s := strconv.FormatFloat(math.Abs(x), 'e', -1, 64)
		i := strings.IndexByte(s, 'e')
		mant, es := s[:i], s[i+1:]
		e, _ := strconv.Atoi(es)
		digits := strings.Replace(mant, ".", "", 1)
		return dec{math.Signbit(x), digits, e - (len(digits) - 1)}, false, 0
	}
	panic("c17: not a number")
}

func zeros(n int) string { return strings.Repeat("0", n) }

var zeroSpellings = []string{"0", "0.0", "0.00", "0e0", "0E+0", "0e-0", "0.0e5", "0e12", "0.0E-3", "0E00"}

// altSpell writes the exact decimal value in a random JSON-legal spelling
// with fraction and/or exponent.
func altSpell(r *rand.Rand, d dec) string {
	sign := ""
	if d.neg {
		sign = "-"
	}
	digits, exp := d.digits, d.exp
	for len(digits) > 1 && digits[len(digits)-1] == '0' {
		digits = digits[:len(digits)-1]
		exp++
	}
	if digits == "0" {
		if !d.neg && r.Intn(4) == 0 {
			sign = "-"
		}
		return sign + zeroSpellings[r.Intn(len(zeroSpellings))]
	}
	pad := []int{0, 0, 0, 1, 2}[r.Intn(5)]
	digits += zeros(pad)
	exp -= pad
	n := len(digits)
	var ip, frac string
	E := 0
	nice := r.Intn(2) == 0
	switch {
	case nice && exp >= 0 && exp <= 20:
		ip = digits + zeros(exp)
		if r.Intn(2) == 0 {
			frac = zeros(1 + r.Intn(2))
		}
	case nice && exp < 0 && n+exp >= 1:
		ip, frac = digits[:n+exp], digits[n+exp:]
	case nice && exp < 0 && n+exp > -6:
		ip, frac = "0", zeros(-(n+exp))+digits
	default:
		if r.Intn(4) == 0 {
			k := r.Intn(3)
			ip, frac = "0", zeros(k)+digits
			E = exp + n + k
		} else {
			p := 1 + r.Intn(n)
			ip, frac = digits[:p], digits[p:]
			E = exp + (n - p)
		}
	}
	s := sign + ip
	if frac != "" {
		s += "." + frac
	}
	if E != 0 || r.Intn(4) == 0 {
		e := "e"
		if r.Intn(2) == 0 {
			e = "E"
		}
		es := ""
		switch {
		case E < 0:
			es = "-"
		case E > 0:
			if r.Intn(2) == 0 {
				es = "+"
			}
		default:
			es = []string{"", "+", "-"}[r.Intn(3)]
		}
		a := E
		if a < 0 {
			a = -a
		}
		ds := strconv.Itoa(a)
		if r.Intn(4) == 0 {
			ds = "0" + ds
		}
		s += e + es + ds
	}
	return s
}

func spellNumber(r *rand.Rand, v interface{}) string {
	d, isInt, mag := decOf(v)
	if isInt {
		if mag > 1<<53 || r.Intn(5) > 0 {
			if mag == 0 && r.Intn(4) == 0 {
				return "-0"
			}
			if d.neg {
				return "-" + d.digits
			}
			return d.digits
		}
		return altSpell(r, d)
	}
	f := v.(float64)
	s := ""
	if beyond64(f) && r.Intn(5) < 3 {
		// an integer NUMERAL no 64 bit type holds: it denotes the nearest
		// float64, so any integer inside the rounding interval of f will do
		if bi, ok := new(big.Int).SetString(model.NumCanon(f), 10); ok {
			s = bi.String()
			bi.Add(bi, big.NewInt(int64(r.Intn(2001)-1000)))
			if t := bi.String(); r.Intn(3) > 0 && !fits64(t) {
				if g, err := strconv.ParseFloat(t, 64); err == nil && g == f {
					s = t
				}
			}
			return s
		}
	}
	if r.Intn(2) == 0 {
		s = strconv.FormatFloat(f, 'g', -1, 64)
	} else {
		s = altSpell(r, d)
	}
	// A digits-only text that fits a 64 bit integer type is an integer literal
	// and denotes exactly that integer; the shortest decimal of a float64
	// beyond 2^53 is not its exact value, so such a float must keep a fraction
	// or exponent.
	if digitsOnly(s) && model.NumCanon(f) != s {
		s = strconv.FormatFloat(f, 'e', -1, 64)
	}
	return s
}

func beyondClass(f float64, exact bool) string {
	c := "above_2^64"
	switch {
	case f <= -(1 << 64):
		c = "at_or_below_-2^64"
	case f < 0:
		c = "between_-2^64_and_-2^63"
	}
	if !exact {
		c += "_inexact"
	}
	return c
}

func digitsOnly(s string) bool {
	s = strings.TrimPrefix(s, "-")
	if s == "" {
		return false
	}
	for i := 0; i < len(s); i++ {
		if s[i] < '0' || s[i] > '9' {
			return false
		}
	}
	return true
}

func numberClass(s string) string {
	c := "digits"
	if digitsOnly(s) && !fits64(s) {
		c = "digits-beyond-64-bit"
	}
	if strings.Contains(s, ".") {
		c = "frac"
	}
	if i := strings.IndexAny(s, "eE"); i >= 0 {
		c += "+exp" + string(s[i])
		if i+1 < len(s) && (s[i+1] == '+' || s[i+1] == '-') {
			c += string(s[i+1])
		}
		j := i + 1
		if j < len(s) && (s[j] == '+' || s[j] == '-') {
			j++
		}
		if j+1 < len(s) && s[j] == '0' {
			c += "0d"
		}
	}
	if strings.HasPrefix(s, "-") {
		c = "neg:" + c
	}
	return c
}

// ---------------------------------------------------------------- renderer

const (
	styleCompact = iota
	styleIndent
	styleRandom
)

type rend struct {
	r        *rand.Rand
	text     strings.Builder // the document
	twin     strings.Builder // the same document with single-quoted strings spelled as JSON strings
	style    int
	wsProb   int // percent, styleRandom
	indent   string
	nl       string
	sq       bool // may spell strings with single quotes (non-JSON documents)
	uProb    int  // percent of plain characters spelled \uXXXX
	usedSQ   bool
	escaped  bool
	note     func(set, v string)
	styleTag string
}

func newRend(r *rand.Rand, sq bool, note func(set, v string)) *rend {
	rd := &rend{r: r, sq: sq, note: note}
	switch x := r.Intn(100); {
	case x < 25:
		rd.style, rd.styleTag = styleCompact, "compact"
	case x < 45:
		rd.style, rd.styleTag = styleIndent, "indented"
		rd.indent = []string{"  ", "\t", "    ", " ", ""}[r.Intn(5)]
		rd.nl = []string{"\n", "\n", "\r\n", "\r"}[r.Intn(4)]
	default:
		rd.style = styleRandom
		rd.wsProb = []int{8, 8, 30, 60, 95}[r.Intn(5)]
		rd.styleTag = "random-ws-" + strconv.Itoa(rd.wsProb)
	}
	rd.uProb = []int{0, 0, 5, 30, 100}[r.Intn(5)]
	return rd
}

func (rd *rend) emit(s string) {
	rd.text.WriteString(s)
	rd.twin.WriteString(s)
}

var wsChars = []string{" ", " ", "\t", "\n", "\r"}

func (rd *rend) randWS() string {
	var b strings.Builder
	for i, n := 0, 1+rd.r.Intn(3); i < n; i++ {
		b.WriteString(wsChars[rd.r.Intn(len(wsChars))])
	}
	return b.String()
}

// ws emits optional whitespace at a position where JSON allows it.
// pos: "open" (after [ { ,), "close" (before ] }), "colon-before", "colon-after",
// "comma-before", "lead", "trail".
func (rd *rend) ws(pos string, depth int) {
	switch rd.style {
	case styleCompact:
	case styleIndent:
		switch pos {
		case "open":
			rd.emit(rd.nl + strings.Repeat(rd.indent, depth))
		case "close":
			rd.emit(rd.nl + strings.Repeat(rd.indent, depth-1))
		case "colon-after":
			rd.emit(" ")
		case "trail":
			if rd.r.Intn(2) == 0 {
				rd.emit(rd.nl)
			}
		}
	case styleRandom:
		if rd.r.Intn(100) < rd.wsProb {
			rd.emit(rd.randWS())
		}
	}
}

func (rd *rend) hex4(b *strings.Builder, v uint16) {
	const lo, up = "0123456789abcdef", "0123456789ABCDEF"
	mode := rd.r.Intn(3)
	b.WriteString(`\u`)
	for sh := 12; sh >= 0; sh -= 4 {
		d := (v >> uint(sh)) & 15
		switch {
		case mode == 0, mode == 2 && rd.r.Intn(2) == 0:
			b.WriteByte(lo[d])
		default:
			b.WriteByte(up[d])
		}
	}
	if mode == 0 {
		rd.note("escape_form", "hex:lower")
	} else if mode == 1 {
		rd.note("escape_form", "hex:upper")
	} else {
		rd.note("escape_form", "hex:mixed")
	}
}

var shortEsc = map[rune]string{'\b': `\b`, '\f': `\f`, '\n': `\n`, '\r': `\r`, '\t': `\t`}

// dqString spells s as a JSON string choosing a random legal form per character.
func (rd *rend) dqString(s string) string {
	var b strings.Builder
	b.WriteByte('"')
	esc := false
	for _, ru := range s {
		switch {
		case ru == '"':
			esc = true
			if rd.r.Intn(10) < 7 {
				b.WriteString(`\"`)
				rd.note("escape_form", `quote:\"`)
			} else {
				rd.hex4(&b, uint16(ru))
				rd.note("escape_form", `quote:\u`)
			}
		case ru == '\\':
			esc = true
			if rd.r.Intn(10) < 7 {
				b.WriteString(`\\`)
				rd.note("escape_form", `backslash:\\`)
			} else {
				rd.hex4(&b, uint16(ru))
				rd.note("escape_form", `backslash:\u`)
			}
		case ru == '/':
			switch x := rd.r.Intn(10); {
			case x < 5:
				b.WriteByte('/')
				rd.note("escape_form", "solidus:raw")
			case x < 8:
				esc = true
				b.WriteString(`\/`)
				rd.note("escape_form", `solidus:\/`)
			default:
				esc = true
				rd.hex4(&b, uint16(ru))
				rd.note("escape_form", `solidus:\u`)
			}
		case ru < 0x20:
			esc = true
			if se, ok := shortEsc[ru]; ok && rd.r.Intn(10) < 6 {
				b.WriteString(se)
				rd.note("escape_form", "control:"+se)
			} else {
				rd.hex4(&b, uint16(ru))
				rd.note("escape_form", `control:\u`)
			}
		case ru >= 0x10000:
			if rd.r.Intn(10) < 6 {
				b.WriteRune(ru)
				rd.note("escape_form", "astral:raw")
			} else {
				esc = true
				r1, r2 := utf16.EncodeRune(ru)
				rd.hex4(&b, uint16(r1))
				rd.hex4(&b, uint16(r2))
				rd.note("escape_form", `astral:surrogate-pair`)
			}
		default:
			if rd.r.Intn(100) < rd.uProb {
				esc = true
				rd.hex4(&b, uint16(ru))
				if ru < 0x80 {
					rd.note("escape_form", `ascii:\u`)
				} else {
					rd.note("escape_form", `bmp:\u`)
				}
			} else {
				b.WriteRune(ru)
				if ru >= 0x80 {
					rd.note("escape_form", "non-ascii:raw")
				}
			}
		}
	}
	b.WriteByte('"')
	if esc {
		rd.escaped = true
	}
	return b.String()
}

// plainJSONString is the fixed minimal spelling used for twins and for the
// classifier's baseline documents: \" , the u-escape 005c for a backslash, \u00XX for
// control characters, everything else raw.
func plainJSONString(s string) string {
	const hx = "0123456789abcdef"
	var b strings.Builder
	b.WriteByte('"')
	for _, ru := range s {
		switch {
		case ru == '"':
			b.WriteString(`\"`)
		case ru == '\\':
			b.WriteString(bsU5c)
		case ru < 0x20:
			b.WriteString(`\u00`)
			b.WriteByte(hx[ru>>4])
			b.WriteByte(hx[ru&15])
		default:
			b.WriteRune(ru)
		}
	}
	b.WriteByte('"')
	return b.String()
}

func (rd *rend) str(s string) {
	if rd.sq && !strings.Contains(s, "'") && rd.r.Intn(2) == 0 {
		rd.usedSQ = true
		rd.text.WriteString("'" + s + "'")
		rd.twin.WriteString(plainJSONString(s))
		return
	}
	rd.emit(rd.dqString(s))
}

func (rd *rend) value(n *model.Node, depth int) {
	switch {
	case n == nil || n.Kind == model.KNil:
		rd.emit("null")
	case n.Kind == model.KPrim:
		switch p := n.Prim.(type) {
		case bool:
			if p {
				rd.emit("true")
			} else {
				rd.emit("false")
			}
		case string:
			rd.str(p)
		default:
			s := spellNumber(rd.r, p)
			rd.note("number_spelling", numberClass(s))
			if digitsOnly(s) && !fits64(s) {
				f, _ := strconv.ParseFloat(s, 64)
				rd.note("ev:integer_numerals_beyond_64_bits", beyondClass(f, model.NumCanon(f) == s))
			}
			rd.emit(s)
		}
	case isList(n):
		rd.emit("[")
		if len(n.A) == 0 {
			if rd.style == styleRandom {
				rd.ws("open", depth+1)
			}
			rd.emit("]")
			return
		}
		for i, el := range n.A {
			rd.ws("open", depth+1)
			rd.value(el, depth+1)
			if i < len(n.A)-1 {
				rd.ws("comma-before", depth+1)
				rd.emit(",")
			}
		}
		rd.ws("close", depth+1)
		rd.emit("]")
	default:
		rd.emit("{")
		if len(n.D) == 0 {
			if rd.style == styleRandom {
				rd.ws("open", depth+1)
			}
			rd.emit("}")
			return
		}
		keys := n.SortedKeys()
		rd.r.Shuffle(len(keys), func(i, j int) { keys[i], keys[j] = keys[j], keys[i] })
		for i, k := range keys {
			rd.ws("open", depth+1)
			rd.str(k)
			rd.ws("colon-before", depth+1)
			rd.emit(":")
			rd.ws("colon-after", depth+1)
			rd.value(n.D[k], depth+1)
			if i < len(keys)-1 {
				rd.ws("comma-before", depth+1)
				rd.emit(",")
			}
		}
		rd.ws("close", depth+1)
		rd.emit("}")
	}
}

func (rd *rend) document(n *model.Node) (text, twin string) {
	if rd.style != styleCompact && rd.r.Intn(3) == 0 {
		rd.emit(rd.randWS())
	}
	rd.value(n, 0)
	if rd.style == styleRandom && rd.r.Intn(3) == 0 {
		rd.emit(rd.randWS())
	} else {
		rd.ws("trail", 0)
	}
	return rd.text.String(), rd.twin.String()
}

// compactJSON is the baseline rendering used when classifying a failure: no
// whitespace, minimal escapes, shortest number forms, sorted keys.
func compactJSON(n *model.Node) string {
	var b strings.Builder
	compactInto(&b, n)
	return b.String()
}

func compactInto(b *strings.Builder, n *model.Node) {
	switch {
	case n == nil || n.Kind == model.KNil:
		b.WriteString("null")
	case n.Kind == model.KPrim:
		switch p := n.Prim.(type) {
		case bool:
			b.WriteString(strconv.FormatBool(p))
		case string:
			b.WriteString(plainJSONString(p))
		case int64:
			b.WriteString(strconv.FormatInt(p, 10))
		case uint64:
			b.WriteString(strconv.FormatUint(p, 10))
		case float64:
			b.WriteString(strconv.FormatFloat(p, 'g', -1, 64))
		}
	case isList(n):
		b.WriteByte('[')
		for i, el := range n.A {
			if i > 0 {
				b.WriteByte(',')
			}
			compactInto(b, el)
		}
		b.WriteByte(']')
	default:
		b.WriteByte('{')
		for i, k := range n.SortedKeys() {
			if i > 0 {
				b.WriteByte(',')
			}
			b.WriteString(plainJSONString(k))
			b.WriteByte(':')
			compactInto(b, n.D[k])
		}
		b.WriteByte('}')
	}
}
