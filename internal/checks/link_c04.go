//go:build !only || only_c04

package checks

import _ "verif/internal/checks/c04"
