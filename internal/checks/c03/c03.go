// Package c03: typed unpacking preserves the value or fails - it never wraps around.
//
// Every primitive setting value of a boundary table (and random values next to
// the boundaries) is unpacked into every primitive target kind and
// time.Duration - plain, pointer, named and pointer-to-named; as struct field,
// map value and slice element; literal or reached through a ${reference} - and
// read through the typed getters. The outcome is compared with an
// arbitrary-precision reference (oracle.go).
package c03

import (
	"fmt"
	"math/rand"
	"reflect"
	"strconv"
	"strings"

	ucfg "github.com/elastic/go-ucfg"

	"verif/internal/harness"
)

type check struct{}

func init() { harness.Register(check{}) }

func (check) ID() string { return "C03" }

const (
	valsPerCase    = 20
	quickRandom    = 2048   // cases of valsPerCase random values
	thoroughRandom = 409600 // 200 x quick
)

func randomCases(tier string) int {
	if tier == "thorough" {
		return thoroughRandom
	}
	return quickRandom
}

// Cases: one case per table value, then the random cases.
func (check) Cases(tier string) int { return len(table) + randomCases(tier) }

func (check) Exhaustive(string) bool { return false }

func (check) Rule() string {
	return "setting values: a finite boundary table (0, +-1, +-2^k and +-(2^k+-1) for k in {7,8,15,16,31,32,53,63,64}, float neighbours of +-2^31/2^32/2^63/2^64/2^53, MaxFloat32 / the float32 rounding limit / MaxFloat64 / subnormals and their neighbours, +-Inf, NaN, -0, fractional values at every sized maximum, second counts at +-9223372036(.854775807) and at 2^53ns/2^62ns; each as int64, uint64, float64 and in every strconv spelling: decimal, 0x, 0X, 0b, 0o, 0NNN, 1_000, +N, N.0, Ne0, %g/%e/%E/%x/%f; plus booleans, boolean words (every strconv.ParseBool spelling, on/off/yes/no/y/n/enable..., near misses; in the random cases in every casing and now and then padded), duration strings at the int64 limits and unparsable strings) - one case per table value: the value built 4 ways (NewFrom literal; SetInt/SetUint/SetFloat/SetString/SetBool; NewFrom with ${src} references and VarExp, src literal or Set*) x 15 target kinds (+ uintptr, monitors only) x plain/*T/named/*named x struct field, map[string]T value, []T element, plus the getters Bool/Int/Uint/Float/String; then the value as TEXT the library reads again, in 9 forms (\"${src:D}\" and \"${src:?msg}\" with src set, literal or Set*: the library renders the value itself; \"${absent:TEXT}\"; \"${other:+TEXT}\"; \"${hi}${lo}\" and \"TE${lo}\" / \"${hi}XT\" with TEXT cut at a random place; \"${ENVX}\" and \"${ENVX:D}\" answered by a Resolve option with parse.EnvConfig/DefaultConfig/NoopConfig; a -E style flag value f=TEXT), TEXT = the string value itself when it is a word (letters, digits, + - . _ only) or the decimal numeral of an int64/uint64 value, each form x every target type through one random route + the getters; Go INPUT values of the sized types (table: the edges of int8..int64 / uint8..uint64, 33 float32 values - edges, neighbours of 2^31/2^63/2^64, values whose shortest decimal text is another number such as float32(1e15) - round robin over five containers: interface{} entries, typed map / slice, struct fields, each through NewFrom, the first and a pointer to the last through Merge) and numerals behind a run of two or more signs (++7, +-7, --0x10: no numeral, an error for every numeric target on every route, verbatim from String); then random cases of 20 values each (2 in 19 a float32 Go input: random bit patterns, edges and neighbours, 25..64 bit integers with a random 24 bit mantissa, float32 next to short decimals; 1 in 19 a boundary numeral in a random spelling behind a random run of signs; a third of the other numbers handed over as a random sized Go type that holds them exactly, in a random container) within +-4 (ulp) of a boundary, every kind and getter through one random (construction, variant, route) and once more through one of three random applicable text forms. Non-trivial = the setting value is not zero/false/blank; distinct = distinct (value class = kind, syntax, sign, bit length/exponent, fractional?; target type; construction/route)."
}

func (check) Assumptions() []string {
	return []string{
		"reference = math/big: integers exact; float->integer truncates toward zero and the truncated value must be in range, NaN/Inf are errors, a negative real into an unsigned is an error; number->Duration is seconds*1e9 in int64 ns; number->float is the nearest-even value (integer->float32 may round once or via float64); finite |x| > MaxFloat32 into float32 is an error",
		"strings mean what strconv reads: ParseInt/ParseUint base 0 for integers, ParseFloat for floats (float32: via float64 or directly), ParseBool, time.ParseDuration; a string only the other numeric parser accepts (\"+5\" into uint, \"1e3\" into int, \"0x10\" into float, \"5\" into Duration) may be an error or that value",
		"float seconds -> Duration: exact when seconds*1e9 is an integer, else |stored - exact| < 1ns; a deviation explained by rounding the product to float64 gets its own signature (-imprecise)",
		"a fractional float whose truncation fits but which lies beyond the range as a real (127.9 into int8) may be an error or the truncated value",
		"not compared: which error; number<->bool and bool->number/Duration (no mathematical reading); on text routes the words other than strconv's that the expansion / flag parser reads as booleans (on/off; a STRING setting with such a word, any casing, is an error like every string strconv.ParseBool refuses: signature ...-accepts-boolean-word-strconv-refuses); the text a float renders to (it must parse back to the same float64); sign of zero; NaN payload",
		"an error where a value was possible is reported only for in-range integer->integer, integer->float64 when exactly representable, float64->float64, and a float a float32 holds exactly into a float32 target (literal numbers, any route)",
		"a setting made from a Go value has the mathematical value of that Go value whatever its Go type (int8 ... uint64, float32, float64): the expectation is computed from the value alone; a float32 input is the real number the float32 is, not the decimal text that identifies it among the float32 values (an observation that text explains gets the signature float32-input-taken-by-its-shortest-decimal-text)",
		"a named type over time.Duration (type D time.Duration, also *D, as map value and slice element) is generated and converted but NOT held to the seconds reading: to reflection it is a named int64 like any other (Kind int64, no methods, nothing links it to time.Duration), so no library can give it another meaning than `type N int64`, whose values this check pins to the bare number; only panics are reported, the named_duration_* monitors count what is stored (switch judgeNamedDurationAsSeconds turns the duration oracle on: sig number-to-named-duration-taken-as-nanoseconds)",
		"monitor only (an error is always allowed): plain_ref_fails_where_value_converts counts (value, target, route) triples of the table cases in which the literal / Set* value converts and a plain \"${src}\" reference to it returns an error",
		"text the library reads again (expansion forms other than a plain \"${src}\", resolver answers, flag values): only words without white space, quotes, brackets, commas, colons, $ and not \"null\", so that list/object/quoting syntax and the splice syntax play no part. The reference for text T: an integer numeral in Go's base-0 syntax (math/big, any length, explicit + allowed) that fits int64 or uint64 must reach integer targets exactly or as an error, string targets as a numeral of exactly that value (any spelling, read back with math/big), float targets as the nearest float; a numeral both integer and floating point syntax read, differently (\"012\": 10 / 12), is the integer on every route (next entry); an integer no 64 bit type holds is out of range for every integer target (always an error; a stored value equal to the float64 next to it - the band -2^63-1024..-2^63-1, whose float64 is -2^63 - gets the signature reparsed-integer-beyond-64-bits-stored-as-float64-neighbour), for float targets the nearest float64 of either reading, for string targets its own text, an exact numeral or a text of the float64 strconv.ParseFloat reads it as; floating point texts mean the float64 strconv.ParseFloat reads; boolean words are not pinned for numeric and string targets, numerals not for bool targets; an error is never reported as spurious on these routes; which of the forms yields which Go type inside the library is not looked at",
		"one setting has one mathematical value: a string that is an integer numeral in base-0 syntax AND a floating point text with another value (leading zero: \"010\" = 8 / 10, \"-0_17\") is the integer - what every integer target and every expansion route reads, and Go's own literal syntax; a float target (float32/float64/Float(), any route, literal strings included) holds that integer's value or fails; a stored decimal reading gets the signature float-target-reads-octal-numeral-as-decimal",
		"outside the property, monitors only: uintptr targets (an unsigned integer kind, but not one of the fourteen kinds HOLDS FOR names; uintptr_* counters say how often the unsigned rules are met / a value is stored where they demand an error)",
		"outside the property, not generated: what a front-end decoder makes of a document's number before it is a setting (encoding/json and hjson deliver every number as float64, yaml.v2 rounds integers no 64 bit type holds: the setting IS that float64; C18's domain); Go values of kinds that are no primitive setting (uintptr, complex: NewFrom's business, C07); a named duration type as SOURCE value (a named int64 of nanoseconds to reflection, see the named duration entry)",
		"not compared: the value a getter returns NEXT TO an error (strconv's saturated MaxInt64/MaxUint64/+-Inf for out-of-range strings); a number reached through a reference or expansion that a Duration target refuses (\"missing unit\") - value-or-error permits it, counted by plain_ref_fails_where_value_converts and the outcome monitors; which of truncation and rounding yields the last nanosecond of float seconds (within 1ns, see above); a float32 target refusing a float64 just above MaxFloat32 that would round to it",
		"guard: a library that hands back an unconverted string for a named string type panics (recoverably) as map value and never returns (pointerize allocates until the process dies) as struct field or behind a pointer; so in every case the named string map route runs first, and when it panics - reported as a violation - the never-returning routes of that case are skipped (counted in skipped_after_named_string_panic) instead of killing the worker in every case",
	}
}

// ---------------------------------------------------------------------------
// targets

const (
	vPlain = iota
	vPtr
	vNamed
	vPtrNamed
	nVariants
)

const (
	rField = iota
	rMap
	rSlice
	nRoutes
)

var routeNames = [nRoutes]string{"field", "map", "slice"}

type target struct {
	k          *tkind
	variant    int
	name       string
	st, mp, sl reflect.Type
}

var namedString *target   // type myString string
var stringKind int        // its index in kinds
var targets []*target     // all generated targets
var targetsOf [][]*target // by kind index
var getters = []struct {
	name string
	kind string
}{{"Bool", "bool"}, {"Int", "int64"}, {"Uint", "uint64"}, {"Float", "float64"}, {"String", "string"}}

func init() {
	initKinds()
	initTargets()
	initTable()
}

func initTargets() {
	strT := reflect.TypeOf("")
	targetsOf = make([][]*target, len(kinds))
	for ki, k := range kinds {
		for v := 0; v < nVariants; v++ {
			var el reflect.Type
			var name string
			switch v {
			case vPlain:
				el, name = k.plain, k.name
			case vPtr:
				el, name = reflect.PtrTo(k.plain), "*"+k.name
			case vNamed:
				if k.named == nil {
					continue
				}
				el, name = k.named, k.named.Name()
			case vPtrNamed:
				if k.named == nil {
					continue
				}
				el, name = reflect.PtrTo(k.named), "*"+k.named.Name()
			}
			t := &target{k: k, variant: v, name: name}
			t.st = reflect.StructOf([]reflect.StructField{{Name: "V", Type: el, Tag: `config:"f"`}})
			t.mp = reflect.MapOf(strT, el)
			t.sl = reflect.SliceOf(el)
			if k.class == cString && v == vNamed {
				namedString, stringKind = t, ki
			}
			targets = append(targets, t)
			targetsOf[ki] = append(targetsOf[ki], t)
		}
	}
}

// hazard: this (target, route) never returns when the library hands back an
// unconverted string for a named string type (see the guard in Assumptions).
func hazard(t *target, route int) bool {
	if t.k.class != cString {
		return false
	}
	return t.variant == vPtrNamed || (t.variant == vNamed && route == rField)
}

// ---------------------------------------------------------------------------
// building the configuration

const (
	cLit = iota
	cSet
	cRefLit
	cRefSet
	nDirect // constructions that hand the typed value over as it is
	// text constructions (text.go): the value is text which the library reads again
	xDefTaken    = iota - 1 // "${src:D}", src is set: its rendering is read again
	xErrTaken               // "${src:?msg}"
	xDefUsed                // "${absent:TEXT}"
	xAlt                    // "${other:+TEXT}"
	xConcat                 // "${hi}${lo}", TEXT cut in two string settings
	xLitRef                 // "TE${lo}" / "${hi}XT"
	xResolver               // "${ENVX}", a Resolve option answers TEXT
	xResolverDef            // "${ENVX:D}", the same inside an expansion with default
	xFlag                   // -E style flag value f=TEXT
	nCons
)

var consNames = [nCons]string{"literal", "set", "ref-literal", "ref-set",
	"x-default-taken", "x-error-form", "x-default-used", "x-alternative", "x-joined-refs", "x-literal+ref", "x-resolver", "x-resolver-in-default", "x-flag"}

// rendered: the library renders the typed value to text itself
func rendered(cons int) bool { return cons == xDefTaken || cons == xErrTaken }

var varOpts = []ucfg.Option{ucfg.PathSep("."), ucfg.VarExp}

type built struct {
	c, m, l *ucfg.Config
	opts    []ucfg.Option
}

func setValue(c *ucfg.Config, s src, name string, idx int, opts []ucfg.Option) error {
	switch s.kind {
	case 'i':
		return c.SetInt(name, idx, s.i, opts...)
	case 'u':
		return c.SetUint(name, idx, s.u, opts...)
	case 'f':
		return c.SetFloat(name, idx, s.f, opts...)
	case 's':
		return c.SetString(name, idx, s.s, opts...)
	}
	return c.SetBool(name, idx, s.b, opts...)
}

func build(s src, cons int) (*built, error) {
	b := &built{}
	var err error
	x := s.goValue()
	ref := "${src}"
	switch cons {
	case cLit:
		if s.gk != reflect.Invalid {
			b.c, err = typedInput(x, s.shape, nil, nil)
			break
		}
		b.c, err = ucfg.NewFrom(map[string]interface{}{"f": x, "m": map[string]interface{}{"k": x}, "l": []interface{}{x}})
	case cSet:
		b.c = ucfg.New()
		sep := []ucfg.Option{ucfg.PathSep(".")}
		if err = setValue(b.c, s, "f", -1, nil); err == nil {
			if err = setValue(b.c, s, "m.k", -1, sep); err == nil {
				err = setValue(b.c, s, "l", 0, nil)
			}
		}
	case cRefLit:
		b.opts = varOpts
		if s.gk != reflect.Invalid {
			b.c, err = typedInput(ref, s.shape, map[string]interface{}{"src": x}, b.opts)
			break
		}
		b.c, err = ucfg.NewFrom(map[string]interface{}{"f": ref, "m": map[string]interface{}{"k": ref}, "l": []interface{}{ref}, "src": x}, b.opts...)
	case cRefSet:
		b.opts = varOpts
		b.c, err = ucfg.NewFrom(map[string]interface{}{"f": ref, "m": map[string]interface{}{"k": ref}, "l": []interface{}{ref}}, b.opts...)
		if err == nil {
			err = setValue(b.c, s, "src", -1, b.opts)
		}
	}
	if err != nil {
		return nil, err
	}
	return b.children()
}

func (b *built) children() (*built, error) {
	var err error
	if b.m, err = b.c.Child("m", -1, b.opts...); err != nil {
		return nil, fmt.Errorf("Child(m): %w", err)
	}
	if b.l, err = b.c.Child("l", -1, b.opts...); err != nil {
		return nil, fmt.Errorf("Child(l): %w", err)
	}
	return b, nil
}

// ---------------------------------------------------------------------------
// one value

type runner struct {
	res     *harness.R
	s       src
	exp     []expectation // by kind index
	expR    []expectation // text routes, the library renders s itself (nil: not applicable)
	expT    []expectation // text routes, s as the text ru.text (nil: s has no text)
	text    string
	tsrc    src    // the text as a string setting
	tinfo   string // class of the value the text route carries (monitor)
	tsyntax string // spelling class of the text (signatures)
	tHigh   bool   // ... an integer in [2^63, 2^64)
	tNoF64  bool   // ... an integer no float64 holds
	sub     subChoice
	cfg     [nCons]*built
	cfgErr  [nCons]bool
	vclass  string
	nontriv bool
	verbose bool
	last    int // outcome of the latest conversion (lastNone: none ran)
	// named string guard, per construction: 0 not run, 1 fine, 2 panicked
	canary [nCons]int
}

func newRunner(res *harness.R, r *rand.Rand, s src, verbose bool) *runner {
	ru := &runner{res: res, s: s, verbose: verbose}
	ru.exp = make([]expectation, len(kinds))
	for i, k := range kinds {
		ru.exp[i] = expect(s, k)
	}
	// text routes
	hasText := true
	switch s.kind {
	case 'i':
		ru.text = strconv.FormatInt(s.i, 10)
	case 'u':
		ru.text = strconv.FormatUint(s.u, 10)
	case 'b':
		ru.text = strconv.FormatBool(s.b)
	case 's':
		ru.text, hasText = s.s, safeText(s.s)
	default:
		hasText = false // floats: every spelling is a string value of its own
	}
	ru.sub = drawSub(r, ru.text)
	if s.kind != 's' || hasText {
		ru.expR = make([]expectation, len(kinds))
		for i, k := range kinds {
			ru.expR[i] = expectText(s, k)
		}
	}
	if hasText {
		ru.tsrc = srcS(ru.text)
		ru.expT = ru.expR
		if s.kind != 's' {
			ru.expT = make([]expectation, len(kinds))
			for i, k := range kinds {
				ru.expT[i] = expectText(ru.tsrc, k)
			}
		}
		ti := classifyText(ru.text)
		ru.tinfo = ti.class
		ru.tsyntax = "word"
		if ti.class != "bool" && ti.class != "word" {
			ru.tsyntax = textSyntax(ru.text)
		} else if ti.class == "word" && signRunOf(ru.text) != "" {
			ru.tsyntax = "sign-run"
		}
		res.SetAdd("text_syntax", ru.tsyntax)
		if ti.v != nil {
			ru.tHigh = ti.v.Cmp(maxI64b) > 0 && ti.v.Cmp(maxU64b) <= 0
			ru.tNoF64 = cmpFloatInt(nearestFloat(ti.v), ti.v) != 0
		}
	} else if s.kind == 'f' {
		ru.tinfo = "rendered-float"
	} else {
		ru.tinfo = "none"
		res.Ev("text_value_not_a_word", 1)
	}
	res.SetAdd("text_value_class", ru.tinfo)
	ru.vclass, ru.nontriv = valueClass(s)
	vk := s.kindName()
	if s.kind == 's' {
		vk += ":" + strings.SplitN(ru.vclass[1:], ":", 2)[0]
	}
	res.SetAdd("value_kind", vk)
	if verbose {
		fmt.Printf("value %s class=%s\n", s, ru.vclass)
		for i, k := range kinds {
			fmt.Printf("  -> %-9s expect %s\n", k.name, ru.exp[i].describe())
		}
	}
	return ru
}

func (ru *runner) config(cons int) *built {
	if ru.cfg[cons] != nil || ru.cfgErr[cons] {
		return ru.cfg[cons]
	}
	var b *built
	var err error
	panicked, pv, where := harness.Safe(func() {
		if cons < nDirect {
			b, err = build(ru.s, cons)
		} else {
			b, err = buildText(ru.s, ru.text, cons, ru.sub)
		}
	})
	ru.res.Eval(1)
	switch {
	case panicked:
		ru.res.Violate("panic:build@"+topFrame(where), "panic %q at %s building %s as %s", pv, where, ru.s, consNames[cons])
		ru.cfgErr[cons] = true
	case err != nil:
		ru.res.Violate("build-error:"+consNames[cons], "building the configuration for %s as %s failed: %v", ru.s, consNames[cons], err)
		ru.cfgErr[cons] = true
	default:
		ru.cfg[cons] = b
	}
	return ru.cfg[cons]
}

func topFrame(where string) string {
	f := strings.SplitN(where, "<", 2)[0]
	if i := strings.LastIndex(f, "."); i >= 0 {
		f = f[i+1:]
	}
	if f == "" {
		return "?"
	}
	return f
}

// applies reports whether the value can go through the construction.
func (ru *runner) applies(cons int) bool {
	if cons < nDirect {
		return true
	}
	if rendered(cons) && ru.expR == nil {
		return false
	}
	return textApplies(cons, ru.s, ru.text, ru.expT != nil, ru.sub)
}

// expFor: the expectation and the name of the source in signatures.
func (ru *runner) expFor(cons, ki int) (*expectation, string) {
	switch {
	case cons < nDirect:
		if ru.carriesGoType(cons) {
			return &ru.exp[ki], ru.s.gk.String() + "-input"
		}
		return &ru.exp[ki], ru.s.kindName()
	case rendered(cons) && ru.s.kind != 's':
		return &ru.expR[ki], "reparsed-" + ru.s.kindName()
	case rendered(cons):
		return &ru.expR[ki], "reparsed-text:" + ru.tsyntax
	}
	return &ru.expT[ki], "reparsed-text:" + ru.tsyntax
}

// carriesGoType: in this construction the value enters the library as a Go
// value of the sized type s.gk (not through a Set* call).
func (ru *runner) carriesGoType(cons int) bool {
	if ru.s.gk == reflect.Invalid {
		return false
	}
	return cons == cLit || cons == cRefLit || (rendered(cons) && !ru.sub.viaSet)
}

const sigFloat32Decimal = "float32-input-taken-by-its-shortest-decimal-text"

// float32ByDecimal reports whether the observation is what the float32 input's
// shortest decimal text - another real number than the input - explains: the
// stored value, or the error, is the one that number would get.
func (ru *runner) float32ByDecimal(cons int, k *tkind, err error, got reflect.Value, present bool) bool {
	if !ru.carriesGoType(cons) || ru.s.gk != reflect.Float32 || !shortestDecimalDiffers(float32(ru.s.f)) {
		return false
	}
	d, perr := strconv.ParseFloat(strconv.FormatFloat(ru.s.f, 'g', -1, 32), 64)
	if perr != nil {
		return false
	}
	alt := expect(srcF(d), k)
	if err != nil {
		return alt.mode == mErr
	}
	return present && (alt.mode == mExact || alt.mode == mEither) && alt.matches(k, got)
}

// goInputMonitors: which Go input types were converted.
func (ru *runner) goInputMonitors(cons int, k *tkind) {
	if !ru.carriesGoType(cons) {
		return
	}
	ru.res.Ev("go_input_conversions", 1)
	ru.res.SetAdd("go_input_kind", ru.s.gk.String())
	ru.res.SetAdd("go_input_container", shapeNames[ru.s.shape])
	if ru.s.gk != reflect.Float32 {
		return
	}
	ru.res.Ev("float32_input_conversions", 1)
	if !shortestDecimalDiffers(float32(ru.s.f)) {
		return
	}
	ru.res.Ev("float32_input_whose_shortest_decimal_is_another_number", 1)
	d, _ := strconv.ParseFloat(strconv.FormatFloat(ru.s.f, 'g', -1, 32), 64)
	a, b := expect(srcF(d), k), &ru.exp[kindIndex(k)]
	switch {
	case a.mode == mUnpinned || b.mode == mUnpinned:
	case (a.mode == mErr) != (b.mode == mErr):
		ru.res.Ev("float32_input_decimal_reading_flips_value_and_error_for_the_target", 1)
	case a.mode != mErr && a.describe() != b.describe():
		ru.res.Ev("float32_input_decimal_reading_is_another_value_for_the_target", 1)
	}
}

// textMonitors: what went through a text route.
func (ru *runner) textMonitors(cons int) {
	if cons < nDirect {
		return
	}
	ru.res.Ev("text_conversions", 1)
	ru.res.Ev("text_form_"+consNames[cons], 1)
	if ru.tHigh {
		ru.res.Ev("text_integer_in_[2^63,2^64)", 1)
	}
	if ru.tNoF64 {
		ru.res.Ev("text_integer_no_float64_holds", 1)
	}
	if ru.tsyntax == "sign-run" {
		ru.res.Ev("text_sign_run_numeral_conversions", 1)
		ru.res.Ev("text_sign_run_numeral_"+consNames[cons], 1)
		ru.res.SetAdd("text_sign_run", signRunOf(ru.text))
	}
	if cons == xResolver || cons == xResolverDef {
		ru.res.SetAdd("text_resolver_parse_config", parseCfgs[ru.sub.pcfg].name)
	}
}

func kindIndex(k *tkind) int {
	for i, x := range kinds {
		if x == k {
			return i
		}
	}
	return -1
}

// namedStringOK runs (once per construction) the named string map route and
// reports whether it returned without a panic.
func (ru *runner) namedStringOK(cons int) bool {
	if ru.canary[cons] == 0 {
		ru.canary[cons] = 1
		if ru.unpack(cons, stringKind, namedString, rMap) {
			ru.canary[cons] = 2
		}
	}
	return ru.canary[cons] == 1
}

// unpack runs one (construction, target, route) conversion; it reports
// whether the library panicked.
func (ru *runner) unpack(cons int, ki int, t *target, route int) (didPanic bool) {
	b := ru.config(cons)
	if b == nil {
		return false
	}
	if hazard(t, route) && !ru.namedStringOK(cons) {
		ru.res.Ev("skipped_after_named_string_panic", 1)
		return false
	}
	var err error
	var got reflect.Value
	present := false
	panicked, pv, where := harness.Safe(func() {
		switch route {
		case rField:
			p := reflect.New(t.st)
			if err = b.c.Unpack(p.Interface(), b.opts...); err == nil {
				got, present = p.Elem().Field(0), true
			}
		case rMap:
			p := reflect.New(t.mp)
			if err = b.m.Unpack(p.Interface(), b.opts...); err == nil {
				if p.Elem().Len() == 1 {
					got = p.Elem().MapIndex(reflect.ValueOf("k"))
					present = got.IsValid()
				}
			}
		case rSlice:
			p := reflect.New(t.sl)
			if err = b.l.Unpack(p.Interface(), b.opts...); err == nil {
				if p.Elem().Len() == 1 {
					got, present = p.Elem().Index(0), true
				}
			}
		}
	})
	ru.res.Eval(1)
	ru.textMonitors(cons)
	rname := consNames[cons] + "/" + routeNames[route]
	ru.res.SetAdd("target", t.name)
	ru.res.SetAdd("route", rname)
	if ru.nontriv {
		ru.res.Key(ru.vclass + "|" + t.name + "|" + rname)
	}
	call := func() string {
		return fmt.Sprintf("%s (%s) unpacked into %s as %s", ru.s, ru.consDesc(cons), t.name, routeNames[route])
	}
	if panicked {
		ru.res.Violate(fmt.Sprintf("panic:%s-target@%s", variantKind(t), topFrame(where)), "panic %q at %s: %s", pv, where, call())
		ru.outcome(t.k, "panic")
		return true
	}
	if err == nil && present {
		for got.Kind() == reflect.Ptr {
			if got.IsNil() {
				present = false
				break
			}
			got = got.Elem()
		}
	}
	to := t.k.name
	named := t.variant == vNamed || t.variant == vPtrNamed
	if t.k.class == cDur && named {
		to = "named-duration"
	}
	ru.judge(cons, ki, t.k, to, err, got, present, call)
	return false
}

// consDesc describes the construction for a witness.
func (ru *runner) consDesc(cons int) string {
	if cons < nDirect {
		return consNames[cons]
	}
	d := consNames[cons]
	if !rendered(cons) {
		d += fmt.Sprintf(" text %q", ru.text)
	}
	switch cons {
	case xDefTaken, xErrTaken:
		d += fmt.Sprintf(" default %q src-via-set=%v", ru.sub.def, ru.sub.viaSet)
	case xConcat:
		d += fmt.Sprintf(" cut at %d", ru.sub.split)
	case xLitRef:
		d += fmt.Sprintf(" cut at %d literal-first=%v", ru.sub.split, ru.sub.litFirst)
	case xResolver, xResolverDef:
		d += " parse." + parseCfgs[ru.sub.pcfg].name
	}
	return d
}

func variantKind(t *target) string {
	return [nVariants]string{"plain", "pointer", "named", "pointer-named"}[t.variant] + "-" + t.k.name
}

func (ru *runner) getter(cons int, gi int) {
	b := ru.config(cons)
	if b == nil {
		return
	}
	g := getters[gi]
	k := kindBy[g.kind]
	var err error
	var got reflect.Value
	panicked, pv, where := harness.Safe(func() {
		switch g.name {
		case "Bool":
			var v bool
			v, err = b.c.Bool("f", -1, b.opts...)
			got = reflect.ValueOf(v)
		case "Int":
			var v int64
			v, err = b.c.Int("f", -1, b.opts...)
			got = reflect.ValueOf(v)
		case "Uint":
			var v uint64
			v, err = b.c.Uint("f", -1, b.opts...)
			got = reflect.ValueOf(v)
		case "Float":
			var v float64
			v, err = b.c.Float("f", -1, b.opts...)
			got = reflect.ValueOf(v)
		case "String":
			var v string
			v, err = b.c.String("f", -1, b.opts...)
			got = reflect.ValueOf(v)
		}
	})
	ru.res.Eval(1)
	ru.textMonitors(cons)
	rname := consNames[cons] + "/getter"
	ru.res.SetAdd("target", g.name+"()")
	ru.res.SetAdd("route", rname)
	if ru.nontriv {
		ru.res.Key(ru.vclass + "|" + g.name + "()|" + rname)
	}
	call := func() string { return fmt.Sprintf("%s (%s) read with %s()", ru.s, ru.consDesc(cons), g.name) }
	if panicked {
		ru.res.Violate("panic:getter-"+g.name+"@"+topFrame(where), "panic %q at %s: %s", pv, where, call())
		return
	}
	ru.judge(cons, kindIndex(k), k, g.name+"()", err, got, true, call)
}

func (ru *runner) outcome(k *tkind, o string) {
	ru.res.SetAdd("outcome", o)
	ru.res.SetAdd("outcome_by_pair", ru.s.kindName()+"->"+k.name+":"+o)
	ru.res.Ev("outcome_"+o, 1)
}

func errClass(err error) string {
	e, ok := err.(ucfg.Error)
	if !ok {
		return fmt.Sprintf("raw:%T", err)
	}
	r := e.Reason()
	switch r {
	case ucfg.ErrOverflow:
		return "ErrOverflow"
	case ucfg.ErrNegative:
		return "ErrNegative"
	case ucfg.ErrTypeMismatch:
		return "ErrTypeMismatch"
	case ucfg.ErrMissing:
		return "ErrMissing"
	case nil:
		return "nil-reason"
	}
	if ne, ok := r.(*strconv.NumError); ok {
		return "strconv." + ne.Func + ":" + ne.Err.Error()
	}
	if strings.HasPrefix(r.Error(), "time: ") {
		return "time.ParseDuration"
	}
	return "other"
}

// judge compares one observation with the expectation for (value, kind).
// to names the target in signatures: the kind for Unpack, "Int()" etc. for getters.
func (ru *runner) judge(cons, ki int, k *tkind, to string, err error, got reflect.Value, present bool, call func() string) {
	e, from := ru.expFor(cons, ki)
	namedDur := to == "named-duration"
	ru.goInputMonitors(cons, k)
	if cons < nDirect && ru.s.kind == 's' && signRunOf(ru.s.s) != "" {
		ru.res.Ev("string_sign_run_numeral_direct_conversions", 1)
	}
	// a numeral behind a run of signs that a text route turned into a value
	signRunRead := cons >= nDirect && ru.tsyntax == "sign-run"
	if k.class == cBool && cons < nDirect && ru.s.kind == 's' {
		// boolean spellings of STRING settings
		switch {
		case e.mode == mErr && e.why == "boolean-word-strconv-refuses":
			ru.res.Ev("string_boolean_word_strconv_refuses_into_bool", 1)
			ru.res.SetAdd("string_boolean_word_strconv_refuses", strings.ToLower(strings.TrimSpace(ru.s.s)))
		case e.b != nil:
			ru.res.Ev("string_strconv_boolean_spelling_into_bool", 1)
			if err != nil {
				ru.res.Ev("string_strconv_boolean_spelling_refused", 1) // allowed (value or error); monitor
			}
		}
	}
	if e.decimal != nil {
		ru.res.Ev("float_target_numeral_with_two_readings", 1)
	}
	if e.neighbour != nil && (k.class == cInt || k.class == cUint) && inRange(e.neighbour, k) {
		ru.res.Ev("integer_text_beyond_64_bits_whose_float64_neighbour_fits_the_target", 1)
	}
	ru.last = lastOK
	if err != nil {
		ru.last = lastErr
	}
	// a named duration that received the bare number: the number was taken as
	// nanoseconds (one defect, whatever the source and whether the seconds fit)
	asNanos := func() bool {
		if !namedDur {
			return false
		}
		es := ru.s
		if cons >= nDirect && !rendered(cons) {
			es = ru.tsrc
		}
		v := nsReading(es)
		return v != nil && v.Sign() != 0 && gotInt(k, got).Cmp(v) == 0
	}
	if k.monitor {
		// outside the quantifier (uintptr): what the unsigned rules would say
		switch {
		case err != nil:
			ru.res.Ev(k.name+"_error", 1)
		case !present:
			ru.res.Ev(k.name+"_nothing_stored", 1)
		case e.mode == mUnpinned:
			ru.res.Ev(k.name+"_unpinned", 1)
		case e.mode == mErr:
			ru.res.Ev(k.name+"_value_where_the_unsigned_rule_is_an_error", 1)
		case e.matches(k, got):
			ru.res.Ev(k.name+"_value_as_the_unsigned_rule", 1)
		case e.deviation(k, got) == "wraps":
			ru.res.Ev(k.name+"_wraps", 1)
		default:
			ru.res.Ev(k.name+"_other_value", 1)
		}
		return
	}
	if namedDur {
		// monitors: what a named duration receives
		switch {
		case err != nil:
			ru.res.Ev("named_duration_error", 1)
		case !present:
			ru.res.Ev("named_duration_nothing_stored", 1)
		case gotInt(k, got).Sign() == 0:
			ru.res.Ev("named_duration_zero", 1)
		case asNanos():
			ru.res.Ev("named_duration_number_taken_as_nanoseconds", 1)
		case e.mode != mErr && e.mode != mUnpinned && e.matches(k, got):
			ru.res.Ev("named_duration_number_taken_as_seconds", 1)
		default:
			ru.res.Ev("named_duration_other_value", 1)
		}
		if !judgeNamedDurationAsSeconds {
			return
		}
	}
	if err != nil {
		ru.res.SetAdd("error_reason", errClass(err))
		switch e.mode {
		case mErr:
			ru.outcome(k, "error-required")
		case mUnpinned:
			ru.outcome(k, "error-unpinned")
		case mEither:
			ru.outcome(k, "error-allowed")
		default:
			if e.strict {
				sig := "spurious-error:" + from + "->" + to
				if ru.float32ByDecimal(cons, k, err, got, false) {
					sig = sigFloat32Decimal
				}
				ru.res.Violate(sig, "%s returned error %q, expected %s", call(), err.Error(), e.describe())
				ru.outcome(k, "error-spurious")
			} else {
				ru.outcome(k, "error-tolerated")
			}
		}
		return
	}
	if !present {
		ru.res.Violate("no-value-stored:"+to, "%s returned nil error but stored no value (nil pointer, missing key or empty slice), expected %s", call(), e.describe())
		ru.outcome(k, "nothing-stored")
		return
	}
	switch e.mode {
	case mUnpinned:
		ru.outcome(k, "value-unpinned")
		return
	case mErr:
		dev := "accepts-" + e.why
		if k.class == cDur && e.real != nil && withinFloat64Rounding(e.real, gotInt(k, got)) {
			dev = "imprecise"
		}
		sig := from + "-to-" + to + "-" + dev
		if asNanos() {
			sig = "number-to-named-duration-taken-as-nanoseconds"
		}
		if e.neighbour != nil && (k.class == cInt || k.class == cUint) && gotInt(k, got).Cmp(e.neighbour) == 0 {
			// one defect whatever the 64 bit target is called
			sig = "reparsed-integer-beyond-64-bits-stored-as-float64-neighbour"
		}
		if ru.float32ByDecimal(cons, k, err, got, present) {
			sig = sigFloat32Decimal
		}
		if signRunRead {
			// one defect whatever the target is called
			sig = "reparsed-text:sign-run-numeral-read-as-a-number"
		}
		ru.res.Violate(sig, "%s returned nil error and stored %s, expected %s", call(), describeGot(k, got), e.describe())
		ru.outcome(k, "value-where-error-required")
		return
	}
	if e.matches(k, got) {
		switch {
		case e.truncated:
			ru.outcome(k, "truncated")
		case e.rounded:
			ru.outcome(k, "rounded")
		default:
			ru.outcome(k, "exact")
		}
		return
	}
	sig := from + "-to-" + to + "-" + e.deviation(k, got)
	if cons >= nDirect && e.deviation(k, got) == "rounded-to-float64" {
		// the text was read as a floating point number: one defect whatever the target
		sig = from + "-rounded-to-float64"
	}
	if asNanos() {
		sig = "number-to-named-duration-taken-as-nanoseconds"
	}
	if e.decimal != nil && k.class == cFloat && (sameFloat(got.Float(), *e.decimal) || sameFloat(got.Float(), float64(float32(*e.decimal)))) {
		// one defect whatever the float target is called and whichever route
		sig = "float-target-reads-octal-numeral-as-decimal"
	}
	if ru.float32ByDecimal(cons, k, err, got, present) {
		sig = sigFloat32Decimal
	}
	if signRunRead {
		sig = "reparsed-text:sign-run-numeral-read-as-a-number"
	}
	ru.res.Violate(sig, "%s returned nil error and stored %s, expected %s", call(), describeGot(k, got), e.describe())
	ru.outcome(k, "wrong-value")
}

// judgeNamedDurationAsSeconds: the property's quantifier lists "named variants"
// of time.Duration, and with this switch on `type D time.Duration` targets are
// held to the duration reading (numbers = seconds; HEAD then violates with sig
// number-to-named-duration-taken-as-nanoseconds in every case). It is OFF
// because no Go program can implement that reading: the underlying type of D
// is int64, D inherits no methods, and reflection shows nothing that tells D
// from `type N int64` (same Kind, NumMethod 0, both ConvertibleTo
// time.Duration) - for which the same property, and this check (myInt64),
// demand the number itself. The targets are still generated and converted
// (panics count), what they receive is shown by the named_duration_* monitors.
const judgeNamedDurationAsSeconds = false

const (
	lastNone = iota
	lastOK
	lastErr
)

// refVsLiteral (monitor only, the property allows an error anywhere): how often
// a plain "${src}" reference to a value fails where the value itself converts.
func (ru *runner) refVsLiteral(st [nDirect]int, to string) {
	for _, p := range [][2]int{{cLit, cRefLit}, {cSet, cRefSet}} {
		if st[p[0]] == lastNone || st[p[1]] == lastNone {
			continue
		}
		ru.res.Ev("plain_ref_vs_value_pairs", 1)
		switch {
		case st[p[0]] == lastOK && st[p[1]] == lastErr:
			ru.res.Ev("plain_ref_fails_where_value_converts", 1)
			ru.res.SetAdd("plain_ref_fails_where_value_converts_pair", ru.s.kindName()+"->"+to)
		case st[p[0]] == lastErr && st[p[1]] == lastOK:
			ru.res.Ev("plain_ref_converts_where_value_fails", 1)
			ru.res.SetAdd("plain_ref_converts_where_value_fails_pair", ru.s.kindName()+"->"+to)
		}
	}
}

// runFull: the whole cross product for one value.
func runFull(res *harness.R, r *rand.Rand, s src, verbose bool) {
	ru := newRunner(res, r, s, verbose)
	for ki := range kinds {
		for _, t := range targetsOf[ki] {
			for route := 0; route < nRoutes; route++ {
				var st [nDirect]int
				for cons := 0; cons < nDirect; cons++ {
					if t == namedString && route == rMap && ru.canary[cons] != 0 {
						continue // already run as the guard
					}
					ru.last = lastNone
					ru.unpack(cons, ki, t, route)
					st[cons] = ru.last
				}
				ru.refVsLiteral(st, t.k.name)
			}
		}
	}
	for gi := range getters {
		var st [nDirect]int
		for cons := 0; cons < nDirect; cons++ {
			ru.last = lastNone
			ru.getter(cons, gi)
			st[cons] = ru.last
		}
		ru.refVsLiteral(st, getters[gi].name+"()")
	}
	// text routes: every form x every target type, through one route each
	// (the routes differ in how the target is reached, not in how the text is read)
	for cons := nDirect; cons < nCons; cons++ {
		if !ru.applies(cons) {
			res.Ev("text_form_not_applicable", 1)
			continue
		}
		for ki := range kinds {
			for _, t := range targetsOf[ki] {
				ru.unpack(cons, ki, t, r.Intn(nRoutes))
			}
		}
		for gi := range getters {
			ru.getter(cons, gi)
		}
	}
}

// runSampled: every kind and getter once, each through a random
// (construction, variant, route).
func runSampled(res *harness.R, r *rand.Rand, s src, verbose bool) {
	ru := newRunner(res, r, s, verbose)
	for ki := range kinds {
		ts := targetsOf[ki]
		ru.unpack(r.Intn(nDirect), ki, ts[r.Intn(len(ts))], r.Intn(nRoutes))
	}
	for gi := range getters {
		ru.getter(r.Intn(nDirect), gi)
	}
	// and once more through a random text route each
	var forms []int
	for cons := nDirect; cons < nCons; cons++ {
		if ru.applies(cons) {
			forms = append(forms, cons)
		}
	}
	if len(forms) == 0 {
		return
	}
	// three forms per value (a configuration is built per form)
	r.Shuffle(len(forms), func(i, j int) { forms[i], forms[j] = forms[j], forms[i] })
	if len(forms) > 3 {
		forms = forms[:3]
	}
	for ki := range kinds {
		ts := targetsOf[ki]
		ru.unpack(forms[r.Intn(len(forms))], ki, ts[r.Intn(len(ts))], r.Intn(nRoutes))
	}
	for gi := range getters {
		ru.getter(forms[r.Intn(len(forms))], gi)
	}
}

func (check) Run(seed int64, tier string, idx int, verbose bool) harness.Result {
	res := harness.NewR(idx)
	switch {
	case idx < len(table):
		runFull(res, rand.New(rand.NewSource(harness.Mix(seed, "C03", idx))), table[idx], verbose)
		if idx < 2 {
			res.Sample = map[string]interface{}{"value": table[idx].String(), "targets": len(targets), "constructions": consNames, "routes": routeNames}
		}
	default:
		r := rand.New(rand.NewSource(harness.Mix(seed, "C03", idx)))
		for j := 0; j < valsPerCase; j++ {
			runSampled(res, r, randomSrc(r), verbose)
		}
	}
	return res.Done()
}
