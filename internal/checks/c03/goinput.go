package c03

// Go INPUT values of every numeric kind, and numerals with a run of signs.
//
// (1) A setting created from a Go value holds exactly the mathematical value of
// that Go value, whatever its type: int8 ... int64, uint8 ... uint64, float32
// and float64 inputs, as interface{} entries, in typed maps / slices or as
// struct fields, handed to NewFrom or Merge. The expectation is the one of the
// value (oracle.go) - the Go type is only the carrier. float32 inputs get their
// own generator: random bit patterns, values whose shortest decimal text is not
// the exact value (every large float32), the edges of the type.
//
// (2) A text with two or more leading signs ("++7", "+-7", "--0x10") is a
// numeral in no syntax strconv accepts: on every route it is a string no
// numeric target takes, and String() hands it back verbatim.

import (
	"math"
	"math/big"
	"math/rand"
	"reflect"
	"strconv"
	"strings"

	ucfg "github.com/elastic/go-ucfg"
)

var goTypes = map[reflect.Kind]reflect.Type{
	reflect.Int: reflect.TypeOf(int(0)), reflect.Int8: reflect.TypeOf(int8(0)), reflect.Int16: reflect.TypeOf(int16(0)),
	reflect.Int32: reflect.TypeOf(int32(0)), reflect.Int64: reflect.TypeOf(int64(0)),
	reflect.Uint: reflect.TypeOf(uint(0)), reflect.Uint8: reflect.TypeOf(uint8(0)), reflect.Uint16: reflect.TypeOf(uint16(0)),
	reflect.Uint32: reflect.TypeOf(uint32(0)), reflect.Uint64: reflect.TypeOf(uint64(0)),
	reflect.Float32: reflect.TypeOf(float32(0)), reflect.Float64: reflect.TypeOf(float64(0)),
}

var intKinds = []reflect.Kind{reflect.Int8, reflect.Int16, reflect.Int32, reflect.Int, reflect.Int64}
var uintKinds = []reflect.Kind{reflect.Uint8, reflect.Uint16, reflect.Uint32, reflect.Uint, reflect.Uint64}

const (
	shIface    = iota // map[string]interface{}{"f": x, "m": {"k": x}, "l": [x]} through NewFrom
	shTyped           // the same with m a map[string]T and l a []T
	shStruct          // struct{F T; M map[string]T; L []T} with config tags
	shMergeMap        // the interface{} map, merged into an empty configuration
	shMergePtr        // a pointer to the struct, merged into an empty configuration
	nShapes
)

var shapeNames = [nShapes]string{"(interface{} entries, NewFrom)", "(typed map / slice, NewFrom)", "(struct fields, NewFrom)", "(interface{} entries, Merge)", "(pointer to struct, Merge)"}

// typedInput builds the configuration {f: x, m: {k: x}, l: [x]} (plus extra
// top-level entries) from the Go value x (and the Go values in extra) in the
// container shape: the entries keep their Go types.
func typedInput(x interface{}, shape int, extra map[string]interface{}, opts []ucfg.Option) (*ucfg.Config, error) {
	xv := reflect.ValueOf(x)
	T := xv.Type()
	strT := reflect.TypeOf("")
	mk := func() (m, l reflect.Value) {
		m = reflect.MakeMap(reflect.MapOf(strT, T))
		m.SetMapIndex(reflect.ValueOf("k"), xv)
		l = reflect.MakeSlice(reflect.SliceOf(T), 1, 1)
		l.Index(0).Set(xv)
		return
	}
	var in interface{}
	switch shape {
	case shTyped:
		m, l := mk()
		top := map[string]interface{}{"f": x, "m": m.Interface(), "l": l.Interface()}
		for k, v := range extra {
			top[k] = v
		}
		in = top
	case shStruct, shMergePtr:
		m, l := mk()
		fields := []reflect.StructField{
			{Name: "F", Type: T, Tag: `config:"f"`},
			{Name: "M", Type: m.Type(), Tag: `config:"m"`},
			{Name: "L", Type: l.Type(), Tag: `config:"l"`},
		}
		keys := make([]string, 0, len(extra))
		for k := range extra {
			keys = append(keys, k)
		}
		// (at most one or two extras; order them for a deterministic type)
		for i := range keys {
			for j := i + 1; j < len(keys); j++ {
				if keys[j] < keys[i] {
					keys[i], keys[j] = keys[j], keys[i]
				}
			}
		}
		for i, k := range keys {
			fields = append(fields, reflect.StructField{Name: "X" + strconv.Itoa(i), Type: reflect.TypeOf(extra[k]), Tag: reflect.StructTag(`config:"` + k + `"`)})
		}
		p := reflect.New(reflect.StructOf(fields))
		p.Elem().Field(0).Set(xv)
		p.Elem().Field(1).Set(m)
		p.Elem().Field(2).Set(l)
		for i, k := range keys {
			p.Elem().Field(3 + i).Set(reflect.ValueOf(extra[k]))
		}
		in = p.Elem().Interface()
		if shape == shMergePtr {
			in = p.Interface()
		}
	default:
		top := map[string]interface{}{"f": x, "m": map[string]interface{}{"k": x}, "l": []interface{}{x}}
		for k, v := range extra {
			top[k] = v
		}
		in = top
	}
	if shape == shMergeMap || shape == shMergePtr {
		c := ucfg.New()
		return c, c.Merge(in, opts...)
	}
	return ucfg.NewFrom(in, opts...)
}

// retype hands a numeric value over as a random Go type of its family that
// holds it exactly, in a random container.
func retype(r *rand.Rand, s src) src {
	var fit []reflect.Kind
	switch s.kind {
	case 'i':
		for _, k := range intKinds {
			b := uint(goTypes[k].Bits())
			if s.i >= -1<<(b-1) && s.i <= 1<<(b-1)-1 {
				fit = append(fit, k)
			}
		}
	case 'u':
		for _, k := range uintKinds {
			b := uint(goTypes[k].Bits())
			if b == 64 || s.u <= 1<<b-1 {
				fit = append(fit, k)
			}
		}
	case 'f':
		fit = []reflect.Kind{reflect.Float64}
		if f := float64(float32(s.f)); f == s.f || math.IsNaN(s.f) {
			fit = []reflect.Kind{reflect.Float32, reflect.Float32, reflect.Float64}
		}
	default:
		return s
	}
	s.gk = fit[r.Intn(len(fit))]
	s.shape = r.Intn(nShapes)
	return s
}

// shortestDecimalDiffers: the shortest decimal text that identifies the
// float32 x among the float32 values denotes another real number than x.
func shortestDecimalDiffers(x float32) bool {
	if x != x || math.IsInf(float64(x), 0) {
		return false
	}
	d, err := strconv.ParseFloat(strconv.FormatFloat(float64(x), 'g', -1, 32), 64)
	return err != nil || d != float64(x)
}

var f32Edges = []float32{math.MaxFloat32, -math.MaxFloat32, math.SmallestNonzeroFloat32, 1 << 24, 1 << 31, -(1 << 31), 1 << 32, 1 << 63, -(1 << 63), 1 << 64,
	1e10, 3e10, 1e15, -1e15, 1e18, 1e19, 1e20, 1e38, 0.1, 0.3, 16777216, 9223372036, 9223372037, 4611686018, 1.17549435e-38}

// randomFloat32 draws a float32 Go input value.
func randomFloat32(r *rand.Rand) src {
	var x float32
	switch r.Intn(5) {
	case 0:
		// any bit pattern
		x = math.Float32frombits(r.Uint32())
	case 1:
		// an edge of the type or of an integer / duration target and its neighbours
		x = f32Edges[r.Intn(len(f32Edges))]
		for k := r.Intn(7) - 3; k != 0; {
			if k > 0 {
				x = math.Nextafter32(x, float32(math.Inf(1)))
				k--
			} else {
				x = math.Nextafter32(x, float32(math.Inf(-1)))
				k++
			}
		}
	case 2:
		// an integer of 25 .. 64 bits with a random 24 bit mantissa: no short decimal
		x = float32(math.Ldexp(float64(1<<23|r.Intn(1<<23)), 1+r.Intn(41)))
		if r.Intn(2) == 0 {
			x = -x
		}
	case 3:
		// the float32 next to a power of ten or to a short decimal
		x = float32(math.Pow(10, float64(r.Intn(77)-38)) * float64(1+r.Intn(99)))
		if r.Intn(4) == 0 {
			x = -x
		}
	default:
		// small values with a fraction
		x = float32(r.Intn(1<<16)) + float32(r.Intn(1<<10))/1024
		if r.Intn(3) == 0 {
			x = float32(r.Float64())
		}
	}
	s := srcF(float64(x))
	s.gk = reflect.Float32
	s.shape = r.Intn(nShapes)
	return s
}

// ---------------------------------------------------------------------------
// runs of signs

var signRuns = []string{"++", "+-", "-+", "--", "+++", "++-", "-++", "--+", "+-+", "----"}

// signRunOf: the leading run of two or more signs of a text whose rest is a
// numeral (any syntax strconv reads), "" otherwise.
func signRunOf(t string) string {
	rest := strings.TrimLeft(t, "+-")
	n := len(t) - len(rest)
	if n < 2 || rest == "" {
		return ""
	}
	switch classifyText(rest).class {
	case "int", "bigint", "float", "floatrange":
		return t[:n]
	}
	return ""
}

// randomSignRun: a numeral next to a boundary, in a random spelling, behind a
// random run of signs.
func randomSignRun(r *rand.Rand) src {
	b := bounds[r.Intn(len(bounds))]
	v := new(big.Int).Add(b, big.NewInt(int64(r.Intn(9)-4)))
	var sp string
	switch r.Intn(6) {
	case 0:
		sp = pickSpelling(r, floatSpellings(stepFloat(nearestFloat(v), r.Intn(5)-2)))
	case 1:
		sp = strconv.Itoa(r.Intn(300))
	default:
		sp = pickSpelling(r, intSpellings(v))
	}
	sp = strings.TrimLeft(sp, "+-")
	return srcS(signRuns[r.Intn(len(signRuns))] + sp)
}
