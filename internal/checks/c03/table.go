package c03

import (
	"fmt"
	"math"
	"math/big"
	"math/rand"
	"reflect"
	"strconv"
	"strings"
)

// the powers of two every sized kind ends at, plus float53/float24 precision edges
var ks = []uint{7, 8, 15, 16, 31, 32, 53, 63, 64}

var (
	table    []src
	bounds   []*big.Int // integer boundaries the random values cluster around
	fbounds  []float64  // float boundaries (float32 range and rounding edges, Duration seconds)
	durSecs  = []int64{9223372036, 9223372037, 9223372035, 4611686018, 4611686019, 9007199, 9007200}
	maxDurS  = float64(math.MaxInt64) / 1e9
	f32Limit = math.Ldexp(1, 128) - math.Ldexp(1, 103) // values from here on round to +Inf as float32
)

func srcI(v int64) src        { return src{kind: 'i', i: v} }
func srcU(v uint64) src       { return src{kind: 'u', u: v} }
func srcF(v float64) src      { return src{kind: 'f', f: v} }
func srcS(v string) src       { return src{kind: 's', s: v} }
func srcB(v bool) src         { return src{kind: 'b', b: v} }
func fitsI64(v *big.Int) bool { return v.Cmp(minI64b) >= 0 && v.Cmp(maxI64b) <= 0 }
func fitsU64(v *big.Int) bool { return v.Sign() >= 0 && v.Cmp(maxU64b) <= 0 }

func nearestFloat(v *big.Int) float64 {
	f, _ := new(big.Float).SetInt(v).Float64()
	return f
}

func underscored(dec string) string {
	neg := strings.HasPrefix(dec, "-")
	if neg {
		dec = dec[1:]
	}
	var b strings.Builder
	for i, c := range dec {
		if i > 0 && (len(dec)-i)%3 == 0 {
			b.WriteByte('_')
		}
		b.WriteRune(c)
	}
	if neg {
		return "-" + b.String()
	}
	return b.String()
}

func signed(v *big.Int, prefix string, base int) string {
	a := new(big.Int).Abs(v)
	s := prefix + a.Text(base)
	if v.Sign() < 0 {
		return "-" + s
	}
	return s
}

// intSpellings lists the strconv (base 0) spellings of an integer.
func intSpellings(v *big.Int) []string {
	dec := v.String()
	out := []string{dec, signed(v, "0x", 16), signed(v, "0X", 16), signed(v, "0b", 2), signed(v, "0o", 8), signed(v, "0", 8)}
	if len(strings.TrimPrefix(dec, "-")) > 3 {
		out = append(out, underscored(dec))
	}
	if v.Sign() >= 0 {
		out = append(out, "+"+dec)
	}
	out = append(out, dec+".0", dec+"e0")
	return out
}

func floatSpellings(f float64) []string {
	out := []string{strconv.FormatFloat(f, 'g', -1, 64), strconv.FormatFloat(f, 'e', -1, 64), strconv.FormatFloat(f, 'E', 17, 64)}
	if !math.IsNaN(f) && !math.IsInf(f, 0) {
		out = append(out, strconv.FormatFloat(f, 'x', -1, 64))
		if a := math.Abs(f); a < 1e40 && (a > 1e-12 || a == 0) {
			out = append(out, strconv.FormatFloat(f, 'f', -1, 64))
		}
	}
	return out
}

func neighbours(f float64, n int) []float64 {
	out := []float64{f}
	up, dn := f, f
	for i := 0; i < n; i++ {
		up = math.Nextafter(up, math.Inf(1))
		dn = math.Nextafter(dn, math.Inf(-1))
		out = append(out, up, dn)
	}
	return out
}

func initTable() {
	seen := map[string]bool{}
	push := func(s src) {
		k := s.String()
		if s.kind == 'f' {
			k = fmt.Sprintf("f%016x", math.Float64bits(s.f))
			if math.IsNaN(s.f) {
				k = "fNaN"
			}
		}
		if s.gk != reflect.Invalid {
			k = fmt.Sprintf("%s/%d/%s", s.gk, s.shape, k)
		}
		if !seen[k] {
			seen[k] = true
			table = append(table, s)
		}
	}
	pushInt := func(v *big.Int, spell bool) {
		if fitsI64(v) {
			push(srcI(v.Int64()))
		}
		if fitsU64(v) {
			push(srcU(v.Uint64()))
		}
		push(srcF(nearestFloat(v)))
		if spell {
			for _, s := range intSpellings(v) {
				push(srcS(s))
			}
		} else {
			push(srcS(v.String()))
		}
	}
	pushFloat := func(f float64, spell bool) {
		push(srcF(f))
		if spell {
			for _, s := range floatSpellings(f) {
				push(srcS(s))
			}
		}
	}

	// integers
	var ints []*big.Int
	for _, v := range []int64{0, 1, -1, 2, -2, 10, -10, 100, 1000, -1000} {
		ints = append(ints, big.NewInt(v))
	}
	bounds = append(bounds, big.NewInt(0))
	for _, k := range ks {
		p := pow2(k)
		for _, d := range []int64{-1, 0, 1} {
			v := new(big.Int).Add(p, big.NewInt(d))
			ints = append(ints, v, new(big.Int).Neg(v))
		}
		bounds = append(bounds, p, new(big.Int).Neg(p))
	}
	bounds = append(bounds, pow2(24), new(big.Int).Neg(pow2(24)))
	for _, s := range durSecs {
		ints = append(ints, big.NewInt(s), big.NewInt(-s))
	}
	bounds = append(bounds, big.NewInt(9223372036), big.NewInt(-9223372036), big.NewInt(4611686018))
	for _, v := range []string{"16777217", "-16777217", "1152921573326323713" /* 2^60+2^36+1: float32 double rounding */, "9223372036854775296", "18446744073709550592", "99999999999999999999", "-99999999999999999999"} {
		b, _ := new(big.Int).SetString(v, 10)
		ints = append(ints, b)
	}
	for _, v := range ints {
		pushInt(v, true)
	}

	// floats
	var flts []float64
	for _, k := range []uint{31, 32, 63, 64} {
		f := math.Ldexp(1, int(k))
		flts = append(flts, neighbours(f, 2)...)
		flts = append(flts, neighbours(-f, 2)...)
	}
	flts = append(flts, neighbours(math.Ldexp(1, 53), 1)...)
	flts = append(flts, neighbours(maxF32, 2)...)
	flts = append(flts, neighbours(-maxF32, 2)...)
	flts = append(flts, neighbours(f32Limit, 1)...)
	flts = append(flts, neighbours(-f32Limit, 1)...)
	flts = append(flts, math.MaxFloat64, -math.MaxFloat64, math.SmallestNonzeroFloat64, -math.SmallestNonzeroFloat64,
		math.SmallestNonzeroFloat32, math.SmallestNonzeroFloat32/2, math.Nextafter(math.SmallestNonzeroFloat32/2, 1), math.Ldexp(1, -1022),
		math.Inf(1), math.Inf(-1), math.NaN(), math.Copysign(0, -1),
		0.5, -0.5, 0.9, -0.9, 0.1, 2.9, -2.9, 1.5, -1.5, 1e-9, 1.5e-9, 2.5e-9, 1e-10, 0.999999999, 2.9999999999, 1e19, 1e20, -1e19, 1e300, -1e300, 1e38, 3.5e38,
		127.5, 127.9, 128.5, -128.5, -128.9, -129.5, 255.5, 255.9, 256.5, 32767.5, -32768.5, 65535.5, 2147483647.5, -2147483648.5, 4294967295.5, -0.0000001,
		1+math.Ldexp(1, -24), 1+math.Ldexp(1, -24)+math.Ldexp(1, -52), 1+math.Ldexp(3, -24), 16777217, 33554435,
		4611686019.5, 9007199.254740992, 9007199.254740993, 123456789.123456789, -123456789.123456789)
	flts = append(flts, neighbours(maxDurS, 3)...)
	flts = append(flts, neighbours(-maxDurS, 3)...)
	flts = append(flts, 9223372036.854775, 9223372036.854776, 9223372036.854778, -9223372036.854775, -9223372036.854776, -9223372036.854778)
	for _, f := range flts {
		pushFloat(f, true)
	}
	fbounds = append(fbounds, maxF32, -maxF32, f32Limit, -f32Limit, maxDurS, -maxDurS, 9007199.254740992, math.SmallestNonzeroFloat32, math.MaxFloat64, 4611686018.427388)

	// Go input values of the sized types (goinput.go): the edges of each type,
	// float32 values whose shortest decimal text is another number, each in
	// one of the containers (round robin)
	shape := 0
	typed := func(x src, k reflect.Kind) {
		x.gk, x.shape = k, shape%nShapes
		shape++
		push(x)
	}
	for _, k := range intKinds {
		b := uint(goTypes[k].Bits())
		typed(srcI(-1<<(b-1)), k)
		typed(srcI(1<<(b-1)-1), k)
	}
	for _, k := range uintKinds {
		b := uint(goTypes[k].Bits())
		typed(srcU(1<<b-1), k) // (1<<64 wraps to 0: MaxUint64)
	}
	typed(srcI(-1), reflect.Int8)
	typed(srcU(200), reflect.Uint8)
	for _, x := range []float32{math.MaxFloat32, -math.MaxFloat32, math.Nextafter32(math.MaxFloat32, 0), math.SmallestNonzeroFloat32, 1.17549435e-38,
		1e15, -1e15, 3e10, 1e10, 1e19, 1e20, 1e38, 123456789, 16777216, 16777218, 1 << 31, -(1 << 31), math.Nextafter32(1<<31, 0), 1 << 63, -(1 << 63), math.Nextafter32(1<<63, 0),
		1 << 64, math.Nextafter32(1<<64, 0), 9223372036, 9223372037, 0.1, 0.3, 1.5, 127.9, 255.5, float32(math.Inf(1)), float32(math.Inf(-1)), float32(math.NaN())} {
		typed(srcF(float64(x)), reflect.Float32)
	}
	typed(srcF(1e15), reflect.Float64)
	typed(srcF(0.1), reflect.Float64)

	// numerals behind a run of signs: text in no syntax strconv reads
	for _, s := range []string{"++7", "+-7", "-+7", "--7", "+++0x10", "++0", "--0", "++18446744073709551615", "+-9223372036854775808", "--9223372036854775809",
		"++1.5", "--1e3", "++0b11", "-+017", "++1_000", "+-+1", "++Inf"} {
		push(srcS(s))
	}

	// booleans and strings in no numeric syntax
	push(srcB(true))
	push(srcB(false))
	for _, s := range []string{
		"abc", "", " ", "true", "false", "T", "F", "TRUE", "True", "t", "f", "tRuE", "on", "off", "yes", "no", "null", "nil",
		"1h", "90s", "-1.5h", "1h30m", "1ns", "1us", "1µs", "1ms", ".5s", "+5s", "5s ", "1d", "1e3s", "h", "-", "+", ".",
		"2562047h47m16.854775807s", "2562047h47m16.854775808s", "-2562047h47m16.854775808s", "-2562047h47m16.854775809s",
		"9223372036854775807ns", "9223372036854775808ns", "-9223372036854775808ns", "9223372036s", "9223372037s", "-9223372037s", "9223372036.854775807s", "9223372036.854775808s", "2562048h", "153722867m", "153722868m",
		"1e3", "1E3", "1.5", "-1.5", ".5", "5.", "1_000", "1__000", "_1", "1_", "1_0.5", "+5", "-5", " 5", "5 ", "\t5", "5\n", "0x", "0x1G", "0x1p4", "0x1p-2", "0x1.8p1", "0X1F", "0B11", "0O17", "017", "08", "0_7",
		"-0", "+0", "0.0", "-0.0", "00", "NaN", "nan", "Inf", "+Inf", "-Inf", "inf", "Infinity", "-infinity", "1e400", "-1e400", "1e-400", "1e309", "1.7976931348623157e308", "1.7976931348623159e308",
		"١٢٣", "1,000", "５", "1 000", "0x8000000000000000", "0xFFFFFFFFFFFFFFFF", "0x10000000000000000", "-0x8000000000000000", "-0x8000000000000001",
		"340282346638528859811704183484516925440", "340282356779733661637539395458142568448", "340282356779733661637539395458142568447", "3.4028235e38", "3.4028236e38", "-3.4028236e38", "3.5e38", "4.9e-324", "2.4e-324", "1e-46", "7e-46",
		"1.0000000596046448", "1.00000005960464477539062500000000000000000001", "16777217", "9007199254740993", "9223372036854775807.5", "-9223372036854775808.5", "127.9", "-128.9", "255.9", "-0.5", "256e0", "1e2", "12e-1",
	} {
		push(srcS(s))
	}
}

// ---------------------------------------------------------------------------
// random values concentrated at the boundaries

func stepFloat(f float64, k int) float64 {
	for ; k > 0; k-- {
		f = math.Nextafter(f, math.Inf(1))
	}
	for ; k < 0; k++ {
		f = math.Nextafter(f, math.Inf(-1))
	}
	return f
}

func pickSpelling(r *rand.Rand, l []string) string { return l[r.Intn(len(l))] }

// randomSrc: a random value; two in nineteen are float32 Go inputs, one is a
// numeral behind a run of signs, and every third numeric value of the others
// is handed over as a sized Go type that holds it exactly.
func randomSrc(r *rand.Rand) src {
	switch r.Intn(19) {
	case 0, 1:
		return randomFloat32(r)
	case 2:
		return randomSignRun(r)
	}
	s := randomSrc0(r)
	if r.Intn(3) == 0 {
		s = retype(r, s)
	}
	return s
}

func randomSrc0(r *rand.Rand) src {
	b := bounds[r.Intn(len(bounds))]
	d := int64(r.Intn(9) - 4)
	v := new(big.Int).Add(b, big.NewInt(d))
	switch r.Intn(15) {
	case 14:
		return srcS(randomBoolWord(r))
	case 0:
		if fitsI64(v) {
			return srcI(v.Int64())
		}
		return srcS(pickSpelling(r, intSpellings(v)))
	case 1:
		if fitsU64(v) {
			return srcU(v.Uint64())
		}
		return srcS(pickSpelling(r, intSpellings(v)))
	case 2:
		return srcF(stepFloat(nearestFloat(b), r.Intn(9)-4))
	case 3:
		// boundary + small integer + fraction, when a float64 can hold it
		f := nearestFloat(v)
		if math.Abs(f) < math.Ldexp(1, 52) {
			frac := r.Float64()
			if r.Intn(3) == 0 {
				frac = []float64{0.5, 0.25, 0.999999, 0.000001, 0.9}[r.Intn(5)]
			}
			if r.Intn(2) == 0 {
				frac = -frac
			}
			return srcF(f + frac)
		}
		return srcF(stepFloat(f, r.Intn(9)-4))
	case 4, 5:
		return srcS(pickSpelling(r, intSpellings(v)))
	case 6:
		f := stepFloat(nearestFloat(b), r.Intn(9)-4)
		if r.Intn(2) == 0 && math.Abs(f) < math.Ldexp(1, 52) {
			f += r.Float64()
		}
		return srcS(pickSpelling(r, floatSpellings(f)))
	case 7:
		// float seconds around the Duration limits
		fb := []float64{maxDurS, -maxDurS, 9007199.254740992, 4611686018.427388}[r.Intn(4)]
		f := stepFloat(fb, r.Intn(33)-16)
		if r.Intn(4) == 0 {
			f = math.Trunc(f) + float64(r.Intn(5)-2)
		}
		if r.Intn(4) == 0 {
			return srcS(pickSpelling(r, floatSpellings(f)))
		}
		return srcF(f)
	case 8:
		// duration strings around the limits
		ns := new(big.Int).Add(new(big.Int).Set([]*big.Int{maxI64b, minI64b}[r.Intn(2)]), big.NewInt(int64(r.Intn(9)-4)))
		secs := new(big.Int).Add(big.NewInt([]int64{9223372036, -9223372036}[r.Intn(2)]), big.NewInt(d))
		switch r.Intn(6) {
		case 0:
			return srcS(ns.String() + "ns")
		case 1:
			return srcS(secs.String() + "s")
		case 2:
			return srcS(fmt.Sprintf("%s.%09ds", secs.String(), 854775800+r.Intn(16)))
		case 3:
			return srcS(fmt.Sprintf("%dh%dm%d.%09ds", 2562047, 47, 16, 854775800+r.Intn(16)))
		case 4:
			q := new(big.Int).Quo(ns, big.NewInt(1000))
			return srcS(q.String() + []string{"us", "µs", "μs"}[r.Intn(3)])
		default:
			return srcS(fmt.Sprintf("%d%s", r.Intn(2000)-1000, []string{"ns", "us", "ms", "s", "m", "h", "", "d", " s"}[r.Intn(9)]))
		}
	case 9:
		// anywhere
		switch r.Intn(4) {
		case 0:
			return srcI(int64(r.Uint64()))
		case 1:
			return srcU(r.Uint64())
		case 2:
			return srcF(math.Float64frombits(r.Uint64()))
		default:
			return srcF(float64(int64(r.Uint64())>>uint(r.Intn(64))) + r.Float64())
		}
	case 10, 11:
		// float32 range and rounding edges, and the other float boundaries
		var f float64
		if r.Intn(2) == 0 {
			f = stepFloat(fbounds[r.Intn(len(fbounds))], r.Intn(9)-4)
		} else {
			// around the midpoint of two adjacent float32 values
			x := math.Float32frombits(r.Uint32())
			if x != x || math.IsInf(float64(x), 0) {
				x = 1
			}
			y := math.Nextafter32(x, float32(math.Inf(1)))
			f = stepFloat((float64(x)+float64(y))/2, r.Intn(5)-2)
		}
		if r.Intn(3) == 0 {
			return srcS(pickSpelling(r, floatSpellings(f)))
		}
		return srcF(f)
	case 12:
		// integers a float64 cannot hold (float32/float64 rounding of integer settings)
		u := r.Uint64() | 1<<63>>uint(r.Intn(12))
		if r.Intn(2) == 0 {
			// exactly half way between two float64 / float32 values, +-1
			sh := uint([]int{10, 39}[r.Intn(2)])
			u = (u>>(sh+1))<<(sh+1) | 1<<sh
			u += uint64(r.Intn(3)) - 1
		}
		if r.Intn(2) == 0 && u <= math.MaxInt64 {
			if r.Intn(2) == 0 {
				return srcI(-int64(u))
			}
			return srcI(int64(u))
		}
		return srcU(u)
	default:
		return srcF(stepFloat(nearestFloat(v), r.Intn(9)-4))
	}
}

// boolean words: every spelling strconv.ParseBool takes, the words other
// parsers take, near misses - in every casing, now and then padded
var boolWords = []string{"1", "0", "t", "f", "true", "false", "on", "off", "yes", "no", "y", "n", "enable", "disabled", "2", "tru", "of", "nope", "00", "01", "-1", "-0", "+1", "1.0"}

func randomBoolWord(r *rand.Rand) string {
	w := boolWords[r.Intn(len(boolWords))]
	switch r.Intn(5) {
	case 0: // as it is
	case 1:
		w = strings.ToUpper(w)
	case 2:
		w = strings.ToUpper(w[:1]) + w[1:]
	default:
		b := []byte(w)
		for i := range b {
			if r.Intn(2) == 0 {
				b[i] = strings.ToUpper(string(b[i]))[0]
			}
		}
		w = string(b)
	}
	if r.Intn(8) == 0 {
		w = []string{" ", "\t", ""}[r.Intn(3)] + w + []string{" ", "\n", ""}[r.Intn(3)]
	}
	return w
}

// ---------------------------------------------------------------------------
// value classes (for the distinct-case keys)

func intClass(v *big.Int) string {
	s := "+"
	if v.Sign() < 0 {
		s = "-"
	}
	return fmt.Sprintf("%sb%d", s, v.BitLen())
}

func floatClass(f float64) string {
	switch {
	case math.IsNaN(f):
		return "NaN"
	case math.IsInf(f, 1):
		return "+Inf"
	case math.IsInf(f, -1):
		return "-Inf"
	case f == 0:
		return "0"
	}
	s := "+"
	if f < 0 {
		s = "-"
	}
	_, e := math.Frexp(f)
	switch {
	case e < -64:
		e = -1000
	case e < 0:
		e = -1
	case e > 130:
		e = 1000
	case e > 66:
		e = e / 8 * 8
	}
	fr := ""
	if f != math.Trunc(f) {
		fr = "."
	}
	return fmt.Sprintf("%se%d%s", s, e, fr)
}

func stringSyntax(s string) string {
	l := strings.ToLower(strings.TrimLeft(s, "+-"))
	switch {
	case strings.HasPrefix(l, "0x"):
		return "hex"
	case strings.HasPrefix(l, "0b"):
		return "bin"
	case strings.HasPrefix(l, "0o"):
		return "oct"
	case strings.Contains(l, "_"):
		return "uscore"
	case len(l) > 1 && l[0] == '0' && strings.Trim(l, "01234567") == "":
		return "oct0"
	case strings.HasPrefix(s, "+"):
		return "plus"
	case strings.ContainsAny(l, "e."):
		return "flt"
	}
	return "dec"
}

// valueClass buckets a source value; trivial values (zero, empty) return ok=false.
func valueClass(s src) (string, bool) {
	switch s.kind {
	case 'i':
		return "i" + intClass(big.NewInt(s.i)), s.i != 0
	case 'u':
		return "u" + intClass(new(big.Int).SetUint64(s.u)), s.u != 0
	case 'f':
		return "f" + floatClass(s.f), s.f != 0
	case 'b':
		return "b" + strconv.FormatBool(s.b), s.b
	}
	if v, _, _, _ := parseIntAny(s.s); v != nil {
		return "s" + stringSyntax(s.s) + ":i" + intClass(v), v.Sign() != 0
	}
	if f, err := strconv.ParseFloat(s.s, 64); err == nil || isRange(err) {
		return "s" + stringSyntax(s.s) + ":f" + floatClass(f), f != 0
	}
	if e := expect(s, kindBy["duration"]); e.mode == mExact {
		return "sdur:" + intClass(e.ints[0]), e.ints[0].Sign() != 0
	}
	if e := expect(s, kindBy["bool"]); e.mode == mExact {
		return "sbool", true
	}
	if strings.TrimSpace(s.s) == "" {
		return "sblank", false
	}
	return "sjunk", true
}
