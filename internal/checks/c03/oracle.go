package c03

import (
	"errors"
	"fmt"
	"math"
	"math/big"
	"reflect"
	"strconv"
	"strings"
	"time"
)

// ---------------------------------------------------------------------------
// target kinds

const (
	cBool = iota
	cInt
	cUint
	cFloat
	cString
	cDur
)

type tkind struct {
	name     string
	class    int
	plain    reflect.Type
	named    reflect.Type // nil: no named variant is generated
	bits     int
	min, max *big.Int // integer classes and Duration (nanoseconds)
	monitor  bool     // outside the property's quantifier: converted and counted, never judged
}

type myBool bool
type myInt int
type myInt8 int8
type myInt16 int16
type myInt32 int32
type myInt64 int64
type myUint uint
type myUint8 uint8
type myUint16 uint16
type myUint32 uint32
type myUint64 uint64
type myFloat32 float32
type myFloat64 float64
type myString string
type myDuration time.Duration

var (
	kinds   []*tkind
	kindBy  = map[string]*tkind{}
	pow2    = func(k uint) *big.Int { return new(big.Int).Lsh(big.NewInt(1), k) }
	bigOne  = big.NewInt(1)
	bigE9   = big.NewInt(1000000000)
	fltE9   = new(big.Float).SetPrec(256).SetInt64(1000000000)
	fltOne  = new(big.Float).SetPrec(256).SetInt64(1)
	maxF32  = float64(math.MaxFloat32)
	minI64b = new(big.Int).Neg(pow2(63))
	maxI64b = new(big.Int).Sub(pow2(63), bigOne)
	maxU64b = new(big.Int).Sub(pow2(64), bigOne)
)

func initKinds() {
	add := func(name string, class int, plain, named interface{}) {
		t := &tkind{name: name, class: class, plain: reflect.TypeOf(plain)}
		if named != nil {
			t.named = reflect.TypeOf(named)
		}
		switch class {
		case cInt, cDur:
			t.bits = t.plain.Bits()
			t.min = new(big.Int).Neg(pow2(uint(t.bits - 1)))
			t.max = new(big.Int).Sub(pow2(uint(t.bits-1)), bigOne)
		case cUint:
			t.bits = t.plain.Bits()
			t.min = big.NewInt(0)
			t.max = new(big.Int).Sub(pow2(uint(t.bits)), bigOne)
		case cFloat:
			t.bits = t.plain.Bits()
		}
		kinds = append(kinds, t)
		kindBy[name] = t
	}
	add("bool", cBool, false, myBool(false))
	add("int", cInt, int(0), myInt(0))
	add("int8", cInt, int8(0), myInt8(0))
	add("int16", cInt, int16(0), myInt16(0))
	add("int32", cInt, int32(0), myInt32(0))
	add("int64", cInt, int64(0), myInt64(0))
	add("uint", cUint, uint(0), myUint(0))
	add("uint8", cUint, uint8(0), myUint8(0))
	add("uint16", cUint, uint16(0), myUint16(0))
	add("uint32", cUint, uint32(0), myUint32(0))
	add("uint64", cUint, uint64(0), myUint64(0))
	add("float32", cFloat, float32(0), myFloat32(0))
	add("float64", cFloat, float64(0), myFloat64(0))
	add("string", cString, "", myString(""))
	// the quantifier names "time.Duration, pointer-to and named variants of
	// them": a named type over time.Duration is a duration (5 means 5s)
	add("duration", cDur, time.Duration(0), myDuration(0))
	// not one of the fourteen kinds the property holds for: monitors only
	add("uintptr", cUint, uintptr(0), nil)
	kindBy["uintptr"].monitor = true
}

// ---------------------------------------------------------------------------
// source values

type src struct {
	kind byte // 'i' int64, 'u' uint64, 'f' float64, 's' string, 'b' bool
	i    int64
	u    uint64
	f    float64
	s    string
	b    bool
	// the Go INPUT type the value is handed to NewFrom / Merge as (goinput.go);
	// Invalid: the widest one of the family (int64, uint64, float64). The value
	// is always exactly representable in it: the mathematical value of the
	// setting does not depend on the Go type that carried it.
	gk    reflect.Kind
	shape int // container the typed value travels in (goinput.go)
}

func (s src) goValue() interface{} {
	switch s.kind {
	case 'i':
		if s.gk != reflect.Invalid {
			return reflect.ValueOf(s.i).Convert(goTypes[s.gk]).Interface()
		}
		return s.i
	case 'u':
		if s.gk != reflect.Invalid {
			return reflect.ValueOf(s.u).Convert(goTypes[s.gk]).Interface()
		}
		return s.u
	case 'f':
		if s.gk == reflect.Float32 {
			return float32(s.f)
		}
		return s.f
	case 's':
		return s.s
	}
	return s.b
}

func (s src) kindName() string {
	switch s.kind {
	case 'i':
		return "int"
	case 'u':
		return "uint"
	case 'f':
		return "float"
	case 's':
		return "string"
	}
	return "bool"
}

func (s src) String() string {
	if s.gk != reflect.Invalid {
		t := s
		t.gk = reflect.Invalid
		return fmt.Sprintf("Go %s input %s of %s", s.gk, shapeNames[s.shape], t.String())
	}
	switch s.kind {
	case 'i':
		return fmt.Sprintf("int64(%d)", s.i)
	case 'u':
		return fmt.Sprintf("uint64(%d)", s.u)
	case 'f':
		if math.IsNaN(s.f) || math.IsInf(s.f, 0) {
			return fmt.Sprintf("float64(%v)", s.f)
		}
		return fmt.Sprintf("float64(%s = %s)", strconv.FormatFloat(s.f, 'g', -1, 64), strconv.FormatFloat(s.f, 'x', -1, 64))
	case 's':
		return fmt.Sprintf("string(%q)", s.s)
	}
	return fmt.Sprintf("bool(%v)", s.b)
}

// num is the mathematical reading of a numeric setting.
type num struct {
	isFloat bool
	v       *big.Int
	f       float64
}

func (s src) num() (num, bool) {
	switch s.kind {
	case 'i':
		return num{v: big.NewInt(s.i)}, true
	case 'u':
		return num{v: new(big.Int).SetUint64(s.u)}, true
	case 'f':
		return num{isFloat: true, f: s.f}, true
	}
	return num{}, false
}

// ---------------------------------------------------------------------------
// expectation

const (
	mExact    = iota // must succeed with one of the listed values (or may fail: only "strict" failures are reported)
	mErr             // the statement says: always an error
	mEither          // an error, or one of the listed values
	mUnpinned        // the statement does not say; nothing is compared
)

type expectation struct {
	mode      int
	why       string // mErr: classifier tag of the reason
	ints      []*big.Int
	flts      []float64
	str       *string
	fstr      *float64 // string target from a float: must parse back to this float
	exactv    *big.Int // string target, text routes: a numeral whose exact value is this integer
	neighbour *big.Int // mErr, text routes: the integer value of the float64 next to an integer no 64 bit type holds
	b         *bool
	real      *big.Float // Duration from float seconds: exact real nanoseconds
	realTol   bool       // accept |stored-real| < 1ns
	truncated bool
	rounded   bool     // float target: the real value is not representable, the nearest one is expected
	strict    bool     // an error here is a "spurious error"
	decimal   *float64 // float target, a numeral both syntaxes read differently ("010"): what it is as a decimal floating point text
}

func errExp(why string) expectation { return expectation{mode: mErr, why: why} }

func inRange(v *big.Int, t *tkind) bool { return v.Cmp(t.min) >= 0 && v.Cmp(t.max) <= 0 }

// btag names the boundary an out-of-range integer sits on: the first value
// past the target's maximum (2^7 for int8, 2^64 for uint64), the 64-bit
// intermediates 2^63 / 2^64 / -2^63-1 the conversions pass through, the value
// just below the minimum, or simply above/below.
func btag(v *big.Int, t *tkind) string {
	switch {
	case v.Cmp(new(big.Int).Add(t.max, bigOne)) == 0:
		return fmt.Sprintf("2^%d", v.BitLen()-1)
	case v.Cmp(pow2(63)) == 0:
		return "2^63"
	case v.Cmp(pow2(64)) == 0:
		return "2^64"
	case v.Cmp(new(big.Int).Sub(t.min, bigOne)) == 0:
		return "min-1"
	case v.Cmp(new(big.Int).Sub(minI64b, bigOne)) == 0:
		return "-2^63-1"
	case v.Cmp(t.max) > 0:
		return "above-max"
	}
	return "below-min"
}

func truncBig(f float64) *big.Int {
	z, _ := new(big.Float).SetFloat64(f).Int(nil)
	return z
}

func bigFloatOfInt(v *big.Int) *big.Float {
	return new(big.Float).SetPrec(256).SetInt(v)
}

func cmpFloatInt(f float64, v *big.Int) int {
	return new(big.Float).SetFloat64(f).Cmp(bigFloatOfInt(v))
}

func expectNum(n num, t *tkind) expectation {
	switch t.class {
	case cBool:
		return expectation{mode: mUnpinned}
	case cString:
		if !n.isFloat {
			s := n.v.String()
			return expectation{mode: mExact, str: &s}
		}
		f := n.f
		return expectation{mode: mExact, fstr: &f}
	case cInt, cUint:
		if !n.isFloat {
			if t.class == cUint && n.v.Sign() < 0 {
				return errExp("negative")
			}
			if !inRange(n.v, t) {
				return errExp(btag(n.v, t))
			}
			return expectation{mode: mExact, ints: []*big.Int{n.v}, strict: true}
		}
		switch {
		case math.IsNaN(n.f):
			return errExp("NaN")
		case math.IsInf(n.f, 1):
			return errExp("+Inf")
		case math.IsInf(n.f, -1):
			return errExp("-Inf")
		}
		if t.class == cUint && n.f < 0 {
			return errExp("negative")
		}
		tr := truncBig(n.f)
		if !inRange(tr, t) {
			return errExp(btag(tr, t))
		}
		frac := n.f != math.Trunc(n.f)
		e := expectation{mode: mExact, ints: []*big.Int{tr}, truncated: frac}
		if frac && (cmpFloatInt(n.f, t.max) > 0 || cmpFloatInt(n.f, t.min) < 0) {
			// e.g. 127.9 into int8: the truncated value fits, the real number
			// does not; the statement can be read both ways
			e.mode = mEither
		}
		return e
	case cDur:
		if !n.isFloat {
			ns := new(big.Int).Mul(n.v, bigE9)
			if !inRange(ns, t) {
				if ns.Sign() > 0 {
					return errExp("above-max")
				}
				return errExp("below-min")
			}
			return expectation{mode: mExact, ints: []*big.Int{ns}}
		}
		switch {
		case math.IsNaN(n.f):
			return errExp("NaN")
		case math.IsInf(n.f, 1):
			return errExp("+Inf")
		case math.IsInf(n.f, -1):
			return errExp("-Inf")
		}
		p := new(big.Float).SetPrec(256).Mul(new(big.Float).SetPrec(256).SetFloat64(n.f), fltE9)
		tr, _ := p.Int(nil)
		if !inRange(tr, t) {
			e := errExp("above-max")
			if tr.Sign() < 0 {
				e.why = "below-min"
			}
			e.real = p
			return e
		}
		if p.IsInt() {
			return expectation{mode: mExact, ints: []*big.Int{tr}, real: p}
		}
		return expectation{mode: mExact, real: p, realTol: true, truncated: true}
	case cFloat:
		if !n.isFloat {
			bf := bigFloatOfInt(n.v)
			w64, acc := bf.Float64()
			if t.bits == 64 {
				return expectation{mode: mExact, flts: []float64{w64}, strict: acc == big.Exact, rounded: acc != big.Exact}
			}
			w32, acc32 := bf.Float32()
			// rounding once or via float64 (as Go's own int->float64->float32
			// chain does) both stay next to the real value
			return expectation{mode: mExact, flts: []float64{float64(w32), float64(float32(w64))}, rounded: acc32 != big.Exact}
		}
		if t.bits == 64 {
			return expectation{mode: mExact, flts: []float64{n.f}, strict: true}
		}
		if math.IsNaN(n.f) || math.IsInf(n.f, 0) {
			return expectation{mode: mExact, flts: []float64{n.f}}
		}
		if math.Abs(n.f) > maxF32 {
			if n.f > 0 {
				return errExp("above-maxfloat32")
			}
			return errExp("below-minfloat32")
		}
		// a value a float32 holds exactly must come back from a float32 target
		exact := float64(float32(n.f)) == n.f
		return expectation{mode: mExact, flts: []float64{float64(float32(n.f))}, rounded: !exact, strict: exact}
	}
	return expectation{mode: mUnpinned}
}

func isRange(err error) bool { return err != nil && errors.Is(err, strconv.ErrRange) }
func relax(e expectation) expectation {
	if e.mode == mExact {
		e.mode = mEither
	}
	e.strict = false
	return e
}

// words people (and other parsers: YAML 1.1, the expansion/flag parser) read
// as booleans; strconv.ParseBool takes only 1 t T TRUE true True 0 f F FALSE false False
var lenientBool = map[string]bool{"on": true, "off": true, "yes": true, "no": true, "y": true, "n": true,
	"true": true, "false": true, "t": true, "f": true, "enable": true, "disable": true, "enabled": true, "disabled": true}

// boolWord: a boolean word in any casing, possibly padded with blanks
func boolWord(s string) bool { return lenientBool[strings.ToLower(strings.TrimSpace(s))] }

// parseIntAny reads s as an integer in strconv's base-0 syntax, signed or unsigned.
func parseIntAny(s string) (v *big.Int, okInt, okUint bool, rangeErr bool) {
	vi, ei := strconv.ParseInt(s, 0, 64)
	vu, eu := strconv.ParseUint(s, 0, 64)
	switch {
	case ei == nil:
		v = big.NewInt(vi)
	case eu == nil:
		v = new(big.Int).SetUint64(vu)
	}
	return v, ei == nil, eu == nil, isRange(ei) || isRange(eu)
}

func expect(s src, t *tkind) expectation {
	if n, ok := s.num(); ok {
		return expectNum(n, t)
	}
	if s.kind == 'b' {
		switch t.class {
		case cBool:
			b := s.b
			return expectation{mode: mExact, b: &b}
		case cString:
			str := strconv.FormatBool(s.b)
			return expectation{mode: mExact, str: &str}
		}
		return expectation{mode: mUnpinned}
	}
	// string setting
	str := s.s
	switch t.class {
	case cString:
		return expectation{mode: mExact, str: &str}
	case cBool:
		if b, err := strconv.ParseBool(str); err == nil {
			return expectation{mode: mExact, b: &b}
		}
		if boolWord(str) {
			// "a string that does not parse is always an error": a STRING setting
			// is what strconv reads, whatever other word lists exist
			return errExp("boolean-word-strconv-refuses")
		}
		return errExp("unparsable-string")
	case cInt, cUint:
		v, okI, okU, rng := parseIntAny(str)
		if v != nil {
			e := expectNum(num{v: v}, t)
			e.strict = false
			primary := okI
			if t.class == cUint {
				primary = okU
			}
			if !primary {
				e = relax(e) // "+5" into an unsigned: strconv.ParseUint rejects the sign, ParseInt does not
			}
			return e
		}
		if rng {
			return errExp("out-of-range-string")
		}
		if f, err := strconv.ParseFloat(str, 64); err == nil {
			// "1e3", "1.5": not integer syntax; an error, or the float rule
			return relax(expectNum(num{isFloat: true, f: f}, t))
		}
		return errExp("unparsable-string")
	case cFloat:
		f, err := strconv.ParseFloat(str, 64)
		if v, _, _, _ := parseIntAny(str); err == nil && v != nil && f != nearestFloat(v) {
			// "010": 8 for every integer target (base 0, Go's own literal
			// syntax), 10 as a floating point text. A setting has ONE
			// mathematical value: a float target holds the integer's value or fails.
			e := relax(expectNum(num{v: v}, t))
			e.decimal = &f
			return e
		}
		if err == nil {
			e := expectNum(num{isFloat: true, f: f}, t)
			e.strict = false
			if t.bits == 32 && e.mode != mErr {
				if f32, err := strconv.ParseFloat(str, 32); err == nil {
					e.flts = append(e.flts, f32)
				}
			}
			return e
		}
		if isRange(err) {
			return errExp("out-of-range-string")
		}
		if v, _, _, _ := parseIntAny(str); v != nil {
			return relax(expectNum(num{v: v}, t)) // "0x10", "0b11": integer syntax only
		}
		return errExp("unparsable-string")
	case cDur:
		if d, err := time.ParseDuration(str); err == nil {
			return expectation{mode: mExact, ints: []*big.Int{big.NewInt(int64(d))}}
		}
		if v, _, _, _ := parseIntAny(str); v != nil {
			return relax(expectNum(num{v: v}, t)) // a bare number of seconds
		}
		if f, err := strconv.ParseFloat(str, 64); err == nil {
			return relax(expectNum(num{isFloat: true, f: f}, t))
		}
		return errExp("unparsable-string")
	}
	return expectation{mode: mUnpinned}
}

// ---------------------------------------------------------------------------
// comparing an observed value

func sameFloat(a, b float64) bool {
	if math.IsNaN(a) || math.IsNaN(b) {
		return math.IsNaN(a) && math.IsNaN(b)
	}
	return a == b
}

func gotInt(t *tkind, got reflect.Value) *big.Int {
	if t.class == cUint {
		return new(big.Int).SetUint64(got.Uint())
	}
	return big.NewInt(got.Int())
}

func describeGot(t *tkind, got reflect.Value) string {
	switch t.class {
	case cBool:
		return fmt.Sprint(got.Bool())
	case cString:
		return strconv.Quote(got.String())
	case cFloat:
		f := got.Float()
		if math.IsNaN(f) || math.IsInf(f, 0) {
			return fmt.Sprint(f)
		}
		return fmt.Sprintf("%s (%s)", strconv.FormatFloat(f, 'g', -1, 64), strconv.FormatFloat(f, 'x', -1, 64))
	case cDur:
		return fmt.Sprintf("%dns", got.Int())
	}
	return gotInt(t, got).String()
}

func (e *expectation) describe() string {
	var alts []string
	for _, v := range e.ints {
		alts = append(alts, v.String())
	}
	for _, f := range e.flts {
		alts = append(alts, fmt.Sprintf("%s (%s)", strconv.FormatFloat(f, 'g', -1, 64), strconv.FormatFloat(f, 'x', -1, 64)))
	}
	if e.str != nil {
		alts = append(alts, strconv.Quote(*e.str))
	}
	if e.exactv != nil {
		alts = append(alts, "a numeral of exactly "+e.exactv.String())
	}
	if e.fstr != nil {
		alts = append(alts, fmt.Sprintf("a string that parses back to %v", *e.fstr))
	}
	if e.b != nil {
		alts = append(alts, fmt.Sprint(*e.b))
	}
	if e.real != nil && len(e.ints) == 0 {
		alts = append(alts, "real "+e.real.Text('f', 3)+"ns")
	}
	what := strings.Join(alts, " or ")
	switch e.mode {
	case mErr:
		if e.real != nil {
			return "an error (" + e.why + ", exact " + e.real.Text('f', 3) + "ns)"
		}
		return "an error (" + e.why + ")"
	case mEither:
		return "an error or " + what
	case mUnpinned:
		return "unspecified"
	}
	return what
}

// matches reports whether a stored value is one the expectation allows.
func (e *expectation) matches(t *tkind, got reflect.Value) bool {
	switch t.class {
	case cBool:
		return e.b != nil && got.Bool() == *e.b
	case cString:
		if e.str != nil && got.String() == *e.str {
			return true
		}
		if e.exactv != nil {
			if v, ok := exactValue(got.String()); ok && v.IsInt() && v.Num().Cmp(e.exactv) == 0 {
				return true
			}
		}
		if e.fstr != nil {
			f, err := strconv.ParseFloat(got.String(), 64)
			return err == nil && sameFloat(f, *e.fstr)
		}
		return false
	case cFloat:
		g := got.Float()
		for _, f := range e.flts {
			if sameFloat(f, g) {
				return true
			}
		}
		return false
	case cInt, cUint, cDur:
		g := gotInt(t, got)
		for _, v := range e.ints {
			if v.Cmp(g) == 0 {
				return true
			}
		}
		if e.realTol && e.real != nil {
			return durDiff(e.real, g).Cmp(fltOne) < 0
		}
	}
	return false
}

func durDiff(p *big.Float, g *big.Int) *big.Float {
	d := new(big.Float).SetPrec(256).Sub(bigFloatOfInt(g), p)
	return d.Abs(d)
}

// withinFloat64Rounding: the stored nanoseconds are what rounding the product
// seconds*1e9 to a float64 explains (at most one float64 ulp from the real).
func withinFloat64Rounding(p *big.Float, g *big.Int) bool {
	pf, _ := p.Float64()
	a := math.Abs(pf)
	ulp := math.Nextafter(a, math.Inf(1)) - a
	if math.IsInf(ulp, 0) || math.IsNaN(ulp) {
		return false
	}
	return durDiff(p, g).Cmp(new(big.Float).SetFloat64(ulp)) <= 0
}

// deviation classifies a stored value that the expectation does not allow.
func (e *expectation) deviation(t *tkind, got reflect.Value) string {
	switch t.class {
	case cInt, cUint:
		g := gotInt(t, got)
		mod := pow2(uint(t.bits))
		for _, v := range e.ints {
			d := new(big.Int).Sub(v, g)
			if d.Sign() != 0 && new(big.Int).Mod(d, mod).Sign() == 0 {
				return "wraps"
			}
		}
		for _, v := range e.ints {
			// the integer went through a float64 on its way (53 bits survive)
			if v.Cmp(g) != 0 && truncBig(nearestFloat(v)).Cmp(g) == 0 {
				return "rounded-to-float64"
			}
		}
		return "wrong-value"
	case cString:
		if e.exactv != nil {
			if v, ok := exactValue(got.String()); ok && v.IsInt() {
				d := new(big.Int).Sub(v.Num(), e.exactv)
				if d.Sign() != 0 && new(big.Int).Mod(d, pow2(64)).Sign() == 0 {
					return "wraps"
				}
			}
			if f, err := strconv.ParseFloat(got.String(), 64); err == nil && f == nearestFloat(e.exactv) {
				return "rounded-to-float64"
			}
		}
		return "wrong-value"
	case cDur:
		g := gotInt(t, got)
		if e.real != nil && withinFloat64Rounding(e.real, g) {
			return "imprecise"
		}
		return "wrong-value"
	case cFloat:
		g := got.Float()
		for _, f := range e.flts {
			if t.bits == 32 {
				f32 := float32(f)
				if float64(math.Nextafter32(f32, float32(math.Inf(1)))) == g || float64(math.Nextafter32(f32, float32(math.Inf(-1)))) == g {
					return "misrounded"
				}
			} else if math.Nextafter(f, math.Inf(1)) == g || math.Nextafter(f, math.Inf(-1)) == g {
				return "misrounded"
			}
		}
		return "wrong-value"
	}
	return "wrong-value"
}

// nsReading: the number a setting denotes when it is NOT taken as seconds (what
// an int64 target would receive); nil when it has none.
func nsReading(s src) *big.Int {
	n, ok := s.num()
	if !ok {
		if s.kind != 's' {
			return nil
		}
		if v, _, _, _ := parseIntAny(s.s); v != nil {
			return v
		}
		f, err := strconv.ParseFloat(s.s, 64)
		if err != nil {
			return nil
		}
		n = num{isFloat: true, f: f}
	}
	if !n.isFloat {
		return n.v
	}
	if math.IsNaN(n.f) || math.IsInf(n.f, 0) {
		return nil
	}
	return truncBig(n.f)
}
