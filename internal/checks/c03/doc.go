// Package c03: see DESIGN.md section 3 C03.
package c03
