package c03

// Text routes: the setting's value is TEXT which the library reads again
// before it is unpacked - the result of a variable expansion that is more than
// a plain "${ref}" (default / alternative / error forms, text joined from
// several pieces), the answer of a resolver, or a -E style flag value.
//
// The reference does not know how the library types such text. It states what
// the property says about it: the text is a setting value "in a syntax strconv
// accepts", so a target either receives the mathematical value the numeral
// denotes (read by math/big and strconv, exactly) or an error.

import (
	"fmt"
	"math"
	"math/big"
	"math/rand"
	"strconv"
	"strings"
	"unicode/utf8"

	ucfg "github.com/elastic/go-ucfg"
	uflag "github.com/elastic/go-ucfg/flag"
	"github.com/elastic/go-ucfg/parse"
)

// safeText: the class of texts whose reading does not depend on the splice
// syntax (no $ { } :), on the list/object/quoting syntax of values
// (no , [ ] { } " ' or white space) or on the null word - what is left is a
// word: a numeral in any spelling, a duration, a boolean word or junk.
func safeText(t string) bool {
	if t == "" || strings.EqualFold(t, "null") {
		return false
	}
	for _, c := range t {
		switch {
		case c >= '0' && c <= '9', c >= 'a' && c <= 'z', c >= 'A' && c <= 'Z':
		case c == '+', c == '-', c == '.', c == '_', c == 'µ', c == 'μ':
		default:
			return false
		}
	}
	return true
}

type textInfo struct {
	class string   // int (fits int64 or uint64), bigint, float, floatrange, bool, word
	v     *big.Int // int, bigint: the integer in Go's base-0 syntax
	f     float64  // float; int, bigint when hasF: what the text means as a floating point text
	hasF  bool
}

func classifyText(t string) textInfo {
	if v, ok := new(big.Int).SetString(t, 0); ok {
		ti := textInfo{class: "int", v: v}
		if !fitsI64(v) && !fitsU64(v) {
			ti.class = "bigint"
		}
		if f, err := strconv.ParseFloat(t, 64); err == nil {
			ti.f, ti.hasF = f, true
		}
		return ti
	}
	f, err := strconv.ParseFloat(t, 64)
	switch {
	case err == nil:
		return textInfo{class: "float", f: f, hasF: true}
	case isRange(err):
		return textInfo{class: "floatrange"}
	}
	if _, err := strconv.ParseBool(t); err == nil || boolWord(t) {
		return textInfo{class: "bool"}
	}
	return textInfo{class: "word"}
}

// textSyntax names the spelling of a numeral for signatures: an explicit plus
// sign first (no unsigned parser takes it), then the spelling of the digits.
func textSyntax(t string) string {
	if strings.HasPrefix(t, "+") {
		if rest := stringSyntax(t[1:]); rest != "dec" {
			return "plus-" + rest
		}
		return "plus"
	}
	return stringSyntax(t)
}

// exactValue reads a numeral exactly: integers in Go's base-0 syntax of any
// length, decimal and hexadecimal floating point texts as rationals.
func exactValue(t string) (*big.Rat, bool) {
	if v, ok := new(big.Int).SetString(t, 0); ok {
		return new(big.Rat).SetInt(v), true
	}
	if len(t) > 400 {
		return nil, false
	}
	if _, err := strconv.ParseFloat(t, 64); err != nil {
		return nil, false // not a number, or an exponent no float64 has
	}
	if strings.ContainsAny(t, "iInN") { // Inf, NaN
		return nil, false
	}
	r, ok := new(big.Rat).SetString(t)
	return r, ok
}

var unpinned = expectation{mode: mUnpinned}

// expectText: the expectation for a setting that reaches the target as text
// read again. Differences to expect(): an error is never "spurious"; a string
// target need not receive the spelling, but a numeral of exactly the same
// value (the same float64 for floating point texts); what the statement does
// not pin for typed values (number <-> bool) is not pinned for their texts.
func expectText(s src, t *tkind) expectation {
	e := expect(s, t)
	e.strict = false
	switch s.kind {
	case 'i', 'u':
		if t.class == cString {
			n, _ := s.num()
			return expectation{mode: mExact, exactv: n.v}
		}
		return e
	case 'f', 'b':
		return e
	}
	ti := classifyText(s.s)
	isInt := ti.class == "int" || ti.class == "bigint"
	switch t.class {
	case cString:
		str := s.s
		switch ti.class {
		case "int":
			// "012" is ten (one setting, one value: see expect, float targets)
			return expectation{mode: mExact, exactv: ti.v}
		case "bigint":
			// no integer setting type holds it: the float64 strconv reads it as
			// is the other reading such a numeral has
			x := expectation{mode: mExact, str: &str, exactv: ti.v}
			if ti.hasF {
				f := ti.f
				x.fstr = &f
			}
			return x
		case "float":
			f := ti.f
			return expectation{mode: mExact, str: &str, fstr: &f}
		case "bool":
			return unpinned
		}
		return e
	case cBool:
		if isInt || ti.class == "float" || ti.class == "floatrange" {
			return unpinned
		}
		if ti.class == "bool" && e.mode == mErr {
			// a word strconv refuses ("on"): which words the text->value step
			// of an expansion takes as booleans is its own documented list
			return unpinned
		}
		return e
	case cInt, cUint:
		switch ti.class {
		case "int":
			// by value: "+9223372036854775808" is 2^63 although neither
			// ParseInt (range) nor ParseUint (sign) reads it
			x := expectNum(num{v: ti.v}, t)
			x.strict = false
			if x.mode == mExact && e.mode != mExact {
				x.mode = mEither
			}
			return x
		case "bigint":
			// beyond every 64 bit integer type, so outside the range of every
			// integer target: always an error. (What parse.Value makes of such
			// a numeral is C17's business - the nearest float64; for nearly all
			// of them that float is out of range as well. Only in the band
			// -2^63-1024 .. -2^63-1 the float64 is -2^63, which an int64 holds:
			// the text -9223372036854775809 would arrive as -9223372036854775808.
			// That is classified on its own.)
			x := errExp("integer-beyond-64-bits")
			if ti.hasF && !math.IsInf(ti.f, 0) {
				x.neighbour = truncBig(ti.f)
			}
			return x
		}
	case cFloat:
		if isInt && e.mode != mErr {
			// the integer reading next to the floating point reading ("0x10";
			// for integers no 64 bit type holds also the decimal reading of "-01000...")
			if alt := expectNum(num{v: ti.v}, t); alt.mode != mErr {
				e.flts = append(e.flts, alt.flts...)
			}
		}
	}
	if ti.class == "bool" {
		return unpinned
	}
	return e
}

// ---------------------------------------------------------------------------
// constructions

type subChoice struct {
	viaSet   bool   // the referenced setting is stored with Set* (else a NewFrom literal)
	def      string // default text of the forms whose default must NOT be used
	split    int    // byte offset the text is cut at (joined forms), 0: cannot be cut
	litFirst bool   // literal text first, reference second
	pcfg     int    // parser configuration the resolver hands back
}

var defPool = []string{"0", "7", "-1", "x", "1e3"}

var parseCfgs = []struct {
	name string
	c    parse.Config
}{{"env", parse.EnvConfig}, {"default", parse.DefaultConfig}, {"noop", parse.NoopConfig}}

func drawSub(r *rand.Rand, text string) subChoice {
	sc := subChoice{viaSet: r.Intn(2) == 0, def: defPool[r.Intn(len(defPool))], litFirst: r.Intn(2) == 0, pcfg: r.Intn(len(parseCfgs))}
	if n := utf8.RuneCountInString(text); n >= 2 {
		k := 1 + r.Intn(n-1)
		for i := range text {
			if k == 0 {
				sc.split = i
				break
			}
			k--
		}
	}
	return sc
}

func resolverFor(text string, pc parse.Config) ucfg.Option {
	return ucfg.Resolve(func(name string) (string, parse.Config, error) {
		if name == "ENVX" {
			return text, pc, nil
		}
		return "", pc, ucfg.ErrMissing
	})
}

// textApplies: can value s (text: its known text, if it has one) go through
// construction cons?
func textApplies(cons int, s src, text string, hasText bool, sc subChoice) bool {
	switch cons {
	case xDefTaken, xErrTaken:
		return s.kind != 's' || safeText(s.s)
	}
	if !hasText {
		return false
	}
	switch cons {
	case xDefUsed:
		return text[0] != '+' && text[0] != '?' // ":+" and ":?" are other forms
	case xConcat, xLitRef:
		return sc.split > 0
	}
	return true
}

// buildText builds {f: E, m: {k: E}, l: [E]} where E evaluates to the text.
func buildText(s src, text string, cons int, sc subChoice) (*built, error) {
	b := &built{opts: varOpts}
	if cons == xFlag {
		b.opts = nil
		fv := uflag.NewFlagKeyValue(ucfg.New(), true, ucfg.PathSep("."))
		for _, a := range []string{"f=", "m.k=", "l.0="} {
			if err := fv.Set(a + text); err != nil {
				return nil, fmt.Errorf("flag %q: %w", a+text, err)
			}
		}
		if err := fv.Error(); err != nil {
			return nil, err
		}
		b.c = fv.Config()
		return b.children()
	}
	var e string
	extra := map[string]interface{}{}
	setSrc := false
	switch cons {
	case xDefTaken, xErrTaken:
		e = "${src:" + sc.def + "}"
		if cons == xErrTaken {
			e = "${src:?no value}"
		}
		if sc.viaSet {
			setSrc = true
		} else {
			extra["src"] = s.goValue()
		}
	case xDefUsed:
		e = "${absent:" + text + "}"
	case xAlt:
		e = "${other:+" + text + "}"
		extra["other"] = "set"
	case xConcat:
		e = "${hi}${lo}"
		extra["hi"], extra["lo"] = text[:sc.split], text[sc.split:]
	case xLitRef:
		if sc.litFirst {
			e = text[:sc.split] + "${lo}"
			extra["lo"] = text[sc.split:]
		} else {
			e = "${hi}" + text[sc.split:]
			extra["hi"] = text[:sc.split]
		}
	case xResolver, xResolverDef:
		e = "${ENVX}"
		if cons == xResolverDef {
			e = "${ENVX:" + sc.def + "}"
		}
		b.opts = append(append([]ucfg.Option{}, varOpts...), resolverFor(text, parseCfgs[sc.pcfg].c))
	}
	m := map[string]interface{}{"f": e, "m": map[string]interface{}{"k": e}, "l": []interface{}{e}}
	for k, v := range extra {
		m[k] = v
	}
	var err error
	if b.c, err = ucfg.NewFrom(m, b.opts...); err != nil {
		return nil, err
	}
	if setSrc {
		if err = setValue(b.c, s, "src", -1, b.opts); err != nil {
			return nil, err
		}
	}
	return b.children()
}
