package c03

import (
	"fmt"
	"sort"
	"testing"
)

func TestDbg(t *testing.T) {
	agg := map[string]int{}
	ex := map[string]string{}
	for i := 0; i < len(table); i++ {
		r := check{}.Run(1, "quick", i, false)
		for _, v := range r.Sets["outcome_by_pair"] {
			agg[v]++
			if _, ok := ex[v]; !ok {
				ex[v] = table[i].String()
			}
		}
	}
	var ks []string
	for k := range agg {
		ks = append(ks, k)
	}
	sort.Strings(ks)
	for _, k := range ks {
		fmt.Printf("%-45s %5d  e.g. %s\n", k, agg[k], ex[k])
	}
	fmt.Println("table", len(table))
}
