// Package c12: path-addressed reads, writes and removals behave like a tree.
package c12

import (
	"fmt"
	"math"
	"math/rand"
	"strconv"
	"strings"

	ucfg "github.com/elastic/go-ucfg"

	"verif/internal/gen"
	"verif/internal/harness"
	"verif/internal/model"
	"verif/internal/obs"
)

type check struct{}

func init() { harness.Register(check{}) }

func (check) ID() string { return "C12" }

func (check) Cases(tier string) int {
	if tier == "thorough" {
		return 200000
	}
	return 3000
}

func (check) Rule() string {
	return "histories of 5-40 operations (SetBool/Int/Uint/Float/String; SetChild of a fresh config, of a child handle - also the receiver itself or a config holding it -, of the history's own root into itself or one of its descendants, of a nil *Config; Remove; Merge of a container - mostly an empty list or dictionary - onto a nil (padding of a write beyond the end, explicit null) or a primitive found or made below the target, under the default, append, prepend and list-replace policies, kind probes compared with the same merge into an empty configuration; Merge of data or of a config of the history itself - the target, a part of it, a config holding it, or a disjoint one - under the default, append, prepend, list-replace and replace policies, one data merge in three with 0-2 per-field options Field{Merge,Append,Prepend}Values (FieldReplaceValues only under ReplaceValues) on dotted paths of names and list positions of containers that exist below the receiver, anywhere in the option list; a shaped Merge with 1-3 such options into a container below the target - mostly an element of a list - whose operand spells the way down, with child handles of that container and of containers below it taken right before the merge, followed by a write at that container through a handle older than the merge or through the parent; Child) over 16 overlapping addresses in both spellings (name+idx and dotted), one write in three at exactly the end of the addressed list, with and without PathSep, one history in five with a lowered MaxIdx(2|3) on every call and one in sixty starting from a list of more than 1024 elements (appending and overwriting above the maximum index), applied to the root and to child handles obtained mid-history (handles of containers, of nil settings, and handles kept across Merges that merge into the container they view); after EVERY step the whole tree is compared with the tree-store model (frame condition), every handle must still show its place, and 6 random addresses plus 2 addresses of existing settings are probed through String/Int/Uint/Float/Bool/Has/Child/CountField(address, with the separator: top-level names, dotted paths, index names)/IsDict/IsArray; writes are read back through the equivalent spelling. Non-trivial = history with at least 3 successful mutations touching overlapping addresses; distinct = distinct operation sequence."
}

func (check) Assumptions() []string {
	return []string{
		"tree-store model written from the statement (internal/model/store.go): set creates intermediates, writing past the end pads with nil, removing from a list shifts down, a primitive in the middle of a path is an error that changes nothing",
		"Merge on a plain tree (tree.go): where both sides are containers the contents are merged into the destination's container, which stays the object it was - a handle obtained before is a live view afterwards too; a handle is only given up when the setting it views was replaced (by a primitive, by a write through a nil, by a container over a nil) or removed; nil merged onto nil is nil",
		"a config returned by Child for a nil setting is a child config like any other: the first write through it must be visible through the parent (the nil becomes that container); of several handles taken from the same nil only the first one written through is followed",
		"CountField(address) is asked like a getter (same options): it must find what the getters find at the address; the number for an empty container is not pinned down (0 or 1), except for a list (without named settings) that lost its last element through Remove in this history: 0",
		"Merge policies on a plain tree: the settings that stay in the tree stay the objects they were (elements of a list appended or prepended to only move, child handles of them stay live); a replaced list or dictionary consists of new settings (handles of the old ones are given up)",
		"Merge with per-field options (fieldopt.go): which values result is C16's subject; the plain tree follows C16's statement - the policy of a setting is that of the longest option path that is a prefix of its path, the global one otherwise - restricted to what the in-place model expresses without a reading of its own: concrete paths (no wildcards) of stored names without '.', '*' or numerals, FieldMerge/Append/PrependValues under the default, append, prepend and list-replace policies, FieldReplaceValues only under ReplaceValues (where it changes nothing), no options on merges of a config of the history itself. Judged here is identity: a container merged into stays the object it was whatever options are configured at, above or below it",
		"a config handed to SetChild or Merge that is the receiver, a part of it or a config holding it is stored / merged as the finite snapshot of what it holds when the call is made; the stored child is asked by identity (Child returns the stored object) because reads of a config that holds itself do not return",
		"SetChild(nil) may be refused (nothing changes) or store a nil setting; above the maximum index a write beyond the end of the list (a jump) may be refused or pad - C07/C20 decide that, the history follows the library -, a write at the end or below it must succeed",
		"outside, not generated: Merge operands with dotted or index keys (how the padding nils of the normalised operand meet existing settings is C01's nil rule); numbers above MaxIdx or with EnableNumKeys spelled as a segment of a name (C20: such a segment is a name, so it is no spelling of the idx argument); settings with the empty name (the API documents name \"\" as 'idx addresses the list'); references (VarExp) below written addresses",
		"a removal affects only the addressed setting: IsDict/IsArray of the holder and of every live handle are asked before and after each Remove and must not change (a frame condition on the library alone)",
		"not demanded: error wording and error classes by depth; negative indices (C07/C20); what IsDict/IsArray answer in absolute terms for a part emptied by removals (also whether a copy keeps the kind of an emptied container); CountField of an empty dictionary",
		"a container merged by Merge onto a setting that holds no container (a padding nil, an explicit null, a primitive) takes its place as it is, exactly as at an address that holds nothing: IsArray / IsDict / CountField(\"\") / the holder's CountField(name) of it and of every container below it are compared with the same operand merged into an empty configuration (the absolute answers for empty containers stay unjudged)",
		"getter conversions only on small values (boundaries are C03)",
	}
}

var names = []string{"a", "b", "a.b", "a.c", "b.0", "a.b.c", "l", "l.1", "l.0.k", "0", "1", "a.1", "l.2", "b.a", "A", "a.B"}

type handle struct {
	c    *ucfg.Config
	n    *model.Node
	desc string
	// ofNil: obtained by Child of a nil setting
	ofNil bool
	// born: number of the step the handle was obtained in; via: the handle it
	// was obtained through (nil: the root)
	born int
	via  *handle
	// detached: an ofNil handle the library was seen not to attach on its first write
	detached bool
}

type hist struct {
	res     *harness.R
	r       *rand.Rand
	sep     string
	o       []ucfg.Option
	root    *handle
	handles []*handle
	nh      int
	stepNo  int
	// maxIdx: the MaxIdx option passed with every call of the history (1024: none)
	maxIdx int
	// big: the history started with a list of more than 1024 elements at bigName
	big     bool
	bigName string
	// stepClass: signature class of the operation of the current step, for the
	// deviations seen right after it ("" = by the deviation itself)
	stepClass string
	// overlapBefore: class of the last Merge of a config overlapping its target, overlapStep: its step
	overlapBefore string
	overlapStep   int
	// probeClass: set while the positions skipped by a write are asked; skipStep: the last step with such a write
	probeClass string
	skipStep   int
	// list elements moved up by a prepending Merge (number of the last such step)
	shifted map[*model.Node]int
	// containers a Merge merged into in place (number of the last such step) / nil nodes that came from nil merged onto nil
	mergedInto map[*model.Node]int
	nilOnNil   map[*model.Node]bool
	// options of the Merge being modelled / containers merged into in place by a
	// Merge that carried per-field options (number of the last such step) / the
	// write forced in the step after such a merge (fieldopt.go)
	fopts        []fopt
	mergedIntoFO map[*model.Node]int
	next         *follow
	// containers that were a nil setting until the first write through a child handle of that nil
	wasNil map[*model.Node]bool
	// lists that lost their last element through Remove
	emptied map[*model.Node]bool
	log     []string
	muts    int
	failed  bool
	verbose bool
}

func (h *hist) fail(sig, format string, a ...interface{}) {
	h.failed = true
	h.res.Violate(h.later(sig), "%s; sep=%q%s history=[%s]", fmt.Sprintf(format, a...), h.sep, h.optNote(), strings.Join(h.log, "; "))
}

// later: a deviation without a cause of its own, in a history that merged a
// config overlapping the target in an EARLIER step, is counted to that class
// (the two trees may have parted there in a way the canonical form hides).
func (h *hist) later(sig string) string {
	if h.probeClass != "" && !strings.HasPrefix(sig, h.probeClass) {
		// asked at a list position that a write has just skipped
		return h.probeClass + ":" + sig
	}
	if h.overlapBefore == "" || h.overlapStep == h.stepNo {
		return sig
	}
	switch sig {
	case "state-mismatch", "state-mismatch-after-write-through-child", "child-view-stale", "write-through-child-not-visible-in-parent",
		"getter-outcome", "getter-value", "getter-found-missing", "has-mismatch", "child-outcome", "getfields", "isdict", "isarray", "remove-outcome", "set-outcome":
		return h.overlapBefore + ":seen-later"
	}
	if strings.HasPrefix(sig, "countfield") {
		return h.overlapBefore + ":seen-later"
	}
	return sig
}

func (h *hist) optNote() string {
	if h.maxIdx != 1024 {
		return fmt.Sprintf(" MaxIdx(%d)", h.maxIdx)
	}
	return ""
}

// note reports a deviation of an observer that leaves the model and the
// library in step: the history goes on (other deviations stay reachable).
func (h *hist) note(sig, format string, a ...interface{}) {
	h.res.Violate(h.later(sig), "%s; sep=%q%s history=[%s]", fmt.Sprintf(format, a...), h.sep, h.optNote(), strings.Join(h.log, "; "))
}

func (h *hist) addr() (string, int) {
	name := names[h.r.Intn(len(names))]
	if h.sep != "" && h.sep != "." {
		name = strings.ReplaceAll(name, ".", h.sep)
	}
	idx := -1
	if h.r.Intn(3) == 0 {
		idx = h.r.Intn(4)
	}
	if h.r.Intn(12) == 0 {
		name = ""
		idx = h.r.Intn(3)
	}
	return name, idx
}

func (h *hist) live() []*handle {
	out := []*handle{h.root}
	for _, x := range h.handles {
		if model.Reachable(h.root.n, x.n) {
			out = append(out, x)
		}
	}
	return out
}

func smallTree(r *rand.Rand) *model.Node {
	o := gen.TreeOpts{Prims: []interface{}{"s", "17", "true", int64(-4), uint64(9), 2.5, true}}
	return gen.Top(r, o, 2)
}

func (check) Run(seed int64, tier string, idx int, verbose bool) harness.Result {
	res := harness.NewR(idx)
	r := rand.New(rand.NewSource(harness.Mix(seed, "C12", idx)))
	h := &hist{res: res, r: r, verbose: verbose, mergedInto: map[*model.Node]int{}, mergedIntoFO: map[*model.Node]int{}, nilOnNil: map[*model.Node]bool{}, wasNil: map[*model.Node]bool{}, emptied: map[*model.Node]bool{}, shifted: map[*model.Node]int{}, maxIdx: 1024}
	switch r.Intn(8) {
	case 0, 1:
	case 2:
		h.sep = "/" // another separator: the addresses are spelled with it
		h.o = []ucfg.Option{ucfg.PathSep("/")}
	case 3:
		h.sep = "::"
		h.o = []ucfg.Option{ucfg.PathSep("::")}
	default:
		h.sep = "."
		h.o = []ucfg.Option{ucfg.PathSep(".")}
	}
	if r.Intn(5) == 0 {
		// a lowered maximum index, passed with every call: indices above it can
		// not make a list jump, but appending and overwriting stay possible.
		// 2 and 3 are not below any index name of the address pool, so the
		// names parse as without the option.
		h.maxIdx = 2 + r.Intn(3)/2
		h.o = append(h.o, ucfg.MaxIdx(int64(h.maxIdx)))
		res.Ev("histories_with_lowered_maxidx", 1)
	}
	h.root = &handle{c: ucfg.New(), n: &model.Node{Kind: model.KSub}, desc: "root"}
	n := 5 + r.Intn(36)
	big := r.Intn(48) == 0 && h.maxIdx == 1024
	panicked, pv, where := harness.Safe(func() {
		if big {
			h.bigList()
			if n > 12 {
				n = 12
			}
		}
		for s := 0; s < n && !h.failed; s++ {
			h.step()
		}
	})
	if panicked {
		sig := "panic"
		if h.skipStep > 0 {
			sig = sigSkipped + ":panic-later"
		}
		h.fail(sig, "panic %q at %s", pv, where)
	}
	if h.muts >= 3 {
		res.Key(strings.Join(h.log, ";") + h.sep)
	}
	if idx < 2 {
		res.Sample = map[string]interface{}{"sep": h.sep, "maxidx": h.maxIdx, "history": h.log}
	}
	if verbose {
		fmt.Printf("sep=%q maxidx=%d\n%s\nfinal model: %s\n", h.sep, h.maxIdx, strings.Join(h.log, "\n"), h.root.n)
	}
	return res.Done()
}

func (h *hist) step() {
	r := h.r
	h.stepNo++
	targets := h.live()
	t := targets[r.Intn(len(targets))]
	if len(targets) > 1 && r.Intn(2) == 0 {
		t = targets[1+r.Intn(len(targets)-1)]
	}
	name, idx := h.addr()
	h.stepClass = ""
	// after a Merge with per-field options: a write at the container it merged
	// into, through a handle older than the merge or through the parent
	forced := false
	if f := h.next; f != nil {
		h.next = nil
		switch {
		case !f.fromParent && !f.x.detached && f.x.n.IsSub() && model.Reachable(h.root.n, f.x.n):
			t, forced = f.x, true
			h.res.Ev("writes_forced_after_field_option_merge:through-handle-older-than-the-merge", 1)
		case f.fromParent && f.n.IsSub() && model.Reachable(h.root.n, f.n):
			if p, ok := pathTo(h.root.n, f.n); ok {
				if c := h.libAt(p); c != nil {
					t, forced = &handle{c: c, n: f.n, desc: "Child(" + model.PathString(p) + ") asked afresh", born: h.stepNo}, true
					h.res.Ev("writes_forced_after_field_option_merge:through-the-parent", 1)
				}
			}
		}
		if forced {
			name, idx = []string{"a", "b", "c", "A"}[r.Intn(4)], -1
		}
	}
	if h.big && r.Intn(2) == 0 && !forced {
		name, idx = h.bigName, -1 // the long list
	}
	if !forced && (r.Intn(4) == 0 || ((h.big || h.maxIdx != 1024) && r.Intn(3) == 0)) {
		// exactly at the end of the list addressed by name (the plain append)
		if l, ok := h.lenAt(t.n, name); ok {
			idx = l
		}
	}
	fs := model.ParsePath(name, idx, h.sep)
	// what a mutation through a child handle must show through the parent
	var mutated, firstViaNil bool
	var mustHave [][]model.Fld
	op := r.Intn(16)
	shaped := op == 10 && r.Intn(3) > 0
	if forced {
		op, shaped = 0, false
	}
	var crossName, crossWName string // address of an empty container that got settings of the other kind in this step, and of the setting
	var crossWIdx int
	var crossed bool
	switch {
	case op < 6: // set
		var err error
		var val *model.Node
		var what string
		var ownRoot, nilArg, skipSet bool
		kind := r.Intn(10)
		if forced {
			kind = r.Intn(5)
		}
		if kind == 8 && r.Intn(3) > 0 {
			kind = 7 // (a config that holds itself ends the history on a tree that links it)
		}
		switch kind {
		case 0:
			x := int64(r.Intn(100) - 50)
			err = t.c.SetInt(name, idx, x, h.o...)
			val, what = model.P(x), fmt.Sprintf("SetInt(%d)", x)
		case 1:
			x := []string{"s1", "17", "true", "1.5", "", "x.y"}[r.Intn(6)]
			err = t.c.SetString(name, idx, x, h.o...)
			val, what = model.P(x), fmt.Sprintf("SetString(%q)", x)
		case 2:
			x := r.Intn(2) == 0
			err = t.c.SetBool(name, idx, x, h.o...)
			val, what = model.P(x), fmt.Sprintf("SetBool(%v)", x)
		case 3:
			x := uint64(r.Intn(50))
			err = t.c.SetUint(name, idx, x, h.o...)
			val, what = model.P(x), fmt.Sprintf("SetUint(%d)", x)
		case 4:
			x := []float64{2.5, -1.5, 3, 0}[r.Intn(4)]
			err = t.c.SetFloat(name, idx, x, h.o...)
			val, what = model.P(x), fmt.Sprintf("SetFloat(%v)", x)
		case 5:
			// hand an already parented config (a live child handle, possibly a
			// direct child of the very config written to) to SetChild: the tree
			// gets a copy, the handle stays a view of its old place
			lv := h.live()
			if len(lv) < 2 {
				return
			}
			src := lv[1+r.Intn(len(lv)-1)]
			if src.detached {
				return
			}
			if src == t || model.Reachable(src.n, t.n) {
				// the receiver itself or a config it is a part of: what it
				// holds NOW is stored (a tree holds a finite snapshot)
				h.stepClass = "setchild-of-receiver-or-ancestor"
				h.res.Ev("setchild_of_receiver_or_ancestor_handle", 1)
			}
			val, what = h.copyTree(src.n), fmt.Sprintf("SetChild(handle %s=%s)", src.desc, src.n)
			err = t.c.SetChild(name, idx, src.c, h.o...)
			if src.n.Kind == model.KNil {
				val = &model.Node{Kind: model.KSub} // the config seen through a nil is an empty one
			}
			h.res.Ev("setchild_of_parented_handle", 1)
		case 8:
			// the root itself, into itself or into one of its own descendants
			ownRoot = true
			h.stepClass = "setchild-of-receiver-or-ancestor"
			h.res.Ev("setchild_of_own_root", 1)
			val, what = h.copyTree(h.root.n), fmt.Sprintf("SetChild(the root=%s)", h.root.n)
			h.log = append(h.log, fmt.Sprintf("%s.%s@(%q,%d)...", t.desc, what, name, idx))
			err = t.c.SetChild(name, idx, h.root.c, h.o...)
			h.log = h.log[:len(h.log)-1]
		case 9:
			// no config at all: an error or a nil setting, never a panic
			nilArg = true
			val, what = model.Nil(), "SetChild(nil)"
			h.res.Ev("setchild_of_nil_config", 1)
			if p, pv, _ := harness.Safe(func() { err = t.c.SetChild(name, idx, nil, h.o...) }); p {
				// (before anything was touched: the history goes on, nothing may have changed)
				h.log = append(h.log, fmt.Sprintf("%s.%s@(%q,%d)", t.desc, what, name, idx))
				h.note("panic:SetChild:nil-config", "panic %q", pv)
				h.res.SetAdd("op", "set-rejected")
				skipSet = true
			}
		default:
			sub := smallTree(r)
			if r.Intn(4) == 0 {
				// an empty list or an empty dictionary (what settings of the
				// other kind are written into later, see the cross-kind step)
				sub = []*model.Node{model.List(), model.Dict()}[r.Intn(2)]
				h.res.Ev("setchild_of_empty_container", 1)
			}
			sc, e := ucfg.NewFrom(sub.ToGo())
			if e != nil {
				h.fail("newfrom-error", "NewFrom(%s) failed: %v", sub, e)
				return
			}
			err = t.c.SetChild(name, idx, sc, h.o...)
			val, what = sub.Copy(), fmt.Sprintf("SetChild(%s)", sub)
			if err == nil && r.Intn(2) == 0 {
				// the config passed to SetChild is the child now: keep it as a live handle
				defer func(v *model.Node) {
					if !h.failed && !t.detached {
						h.handles = append(h.handles, &handle{c: sc, n: v, desc: "setchild-handle", born: h.stepNo, via: t})
					}
				}(val)
			}
		}
		h.res.Eval(1)
		if skipSet {
			break
		}
		h.log = append(h.log, fmt.Sprintf("%s.%s@(%q,%d)", t.desc, what, name, idx))
		if nilArg && err != nil {
			// refused: nothing may have changed (the frame comparison below)
			h.res.SetAdd("op", "set-rejected")
			break
		}
		if idx >= 0 && idx > h.maxIdx {
			if l := h.holderLen(t.n, fs); idx > l {
				// above the maximum index a list can not be made to jump; whether
				// such a write is refused (nothing changes) or pads is C07/C20's
				// business, the history follows the library
				h.res.Ev("jumps_above_maxidx", 1)
				if err != nil {
					h.res.SetAdd("op", "set-rejected")
					break
				}
			} else if idx == l {
				h.res.Ev("appends_at_end_above_maxidx:"+map[bool]string{true: "default-1024", false: "lowered"}[h.maxIdx == 1024], 1)
			} else {
				h.res.Ev("overwrites_above_maxidx", 1)
			}
		}
		viaNil := t.n.Kind == model.KNil
		if viaNil {
			t.n.Kind = model.KSub // the nil viewed by t becomes the container written to
		}
		ok := model.Set(t.n, fs, val)
		if viaNil {
			if ok {
				h.written(t)
				firstViaNil = true
			} else {
				t.n.Kind = model.KNil
			}
		}
		if ok != (err == nil) {
			sig := "set-outcome"
			if ok && idx >= 0 && idx > h.maxIdx {
				sig = "write-at-or-below-the-end-refused-above-maxidx"
			}
			h.fail(sig, "write outcome: model ok=%v, library err=%v", ok, err)
			return
		}
		if p := obs.TypedErrorProblem(err); p != "" {
			h.res.Violate("untyped-error", "%s", p)
		}
		if ok && (ownRoot || h.stepClass != "") {
			// what is stored must be a snapshot, not the config itself: the
			// question is asked by identity, because every read that needs a
			// path would never return from a config that is its own descendant
			if ch, cerr := t.c.Child(name, idx, h.o...); cerr == nil && (ch == h.root.c || ch == t.c) {
				h.fail("setchild-of-receiver-or-ancestor-links-the-config-itself", "the config stored at (%q,%d) is the %s itself: the tree is its own descendant now", name, idx, map[bool]string{true: "root", false: "receiver"}[ch == h.root.c])
				return
			}
		}
		if ok {
			h.muts++
			mutated, mustHave = true, [][]model.Fld{fs}
			h.res.SetAdd("op", "set")
			// read back through the equivalent spelling
			if h.sep != "" && idx >= 0 && idx <= h.maxIdx && name != "" {
				alt := name + h.sep + strconv.Itoa(idx)
				h.probeAt(t, alt, -1, "readback-equivalent-spelling")
			}
			h.probeAt(t, name, idx, "readback")
		} else {
			h.res.SetAdd("op", "set-rejected")
		}
	case op < 9: // remove
		h.log = append(h.log, fmt.Sprintf("%s.Remove(%q,%d)", t.desc, name, idx))
		kinds := h.kindsBefore(t, fs)
		got, err := t.c.Remove(name, idx, h.o...)
		h.res.Eval(1)
		want, isErr := model.Remove(t.n, fs)
		if got != want || isErr != (err != nil) {
			h.fail("remove-outcome", "Remove returned (%v,%v), model (%v, err=%v)", got, err, want, isErr)
			return
		}
		if h.kindsAfter(kinds, want, !fs[len(fs)-1].IsI); h.failed {
			return
		}
		if want {
			h.muts++
			mutated = true
			h.res.SetAdd("op", "remove")
			if fs[len(fs)-1].IsI {
				h.res.Ev("remove_from_list", 1)
				if holder, e := holderOf(t.n, fs); e && len(holder.A) == 0 {
					h.emptied[holder] = true
					h.res.Ev("lists_emptied_by_remove", 1)
				}
			}
		}
	case shaped: // a Merge with per-field options into a container below t (fieldopt.go)
		var m bool
		if m, mustHave = h.fieldOptMerge(t); !m {
			return
		}
		mutated = true
	case op < 11: // merge
		pol, polOpt, polName := model.PDefault, []ucfg.Option(nil), ""
		switch r.Intn(8) {
		case 0:
			pol, polOpt, polName = model.PAppend, []ucfg.Option{ucfg.AppendValues}, ", AppendValues"
		case 1, 2:
			pol, polOpt, polName = model.PPrepend, []ucfg.Option{ucfg.PrependValues}, ", PrependValues"
		case 3:
			pol, polOpt, polName = model.PArrReplace, []ucfg.Option{ucfg.ReplaceArrValues}, ", ReplaceArrValues"
		case 4:
			pol, polOpt, polName = model.PReplace, []ucfg.Option{ucfg.ReplaceValues}, ", ReplaceValues"
		}
		h.res.SetAdd("merge_policy", pol.String())
		var sub *model.Node
		var err error
		var fo []fopt
		lv := h.live()
		if src := lv[r.Intn(len(lv))]; r.Intn(3) == 0 && src.n.IsSub() && !src.detached && (src != t || r.Intn(4) == 0) {
			// the operand is a config of the history itself: the root or a child
			// handle, possibly the target, a part of it or a config holding it.
			// A plain tree merges what the operand holds when Merge is called.
			rel := "disjoint"
			switch {
			case src == t:
				rel = "self"
			case model.Reachable(src.n, t.n):
				rel = "ancestor"
			case model.Reachable(t.n, src.n):
				rel = "descendant"
			}
			if rel == "ancestor" || rel == "descendant" {
				h.stepClass = "merge-operand-overlaps-target:" + rel
				h.overlapBefore, h.overlapStep = h.stepClass, h.stepNo
			}
			h.res.Ev("merge_of_config_operand:"+rel, 1)
			sub = h.copyTree(src.n)
			h.log = append(h.log, fmt.Sprintf("%s.Merge(handle %s=%s%s)", t.desc, src.desc, sub, polName))
			err = t.c.Merge(src.c, polOpt...)
		} else {
			sub = smallTree(r)
			opts := polOpt
			if r.Intn(3) == 0 && t.n.IsSub() {
				// 0-2 per-field options on paths of containers of the tree
				fo = h.drawFieldOpts(pathsOf(containersBelow(t.n)), pol, r.Intn(3), nil)
				var note string
				opts, note = h.optionList(fo, pol, polOpt)
				if len(fo) > 0 {
					polName = note
				}
			}
			h.log = append(h.log, fmt.Sprintf("%s.Merge(%s%s)", t.desc, sub, polName))
			err = t.c.Merge(sub.ToGo(), opts...)
		}
		h.res.Eval(1)
		if err != nil {
			h.fail("merge-error", "Merge failed: %v", err)
			return
		}
		if t.n.Kind == model.KNil && len(sub.D)+len(sub.A) > 0 {
			t.n.Kind = model.KSub
			h.written(t)
			firstViaNil = true
		}
		h.fopts = fo
		h.mergeAt(t.n, sub, pol, nil)
		h.fopts = nil
		h.muts++
		mutated = true
		for _, k := range sub.SortedKeys() {
			mustHave = append(mustHave, []model.Fld{{Name: k}})
		}
		for i := range sub.A {
			mustHave = append(mustHave, []model.Fld{{Idx: i, IsI: true}})
		}
		h.res.SetAdd("op", "merge")
		for _, x := range h.live()[1:] {
			if p, ok := pathTo(h.root.n, x.n); ok && h.underMerged(h.root.n, p, h.stepNo-1) {
				h.res.Ev("handles_live_across_merge_into_their_place", 1)
				break
			}
		}
	case op == 15: // a container (mostly an empty one) merged onto a nil or a primitive, against the same merge onto nothing
		var m bool
		if m, mustHave = h.containerOntoNonContainer(t); !m {
			return
		}
		mutated = true
	case op == 14: // removals on one list (or growth step by step), then a write that skips positions
		if !h.skipWrite(t) {
			return
		}
		mutated = true
	case op == 13: // an EMPTY container of one kind receives settings of the other kind
		cname, cfs, empty, ok := h.emptyContainer(t)
		if !ok {
			return
		}
		// what the container is: a list (made as one, or emptied by Remove), a
		// dictionary (emptied by Remove: the table is still there), or blank
		named := empty.HasA || h.emptied[empty]
		if !named && empty.D == nil {
			named = r.Intn(2) == 0
		}
		kindOfEmpty := map[bool]string{true: "empty-list-gets-names", false: "empty-dictionary-gets-elements"}[named]
		x := int64(r.Intn(100) - 50)
		var err error
		var what string
		via := r.Intn(3)
		if h.sep == "" && named {
			via = 2 // without a separator a name below cname can only be said by a Merge
		}
		for _, f := range cfs {
			if f.IsI && via == 2 {
				via = r.Intn(2) // a list position on the way can not be said in a merge operand
			}
		}
		if h.sep == "" && named && via != 2 {
			return
		}
		key := []string{"a", "b", "c"}[r.Intn(3)]
		wname, widx := cname, 0
		if named {
			wname, widx = cname+h.sep+key, -1
		}
		wfs := model.ParsePath(wname, widx, h.sep)
		switch via {
		case 0:
			what = fmt.Sprintf("SetInt(%d)@(%q,%d)", x, wname, widx)
			err = t.c.SetInt(wname, widx, x, h.o...)
			if err == nil && !model.Set(t.n, wfs, model.P(x)) {
				h.fail("set-outcome", "%s accepted, the model refuses it", what)
				return
			}
		case 1:
			sub := smallTree(r)
			sc, e := ucfg.NewFrom(sub.ToGo())
			if e != nil {
				h.fail("newfrom-error", "NewFrom(%s) failed: %v", sub, e)
				return
			}
			what = fmt.Sprintf("SetChild(%s)@(%q,%d)", sub, wname, widx)
			err = t.c.SetChild(wname, widx, sc, h.o...)
			if err == nil && !model.Set(t.n, wfs, sub.Copy()) {
				h.fail("set-outcome", "%s accepted, the model refuses it", what)
				return
			}
		default:
			// a Merge operand that spells the way down as nested dictionaries
			var leaf *model.Node
			if named {
				leaf = model.Dict()
				leaf.D[key] = model.P(x)
			} else {
				leaf = model.List(model.P(x))
			}
			for i := len(cfs) - 1; i >= 0; i-- {
				up := model.Dict()
				up.D[cfs[i].Name] = leaf
				leaf = up
			}
			what = fmt.Sprintf("Merge(%s)", leaf)
			err = t.c.Merge(leaf.ToGo())
			if err == nil {
				h.merge(t.n, leaf, model.PDefault)
			}
		}
		h.res.Eval(1)
		h.log = append(h.log, fmt.Sprintf("%s.%s", t.desc, what))
		if err != nil {
			h.fail("cross-kind-write-refused:"+kindOfEmpty, "%s failed: %v", what, err)
			return
		}
		h.muts++
		mutated, mustHave = true, [][]model.Fld{wfs}
		crossName, crossWName, crossWIdx, crossed = cname, wname, widx, true
		h.stepClass = "cross-kind:" + kindOfEmpty
		h.res.Ev("cross_kind:"+kindOfEmpty+":"+[]string{"setter", "setchild", "merge"}[via], 1)
		h.res.SetAdd("op", "cross-kind")
	default: // obtain a child handle
		node, e := model.Get(t.n, fs)
		ch, err := t.c.Child(name, idx, h.o...)
		h.res.Eval(1)
		h.log = append(h.log, fmt.Sprintf("%s.Child(%q,%d)", t.desc, name, idx))
		wantOK := e == model.ENone && node != nil && node.Kind != model.KPrim
		if wantOK != (err == nil) {
			h.fail("child-outcome", "Child: model ok=%v library err=%v", wantOK, err)
			return
		}
		if err == nil && (node.IsSub() || node.Kind == model.KNil) && len(h.handles) < 6 {
			x := &handle{c: ch, n: node, desc: fmt.Sprintf("h%d", h.nh), ofNil: node.Kind == model.KNil, born: h.stepNo, via: t}
			h.nh++
			h.handles = append(h.handles, x)
			h.res.Ev("child_handles", 1)
			if x.ofNil {
				x.desc += "(of nil)"
				h.res.Ev("child_handles_of_nil_setting", 1)
			}
		}
	}
	if h.failed {
		return
	}
	if firstViaNil && model.Reachable(h.root.n, t.n) {
		// the first write through a handle of a nil setting: did the library make
		// the handle's config the container at the nil's place? If not, that is
		// the deviation (always this signature, whatever else happened to the
		// place before); the history goes on with what the library really did:
		// the parent still holds the nil, the handle is a detached config.
		if why := h.hiddenFromParent(t, mustHave); why != "" {
			h.note(sigChildOfNil, "%s", why)
			h.giveUpNilView(t)
			mutated = false
		}
	}
	// frame condition: the whole tree, through the root
	got, err := obs.Top(h.root.c)
	h.res.Eval(1)
	if err != nil {
		h.fail("unpack-error", "Unpack of root failed: %v", err)
		return
	}
	if want := h.root.n.CanonTop(); got != want {
		sig := h.sigFor(t, "state-mismatch")
		if t.c != h.root.c {
			sig = h.sigFor(t, "state-mismatch-after-write-through-child")
		}
		h.fail(sig, "tree differs after step: got %s want %s", got, want)
		return
	}
	if t != h.root && mutated && model.Reachable(h.root.n, t.n) {
		if why := h.hiddenFromParent(t, mustHave); why != "" {
			h.fail(h.sigFor(t, "write-through-child-not-visible-in-parent"), "%s", why)
			return
		}
	}
	if t.c != h.root.c {
		h.res.Ev("steps_through_child_handle", 1)
		if p, ok := pathTo(h.root.n, t.n); ok && h.underMerged(h.root.n, p, t.born) {
			h.res.Ev("steps_through_handle_kept_across_merge", 1)
		}
	}
	// every live handle views its node
	for _, x := range h.live()[1:] {
		g, err := obs.Top(x.c)
		if err != nil {
			h.fail("unpack-error", "Unpack of handle %s failed: %v", x.desc, err)
			return
		}
		if w := x.n.CanonTop(); g != w {
			h.fail(h.sigFor(x, "child-view-stale"), "handle %s shows %s, the tree holds %s there", x.desc, g, w)
			return
		}
	}
	if crossed && !h.failed {
		// the container and the new setting, through every observer, right away
		h.probeAt(t, crossName, -1, "probe-cross-kind")
		if !h.failed {
			h.probeAt(t, crossWName, crossWIdx, "probe-cross-kind")
		}
	}
	targets = h.live() // handles given up during the step are not asked any more
	for k := 0; k < 6 && !h.failed; k++ {
		pn, pi := h.addr()
		tt := targets[r.Intn(len(targets))]
		if !model.Reachable(h.root.n, tt.n) {
			tt = h.root
		}
		h.probeAt(tt, pn, pi, "probe")
	}
	// addresses of settings that exist (the pool above often misses them)
	for k := 0; k < 2 && !h.failed; k++ {
		tt := targets[r.Intn(len(targets))]
		if !model.Reachable(h.root.n, tt.n) {
			tt = h.root
		}
		if pn, pi, ok := h.walkAddr(tt); ok {
			h.probeAt(tt, pn, pi, "probe-existing")
			h.res.Ev("probes_of_existing_settings", 1)
		}
	}
}

const sigChildOfNil = "write-through-child-of-nil-setting-not-visible-in-parent"

// giveUpNilView undoes, in the model, the first write through the handle t of a
// nil setting after the library was seen not to attach it: the place holds the
// nil again, t (a detached config from now on) and every handle obtained
// through it are not followed any further.
func (h *hist) giveUpNilView(t *handle) {
	h.res.Ev("child_of_nil_not_attached_by_library", 1)
	t.n.Kind, t.n.D, t.n.A, t.n.HasA = model.KNil, nil, nil, false
	delete(h.wasNil, t.n)
	keep := h.handles[:0]
	for _, x := range h.handles {
		if x != t && !x.obtainedThrough(t) {
			keep = append(keep, x)
		}
	}
	h.handles = keep
	t.detached = true
}

func (x *handle) obtainedThrough(t *handle) bool {
	for v := x.via; v != nil; v = v.via {
		if v == t {
			return true
		}
	}
	return false
}

// sigFor: the signature of a deviation seen at / through the handle x right
// after the step: a detached handle names its own cause, otherwise the class of
// the step's operation (if it has one), otherwise the deviation itself.
func (h *hist) sigFor(x *handle, base string) string {
	if s := h.staleClass(x, base); s != base || h.stepClass == "" {
		return s
	}
	return h.stepClass
}

const sigSkipped = "skipped-list-position-not-a-nil-setting"

// skipWrite: a list loses two or more elements (or is grown element by element
// first), then a write lands one or more positions beyond its end; every
// skipped position must be a nil setting (Has true, "null", counted), asked
// through all observers right away. Returns false if nothing was done.
func (h *hist) skipWrite(t *handle) bool {
	r := h.r
	if !t.n.IsSub() {
		return false
	}
	name, list, ok := h.listAddr(t)
	if !ok {
		return false
	}
	fsAt := func(i int) []model.Fld { return model.ParsePath(name, i, h.sep) }
	n := 0
	if list != nil {
		n = len(list.A)
	}
	set := func(i int, what string) bool {
		x := int64(r.Intn(100) - 50)
		h.log = append(h.log, fmt.Sprintf("%s.SetInt(%d)@(%q,%d) [%s]", t.desc, x, name, i, what))
		err := t.c.SetInt(name, i, x, h.o...)
		h.res.Eval(1)
		ok := model.Set(t.n, fsAt(i), model.P(x))
		if ok != (err == nil) {
			h.fail("set-outcome", "write outcome: model ok=%v, library err=%v", ok, err)
			return false
		}
		return ok
	}
	// grow step by step to 5..6 elements (beyond a power of two: room is left)
	grown := 0
	for target := 5 + r.Intn(2); n < target && (n < 3 || r.Intn(2) == 0); n++ {
		if n > h.maxIdx || !set(n, "grow") {
			return grown > 0 && !h.failed
		}
		grown++
	}
	// two or more removals on the same list
	removed := 0
	if n >= 3 && (grown == 0 || r.Intn(2) == 0) {
		for k := 2 + r.Intn(n-2); k > 0 && n > 1; k-- {
			i := r.Intn(n)
			h.log = append(h.log, fmt.Sprintf("%s.Remove(%q,%d)", t.desc, name, i))
			got, err := t.c.Remove(name, i, h.o...)
			h.res.Eval(1)
			want, isErr := model.Remove(t.n, fsAt(i))
			if got != want || isErr != (err != nil) {
				h.fail("remove-outcome", "Remove returned (%v,%v), model (%v, err=%v)", got, err, want, isErr)
				return false
			}
			if !want {
				return true
			}
			n--
			removed++
		}
	}
	// the write that skips 1..3 positions
	gap := 1 + r.Intn(3)
	idx := n + gap
	if idx > h.maxIdx {
		return true // (above the maximum index a jump is C07/C20's business)
	}
	h.skipStep = h.stepNo
	// (a Merge never skips in the list merged into: surplus elements of the
	// operand are appended one by one)
	if r.Intn(2) == 0 {
		if !set(idx, "skipping") {
			return !h.failed
		}
	} else {
		sub := smallTree(r)
		sc, e := ucfg.NewFrom(sub.ToGo())
		if e != nil {
			h.fail("newfrom-error", "NewFrom(%s) failed: %v", sub, e)
			return false
		}
		h.log = append(h.log, fmt.Sprintf("%s.SetChild(%s)@(%q,%d) [skipping]", t.desc, sub, name, idx))
		err := t.c.SetChild(name, idx, sc, h.o...)
		h.res.Eval(1)
		if ok := model.Set(t.n, fsAt(idx), sub.Copy()); ok != (err == nil) {
			h.fail("set-outcome", "write outcome: model ok=%v, library err=%v", ok, err)
			return false
		}
	}
	h.muts++
	h.res.Ev("writes_skipping_list_positions:"+map[bool]string{true: "after-removals", false: "after-growth-only"}[removed > 0], 1)
	h.res.Ev("skipped_list_positions_probed", int64(gap))
	h.probeClass = sigSkipped
	defer func() { h.probeClass = "" }()
	panicked, pv, where := harness.Safe(func() {
		for p := n; p <= idx && !h.failed; p++ {
			h.probeAt(t, name, p, "probe-skipped-position")
		}
		if name != "" && !h.failed {
			h.probeAt(t, name, -1, "probe-skipped-position")
		}
		if !h.failed {
			if _, err := obs.Top(t.c); err != nil {
				h.fail("unpack-error", "Unpack of %s failed: %v", t.desc, err)
			}
		}
	})
	if panicked {
		h.fail("panic", "panic %q at %s", pv, where)
	}
	return !h.failed
}

// lenAt returns the length of the list part of the container addressed by
// name below n (0 if there is nothing yet); false if name does not lead to a
// container or is empty.
func (h *hist) lenAt(n *model.Node, name string) (int, bool) {
	if name == "" {
		return len(n.A), n.IsSub()
	}
	v, e := model.Get(n, model.ParsePath(name, -1, h.sep))
	switch {
	case e == model.EMissing && n.Kind != model.KPrim:
		return 0, true
	case e != model.ENone:
		return 0, false
	case v.IsSub():
		return len(v.A), true
	case v.Kind == model.KNil:
		return 0, true
	}
	return 0, false
}

// holderLen is the length of the list the index at the end of fs addresses.
func (h *hist) holderLen(n *model.Node, fs []model.Fld) int {
	if len(fs) == 1 {
		return len(n.A)
	}
	if v, e := model.Get(n, fs[:len(fs)-1]); e == model.ENone && v.IsSub() {
		return len(v.A)
	}
	return 0
}

// bigList starts the history with a list of more than 1024 elements at "l"
// (or as the root's own list part), so that the default maximum index is met.
func (h *hist) bigList() {
	n := 1025 + h.r.Intn(3)
	l := make([]interface{}, n)
	ln := model.List()
	for i := range l {
		l[i] = int64(i)
		ln.A = append(ln.A, model.P(int64(i)))
	}
	var from interface{} = map[string]interface{}{"l": l}
	fn := model.Dict()
	fn.D["l"] = ln
	h.big, h.bigName = true, "l"
	if h.r.Intn(3) == 0 {
		from, fn, h.bigName = l, ln, ""
	}
	h.log = append(h.log, fmt.Sprintf("root.Merge(list of %d elements, at l: %v)", n, fn != ln))
	h.res.Ev("histories_with_list_above_1024", 1)
	if err := h.root.c.Merge(from); err != nil {
		h.fail("merge-error", "Merge failed: %v", err)
		return
	}
	h.merge(h.root.n, fn, model.PDefault)
}

// written: the first write through a handle of a nil setting has turned the
// nil into the container the handle views. Other handles taken from the same
// nil are not followed any further.
func (h *hist) written(t *handle) {
	h.res.Ev("writes_through_child_of_nil_setting", 1)
	h.wasNil[t.n] = true
	keep := h.handles[:0]
	for _, x := range h.handles {
		if x == t || x.n != t.n {
			keep = append(keep, x)
		}
	}
	h.handles = keep
}

func feq(a, b float64) bool { return a == b || (math.IsNaN(a) && math.IsNaN(b)) }

// probeAt reads one address through every observer and compares with the model.
func (h *hist) probeAt(t *handle, name string, idx int, why string) {
	fs := model.ParsePath(name, idx, h.sep)
	at := fmt.Sprintf("%s %s(%q,%d)", why, t.desc, name, idx)
	has, herr := t.c.Has(name, idx, h.o...)
	mh, mherr := model.Has(t.n, fs)
	h.res.Eval(1)
	if has != mh || (herr != nil) != mherr {
		h.fail("has-mismatch", "%s: Has=(%v,%v) model=(%v,err=%v)", at, has, herr, mh, mherr)
		return
	}
	node, ge := model.Get(t.n, fs)
	found := ge == model.ENone && node != nil
	type obsv struct {
		name string
		err  error
		got  string
		want model.GetRes
		wstr string
	}
	var list []obsv
	s, e1 := t.c.String(name, idx, h.o...)
	i, e2 := t.c.Int(name, idx, h.o...)
	u, e3 := t.c.Uint(name, idx, h.o...)
	f, e4 := t.c.Float(name, idx, h.o...)
	b, e5 := t.c.Bool(name, idx, h.o...)
	h.res.Eval(5)
	if !found {
		for n, e := range map[string]error{"String": e1, "Int": e2, "Uint": e3, "Float": e4, "Bool": e5} {
			if e == nil {
				h.fail("getter-found-missing", "%s: %s succeeded but the model has nothing there", at, n)
				return
			}
		}
	} else {
		ws, wi, wu, wf, wb := model.AsString(node), model.AsInt(node), model.AsUint(node), model.AsFloat(node), model.AsBool(node)
		list = []obsv{
			{"String", e1, strconv.Quote(s), ws, strconv.Quote(ws.S)},
			{"Int", e2, fmt.Sprint(i), wi, fmt.Sprint(wi.I)},
			{"Uint", e3, fmt.Sprint(u), wu, fmt.Sprint(wu.U)},
			{"Float", e4, fmt.Sprint(f), wf, fmt.Sprint(wf.F)},
			{"Bool", e5, fmt.Sprint(b), wb, fmt.Sprint(wb.B)},
		}
		for _, o := range list {
			if (o.err != nil) != o.want.Err {
				h.fail(h.nilClass(node, "getter-outcome"), "%s: %s err=%v, model err=%v (node %s)", at, o.name, o.err, o.want.Err, node)
				return
			}
			if o.err == nil && o.got != o.wstr {
				h.fail("getter-value", "%s: %s=%s, model %s (node %s)", at, o.name, o.got, o.wstr, node)
				return
			}
		}
		h.res.SetAdd("probed_kind", kindOf(node))
		if h.nilOnNil[node] {
			h.res.Ev("probes_at_nil_merged_onto_nil", 1)
		}
	}
	for _, e := range []error{e1, e2, e3, e4, e5, herr} {
		if p := obs.TypedErrorProblem(e); p != "" {
			h.res.Violate("untyped-error", "%s: %s", at, p)
		}
	}
	h.countAt(t, name, idx, at)
	// Child + structural observers
	ch, cerr := t.c.Child(name, idx, h.o...)
	h.res.Eval(1)
	wantChild := found && node.Kind != model.KPrim
	if wantChild != (cerr == nil) {
		h.fail("child-outcome", "%s: Child err=%v, model ok=%v", at, cerr, wantChild)
		return
	}
	if cerr == nil && node.IsSub() {
		if len(node.D) > 0 && !ch.IsDict() {
			h.fail("isdict", "%s: IsDict false for %s", at, node)
			return
		}
		if len(node.A) > 0 && !ch.IsArray() {
			h.fail("isarray", "%s: IsArray false for %s", at, node)
			return
		}
		if ch.IsArray() && ch.IsDict() != (len(node.D) > 0 || node.D != nil) && len(node.A) > 0 && len(node.D) > 0 {
			h.fail("isdict", "%s: IsDict/IsArray inconsistent for %s", at, node)
			return
		}
		if n, err := ch.CountField(""); err != nil || n != len(node.D)+len(node.A) {
			h.fail("countfield", "%s: CountField(\"\")=(%d,%v) want %d", at, n, err, len(node.D)+len(node.A))
			return
		}
		gf := map[string]bool{}
		for _, k := range ch.GetFields() {
			gf[k] = true
		}
		if len(gf) != len(node.D) {
			h.fail("getfields", "%s: GetFields=%v, model keys %v", at, ch.GetFields(), node.SortedKeys())
			return
		}
		for k, v := range node.D {
			if !gf[k] {
				h.fail("getfields", "%s: GetFields=%v lacks %q", at, ch.GetFields(), k)
				return
			}
			// the raw top-level names of the child, without options
			n, err := ch.CountField(k)
			want, lenient := h.wantCount(v)
			if lenient && err == nil && (n == 0 || n == 1) {
				want = n
			}
			if err != nil || n != want {
				h.fail(h.nilClass(v, "countfield"), "%s: CountField(%q)=(%d,%v) want %d for %s", at, k, n, err, want, v)
				return
			}
		}
		h.res.Eval(3)
	}
}

// nilClass narrows the signature of a deviation observed at a nil setting that
// came from merging nil onto nil, or at a container that was a nil setting
// until something was written through a child handle of the nil.
func (h *hist) nilClass(node *model.Node, base string) string {
	if node != nil && h.nilOnNil[node] {
		return "nil-merged-onto-nil-reads-as-object"
	}
	if node != nil && h.wasNil[node] {
		return sigChildOfNil
	}
	if node.IsSub() && len(node.D) > 0 && len(node.A) == 0 && strings.HasPrefix(base, "countfield") && !strings.HasPrefix(base, "countfield-does-not") {
		return "countfield:dictionary-without-list-elements"
	}
	return base
}

// countAt asks CountField with the address spelled as a name (CountField has
// no idx argument: with a separator the index is the last segment, without one
// the name alone is asked) and the history's options, like a getter.
func (h *hist) countAt(t *handle, name string, idx int, at string) {
	if name == "" {
		return // CountField("") is the total, compared through the child below
	}
	cname, cfs := name, model.ParsePath(name, -1, h.sep)
	if idx >= 0 && idx <= h.maxIdx && h.sep != "" {
		// (above the maximum index a number in a name is a name, not an index)
		cname = name + h.sep + strconv.Itoa(idx)
		cfs = model.ParsePath(cname, -1, h.sep)
	}
	n, err := t.c.CountField(cname, h.o...)
	h.res.Eval(1)
	shape := "plain-name"
	switch {
	case len(cfs) > 1:
		shape = "dotted-path"
	case cfs[0].IsI:
		shape = "index-name"
	}
	h.res.Ev("countfield_by_address:"+shape, 1)
	if p := obs.TypedErrorProblem(err); p != "" {
		h.res.Violate("untyped-error", "%s: CountField(%q): %s", at, cname, p)
	}
	node, ge := model.Get(t.n, cfs)
	if ge != model.ENone || node == nil {
		if err == nil {
			h.note("countfield-found-missing:"+shape, "%s: CountField(%q)=%d but the model has nothing there", at, cname, n)
		}
		return
	}
	if err != nil {
		// the getters find the setting at this address, CountField does not
		sig := "countfield"
		if shape != "plain-name" {
			sig = "countfield-does-not-parse-name:" + shape
		}
		h.note(sig, "%s: CountField(%q)=(%d,%v), the tree holds %s there", at, cname, n, err, node)
		return
	}
	want, lenient := h.wantCount(node)
	if lenient && (n == 0 || n == 1) {
		want = n
	}
	if n != want {
		sig := "countfield"
		if shape != "plain-name" {
			sig = "countfield-by-address-value:" + shape
		}
		h.note(h.nilClass(node, sig), "%s: CountField(%q)=%d want %d for %s", at, cname, n, want, node)
		return
	}
	h.res.Ev("countfield_by_address_found:"+shape, 1)
}

func kindOf(n *model.Node) string {
	switch n.Kind {
	case model.KNil:
		return "nil"
	case model.KSub:
		return "sub"
	}
	return fmt.Sprintf("%T", n.Prim)
}
