package c12

import (
	"fmt"
	"strconv"

	ucfg "github.com/elastic/go-ucfg"

	"verif/internal/model"
)

// Sixth wave: a container - above all an EMPTY list or an EMPTY dictionary -
// merged onto a setting that holds no container (a nil left as padding by a
// write beyond the end of a list, an explicit null, a primitive).
//
// On a plain tree the merged container takes the place of such a setting as it
// is; the very same happens at an address that holds nothing. What IsArray /
// IsDict / CountField answer for an empty container in absolute terms is not
// pinned down (see Assumptions), but whatever they answer, they answer it for
// the same container at the same address of a tree that held NOTHING there:
// the step merges one operand into the history's tree (where the address holds
// the nil / the primitive) and into a fresh, empty configuration (where the
// address is absent) and asks both at the address, and at every container
// below it, through IsArray, IsDict, CountField("") and the holder's
// CountField(name). The canonical form compared after every step can not tell
// an empty list from an empty dictionary or a blank configuration, these
// questions can.

const sigOntoNonContainer = "container-merged-onto-%s-differs-from-merged-onto-absent:%s:%s"

type nonContainer struct {
	fs    []model.Fld
	chain []*model.Node // chain[i] holds the setting addressed by fs[i]
	n     *model.Node
}

// nonContainers lists the nil and primitive settings below t (depth 1-3, list
// positions below 8).
func (h *hist) nonContainers(t *handle) (nils, prims []nonContainer) {
	var walk func(n *model.Node, fs []model.Fld, chain []*model.Node)
	walk = func(n *model.Node, fs []model.Fld, chain []*model.Node) {
		if len(fs) > 0 && !n.IsSub() {
			c := nonContainer{append([]model.Fld{}, fs...), append([]*model.Node{}, chain...), n}
			if n.Kind == model.KNil {
				nils = append(nils, c)
			} else {
				prims = append(prims, c)
			}
			return
		}
		if len(fs) >= 3 {
			return
		}
		for _, k := range n.SortedKeys() {
			if f := model.ParseField(k, 1024); f.IsI {
				continue // (a stored name spelled like a position: C20's business)
			}
			walk(n.D[k], append(fs, model.Fld{Name: k}), append(chain, n))
		}
		for i, v := range n.A {
			if i < 8 {
				walk(v, append(fs, model.Fld{Idx: i, IsI: true}), append(chain, n))
			}
		}
	}
	walk(t.n, nil, nil)
	return nils, prims
}

// makeNil leaves a nil setting below t: padding by a write beyond the end of a
// list, or an explicit null merged in. Returns how, "" if nothing was done.
func (h *hist) makeNil(t *handle) string {
	r := h.r
	k := []string{"l", "b", "A", "p", "q"}[r.Intn(5)]
	old, present := t.n.D[k]
	switch r.Intn(3) {
	case 0:
		// a write one or two positions beyond the end of the list at k
		if present && !old.IsSub() {
			return ""
		}
		l := 0
		if present {
			l = len(old.A)
		}
		idx := l + 1 + r.Intn(2)
		if idx > h.maxIdx {
			return ""
		}
		x := int64(r.Intn(100) - 50)
		h.log = append(h.log, fmt.Sprintf("%s.SetInt(%d)@(%q,%d) [padding]", t.desc, x, k, idx))
		err := t.c.SetInt(k, idx, x, h.o...)
		h.res.Eval(1)
		if ok := model.Set(t.n, model.ParsePath(k, idx, h.sep), model.P(x)); ok != (err == nil) {
			h.fail("set-outcome", "write outcome: model ok=%v, library err=%v", ok, err)
			return ""
		}
		if err != nil {
			return ""
		}
		h.muts++
		return "padding"
	case 1:
		// an explicit null as a named setting
		if present && old.IsSub() {
			return "" // (a nil leaves a container in place)
		}
		op := model.Dict()
		op.D[k] = model.Nil()
		return h.mergeData(t, op, "null-setting")
	}
	// explicit nulls as elements of a list
	if present && old.IsSub() && len(old.A) > 0 {
		return ""
	}
	l := model.List(model.Nil())
	for i, c := 0, r.Intn(3); i < c; i++ {
		l.A = append(l.A, []*model.Node{model.Nil(), model.P(int64(r.Intn(9)))}[r.Intn(2)])
	}
	op := model.Dict()
	op.D[k] = l
	return h.mergeData(t, op, "null-element")
}

func (h *hist) mergeData(t *handle, op *model.Node, how string) string {
	h.log = append(h.log, fmt.Sprintf("%s.Merge(%s) [%s]", t.desc, op, how))
	err := t.c.Merge(op.ToGo())
	h.res.Eval(1)
	if err != nil {
		h.fail("merge-error", "Merge failed: %v", err)
		return ""
	}
	h.merge(t.n, op, model.PDefault)
	h.muts++
	return how
}

// containerOntoNonContainer is the step. It reports whether the tree was
// changed (the frame comparison of the step follows) and what a handle's parent
// must show.
func (h *hist) containerOntoNonContainer(t *handle) (bool, [][]model.Fld) {
	r := h.r
	if !t.n.IsSub() {
		return false, nil
	}
	mutated := false
	nils, prims := h.nonContainers(t)
	from := "found-in-tree"
	if len(nils) == 0 || r.Intn(4) == 0 {
		how := h.makeNil(t)
		if h.failed {
			return false, nil
		}
		if how != "" {
			mutated = true
			h.res.Ev("nil_settings_made_for_container_merge:"+how, 1)
			nils, prims = h.nonContainers(t)
			from = "made"
		}
	}
	var c nonContainer
	switch {
	case len(nils) > 0 && (len(prims) == 0 || r.Intn(4) > 0):
		c = nils[r.Intn(len(nils))]
	case len(prims) > 0:
		c = prims[r.Intn(len(prims))]
	default:
		return mutated, nil
	}
	oldKind := map[bool]string{true: "nil", false: "primitive"}[c.n.Kind == model.KNil]

	// the container merged in
	var v *model.Node
	switch r.Intn(8) {
	case 0, 1, 2:
		v = model.List()
	case 3:
		v = model.Dict()
	case 4:
		v = model.List([]*model.Node{model.List(), model.Dict()}[r.Intn(2)])
	case 5:
		v = model.Dict()
		v.D[[]string{"a", "e"}[r.Intn(2)]] = []*model.Node{model.List(), model.Dict()}[r.Intn(2)]
	default:
		v = smallTree(r)
	}

	// the operand spells the way down: a dictionary per name, a list per
	// position whose earlier elements leave what is there as it is (a nil where
	// a container or a nil is, the same primitive where a primitive is)
	way := "named"
	leaf := v
	for i := len(c.fs) - 1; i >= 0; i-- {
		f := c.fs[i]
		if !f.IsI {
			up := model.Dict()
			up.D[f.Name] = leaf
			leaf = up
			continue
		}
		way = "through-list-position"
		up := model.List()
		for j := 0; j < f.Idx; j++ {
			if e := c.chain[i].A[j]; e.Kind == model.KPrim {
				up.A = append(up.A, model.P(e.Prim))
			} else {
				up.A = append(up.A, model.Nil())
			}
		}
		up.A = append(up.A, leaf)
		leaf = up
	}
	pol, polOpt, polName := model.PDefault, []ucfg.Option(nil), ""
	if way == "named" {
		// (list positions are only addressed by the index-wise merge; PReplace
		// would replace the dictionaries on the way, nil included)
		switch r.Intn(6) {
		case 0:
			pol, polOpt, polName = model.PAppend, []ucfg.Option{ucfg.AppendValues}, ", AppendValues"
		case 1:
			pol, polOpt, polName = model.PPrepend, []ucfg.Option{ucfg.PrependValues}, ", PrependValues"
		case 2:
			pol, polOpt, polName = model.PArrReplace, []ucfg.Option{ucfg.ReplaceArrValues}, ", ReplaceArrValues"
		}
	}
	h.log = append(h.log, fmt.Sprintf("%s.Merge(%s%s) [onto the %s at %s]", t.desc, leaf, polName, oldKind, model.PathString(c.fs)))
	err := t.c.Merge(leaf.ToGo(), polOpt...)
	twin := ucfg.New()
	terr := twin.Merge(leaf.ToGo(), polOpt...)
	h.res.Eval(2)
	if err != nil || terr != nil {
		h.fail("merge-error", "Merge failed: %v (into an empty configuration: %v)", err, terr)
		return false, nil
	}
	h.merge(t.n, leaf, pol)
	h.muts++
	h.stepClass = ""
	shape := shapeOf(v)
	h.res.Ev("container_merged_onto_non_container:"+oldKind+":"+shape+":"+way, 1)
	if oldKind == "nil" {
		h.res.Ev("container_merged_onto_nil:the-nil-was-"+from, 1)
	}
	h.res.SetAdd("container_onto_non_container_policy", pol.String())
	h.res.SetAdd("op", "container-onto-non-container")

	// both trees, asked at the address and below it
	hc, hh := walkRaw(t.c, c.fs)
	tc, th := walkRaw(twin, c.fs)
	at := fmt.Sprintf("%s at %s", t.desc, model.PathString(c.fs))
	if hc == nil || tc == nil || hh == nil || th == nil {
		h.note(fmt.Sprintf(sigOntoNonContainer, oldKind, "child", shape), "%s: after the merge Child finds a configuration: in the history %v, in the empty twin %v", at, hc != nil, tc != nil)
	} else {
		h.sameKinds(hh, th, hc, tc, c.fs[len(c.fs)-1], v, oldKind, at)
	}
	node, e := model.Get(t.n, c.fs)
	if e == model.ENone && node.IsSub() && hc != nil && len(h.handles) < 6 && r.Intn(2) == 0 {
		// the container is a setting like any other: a live view from now on
		h.handles = append(h.handles, &handle{c: hc, n: node, desc: fmt.Sprintf("h%d(merged onto %s)", h.nh, oldKind), born: h.stepNo, via: t})
		h.nh++
		h.res.Ev("child_handles_of_container_merged_onto_non_container", 1)
	}
	return true, [][]model.Fld{c.fs}
}

func shapeOf(v *model.Node) string {
	switch {
	case len(v.A)+len(v.D) > 0:
		return "non-empty"
	case v.HasA:
		return "empty-list"
	}
	return "empty-dictionary"
}

// walkRaw follows fs from c one raw segment at a time (no options) and returns
// the configuration at the address and the one holding it.
func walkRaw(c *ucfg.Config, fs []model.Fld) (at, holder *ucfg.Config) {
	cur := c
	for _, f := range fs {
		holder = cur
		var err error
		if f.IsI {
			cur, err = cur.Child("", f.Idx)
		} else {
			cur, err = cur.Child(f.Name, -1)
		}
		if err != nil || cur == nil {
			return nil, holder
		}
	}
	return cur, holder
}

// sameKinds compares the container v as the history's tree (hc, held by hh)
// and the twin (tc, held by th) show it, then the containers below it.
func (h *hist) sameKinds(hh, th, hc, tc *ucfg.Config, f model.Fld, v *model.Node, oldKind, at string) {
	dev := func(observer, format string, a ...interface{}) {
		h.note(fmt.Sprintf(sigOntoNonContainer, oldKind, observer, shapeOf(v)), "%s (%s): %s", at, v, fmt.Sprintf(format, a...))
	}
	h.res.Ev("containers_compared_with_absent_twin", 1)
	h.res.Eval(8)
	if a, b := hc.IsArray(), tc.IsArray(); a != b {
		dev("isarray", "IsArray=%v, merged onto an absent setting %v", a, b)
		return
	}
	if a, b := hc.IsDict(), tc.IsDict(); a != b {
		dev("isdict", "IsDict=%v, merged onto an absent setting %v", a, b)
		return
	}
	n1, e1 := hc.CountField("")
	n2, e2 := tc.CountField("")
	if n1 != n2 || (e1 != nil) != (e2 != nil) {
		dev("countfield-total", "CountField(\"\")=(%d,%v), merged onto an absent setting (%d,%v)", n1, e1, n2, e2)
		return
	}
	name := f.Name
	if f.IsI {
		name = strconv.Itoa(f.Idx)
	}
	if g := model.ParseField(name, 1024); g == f {
		n1, e1 = hh.CountField(name)
		n2, e2 = th.CountField(name)
		if n1 != n2 || (e1 != nil) != (e2 != nil) {
			dev("countfield-by-name", "the holder's CountField(%q)=(%d,%v), merged onto an absent setting (%d,%v)", name, n1, e1, n2, e2)
			return
		}
		h.res.Ev("countfield_by_name_compared_with_absent_twin", 1)
	}
	below := func(g model.Fld, w *model.Node) {
		if !w.IsSub() || h.failed {
			return
		}
		a, _ := walkRaw(hc, []model.Fld{g})
		b, _ := walkRaw(tc, []model.Fld{g})
		if a == nil || b == nil {
			dev("child", "below it at %s Child finds a configuration: in the history %v, in the empty twin %v", g, a != nil, b != nil)
			return
		}
		h.sameKinds(hc, tc, a, b, g, w, oldKind, at+"."+g.String())
	}
	for _, k := range v.SortedKeys() {
		if g := model.ParseField(k, 1024); !g.IsI {
			below(g, v.D[k])
		}
	}
	for i, w := range v.A {
		below(model.Fld{Idx: i, IsI: true}, w)
	}
}
