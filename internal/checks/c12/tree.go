package c12

import (
	"strconv"
	"strings"

	ucfg "github.com/elastic/go-ucfg"

	"verif/internal/model"
)

// The plain-tree reading of Merge used by this check (third wave). It differs
// from model.MergeCopying in two points the statement decides:
//   - where both sides are containers the contents are merged INTO the
//     destination's container: the setting stays the object it was, so a child
//     handle obtained before the merge is still a view of it afterwards;
//   - a nil merged onto a nil is a nil (not an empty object).
// Everything else is model.Merge under the default policy: a missing setting
// or a primitive takes (a copy of) the new value, a nil leaves a container in
// place, a container over a nil is the new container, lists merge index-wise
// and the surplus is appended.

// merge merges from into to under the policy pol (the same at every level, as
// a global merge option); both are treated as containers. Settings of to that
// stay in the tree stay the objects they were: the elements of a list that is
// appended or prepended to keep their identity (they only move), a replaced
// list or dictionary is made of new settings.
func (h *hist) merge(to, from *model.Node, pol model.Policy) {
	h.mergeAt(to, from, pol, nil)
}

// mergeAt is merge at the place path below the receiver of the Merge call;
// the policy of a setting is the one of the longest per-field option path that
// is a prefix of its path (polAt, fieldopt.go), the global one otherwise.
func (h *hist) mergeAt(to, from *model.Node, pol model.Policy, path []model.Fld) {
	if len(from.D) > 0 && pol == model.PReplace {
		to.D = nil
	}
	for k, v := range from.D {
		if to.D == nil {
			to.D = map[string]*model.Node{}
		}
		kp := append(path[:len(path):len(path)], model.Fld{Name: k})
		to.D[k] = h.mergeValueAt(to.D[k], v, h.polAt(kp, pol), kp)
	}
	switch pol {
	case model.PReplace, model.PArrReplace:
		if len(from.A) > 0 {
			to.A = nil
			for _, v := range from.A {
				to.A = append(to.A, v.Copy())
			}
			to.HasA = true
		}
	case model.PPrepend:
		if len(from.A) > 0 {
			na := make([]*model.Node, 0, len(from.A)+len(to.A))
			for _, v := range from.A {
				na = append(na, v.Copy())
			}
			for _, v := range to.A {
				h.shifted[v] = h.stepNo
				for _, x := range h.handles {
					if model.Reachable(v, x.n) {
						h.res.Ev("handles_of_elements_moved_by_prepend", 1)
					}
				}
			}
			to.A = append(na, to.A...)
			to.HasA = true
		}
	case model.PAppend:
		for _, v := range from.A {
			to.A = append(to.A, v.Copy())
			to.HasA = true
		}
	default:
		for i, v := range from.A {
			if i < len(to.A) {
				ip := append(path[:len(path):len(path)], model.Fld{Idx: i, IsI: true})
				to.A[i] = h.mergeValueAt(to.A[i], v, h.polAt(ip, pol), ip)
			} else {
				to.A = append(to.A, v.Copy())
				to.HasA = true
			}
		}
	}
}

func (h *hist) mergeValueAt(old, v *model.Node, pol model.Policy, path []model.Fld) *model.Node {
	if old == nil {
		return v.Copy()
	}
	switch {
	case old.IsSub() && v.IsSub():
		h.mergeAt(old, v, pol, path)
		h.mergedInto[old] = h.stepNo
		if len(h.fopts) > 0 {
			h.mergedIntoFO[old] = h.stepNo
			if h.optionAtOrBelow(path) {
				h.res.Ev("containers_merged_in_place_with_field_option_at_or_below", 1)
				if len(path) > 0 && path[len(path)-1].IsI {
					h.res.Ev("list_elements_merged_in_place_with_field_option_at_or_below", 1)
				}
			}
		}
		return old
	case old.IsSub() && v.Kind == model.KNil:
		h.mergedInto[old] = h.stepNo // a nil leaves a container in place
		return old
	case old.Kind == model.KNil && v.IsSub():
		n := &model.Node{Kind: model.KSub, HasA: v.HasA} // (an empty list is a list)
		h.mergeAt(n, v, pol, path)
		return n
	case old.Kind == model.KNil && v.Kind == model.KNil:
		n := model.Nil()
		h.nilOnNil[n] = true
		h.res.Ev("merge_nil_onto_nil", 1)
		return n
	}
	return v.Copy()
}

// copyTree copies a subtree (SetChild of a parented config stores a copy); the
// copy of a nil that came from nil merged onto nil is such a nil as well.
func (h *hist) copyTree(n *model.Node) *model.Node {
	if n == nil {
		return nil
	}
	m := &model.Node{Kind: n.Kind, Prim: n.Prim, HasA: n.HasA}
	if h.nilOnNil[n] {
		h.nilOnNil[m] = true
	}
	if n.D != nil {
		m.D = make(map[string]*model.Node, len(n.D))
		for k, v := range n.D {
			m.D[k] = h.copyTree(v)
		}
	}
	if n.A != nil {
		m.A = make([]*model.Node, len(n.A))
		for i, v := range n.A {
			m.A[i] = h.copyTree(v)
		}
	}
	return m
}

// hiddenFromParent asks the parent, not the handle, about what was just
// written through the handle t: the child obtained afresh from the root at the
// handle's place must hold as many settings as the tree holds there, and each
// of the addresses written (relative to t) must exist. These questions do not
// go through the canonical form (which can not tell a nil from an empty
// container), so a lost write of an empty container or a lost removal of an
// empty element shows as well. Returns a description of the deviation or "".
func (h *hist) hiddenFromParent(t *handle, mustHave [][]model.Fld) string {
	path, ok := pathTo(h.root.n, t.n)
	if !ok {
		return ""
	}
	fresh := h.libAt(path)
	h.res.Eval(1)
	h.res.Ev("writes_through_handle_asked_through_parent", 1)
	if fresh == nil {
		return "after a write through handle " + t.desc + " the parent has no container at " + model.PathString(path)
	}
	if n, err := fresh.CountField(""); err != nil || n != len(t.n.D)+len(t.n.A) {
		return "after a write through handle " + t.desc + " the parent counts " + strconv.Itoa(n) + " settings at " + model.PathString(path) + ", the tree holds " + strconv.Itoa(len(t.n.D)+len(t.n.A)) + " (" + t.n.String() + ")"
	}
	for _, fs := range mustHave {
		if mh, _ := model.Has(t.n, fs); !mh {
			continue
		}
		cur := fresh
		found := true
		for i, f := range fs {
			var err error
			last := i == len(fs)-1
			switch {
			case last && f.IsI:
				found, err = cur.Has("", f.Idx)
			case last:
				found, err = cur.Has(f.Name, -1)
			case f.IsI:
				cur, err = cur.Child("", f.Idx)
			default:
				cur, err = cur.Child(f.Name, -1)
			}
			if err != nil || cur == nil {
				found = false
			}
			if !found {
				break
			}
		}
		if !found {
			return "written through handle " + t.desc + " at " + model.PathString(fs) + ", but asked through the parent (" + model.PathString(append(append([]model.Fld{}, path...), fs...)) + ") it is not there"
		}
	}
	return ""
}

// pathTo finds target below root by identity.
func pathTo(root, target *model.Node) ([]model.Fld, bool) {
	if root == target {
		return nil, true
	}
	if root == nil {
		return nil, false
	}
	for k, v := range root.D {
		if p, ok := pathTo(v, target); ok {
			return append([]model.Fld{{Name: k}}, p...), true
		}
	}
	for i, v := range root.A {
		if p, ok := pathTo(v, target); ok {
			return append([]model.Fld{{Idx: i, IsI: true}}, p...), true
		}
	}
	return nil, false
}

// underMerged reports whether the node at path (from root) or one of the
// containers it sits in was merged into by a Merge after step since.
func (h *hist) underMerged(root *model.Node, path []model.Fld, since int) bool {
	cur := root
	for _, f := range path {
		if cur == nil {
			return false
		}
		if f.IsI {
			if f.Idx >= len(cur.A) {
				return false
			}
			cur = cur.A[f.Idx]
		} else {
			cur = cur.D[f.Name]
		}
		if h.mergedInto[cur] > since {
			return true
		}
	}
	return false
}

// shiftedSince reports whether the node at path (from root) or a container it
// sits in is a list element that a prepending Merge moved up after step since.
func (h *hist) shiftedSince(root *model.Node, path []model.Fld, since int) bool {
	cur := root
	for _, f := range path {
		if cur == nil {
			return false
		}
		if f.IsI {
			if f.Idx >= len(cur.A) {
				return false
			}
			cur = cur.A[f.Idx]
		} else {
			cur = cur.D[f.Name]
		}
		if h.shifted[cur] > since {
			return true
		}
	}
	return false
}

// libAt walks the library's tree from the root one segment at a time (no
// options: a name is one raw segment).
func (h *hist) libAt(path []model.Fld) *ucfg.Config {
	cur := h.root.c
	for _, f := range path {
		var err error
		if f.IsI {
			cur, err = cur.Child("", f.Idx)
		} else {
			cur, err = cur.Child(f.Name, -1)
		}
		if err != nil || cur == nil {
			return nil
		}
	}
	return cur
}

// staleClass narrows the signature of a deviation seen through / at the
// handle x: is the configuration the handle holds still the object the tree
// holds at the handle's place (Child of a container returns the stored object
// itself), and was the place merged over before?
func (h *hist) staleClass(x *handle, base string) string {
	if x == nil || x == h.root {
		return base
	}
	path, ok := pathTo(h.root.n, x.n)
	if !ok {
		return base
	}
	if x.n.Kind == model.KSub && h.libAt(path) == x.c {
		return base // the handle holds the very object the tree holds there
	}
	if x.ofNil {
		// born of a nil setting and not the object the tree holds at its place:
		// the library never attached it, whatever else happened in between
		return sigChildOfNil
	}
	from, rel := h.root.n, path
	if v := x.via; v != nil && v != h.root && v.n.Kind == model.KSub {
		if vp, ok := pathTo(h.root.n, v.n); ok && len(vp) <= len(path) {
			if h.libAt(vp) != v.c {
				// obtained through a handle that is detached itself: same cause
				return h.staleClass(v, base)
			}
			// the handle it was obtained through is still attached: whatever
			// was merged into that one's place or above it detached nothing
			from, rel = v.n, path[len(vp):]
		}
	}
	switch {
	case h.shiftedSince(from, rel, x.born):
		return "child-handle-detached-by-prepend-merge"
	case h.fieldOptMergedSince(from, rel, x.born):
		return sigDetachedFO
	case h.underMerged(from, rel, x.born):
		return "child-handle-detached-by-merge"
	case x.n.Kind != model.KSub:
		return base
	}
	return "child-handle-detached"
}

// wantCount is what CountField says for a node of the plain tree; lenient
// reports that the statement does not pin the number down (0 or 1).
func (h *hist) wantCount(v *model.Node) (want int, lenient bool) {
	switch {
	case v.Kind == model.KNil:
		return 0, false
	case v.Kind == model.KPrim:
		return 1, false
	case len(v.A) > 0:
		return len(v.A), false
	case len(v.D) == 0 && h.emptied[v]:
		// a list whose elements were removed one by one is a list of 0 entries
		h.res.Ev("countfield_of_list_emptied_by_remove", 1)
		return 0, false
	case len(v.D) == 0:
		// an empty container counts 0 or 1 depending on how it came to be
		return 0, true
	}
	// a dictionary with settings is one entry, also when it started as an
	// (empty) list or lost all of its list elements
	return 1, false
}

// A removal affects only the addressed setting: whether a config that stays in
// the tree answers IsDict / IsArray is the same before and after it. This is a
// frame condition on the library alone (no model of the kinds is needed, what
// an emptied or copied container answers in absolute terms stays unjudged): the
// holder of the removed setting and every live handle are asked before and
// after the call.
type kindObs struct {
	c         *ucfg.Config
	n         *model.Node
	what      string
	holder    bool
	dict, arr bool
}

func (h *hist) kindsBefore(t *handle, fs []model.Fld) []kindObs {
	var out []kindObs
	for _, x := range h.live() {
		if x.n.IsSub() {
			out = append(out, kindObs{c: x.c, n: x.n, what: x.desc})
		}
	}
	if holder, ok := holderOf(t.n, fs); ok {
		if p, ok := pathTo(h.root.n, holder); ok {
			if c := h.libAt(p); c != nil {
				out = append(out, kindObs{c: c, n: holder, what: "the holder (" + model.PathString(p) + ")", holder: true})
			}
		}
		for i := range out {
			out[i].holder = out[i].n == holder
		}
	}
	for i := range out {
		out[i].dict, out[i].arr = out[i].c.IsDict(), out[i].c.IsArray()
	}
	return out
}

func (h *hist) kindsAfter(before []kindObs, removed, lastName bool) {
	for _, o := range before {
		if !model.Reachable(h.root.n, o.n) {
			continue // went away with the removed setting
		}
		h.res.Ev("kind_asked_before_and_after_remove", 1)
		if o.holder && removed && lastName && len(o.n.D) == 0 {
			h.res.Ev("removes_of_last_named_setting", 1)
		}
		if o.holder && removed && len(o.n.D)+len(o.n.A) == 0 {
			h.res.Ev("removes_emptying_the_holder", 1)
		}
		d, a := o.c.IsDict(), o.c.IsArray()
		if d == o.dict && a == o.arr {
			continue
		}
		which, who := "isarray", "other-config"
		if d != o.dict {
			which = "isdict"
		}
		if o.holder {
			who = "holder"
		}
		h.fail("remove-changes-kind:"+which+":"+who, "%s answered IsDict=%v IsArray=%v before the removal and IsDict=%v IsArray=%v after it", o.what, o.dict, o.arr, d, a)
		return
	}
}

// emptyContainer finds a container without settings below t (depth 1-3) whose
// address can be spelled as a name for the history's separator.
func (h *hist) emptyContainer(t *handle) (string, []model.Fld, *model.Node, bool) {
	if !t.n.IsSub() {
		return "", nil, nil, false
	}
	type cand struct {
		fs []model.Fld
		n  *model.Node
	}
	var cs []cand
	var walk func(n *model.Node, fs []model.Fld)
	walk = func(n *model.Node, fs []model.Fld) {
		if len(fs) > 0 && n.IsSub() && len(n.D)+len(n.A) == 0 {
			cs = append(cs, cand{append([]model.Fld{}, fs...), n})
			return
		}
		if !n.IsSub() || len(fs) >= 3 || (h.sep == "" && len(fs) >= 1) {
			return
		}
		for _, k := range n.SortedKeys() {
			if h.sep == "" || !strings.Contains(k, h.sep) {
				walk(n.D[k], append(fs, model.Fld{Name: k}))
			}
		}
		for i, v := range n.A {
			if i <= h.maxIdx && i < 8 {
				walk(v, append(fs, model.Fld{Idx: i, IsI: true}))
			}
		}
	}
	walk(t.n, nil)
	if len(cs) == 0 {
		return "", nil, nil, false
	}
	c := cs[h.r.Intn(len(cs))]
	var segs []string
	for _, f := range c.fs {
		segs = append(segs, f.String())
	}
	sep := h.sep
	return strings.Join(segs, sep), c.fs, c.n, true
}

// listAddr finds a list below t whose address can be said as a name for the
// history's separator (the target's own list part: name ""), or a free plain
// name to start a list at. list is nil if there is nothing at the name yet.
func (h *hist) listAddr(t *handle) (string, *model.Node, bool) {
	type cand struct {
		name string
		n    *model.Node
	}
	var cs []cand
	if len(t.n.A) > 0 {
		cs = append(cs, cand{"", t.n})
	}
	var walk func(n *model.Node, segs []string)
	walk = func(n *model.Node, segs []string) {
		if len(segs) > 0 && n.IsSub() && len(n.A) > 0 {
			cs = append(cs, cand{strings.Join(segs, h.sep), n})
		}
		if !n.IsSub() || len(segs) >= 2 || (h.sep == "" && len(segs) >= 1) {
			return
		}
		for _, k := range n.SortedKeys() {
			if h.sep == "" || !strings.Contains(k, h.sep) {
				walk(n.D[k], append(append([]string{}, segs...), k))
			}
		}
	}
	walk(t.n, nil)
	if len(cs) > 0 && h.r.Intn(4) > 0 {
		c := cs[h.r.Intn(len(cs))]
		return c.name, c.n, true
	}
	for _, k := range []string{"l", "b", "A"} {
		v, present := t.n.D[k]
		if !present {
			return k, nil, true
		}
		if v.IsSub() {
			return k, v, true
		}
	}
	return "", nil, false
}

// holderOf returns the container holding the setting addressed by fs below root.
func holderOf(root *model.Node, fs []model.Fld) (*model.Node, bool) {
	if len(fs) == 1 {
		return root, root.IsSub()
	}
	n, e := model.Get(root, fs[:len(fs)-1])
	if e != model.ENone || !n.IsSub() {
		return nil, false
	}
	return n, true
}

// walkAddr spells the address of a random existing setting below t (depth 1-3)
// for the history's separator. Without a separator only name, name+idx and
// ""+idx can be said.
func (h *hist) walkAddr(t *handle) (string, int, bool) {
	r := h.r
	cur := t.n
	var path []model.Fld
	for d, depth := 0, 1+r.Intn(3); d < depth && cur.IsSub(); d++ {
		nd, na := len(cur.D), len(cur.A)
		if nd+na == 0 {
			break
		}
		if k := r.Intn(nd + na); k < nd {
			key := cur.SortedKeys()[k]
			path = append(path, model.Fld{Name: key})
			cur = cur.D[key]
		} else {
			path = append(path, model.Fld{Idx: k - nd, IsI: true})
			cur = cur.A[k-nd]
		}
	}
	if len(path) == 0 {
		return "", 0, false
	}
	// an index above the maximum index can only be said as the idx argument
	for i, f := range path {
		if f.IsI && f.Idx > h.maxIdx && i < len(path)-1 && !(h.sep == "" && i == 1) {
			return "", 0, false
		}
	}
	if h.sep == "" {
		switch {
		case path[0].IsI:
			if r.Intn(2) == 0 || path[0].Idx > h.maxIdx {
				return "", path[0].Idx, true
			}
			return strconv.Itoa(path[0].Idx), -1, true
		case len(path) > 1 && path[1].IsI:
			return path[0].Name, path[1].Idx, true
		}
		return path[0].Name, -1, true
	}
	idx := -1
	if last := path[len(path)-1]; last.IsI && len(path) > 1 && (r.Intn(2) == 0 || last.Idx > h.maxIdx) {
		idx = last.Idx
		path = path[:len(path)-1]
	} else if last.IsI && last.Idx > h.maxIdx {
		return "", last.Idx, true
	}
	var segs []string
	for _, f := range path {
		if !f.IsI && strings.Contains(f.Name, h.sep) {
			return "", 0, false // a stored name holding the separator can not be spelled
		}
		segs = append(segs, f.String())
	}
	return strings.Join(segs, h.sep), idx, true
}
