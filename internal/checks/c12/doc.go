// Package c12: see DESIGN.md section 3 C12.
package c12
