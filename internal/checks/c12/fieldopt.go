package c12

import (
	"fmt"
	"strings"

	ucfg "github.com/elastic/go-ucfg"

	"verif/internal/model"
)

// Sixth wave, second batch: Merge calls that carry per-field options
// (Field{Merge,Append,Prepend,Replace}Values on concrete dotted paths of names
// and list positions that exist below the receiver) next to the global policy.
//
// What such a merge yields is C16's subject; this check only needs the plain
// tree to stay in step, so it restricts itself to what the in-place model can
// say without any reading of its own: the policy of a setting is the one of the
// longest option path that is a prefix of its path, the global one otherwise
// (C16's statement), for the policies that keep dictionaries (default, append,
// prepend; under a global list-replace as well). FieldReplaceValues is only
// drawn under a global ReplaceValues, where it changes nothing. Wildcards are
// not drawn. The subject here is IDENTITY: a container that such a merge merges
// into stays the object it was, whatever options are configured at, above or
// below it - child handles of it taken before the merge stay live views.

const sigDetachedFO = "child-handle-detached-by-merge-with-field-options"

type fopt struct {
	path []model.Fld
	pol  model.Policy
}

// follow: the write forced in the step after a merge with field options
type follow struct {
	x          *handle     // an old handle on or below the merged element, or
	n          *model.Node // the element, asked for afresh through the parent
	fromParent bool
}

func samePath(a, b []model.Fld) bool {
	if len(a) != len(b) {
		return false
	}
	for i := range a {
		if a[i] != b[i] {
			return false
		}
	}
	return true
}

// polAt: the policy of the setting at path, whose holder has the policy inherited.
func (h *hist) polAt(path []model.Fld, inherited model.Policy) model.Policy {
	for i := len(h.fopts) - 1; i >= 0; i-- {
		if samePath(h.fopts[i].path, path) {
			return h.fopts[i].pol
		}
	}
	return inherited
}

// optionAtOrBelow: an option of the running merge names path or a place below it.
func (h *hist) optionAtOrBelow(path []model.Fld) bool {
	for _, o := range h.fopts {
		if len(o.path) >= len(path) && samePath(o.path[:len(path)], path) {
			return true
		}
	}
	return false
}

// fieldOptMergedSince: the node at path (from root) or a container it sits in
// was merged into in place by a Merge with field options after step since.
func (h *hist) fieldOptMergedSince(root *model.Node, path []model.Fld, since int) bool {
	cur := root
	for _, f := range path {
		if cur == nil {
			return false
		}
		if f.IsI {
			if f.Idx >= len(cur.A) {
				return false
			}
			cur = cur.A[f.Idx]
		} else {
			cur = cur.D[f.Name]
		}
		if h.mergedIntoFO[cur] > since {
			return true
		}
	}
	return false
}

// spellable: a stored name that a dotted option path can name as one segment.
func spellable(k string) bool {
	if k == "" || strings.ContainsAny(k, ".*") {
		return false
	}
	return !model.ParseField(k, 1<<40).IsI
}

type place struct {
	fs    []model.Fld
	chain []*model.Node // chain[i] holds the setting addressed by fs[i]
	n     *model.Node
}

// containersBelow lists the containers below n (depth 1-3, list positions below
// 8) whose path can be spelled in an option.
func containersBelow(n *model.Node) []place {
	var out []place
	var walk func(n *model.Node, fs []model.Fld, chain []*model.Node)
	walk = func(n *model.Node, fs []model.Fld, chain []*model.Node) {
		if !n.IsSub() {
			return
		}
		if len(fs) > 0 {
			out = append(out, place{append([]model.Fld{}, fs...), append([]*model.Node{}, chain...), n})
		}
		if len(fs) >= 3 {
			return
		}
		for _, k := range n.SortedKeys() {
			if spellable(k) {
				walk(n.D[k], append(fs, model.Fld{Name: k}), append(chain, n))
			}
		}
		for i, v := range n.A {
			if i < 8 {
				walk(v, append(fs, model.Fld{Idx: i, IsI: true}), append(chain, n))
			}
		}
	}
	walk(n, nil, nil)
	return out
}

var fieldPolName = map[model.Policy]string{model.PDefault: "FieldMergeValues", model.PAppend: "FieldAppendValues", model.PPrepend: "FieldPrependValues", model.PReplace: "FieldReplaceValues"}

func fieldOption(pol model.Policy, path string) ucfg.Option {
	switch pol {
	case model.PAppend:
		return ucfg.FieldAppendValues(path)
	case model.PPrepend:
		return ucfg.FieldPrependValues(path)
	case model.PReplace:
		return ucfg.FieldReplaceValues(path)
	}
	return ucfg.FieldMergeValues(path)
}

// drawFieldOpts draws up to n options on paths of cands (no path twice, none of
// have) for a merge under the global policy.
func (h *hist) drawFieldOpts(cands [][]model.Fld, global model.Policy, n int, have []fopt) []fopt {
	out := have
	for k := 0; k < n && len(cands) > 0; k++ {
		p := cands[h.r.Intn(len(cands))]
		dup := false
		for _, o := range out {
			dup = dup || samePath(o.path, p)
		}
		if dup {
			continue
		}
		pol := []model.Policy{model.PDefault, model.PAppend, model.PPrepend}[h.r.Intn(3)]
		if global == model.PReplace {
			pol = model.PReplace
		}
		out = append(out, fopt{append([]model.Fld{}, p...), pol})
	}
	return out
}

// optionList puts the field options and the global policy option in a random order.
func (h *hist) optionList(fo []fopt, global model.Policy, polOpt []ucfg.Option) ([]ucfg.Option, string) {
	opts := append([]ucfg.Option{}, polOpt...)
	names := []string{}
	if len(polOpt) > 0 {
		names = append(names, map[model.Policy]string{model.PAppend: "AppendValues", model.PPrepend: "PrependValues", model.PArrReplace: "ReplaceArrValues", model.PReplace: "ReplaceValues"}[global])
	}
	through := false
	for _, o := range fo {
		opts = append(opts, fieldOption(o.pol, model.PathString(o.path)))
		names = append(names, fmt.Sprintf("%s(%q)", fieldPolName[o.pol], model.PathString(o.path)))
		h.res.SetAdd("field_option_under_global", global.String()+"/"+fieldPolName[o.pol])
		for _, f := range o.path {
			through = through || f.IsI
		}
	}
	h.r.Shuffle(len(opts), func(i, j int) {
		opts[i], opts[j] = opts[j], opts[i]
		names[i], names[j] = names[j], names[i]
	})
	if len(fo) > 0 {
		h.res.Ev(fmt.Sprintf("merges_with_field_options:%d", len(fo)), 1)
		if through {
			h.res.Ev("merges_with_field_option_path_through_list_position", 1)
		}
	}
	if len(names) == 0 {
		return opts, ""
	}
	return opts, ", " + strings.Join(names, ", ")
}

// pathsOf: the paths of cands' places.
func pathsOf(ps []place) [][]model.Fld {
	var out [][]model.Fld
	for _, p := range ps {
		out = append(out, p.fs)
	}
	return out
}

// fieldOptMerge is the shaped step: a container below t - preferably an element
// of a list, preferably one a live handle views; a handle is taken now if there
// is none - receives new settings through a Merge whose operand spells the way
// down and whose option list names the container, a setting below it or a
// container on the way. The step after it writes through one of the handles, or
// through the parent, at that container.
func (h *hist) fieldOptMerge(t *handle) (bool, [][]model.Fld) {
	r := h.r
	if !t.n.IsSub() || t.detached {
		return false, nil
	}
	mutated := false
	cands := containersBelow(t.n)
	elems := 0
	for _, c := range cands {
		if c.fs[len(c.fs)-1].IsI {
			elems++
		}
	}
	if elems == 0 || r.Intn(5) == 0 {
		// a list of dictionaries at a free name
		for _, k := range []string{"l", "b", "A", "p", "q"}[r.Intn(3):] {
			if _, present := t.n.D[k]; present {
				continue
			}
			l := model.List()
			for i, c := 0, 1+r.Intn(3); i < c; i++ {
				e := model.Dict()
				e.D["a"] = model.P([]interface{}{"s", int64(3), true}[r.Intn(3)])
				e.D["c"] = model.List(model.P(int64(r.Intn(9))))
				if r.Intn(2) == 0 {
					d := model.Dict()
					d.D["c"] = model.P("x")
					e.D["b"] = d
				}
				l.A = append(l.A, e)
			}
			op := model.Dict()
			op.D[k] = l
			if h.mergeData(t, op, "list of dictionaries") == "" {
				return false, nil
			}
			mutated = true
			cands = containersBelow(t.n)
			break
		}
	}
	if len(cands) == 0 {
		return mutated, nil
	}
	viewed := func(n *model.Node) bool {
		for _, x := range h.handles {
			if x.n == n && !x.detached {
				return true
			}
		}
		return false
	}
	var weights []int
	total := 0
	for _, c := range cands {
		w := 1
		for _, f := range c.fs {
			if f.IsI {
				w = 3
			}
		}
		if c.fs[len(c.fs)-1].IsI {
			w = 6
		}
		if viewed(c.n) {
			w *= 2
		}
		weights = append(weights, w)
		total += w
	}
	var c place
	for i, k := 0, r.Intn(total); ; i++ {
		if k < weights[i] {
			c = cands[i]
			break
		}
		k -= weights[i]
	}
	throughList := false
	for _, f := range c.fs {
		throughList = throughList || f.IsI
	}

	// handles taken BEFORE the merge: of the container, and of containers below it
	take := func(n *model.Node, fs []model.Fld, what string) {
		if viewed(n) || len(h.handles) >= 8 {
			return
		}
		hc, _ := walkRaw(t.c, fs)
		if hc == nil {
			return
		}
		h.handles = append(h.handles, &handle{c: hc, n: n, desc: fmt.Sprintf("h%d(%s %s)", h.nh, what, model.PathString(fs)), born: h.stepNo, via: t})
		h.nh++
		h.res.Ev("child_handles_taken_before_field_option_merge:"+what, 1)
	}
	if r.Intn(4) > 0 {
		what := "dictionary"
		if c.fs[len(c.fs)-1].IsI {
			what = "list-element"
		}
		take(c.n, c.fs, what)
	}
	for _, k := range c.n.SortedKeys() {
		if spellable(k) && c.n.D[k].IsSub() && r.Intn(3) == 0 {
			take(c.n.D[k], append(append([]model.Fld{}, c.fs...), model.Fld{Name: k}), "below")
		}
	}
	h.stepNo++ // the merge counts as a step of its own: the handles above are older

	// the new settings
	prim := func() *model.Node {
		return model.P([]interface{}{"t", int64(r.Intn(50)), uint64(7), 1.5, false}[r.Intn(5)])
	}
	var v *model.Node
	var below [][]model.Fld
	if len(c.n.D) == 0 && len(c.n.A) > 0 {
		v = model.List()
		for i, k := 0, 1+r.Intn(len(c.n.A)+1); i < k; i++ {
			if i < len(c.n.A) && c.n.A[i].IsSub() && len(c.n.A[i].A) == 0 {
				e := model.Dict()
				e.D[[]string{"a", "b", "c"}[r.Intn(3)]] = prim()
				v.A = append(v.A, e)
				below = append(below, append(append([]model.Fld{}, c.fs...), model.Fld{Idx: i, IsI: true}))
			} else {
				v.A = append(v.A, prim())
			}
		}
	} else {
		v = model.Dict()
		var keys []string
		for _, k := range c.n.SortedKeys() {
			if spellable(k) {
				keys = append(keys, k)
			}
		}
		for i, k := 0, 1+r.Intn(2); i < k && len(keys) > 0; i++ {
			key := keys[r.Intn(len(keys))]
			old := c.n.D[key]
			switch {
			case old.IsSub() && len(old.A) > 0:
				l := model.List()
				for j, m := 0, 1+r.Intn(len(old.A)+1); j < m; j++ {
					l.A = append(l.A, prim())
				}
				v.D[key] = l
				below = append(below, append(append([]model.Fld{}, c.fs...), model.Fld{Name: key}))
			case old.IsSub():
				d := model.Dict()
				d.D[[]string{"a", "b", "c"}[r.Intn(3)]] = prim()
				v.D[key] = d
				below = append(below, append(append([]model.Fld{}, c.fs...), model.Fld{Name: key}))
			default:
				v.D[key] = prim()
			}
		}
		if len(v.D) == 0 || r.Intn(2) == 0 {
			key := []string{"a", "b", "c", "w"}[r.Intn(4)]
			if _, there := v.D[key]; !there {
				if r.Intn(2) == 0 {
					v.D[key] = prim()
				} else {
					v.D[key] = model.List(prim())
				}
			}
		}
	}

	// the operand spells the way down (as in ontonil.go)
	leaf := v
	for i := len(c.fs) - 1; i >= 0; i-- {
		f := c.fs[i]
		if !f.IsI {
			up := model.Dict()
			up.D[f.Name] = leaf
			leaf = up
			continue
		}
		up := model.List()
		for j := 0; j < f.Idx; j++ {
			if e := c.chain[i].A[j]; e.Kind == model.KPrim {
				up.A = append(up.A, model.P(e.Prim))
			} else {
				up.A = append(up.A, model.Nil())
			}
		}
		up.A = append(up.A, leaf)
		leaf = up
	}

	// the global policy; below a list position the way only leads to the
	// container if the lists on the way are merged index-wise: the default
	// policy, or FieldMergeValues on the first name of the way
	pol, polOpt := model.PDefault, []ucfg.Option(nil)
	switch r.Intn(8) {
	case 0:
		pol, polOpt = model.PAppend, []ucfg.Option{ucfg.AppendValues}
	case 1:
		pol, polOpt = model.PPrepend, []ucfg.Option{ucfg.PrependValues}
	case 2:
		pol, polOpt = model.PArrReplace, []ucfg.Option{ucfg.ReplaceArrValues}
	}
	var fo []fopt
	if throughList && pol != model.PDefault {
		if c.fs[0].IsI {
			pol, polOpt = model.PDefault, nil
		} else {
			fo = append(fo, fopt{append([]model.Fld{}, c.fs[:1]...), model.PDefault})
			h.res.Ev("field_merge_values_restores_index_wise_merge_under_another_global_policy", 1)
		}
	}
	// options at the container (most), below it, on the way to it
	paths := [][]model.Fld{c.fs, c.fs, c.fs}
	for _, b := range below {
		paths = append(paths, b, b, b)
	}
	for i := 1; i < len(c.fs); i++ {
		paths = append(paths, c.fs[:i])
	}
	fo = h.drawFieldOpts(paths, pol, 1+r.Intn(2), fo)
	opts, note := h.optionList(fo, pol, polOpt)
	h.res.SetAdd("merge_policy", pol.String())

	onOrBelow := 0
	for _, x := range h.handles {
		if !x.detached && x.n.IsSub() && model.Reachable(c.n, x.n) {
			onOrBelow++
		}
	}
	h.res.Ev("handles_on_or_below_the_container_a_field_option_merge_addresses", int64(onOrBelow))

	h.log = append(h.log, fmt.Sprintf("%s.Merge(%s%s) [into %s]", t.desc, leaf, note, model.PathString(c.fs)))
	err := t.c.Merge(leaf.ToGo(), opts...)
	h.res.Eval(1)
	if err != nil {
		h.fail("merge-error", "Merge failed: %v", err)
		return false, nil
	}
	h.fopts = fo
	h.mergeAt(t.n, leaf, pol, nil)
	h.fopts = nil
	h.muts++
	h.res.SetAdd("op", "merge-with-field-options")

	// the next step writes at the container: through a handle older than the
	// merge, or through the parent (then the old handles must show it)
	if model.Reachable(h.root.n, c.n) {
		var old []*handle
		for _, x := range h.handles {
			if !x.detached && x != t && x.n.IsSub() && model.Reachable(c.n, x.n) && model.Reachable(h.root.n, x.n) {
				old = append(old, x)
			}
		}
		if len(old) > 0 && r.Intn(2) == 0 {
			h.next = &follow{x: old[r.Intn(len(old))]}
		} else if len(old) > 0 {
			h.next = &follow{n: old[r.Intn(len(old))].n, fromParent: true}
		}
	}
	return true, [][]model.Fld{c.fs[:1]}
}
