package c05

import (
	"fmt"
	"math/rand"
	"reflect"
	"sort"
	"strconv"
	"strings"

	ucfg "github.com/elastic/go-ucfg"

	"verif/internal/gen"
	"verif/internal/harness"
	"verif/internal/model"
)

// (10) Go's two spellings of an empty container.
//
// A nil slice and a slice of length 0 are the same list for Go (the zero value
// of []T is THE typed representation of the empty list: a struct field never
// assigned, `var s []T`, a nil element of [][]T); likewise a nil and an empty
// map. Whatever the library stores for an empty list or dictionary - the
// canonical comparison of the other parts deliberately does not tell nil, {}
// and [] apart - it stores the same for both Go spellings. The tree (with one
// or two more empty containers put in) is rendered twice with identical
// choices, once with every empty container allocated (make(.., 0)) and once
// with every empty container nil (generic, typed, behind a pointer, as typed
// struct field, as element of [][]T / [N][]T), without any dotted key, and the
// two configs are compared EXACTLY: the unpacked data with nil, {} and [] kept
// apart and the stored structure (kind, sizes, list-ness of every node).

type twinGen struct {
	r          *rand.Rand
	nilEmpties bool
	slices     int
	maps       int
	forms      map[string]bool
}

var twinElemTypes = []reflect.Type{
	reflect.TypeOf(""), reflect.TypeOf(int(0)), reflect.TypeOf(float64(0)), reflect.TypeOf(false), reflect.TypeOf(uint16(0)),
	reflect.TypeOf(map[string]interface{}(nil)), reflect.TypeOf([]int(nil)), ifaceT,
}

func isEmptyList(n *model.Node) bool {
	return n.IsSub() && len(n.D) == 0 && len(n.A) == 0 && n.HasA
}

func isEmptyDict(n *model.Node) bool {
	return n.IsSub() && len(n.D) == 0 && len(n.A) == 0 && !n.HasA
}

func (g *twinGen) emptySlice(t reflect.Type) reflect.Value {
	g.slices++
	if g.nilEmpties {
		return reflect.Zero(reflect.SliceOf(t))
	}
	return reflect.MakeSlice(reflect.SliceOf(t), 0, 0)
}

func (g *twinGen) emptyMap(key, t reflect.Type) reflect.Value {
	g.maps++
	if g.nilEmpties {
		return reflect.Zero(reflect.MapOf(key, t))
	}
	return reflect.MakeMap(reflect.MapOf(key, t))
}

func (g *twinGen) render(n *model.Node) interface{} {
	r := g.r
	switch {
	case n == nil || n.Kind == model.KNil:
		return nil
	case n.Kind == model.KPrim:
		return n.Prim
	case isEmptyList(n):
		t := twinElemTypes[r.Intn(len(twinElemTypes))]
		v := g.emptySlice(t)
		if r.Intn(3) == 0 {
			g.forms["*[]"+t.String()] = true
			p := reflect.New(v.Type())
			p.Elem().Set(v)
			return p.Interface()
		}
		g.forms["[]"+t.String()] = true
		return v.Interface()
	case isEmptyDict(n):
		t := twinElemTypes[r.Intn(len(twinElemTypes))]
		key := reflect.TypeOf("")
		if t == ifaceT && r.Intn(2) == 0 {
			key = ifaceT
		}
		v := g.emptyMap(key, t)
		if r.Intn(3) == 0 {
			g.forms["*"+v.Type().String()] = true
			p := reflect.New(v.Type())
			p.Elem().Set(v)
			return p.Interface()
		}
		g.forms[v.Type().String()] = true
		return v.Interface()
	case len(n.D) == 0:
		// a list
		allEmpty := true
		for _, e := range n.A {
			allEmpty = allEmpty && isEmptyList(e)
		}
		typedOuter := r.Intn(2) == 0
		if allEmpty && typedOuter {
			// [][]T / [N][]T whose elements are empty lists
			t := twinElemTypes[r.Intn(len(twinElemTypes))]
			inner := reflect.SliceOf(t)
			var outer reflect.Value
			if r.Intn(2) == 0 {
				g.forms["[][]"+t.String()+" element"] = true
				outer = reflect.MakeSlice(reflect.SliceOf(inner), len(n.A), len(n.A))
			} else {
				g.forms["[N][]"+t.String()+" element"] = true
				outer = reflect.New(reflect.ArrayOf(len(n.A), inner)).Elem()
			}
			for i := range n.A {
				outer.Index(i).Set(g.emptySlice(t))
			}
			return outer.Interface()
		}
		l := make([]interface{}, 0, len(n.A))
		for _, e := range n.A {
			l = append(l, g.render(e))
		}
		return l
	}
	// a dictionary
	keys := n.SortedKeys()
	style := r.Intn(3)
	for _, key := range keys {
		if key == "" || strings.ContainsAny(key, ",\"`\\") {
			if style == 2 {
				style = 0
			}
		}
	}
	switch style {
	case 1:
		m := make(map[interface{}]interface{}, len(keys))
		for _, key := range keys {
			m[key] = g.render(n.D[key])
		}
		return m
	case 2:
		// empty containers sit in fields of their own type: the nil twin is
		// the struct whose field has never been assigned
		var fs []fieldSpec
		for _, key := range keys {
			c := n.D[key]
			v := g.render(c)
			conc := r.Intn(2) == 0
			if isEmptyList(c) || isEmptyDict(c) {
				conc = true
				g.forms["struct field"] = true
			}
			fs = append(fs, fieldSpec{tag: key, val: v, concrete: conc})
		}
		return mkStruct(fs, r.Intn(3) == 0)
	}
	m := make(map[string]interface{}, len(keys))
	for _, key := range keys {
		m[key] = g.render(n.D[key])
	}
	return m
}

// exactCanon renders unpacked data keeping nil, {} and [] apart.
func exactCanon(b *strings.Builder, v interface{}) {
	switch x := v.(type) {
	case nil:
		b.WriteString("nil")
	case map[string]interface{}:
		keys := make([]string, 0, len(x))
		for key := range x {
			keys = append(keys, key)
		}
		sort.Strings(keys)
		b.WriteByte('{')
		for i, key := range keys {
			if i > 0 {
				b.WriteByte(',')
			}
			b.WriteString(strconv.Quote(key))
			b.WriteByte(':')
			exactCanon(b, x[key])
		}
		b.WriteByte('}')
	case []interface{}:
		b.WriteByte('[')
		for i, e := range x {
			if i > 0 {
				b.WriteByte(',')
			}
			exactCanon(b, e)
		}
		b.WriteByte(']')
	default:
		b.WriteString(model.PrimCanon(v))
	}
}

func exact(v interface{}) string {
	var b strings.Builder
	exactCanon(&b, v)
	return b.String()
}

// twinDiff finds the first place where the two unpacked results differ and
// says what the tree holds there.
func twinDiff(n *model.Node, a, b interface{}, path string) (where, what string) {
	if exact(a) == exact(b) {
		return "", ""
	}
	here := func() (string, string) {
		switch {
		case isEmptyList(n):
			return path, "nil-slice-differs-from-empty-slice"
		case isEmptyDict(n):
			return path, "nil-map-differs-from-empty-map"
		}
		return path, "differs-elsewhere"
	}
	if n == nil || !n.IsSub() {
		return here()
	}
	if ma, ok := a.(map[string]interface{}); ok {
		if mb, ok := b.(map[string]interface{}); ok && len(n.D) > 0 {
			for _, key := range n.SortedKeys() {
				if w, s := twinDiff(n.D[key], ma[key], mb[key], path+"."+key); s != "" {
					return w, s
				}
			}
		}
	}
	if la, ok := a.([]interface{}); ok {
		if lb, ok := b.([]interface{}); ok && len(la) == len(lb) && len(la) == len(n.A) {
			for i, e := range n.A {
				if w, s := twinDiff(e, la[i], lb[i], path+"."+strconv.Itoa(i)); s != "" {
					return w, s
				}
			}
		}
	}
	return here()
}

func (k *kase) rawWalk(what string, c *ucfg.Config) []string {
	var nodes []ucfg.VerifNode
	if p, pv, where := harness.Safe(func() { nodes = ucfg.VerifWalk(c) }); p {
		k.res.Violate("panic:VerifWalk", "walk panicked with %q at %s; %s", pv, where, what)
		return nil
	}
	out := make([]string, 0, len(nodes))
	for _, n := range nodes {
		out = append(out, fmt.Sprintf("%s|%s|%q|dict=%d|list=%d|has-list-part=%v", n.Walk, n.Kind, n.Text, n.NDict, n.NArr, n.HasArr))
	}
	return out
}

// addEmpties puts one or two more empty containers into a copy of the tree.
func addEmpties(r *rand.Rand, t *model.Node) *model.Node {
	t2 := t.Copy()
	var dicts, lists []*model.Node
	var visit func(n *model.Node)
	visit = func(n *model.Node) {
		if !n.IsSub() {
			return
		}
		if len(n.A) > 0 && len(n.D) == 0 {
			lists = append(lists, n)
		} else if !n.HasA && len(n.A) == 0 {
			dicts = append(dicts, n)
		}
		for _, key := range n.SortedKeys() {
			visit(n.D[key])
		}
		for _, e := range n.A {
			visit(e)
		}
	}
	visit(t2)
	for i, n := 0, 1+r.Intn(2); i < n; i++ {
		e := model.List()
		if r.Intn(3) == 0 {
			e = model.Dict()
		}
		if len(lists) > 0 && r.Intn(3) == 0 {
			l := lists[r.Intn(len(lists))]
			pos := r.Intn(len(l.A) + 1)
			l.A = append(l.A[:pos], append([]*model.Node{e}, l.A[pos:]...)...)
			continue
		}
		d := dicts[r.Intn(len(dicts))]
		if d.D == nil {
			d.D = map[string]*model.Node{}
		}
		d.D[gen.Keys[r.Intn(len(gen.Keys))]] = e
	}
	return t2
}

func (k *kase) emptyTwins() string {
	r := k.r
	t2 := addEmpties(r, k.t)
	seed := r.Int63()
	var opts []ucfg.Option
	if r.Intn(2) == 0 {
		opts = sepOpts
	}
	type twin struct {
		src  interface{}
		got  map[string]interface{}
		walk []string
		g    *twinGen
	}
	var tw [2]twin
	for i := range tw {
		g := &twinGen{r: rand.New(rand.NewSource(seed)), nilEmpties: i == 1, forms: map[string]bool{}}
		tw[i].g = g
		tw[i].src = g.render(t2)
		name := []string{"allocated (length 0)", "nil"}[i]
		what := fmt.Sprintf("tree %s rendered with every empty list and dictionary %s", t2, name)
		c, err, ok := k.newFrom(what, tw[i].src, opts)
		if !ok {
			return ""
		}
		if err != nil {
			k.res.Violate("empty-container-twins:newfrom-error:"+[]string{"allocated", "nil"}[i]+":"+reasonShort(err), "NewFrom returned %v; %s", err, what)
			return ""
		}
		if tw[i].got, ok = k.unpack(what, c, opts); !ok {
			return ""
		}
		if got := model.CanonIfc(tw[i].got); got != t2.Canon() {
			if typ, where, found := numberChanged(t2, tw[i].got, ""); found {
				k.res.Violate("number-not-preserved:"+typ, "a number of the input comes back as another number: %s; %s", where, what)
				return ""
			}
			k.res.Violate("empty-container-twins:representation-disagrees", "unpack gives %s, the tree is %s; %s", got, t2.Canon(), what)
			return ""
		}
		tw[i].walk = k.rawWalk(what, c)
	}
	g := tw[1].g
	k.res.Ev("empty_container_twins_checked", 1)
	k.res.Ev("empty_container_twins_nil_slices", int64(g.slices))
	k.res.Ev("empty_container_twins_nil_maps", int64(g.maps))
	for f := range g.forms {
		k.res.SetAdd("empty_container_form", f)
	}
	if where, sig := twinDiff(t2, tw[0].got, tw[1].got, ""); sig != "" {
		k.res.Violate("empty-container-twins:"+sig, "at %q the unpacked data differ between the two Go spellings of the empty container: allocated gives %s, nil gives %s; tree %s (%d empty lists, %d empty dictionaries; forms %v)", where, exact(tw[0].got), exact(tw[1].got), t2, g.slices, g.maps, keysOf(g.forms))
		return t2.String()
	}
	if !sameWalk(tw[0].walk, tw[1].walk) {
		k.res.Violate("empty-container-twins:stored-differently", "the stored structure differs between the two Go spellings of the empty containers: %s; tree %s (forms %v)", diffWalk(tw[0].walk, tw[1].walk), t2, keysOf(g.forms))
	}
	return t2.String()
}

func keysOf(m map[string]bool) []string {
	out := make([]string, 0, len(m))
	for key := range m {
		out = append(out, key)
	}
	sort.Strings(out)
	return out
}
