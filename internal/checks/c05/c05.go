// Package c05: every input shape normalises to the same canonical tree.
//
// Differential oracle: a generated data tree is its own expected canonical
// form. Every Go representation of the tree, every partial flattening of it
// into dotted keys (PathSep(".")) and the value obtained by unpacking and
// feeding the result back in must give the same canonical unpack and (modulo
// nil == {} == [] == absent) the same stored structure; an input that defines
// one setting twice by construction must be rejected as a duplicate.
package c05

import (
	"errors"
	"fmt"
	"math"
	"math/rand"
	"reflect"
	"sort"
	"strconv"
	"strings"

	ucfg "github.com/elastic/go-ucfg"

	"verif/internal/gen"
	"verif/internal/harness"
	"verif/internal/model"
	"verif/internal/obs"
)

type check struct{}

func init() { harness.Register(check{}) }

func (check) ID() string { return "C05" }

func (check) Cases(tier string) int {
	if tier == "thorough" {
		return 200000
	}
	return 3000
}

func (check) Rule() string {
	return "one data tree per case (top-level dictionary, keys a,b,c repeated at every depth, depth 3 (1/8: 5), lists up to 3 (1/8: 6) wide, leaves from gen.Prims plus Go ints/uints/floats of all widths, nil, {}, []; every case adds 9 freshly drawn numbers of random Go types to the leaf pool (float32/float64 from random bit patterns, short decimal fractions, integral and scaled normal values; integers over the whole range of their width) and gives 1/3 of the all-leaf lists and 1/6 of the all-leaf dictionaries one random element type so that []T, [N]T, *[N]T, map[string]T are frequent; 3/4 of the cases insist on nested containers) given (1) in ~13 Go representations (map[string]interface{}, map[interface{}]interface{}, reflect.StructOf structs with renaming tags / inline struct and map groups / ignored fields / typed nil fields, map[string]T, []T, [N]T, *[N]T, map[string]map, []map, pointers to maps, structs and primitives, pointers to pointers, *Config built from another representation, a Child handle, maps holding *Config or Config values, a per-node random mixture; in the first 3 cases of a run also a top-level Config passed by value), with and without PathSep; the structs of the per-node carriers are written under a random tag name (config, json, cfg, yaml) selected by the StructTag option of the call, and a third of their fields carry a second tag of another name that names, ignores or inlines the field differently; (2) unpacked into map[string]interface{} and fed back (canonical equality and VerifWalk structure equality, wiring of every node); (3) in ~4 random partial flattenings into dotted keys with PathSep(\".\") (each dictionary edge folded or nested, sub-trees divided at any depth between several dotted keys and a nested rest, dotted keys inside nested maps, complete lists spelled by numeric positions) each carried by 1-2 of: map, interface-keyed map, typed map, struct tags, mixture; (4) in 2 map-carried duplicate constructions (a: one leaf dotted and nested / two partial spellings of its path; b: dotted key below a primitive defined flat, nested or dotted; c: dotted list position plus the list, flat or nested) embedded in the tree at depth 0-2, each built 40 times with permuted insertion order, and 1 deterministic struct-carried duplicate (same tag twice, inline struct/map vs named field, dotted tag vs nested field, dotted tag below a scalar field; both declaration orders); (5) as one run-time struct type (nested, by value/pointer) whose fields carry 2-3 tag sets at once, each field independently named (tree key, other key, fresh, dotted) / inlined / ignored under each tag set, normalised 3-5 times in a row while switching the StructTag option (default tag included) and the form (value, pointer, inside a map, inside []interface{}, element of []T and of map[string]T; NewFrom or Merge into an empty config): every call must give the tree its own tag set describes; a quarter of the dictionary valued fields hold an existing Config (named or inlined); (6) with one dictionary S built once as ONE Go value (root *Config, child handle, Config by value, *struct, *map, map, interface-keyed map, struct) and used under 2-3 keys of the tree and twice in a list, some places extended by dotted sibling keys into S's namespace (also below a dictionary of S) or by a second struct field of the same name, carried by a struct in both declaration orders or a map and normalised 2-3 times in a row. Everywhere: inline groups of struct carriers also arrive as *Config / Config by value / interface{} holding *Config; every representation and flattening is normalised a second time from the same Go value (same data, same stored structure); every *Config inside an input is compared with its content, parent and path before the call; flattenings divide dictionaries with nil placeholders (a setting given in one part is nil in the other) and lists by position (some positions dotted, nil placeholders or a shorter list in the nested part); struct and mixed carriers are run in both declaration orders. A fifth of the cases use the key pool a,b,c,\"\" (the empty name: dotted spellings beginning or ending with the separator; never as a struct tag). Lists of the tree are also handed in as the top-level value ([]interface{}, typed, *[]interface{}, [N]interface{}, list *Config; unpacked into []interface{} and fed back). Struct carriers get, 1 in 16, an inline field holding nil (nil interface, nil map, nil *struct, nil *Config, nil *map) and lists are, 1 in 12, carried by a struct whose only field is an inlined list Config. Every 60th case adds (7) one wide tree of 300..40000 primitives (log-uniform; 7 shapes) read in generic, typed, interface-keyed, Config-valued, top-level and completely dotted form, with the elements copied while growing lists (hook grow) bounded linearly, and every 60th case (8) one chain of 20..30000 dictionaries (log-uniform) spelled nested, as one dotted key and in two mixtures: same outcome (accepted with the same data, or refused) for every spelling; the first 3 cases of a run read nil pointers (to map, struct, Config, interface) as the top-level value. (10) The tree plus 1-2 more empty containers is rendered twice with identical choices and no dotted keys - every empty list and dictionary allocated with length 0 / every one nil (generic, typed []T and map[string]T of 8 element types, behind a pointer, as a typed struct field, as element of [][]T and [N][]T) - and the two configs are compared exactly (unpacked data with nil, {} and [] kept apart; kind, sizes and list-ness of every stored node). (11) One or two nested dictionaries of the tree (also elements of lists) get a list part of 1-4 (1/8: 5-10) positions next to their names (primitives, 1/4 of the inner positions nil, some elements dictionaries, lists or such an object again) and the tree is read in 5 spellings x 6 carriers: positions as decimal keys of the nested map, every setting / only the positions / only the names as dotted keys of the enclosing map, nil positions written or left out, inside an existing Config; unpacked data, stored structure and the fed-back result must agree. (12) Two lists of 1-48 elements (lengths around powers of two frequent; 0-80 % nil elements that are left out) are written position by position in a fixed order (ascending, descending, shuffled, evens then odds, ascending runs exchanged, tail first) by a struct whose tags are dotted paths ending in the position, by a struct one level down whose tags are the positions, and by a map with the same dotted keys; a quarter with a nested prefix of the list next to the dotted rest, a third sharing the object with a name: same data and stored structure as the nested list, every slot holding a value. (13) One existing Config whose names hold the separator of the later call literally (1-4 names per dictionary, 3/5 of them 2-3 segments a/b/c joined by the separator ., /, | or ::, some beginning or ending with it or with a numeric segment, also below the top level and inside lists; built without PathSep, or 1/3 with ANOTHER separator from a spelling that folds some dictionaries) is handed to NewFrom or Merge (3/4 with PathSep(separator of the names), 1/4 without) as the top-level value (pointer, by value), as a value (generic / typed / interface-keyed map, list element, struct field by pointer, by value, behind interface{}) and as the inline part of a struct (pointer, by value, behind interface{}; struct by value or pointer; either field order; the sibling tag plain or dotted): every presentation must show the tree the Config itself shows, and leave the Config as it was. Non-trivial = tree with >= 2 container levels and >= 3 primitive leaves; distinct = distinct tree."
}

func (check) Assumptions() []string {
	return []string{
		"canonical comparison: numbers by exact value, nil == {} == [] == absent key inside dictionaries, nil list elements stay (DESIGN.md 2.6)",
		"structure comparison (VerifWalk: path, kind, text, stored field name, dictionary and list sizes) is made after removing dictionary entries that are nil or empty and after turning empty list elements into nil, because Unpack into interface{} legitimately drops that distinction; kinds are compared exactly (no int/uint difference was found: positive signed integers are stored as uint by every route)",
		"keys never contain the separator and are never numeric; numeric path segments are used only where the tree has a list at that point and every position of that list is given exactly once, by a dotted key or by the nested list (the rest belongs to C20); parts 11 and 12 only: canonical decimal positions next to names in one nested object (never at the top level, never without a named primitive, never with a real Go list for the same name), and positions of nil elements left out (the last position is never nil, so the length is always written)",
		"duplicates use two non-nil primitive values; a nil definition and two objects with disjoint keys are not duplicates and are not generated as such; the error is accepted if Reason() is or wraps ErrDuplicateKey, wording and the blamed key are not compared",
		"map iteration order is not controlled: each map-carried duplicate construction is rebuilt 40 times with permuted insertion order and judged on the set of outcome classes seen (order dependence itself is C09)",
		"VarExp off: strings containing $ { } . , are plain data",
		"what is stored for an empty list or dictionary is not pinned (nil == {} == []), but a nil slice / nil map and a slice / map of length 0 are the same container for Go and must be stored alike; a nil POINTER is nil, not an empty container, and is not part of that comparison",
		"EnableNumKeys is not used and names never look like numbers (C20); dotted positions are used up to MaxIdx only (the wide dotted form passes MaxIdx explicitly)",
		"whether a tree is too deep to be accepted is not judged (a limit is the library's decision), only that every spelling of the same chain gets the same decision",
		"cost: only the number of list elements copied while growing lists is bounded (8 per element of the input + 64 per list + 256), measured where the order of insertion is fixed (not for dotted positions carried by a map)",
		"a nil pointer or nil interface is nil: as a field tagged inline it contributes nothing, as the top-level value it gives the empty config (like nil and a nil map)",
		"not pinned, not generated: which of nil / {} / [] is stored when several spellings meet (C09 order dependence of empty lists), an empty object or nil map next to a primitive (duplicate or not), one name defined as object and as list, names of an existing Config that contain the separator, values outside the data model (complex, uintptr, func, chan, regexp), text front-ends, unpacking into the wrong container kind",
		"a nil placeholder next to a value is an untyped nil or a nil pointer (a nil map or slice may pass for an empty object and is not used there); an inlined Config contributes its named settings (a list part is not generated); a nil *Config is not inlined",
		"inputs are data: the same Go value normalises to the same config in every call and at every place; configs handed in keep content, Parent() and Path()",
		"numbers: any finite value of any Go number type except NaN, infinities and negative zero (not pinned down); a float32 stands for the real number it holds exactly",
		"struct tags: only name, inline/squash and ignore are generated; fields without the selected tag (default names), unexported fields and the merge/replace/append/prepend flags are not generated; names written under one tag set never collide inside one namespace (duplicates are part 4); a struct type with a dotted name under any of its tag sets is always read with PathSep",
		"part 13 (names of an existing Config holding the separator literally): a whole name is never numeric, never empty and never of the form [..] (positions, the empty name and escaped paths are parts 11, 3 and C20's); the Config is read with Unpack into map[string]interface{} without options; Child / Has / setters with such names are not driven",
	}
}

// ---------------------------------------------------------------- leaves

var leafPool = append(append([]interface{}{}, gen.Prims...),
	int64(math.MaxInt64), int64(1)<<40, int64(5), int(42), int(-9), int32(-7), int32(math.MaxInt32),
	int16(300), int8(-128), uint8(255), uint16(65535), uint32(1)<<31, uint(9),
	float32(1.5), float32(-0.25), 1e-7, float64(1<<62)*2,
)

// dupVals are the non-nil primitives the duplicate constructions use.
var dupVals = []interface{}{int64(-3), uint64(7), "s", "t", true, false, 2.5, int64(0), "", uint64(1)}

func twoVals(r *rand.Rand) (interface{}, interface{}) {
	i := r.Intn(len(dupVals))
	j := r.Intn(len(dupVals) - 1)
	if j >= i {
		j++
	}
	return dupVals[i], dupVals[j]
}

// ---------------------------------------------------------------- spelled trees

const (
	spLeaf = iota
	spDict
	spList
	spRaw // a ready-made Go value (shared between several places of one input)
)

// sp is a tree as it is spelled in an input: dictionaries are ordered entry
// lists whose keys may be dotted (and, for struct carriers, repeated).
type sp struct {
	kind        int
	leaf        *model.Node // primitive or nil
	ents        []ent
	list        []*sp
	raw         interface{} // spRaw
	rawName     string
	placeholder bool // a nil written where another spelling of the namespace holds the value
}

type ent struct {
	key string
	val *sp
}

func leafSp(v interface{}) *sp { return &sp{kind: spLeaf, leaf: model.P(v)} }

func plain(n *model.Node) *sp {
	switch {
	case n == nil || n.Kind == model.KNil:
		return &sp{kind: spLeaf, leaf: model.Nil()}
	case n.Kind == model.KPrim:
		return &sp{kind: spLeaf, leaf: n}
	case n.HasA || len(n.A) > 0:
		s := &sp{kind: spList}
		for _, e := range n.A {
			s.list = append(s.list, plain(e))
		}
		return s
	}
	s := &sp{kind: spDict}
	for _, k := range n.SortedKeys() {
		s.ents = append(s.ents, ent{k, plain(n.D[k])})
	}
	return s
}

// chain spells keys[0] -> keys[1] -> ... -> leaf as nested one-entry maps.
func chain(keys []string, leaf *sp) *sp {
	for i := len(keys) - 1; i >= 0; i-- {
		leaf = &sp{kind: spDict, ents: []ent{{keys[i], leaf}}}
	}
	return leaf
}

func (s *sp) String() string {
	switch s.kind {
	case spRaw:
		return "<" + s.rawName + ">"
	case spLeaf:
		return s.leaf.String()
	case spList:
		var l []string
		for _, e := range s.list {
			l = append(l, e.String())
		}
		return "[" + strings.Join(l, ",") + "]"
	}
	var l []string
	for _, e := range s.ents {
		l = append(l, strconv.Quote(e.key)+":"+e.val.String())
	}
	return "{" + strings.Join(l, ",") + "}"
}

func (s *sp) at(path []string) *sp {
	for _, k := range path {
		var next *sp
		for _, e := range s.ents {
			if e.key == k {
				next = e.val
			}
		}
		if next == nil || next.kind != spDict {
			return nil
		}
		s = next
	}
	return s
}

func (s *sp) drop(key string) {
	out := s.ents[:0]
	for _, e := range s.ents {
		if e.key != key {
			out = append(out, e)
		}
	}
	s.ents = out
}

// reversed is a copy of s with the entries of every dictionary in the opposite
// order (struct carriers: the other declaration order).
func (s *sp) reversed() *sp {
	c := *s
	c.ents = nil
	for i := len(s.ents) - 1; i >= 0; i-- {
		c.ents = append(c.ents, ent{s.ents[i].key, s.ents[i].val.reversed()})
	}
	c.list = nil
	for _, e := range s.list {
		c.list = append(c.list, e.reversed())
	}
	return &c
}

func (s *sp) shuffle(r *rand.Rand) {
	r.Shuffle(len(s.ents), func(i, j int) { s.ents[i], s.ents[j] = s.ents[j], s.ents[i] })
}

// ---------------------------------------------------------------- flattening

type flattener struct {
	r        *rand.Rand
	dotted   int // dotted keys produced
	split    int // a sub-tree given by dotted keys AND a nested rest
	inner    int // dotted keys inside nested maps
	listpos  int // lists spelled by numeric positions
	maxSeg   int
	multi    int // >= 2 dotted keys with the same first segment in one map
	deep     int // a dictionary below the folded edge is divided between dotted and nested part
	phDict   int // nil placeholders: a setting given in one part of a divided dictionary is nil in the other
	partial  int // lists divided: some positions dotted, the nested list holds nil placeholders there
	trailing int // dotted keys ending in the separator (last path element is the empty name)
	ph       map[*model.Node]bool
}

func (f *flattener) placeholderNode() *model.Node {
	if f.ph == nil {
		f.ph = map[*model.Node]bool{}
	}
	n := model.Nil()
	f.ph[n] = true
	return n
}

func (f *flattener) dict(n *model.Node, depth int) *sp {
	s := &sp{kind: spDict}
	for _, k := range n.SortedKeys() {
		before := len(s.ents)
		f.emit(k, 1, n.D[k], &s.ents, depth)
		nd := 0
		for _, e := range s.ents[before:] {
			if strings.Contains(e.key, ".") {
				nd++
			}
		}
		if nd >= 2 {
			f.multi++
		}
	}
	s.shuffle(f.r)
	return s
}

func (f *flattener) emit(prefix string, segs int, c *model.Node, out *[]ent, depth int) {
	switch {
	case pureDict(c) && f.r.Intn(2) == 0:
		// one part of the sub-tree is folded into dotted keys, the rest stays
		// nested under the prefix; a deeper dictionary may be divided between
		// the two parts ({"a.b.x":1, "a":{"b":{"y":2}}})
		fold, keep := f.divide(c)
		for _, k2 := range fold.SortedKeys() {
			f.emit(prefix+"."+k2, segs+1, fold.D[k2], out, depth)
		}
		if len(keep.D) > 0 {
			f.note(prefix, segs, depth)
			*out = append(*out, ent{prefix, f.dict(keep, depth+1)})
			if len(fold.D) > 0 {
				f.split++
			}
		}
	case c.IsSub() && len(c.A) > 0 && len(c.D) == 0 && f.r.Intn(4) == 0:
		for i, e := range c.A {
			f.emit(prefix+"."+strconv.Itoa(i), segs+1, e, out, depth)
		}
		f.listpos++
	case c.IsSub() && len(c.A) > 1 && len(c.D) == 0 && f.r.Intn(4) == 0:
		// the list is divided: some positions are given by dotted keys, the
		// nested list holds nil placeholders there (trailing ones may be left
		// out); every position is given exactly once
		n := len(c.A)
		dotted := make([]bool, n)
		nd := 0
		for nd == 0 || nd == n {
			nd = 0
			for i := range dotted {
				dotted[i] = f.r.Intn(2) == 0
				if dotted[i] {
					nd++
				}
			}
		}
		rest := model.List()
		for i, e := range c.A {
			if dotted[i] {
				f.emit(prefix+"."+strconv.Itoa(i), segs+1, e, out, depth)
				rest.A = append(rest.A, f.placeholderNode())
			} else {
				rest.A = append(rest.A, e)
			}
		}
		if f.r.Intn(2) == 0 {
			for f.ph[rest.A[len(rest.A)-1]] {
				rest.A = rest.A[:len(rest.A)-1]
			}
		}
		f.note(prefix, segs, depth)
		*out = append(*out, ent{prefix, f.spell(rest, depth+1)})
		f.partial++
	default:
		f.note(prefix, segs, depth)
		s := f.spell(c, depth+1)
		if f.ph[c] {
			s.placeholder = true
		}
		*out = append(*out, ent{prefix, s})
	}
}

func pureDict(c *model.Node) bool {
	return c.IsSub() && len(c.D) > 0 && len(c.A) == 0 && !c.HasA
}

// divide distributes the settings of dictionary c over two partial trees.
func (f *flattener) divide(c *model.Node) (fold, keep *model.Node) {
	fold, keep = model.Dict(), model.Dict()
	for _, k := range c.SortedKeys() {
		ch := c.D[k]
		x := f.r.Intn(6)
		switch {
		case x == 0 && pureDict(ch):
			a, b := f.divide(ch)
			if len(a.D) > 0 {
				fold.D[k] = a
			}
			if len(b.D) > 0 {
				keep.D[k] = b
			}
			if len(a.D) > 0 && len(b.D) > 0 {
				f.deep++
			}
		case x < 4:
			fold.D[k] = ch
			if f.r.Intn(5) == 0 {
				keep.D[k] = f.placeholderNode()
				f.phDict++
			}
		default:
			keep.D[k] = ch
			if f.r.Intn(5) == 0 {
				fold.D[k] = f.placeholderNode()
				f.phDict++
			}
		}
	}
	return fold, keep
}

func (f *flattener) note(key string, segs, depth int) {
	if segs > 1 && strings.HasSuffix(key, ".") {
		f.trailing++
	}
	if segs > 1 {
		f.dotted++
		if depth > 0 {
			f.inner++
		}
		if segs > f.maxSeg {
			f.maxSeg = segs
		}
	}
}

func (f *flattener) spell(c *model.Node, depth int) *sp {
	switch {
	case c.IsSub() && (c.HasA || len(c.A) > 0):
		s := &sp{kind: spList}
		for _, e := range c.A {
			s.list = append(s.list, f.spell(e, depth))
		}
		return s
	case c.IsSub():
		return f.dict(c, depth)
	}
	s := plain(c)
	s.placeholder = f.ph[c]
	return s
}

func (f *flattener) shape() string {
	s := fmt.Sprintf("seg%d", f.maxSeg)
	if f.multi > 0 {
		s += "+multi"
	}
	if f.split > 0 {
		s += "+split"
	}
	if f.deep > 0 {
		s += "+deepsplit"
	}
	if f.inner > 0 {
		s += "+inner"
	}
	if f.listpos > 0 {
		s += "+listpos"
	}
	if f.phDict > 0 {
		s += "+nil-placeholder"
	}
	if f.partial > 0 {
		s += "+partial-list"
	}
	return s
}

// ---------------------------------------------------------------- carriers

const (
	stMap = iota
	stMapI
	stStruct
	stTyped
	stMixed
	stConfigValues // top-level map whose dictionary children are *Config
)

var styleName = map[int]string{stMap: "map", stMapI: "mapi", stStruct: "struct", stTyped: "typed", stMixed: "mixed", stConfigValues: "config-values"}

var ifaceT = reflect.TypeOf((*interface{})(nil)).Elem()

type fieldSpec struct {
	tag      string
	val      interface{}
	concrete bool   // field has the value's own type instead of interface{}
	typedNil int    // for a nil value: 1 = (*string)(nil), 2 = map[string]interface{}(nil), 3 = []interface{}(nil)
	decoy    string // a complete tag of another name on the same field (`json:"zz,ignore"`); never selected by the call
}

var typedNils = []reflect.Type{nil, reflect.TypeOf((*string)(nil)), reflect.TypeOf(map[string]interface{}(nil)), reflect.TypeOf([]interface{}(nil)),
	// 4..6: nil objects for fields tagged inline
	reflect.TypeOf((*struct {
		X int `config:"x"`
	})(nil)), reflect.TypeOf((*ucfg.Config)(nil)), reflect.TypeOf((*map[string]interface{})(nil))}

var nilInlineName = map[int]string{0: "interface", 2: "map", 4: "*struct", 5: "*Config", 6: "*map"}

func mkStruct(fs []fieldSpec, ptr bool) interface{} { return mkStructTag(fs, ptr, "config") }

// mkStructTag: the field names and flags are written under the tag name tag
// (the call has to select it with StructTag unless it is `config`).
func mkStructTag(fs []fieldSpec, ptr bool, tag string) interface{} {
	fields := make([]reflect.StructField, len(fs))
	for i, f := range fs {
		ft := ifaceT
		if f.val != nil && f.concrete {
			ft = reflect.TypeOf(f.val)
		}
		if f.val == nil && f.typedNil > 0 {
			ft = typedNils[f.typedNil]
		}
		fields[i] = reflect.StructField{
			Name: fmt.Sprintf("F%d", i),
			Type: ft,
			Tag:  reflect.StructTag(strings.TrimSpace(fmt.Sprintf(`%s:"%s" %s`, tag, f.tag, f.decoy))),
		}
		if i%2 == 1 && f.decoy != "" {
			fields[i].Tag = reflect.StructTag(fmt.Sprintf(`%s %s:"%s"`, f.decoy, tag, f.tag))
		}
	}
	p := reflect.New(reflect.StructOf(fields))
	for i, f := range fs {
		if f.val != nil {
			p.Elem().Field(i).Set(reflect.ValueOf(f.val))
		}
	}
	if ptr {
		return p.Interface()
	}
	return p.Elem().Interface()
}

func fld(tag string, val interface{}, concrete bool) fieldSpec {
	return fieldSpec{tag: tag, val: val, concrete: concrete}
}

func ptrTo(v interface{}) interface{} {
	rv := reflect.ValueOf(v)
	p := reflect.New(rv.Type())
	p.Elem().Set(rv)
	return p.Interface()
}

type builder struct {
	r             *rand.Rand
	pathSep       bool // nested *Config values are built with PathSep(".")
	noInline      bool
	noInlineCfg   bool   // no inline fields carried by an existing Config
	noNilInline   bool   // no inline fields holding nil
	tag           string // struct tag name the structs are written with ("" = the default `config`, no option needed)
	decoys        bool   // fields may carry a second tag of another name that says something else
	err           error  // first error building a nested *Config
	cfgs          []cfgSnap
	inlineCfg     int // inline fields carried by an existing Config
	inlineListCfg int // lists carried by a struct whose only field is an inlined list Config
	nilInline     int // inline fields holding a nil pointer or interface
	evals         int
	parts         map[string]bool
}

func newBuilder(r *rand.Rand, pathSep bool) *builder {
	return &builder{r: r, pathSep: pathSep, parts: map[string]bool{}}
}

var builderTags = []string{"", "", "config", "json", "cfg", "yaml"}

func (b *builder) tagName() string {
	if b.tag == "" {
		return "config"
	}
	return b.tag
}

// tagOpts are the options a call needs to read the structs of this builder.
func (b *builder) tagOpts() []ucfg.Option {
	if b.tag == "" {
		return nil
	}
	return []ucfg.Option{ucfg.StructTag(b.tag)}
}

// decoy writes a tag of another name that names, ignores or inlines the field
// differently; the call never selects it.
func (b *builder) decoy(key string) string {
	if !b.decoys || b.r.Intn(3) != 0 {
		return ""
	}
	b.parts["decoy-tag"] = true
	var other string
	for other == "" || other == b.tagName() {
		other = []string{"config", "json", "yaml", "cfg"}[b.r.Intn(4)]
	}
	k2 := gen.Keys[b.r.Intn(len(gen.Keys))]
	text := []string{k2, k2 + "." + key, key + ",ignore", ",ignore", ",inline", ",squash", "-", ""}[b.r.Intn(8)]
	return fmt.Sprintf(`%s:"%s"`, other, text)
}

// cfgSnap is what an existing *Config handed in as (part of) an input looked
// like before the call: the input is data, normalising it must not change it.
type cfgSnap struct {
	c      *ucfg.Config
	canon  string
	parent *ucfg.Config
	path   string
}

func snapConfig(c *ucfg.Config) (sn cfgSnap, ok bool) {
	var m map[string]interface{}
	var err error
	if p, _, _ := harness.Safe(func() {
		err = c.Unpack(&m)
		sn = cfgSnap{c: c, canon: model.CanonIfc(m), parent: c.Parent(), path: c.Path(".")}
	}); p || err != nil {
		return sn, false
	}
	return sn, true
}

func (b *builder) remember(c *ucfg.Config) {
	if sn, ok := snapConfig(c); ok {
		b.cfgs = append(b.cfgs, sn)
	}
}

// checkSnaps: the configs handed in are what they were before the call.
func (k *kase) checkSnaps(snaps []cfgSnap, what string) {
	for _, sn := range snaps {
		now, ok := snapConfig(sn.c)
		k.res.Ev("input_configs_compared_after_the_call", 1)
		switch {
		case !ok:
			k.res.Violate("input-config-unreadable-after-call", "a *Config used inside the input can not be unpacked any more after the call (it held %s); %s", sn.canon, what)
		case now.canon != sn.canon:
			k.res.Violate("input-config-modified", "a *Config used inside the input held %s before the call and holds %s after it; %s", sn.canon, now.canon, what)
		case now.parent != sn.parent || now.path != sn.path:
			k.res.Violate("input-config-reparented", "a *Config used inside the input had path %q before the call and has path %q (parent changed: %v) after it; %s", sn.path, now.path, now.parent != sn.parent, what)
		}
	}
}

func (b *builder) node(s *sp, st int, top bool) interface{} {
	switch s.kind {
	case spRaw:
		return s.raw
	case spLeaf:
		v := s.leaf.ToGo()
		if v != nil && st == stMixed && b.r.Intn(8) == 0 {
			b.parts["*T"] = true
			return ptrTo(v)
		}
		return v
	case spList:
		return b.list(s, st)
	}
	return b.dict(s, st, top)
}

func hasEmptyName(s *sp) bool {
	for _, e := range s.ents {
		if e.key == "" {
			return true
		}
	}
	return false
}

func sameLeafType(l []*sp) (reflect.Type, bool) {
	var t reflect.Type
	for _, e := range l {
		if e.kind != spLeaf || e.leaf.Kind != model.KPrim {
			return nil, false
		}
		et := reflect.TypeOf(e.leaf.Prim)
		if t == nil {
			t = et
		} else if t != et {
			return nil, false
		}
	}
	return t, t != nil
}

func allKind(l []*sp, kind int) bool {
	for _, e := range l {
		if e.kind != kind {
			return false
		}
	}
	return len(l) > 0
}

func (b *builder) list(s *sp, st int) interface{} {
	if (st == stStruct || st == stMixed) && !b.noInlineCfg && !b.noInline && len(s.list) > 0 && b.r.Intn(12) == 0 {
		// the list arrives as an existing Config inlined into a struct that
		// has nothing else: the struct stands for the list
		var opts []ucfg.Option
		if b.pathSep {
			opts = append(opts, ucfg.PathSep("."))
		}
		opts = append(opts, b.tagOpts()...)
		b.evals++
		if c, err := ucfg.NewFrom(b.list(s, stMap), opts...); err == nil {
			b.parts["inline-list-Config"] = true
			b.inlineListCfg++
			var v interface{} = c
			if b.r.Intn(3) == 0 {
				v = *c
			}
			return mkStructTag([]fieldSpec{{tag: ",inline", val: v, concrete: b.r.Intn(2) == 0}}, b.r.Intn(3) == 0, b.tagName())
		}
	}
	if st == stTyped || (st == stMixed && b.r.Intn(2) == 0) {
		if t, ok := sameLeafType(s.list); ok {
			n := len(s.list)
			b.parts["elem:"+t.String()] = true
			switch b.r.Intn(3) {
			case 0:
				b.parts["[]T"] = true
				sl := reflect.MakeSlice(reflect.SliceOf(t), n, n)
				for i, e := range s.list {
					sl.Index(i).Set(reflect.ValueOf(e.leaf.Prim))
				}
				return sl.Interface()
			default:
				a := reflect.New(reflect.ArrayOf(n, t))
				for i, e := range s.list {
					a.Elem().Index(i).Set(reflect.ValueOf(e.leaf.Prim))
				}
				if b.r.Intn(2) == 0 {
					b.parts["*[N]T"] = true
					return a.Interface()
				}
				b.parts["[N]T"] = true
				return a.Elem().Interface()
			}
		}
		if allKind(s.list, spDict) && b.r.Intn(2) == 0 {
			b.parts["[]map"] = true
			out := make([]map[string]interface{}, 0, len(s.list))
			for _, e := range s.list {
				out = append(out, b.dict(e, stMap, false).(map[string]interface{}))
			}
			return out
		}
		if len(s.list) > 0 && b.r.Intn(2) == 0 {
			b.parts["[N]interface"] = true
			a := reflect.New(reflect.ArrayOf(len(s.list), ifaceT)).Elem()
			for i, e := range s.list {
				if v := b.node(e, st, false); v != nil {
					a.Index(i).Set(reflect.ValueOf(v))
				}
			}
			return a.Interface()
		}
	}
	out := make([]interface{}, 0, len(s.list))
	for _, e := range s.list {
		out = append(out, b.node(e, st, false))
	}
	return out
}

func (b *builder) dict(s *sp, st int, top bool) interface{} {
	style, child := st, st
	switch st {
	case stMixed:
		style = []int{stMap, stMapI, stStruct, stTyped, -1}[b.r.Intn(5)]
		if style == -1 && top {
			style = stMap
		}
	case stConfigValues:
		style = stMap
		if !top {
			style = -1
		}
	}
	var out interface{}
	switch style {
	case -1:
		// an existing *Config as a value
		b.parts["*Config"] = true
		inner := b.dict(s, []int{stMap, stMapI, stStruct}[b.r.Intn(3)], true)
		var opts []ucfg.Option
		if b.pathSep {
			opts = append(opts, ucfg.PathSep("."))
		}
		opts = append(opts, b.tagOpts()...)
		b.evals++
		c, err := ucfg.NewFrom(inner, opts...)
		if err != nil {
			if b.err == nil {
				b.err = err
			}
			return inner
		}
		b.remember(c)
		if b.r.Intn(4) == 0 {
			b.parts["Config-by-value"] = true
			return *c
		}
		return c
	case stMapI:
		b.parts["map[interface]"] = true
		m := make(map[interface{}]interface{}, len(s.ents))
		for _, e := range s.ents {
			m[e.key] = b.node(e.val, child, false)
		}
		out = m
	case stStruct:
		if hasEmptyName(s) {
			// the empty name can not be written as a struct tag (an empty tag
			// stands for the default name)
			b.parts["map[string]"] = true
			m := make(map[string]interface{}, len(s.ents))
			for _, e := range s.ents {
				m[e.key] = b.node(e.val, child, false)
			}
			return m
		}
		return b.structOf(s, child, st == stMixed && b.r.Intn(3) == 0 || st == stStruct && !top && b.r.Intn(3) == 0)
	case stTyped:
		vals := make([]*sp, 0, len(s.ents))
		for _, e := range s.ents {
			vals = append(vals, e.val)
		}
		if t, ok := sameLeafType(vals); ok {
			b.parts["map[string]T"] = true
			b.parts["elem:"+t.String()] = true
			m := reflect.MakeMapWithSize(reflect.MapOf(reflect.TypeOf(""), t), len(vals))
			for _, e := range s.ents {
				m.SetMapIndex(reflect.ValueOf(e.key), reflect.ValueOf(e.val.leaf.Prim))
			}
			out = m.Interface()
			break
		}
		if allKind(vals, spDict) && b.r.Intn(2) == 0 {
			b.parts["map[string]map"] = true
			m := make(map[string]map[string]interface{}, len(vals))
			for _, e := range s.ents {
				m[e.key] = b.dict(e.val, stMap, false).(map[string]interface{})
			}
			out = m
			break
		}
		if allKind(vals, spList) && b.r.Intn(2) == 0 {
			b.parts["map[string][]interface"] = true
			m := make(map[string][]interface{}, len(vals))
			for _, e := range s.ents {
				m[e.key] = b.list(e.val, stMap).([]interface{})
			}
			out = m
			break
		}
		fallthrough
	default:
		b.parts["map[string]"] = true
		m := make(map[string]interface{}, len(s.ents))
		for _, e := range s.ents {
			m[e.key] = b.node(e.val, child, false)
		}
		out = m
	}
	if st == stMixed && b.r.Intn(4) == 0 {
		b.parts["*map"] = true
		return ptrTo(out)
	}
	return out
}

func (b *builder) structOf(s *sp, child int, ptr bool) interface{} {
	b.parts["struct"] = true
	if ptr {
		b.parts["*struct"] = true
	}
	mk := func(e ent) fieldSpec {
		f := fieldSpec{tag: e.key, val: b.node(e.val, child, false), concrete: b.r.Intn(2) == 0, decoy: b.decoy(e.key)}
		if f.val == nil && b.r.Intn(2) == 0 {
			f.typedNil = 1 + b.r.Intn(3)
			if e.val.placeholder {
				// a placeholder next to a value is plainly nil (a nil map or
				// slice may pass for an empty object)
				f.typedNil = 1
			}
			b.parts["typed-nil-field"] = true
		}
		return f
	}
	var fs []fieldSpec
	if !b.noInline && len(s.ents) >= 2 && b.r.Intn(4) == 0 {
		// move a non-empty subset of the entries into an inline struct or map
		var in, rest []ent
		for _, e := range s.ents {
			if b.r.Intn(2) == 0 {
				in = append(in, e)
			} else {
				rest = append(rest, e)
			}
		}
		if len(in) == 0 {
			in, rest = rest[:1], rest[1:]
		}
		var inl interface{}
		inlConcrete := true
		if b.r.Intn(2) == 0 {
			b.parts["inline-struct"] = true
			var ifs []fieldSpec
			for _, e := range in {
				ifs = append(ifs, mk(e))
			}
			inl = mkStructTag(ifs, b.r.Intn(3) == 0, b.tagName())
		} else {
			b.parts["inline-map"] = true
			m := make(map[string]interface{}, len(in))
			for _, e := range in {
				m[e.key] = b.node(e.val, child, false)
			}
			inl = m
			if !b.noInlineCfg && b.r.Intn(3) == 0 {
				// the group arrives as an existing Config (Merge: an inlined field
				// "can be a struct, a slice, an array, a map or of type *Config")
				var opts []ucfg.Option
				if b.pathSep {
					opts = append(opts, ucfg.PathSep("."))
				}
				opts = append(opts, b.tagOpts()...)
				b.evals++
				c, err := ucfg.NewFrom(m, opts...)
				if err != nil {
					if b.err == nil {
						b.err = err
					}
				} else {
					b.remember(c)
					switch b.r.Intn(3) {
					case 0:
						b.parts["inline-*Config"] = true
						inl = c
					case 1:
						b.parts["inline-interface(*Config)"] = true
						inl, inlConcrete = c, false
					default:
						b.parts["inline-Config-by-value"] = true
						inl = *c
					}
					b.inlineCfg++
				}
			}
		}
		pos := b.r.Intn(len(rest) + 1)
		for i, e := range rest {
			if i == pos {
				fs = append(fs, fieldSpec{tag: ",inline", val: inl, concrete: inlConcrete})
			}
			fs = append(fs, mk(e))
		}
		if pos == len(rest) {
			fs = append(fs, fieldSpec{tag: ",inline", val: inl, concrete: inlConcrete})
		}
	} else {
		for _, e := range s.ents {
			fs = append(fs, mk(e))
		}
	}
	if !b.noInline && !b.noNilInline && b.r.Intn(16) == 0 {
		// an inline part that is nil contributes nothing (nil == empty object)
		kind := []int{0, 2, 4, 5, 6}[b.r.Intn(5)]
		b.parts["inline-nil-"+nilInlineName[kind]] = true
		if kind != 2 {
			b.nilInline++ // a nil map is an empty map for Go as well
		}
		nf := fieldSpec{tag: []string{",inline", ",squash"}[b.r.Intn(2)], typedNil: kind}
		pos := b.r.Intn(len(fs) + 1)
		fs = append(fs[:pos], append([]fieldSpec{nf}, fs[pos:]...)...)
	}
	if !b.noInline && b.r.Intn(6) == 0 {
		// a field excluded by its tag must leave no trace
		b.parts["ignored-field"] = true
		ign := fieldSpec{tag: gen.Keys[b.r.Intn(len(gen.Keys))] + ",ignore", val: "ignored", concrete: true}
		pos := b.r.Intn(len(fs) + 1)
		fs = append(fs[:pos], append([]fieldSpec{ign}, fs[pos:]...)...)
	}
	return mkStructTag(fs, ptr, b.tagName())
}

// ---------------------------------------------------------------- observation

type kase struct {
	res     *harness.R
	idx     int
	r       *rand.Rand
	t       *model.Node
	want    string
	verbose bool
	refWalk []string
	refName string
	o       gen.TreeOpts
	// set around a call whose input comes from a builder
	snaps         []cfgSnap // the *Config values inside the input
	inlineCfg     bool      // the input has inline fields carried by an existing Config
	inlineListCfg bool      // ... carried by an existing Config that is a list
	nilInline     bool      // the input has inline fields holding a nil pointer or interface
}

// with runs f while the observation knows what the builder put into the input.
func (k *kase) with(b *builder, f func()) {
	k.snaps, k.inlineCfg, k.inlineListCfg, k.nilInline = b.cfgs, b.inlineCfg > 0, b.inlineListCfg > 0, b.nilInline > 0
	f()
	k.snaps, k.inlineCfg, k.inlineListCfg, k.nilInline = nil, false, false, false
}

// onlyMissing: the observed data hold nothing the tree does not hold, but
// lack some of its settings.
func onlyMissing(want *model.Node, got interface{}) bool {
	return model.CanonIfc(got) != want.Canon() && within(want, model.FromIfc(got))
}

func within(want, got *model.Node) bool {
	switch {
	case got.Canon() == "nil":
		return true
	case want == nil || want.Kind != got.Kind:
		return false
	case got.Kind == model.KPrim:
		return model.PrimCanon(want.Prim) == model.PrimCanon(got.Prim)
	}
	if len(got.A) > 0 {
		// a list may have lost its tail together with the settings below it
		if len(got.A) > len(want.A) || len(got.D) > 0 {
			return false
		}
		for i, e := range got.A {
			if !within(want.A[i], e) {
				return false
			}
		}
		return true
	}
	for key, e := range got.D {
		if !within(want.D[key], e) {
			return false
		}
	}
	return true
}

var sepOpts = []ucfg.Option{ucfg.PathSep(".")}

func (k *kase) newFrom(what string, src interface{}, opts []ucfg.Option) (c *ucfg.Config, err error, ok bool) {
	k.res.Eval(1)
	p, pv, where := harness.Safe(func() { c, err = ucfg.NewFrom(src, opts...) })
	if p {
		sig := "panic:NewFrom"
		if reflect.TypeOf(src) == reflect.TypeOf(ucfg.Config{}) {
			sig += ":config-by-value"
		}
		k.res.Violate(sig, "NewFrom panicked with %q at %s; %s", pv, where, what)
		return nil, nil, false
	}
	return c, err, true
}

func (k *kase) unpack(what string, c *ucfg.Config, opts []ucfg.Option) (m map[string]interface{}, ok bool) {
	k.res.Eval(1)
	var err error
	p, pv, where := harness.Safe(func() { err = c.Unpack(&m, opts...) })
	if p {
		k.res.Violate("panic:Unpack", "Unpack panicked with %q at %s; %s", pv, where, what)
		return nil, false
	}
	if err != nil {
		k.res.Violate("unpack-error", "Unpack into map[string]interface{} failed: %v; %s", err, what)
		return nil, false
	}
	return m, true
}

// walk reads the stored structure, checks its wiring and returns the
// normalised listing (nil/empty dictionary entries removed, empty list
// elements turned into nil).
func (k *kase) walk(what string, c *ucfg.Config) []string {
	var nodes []ucfg.VerifNode
	if p, pv, where := harness.Safe(func() { nodes = ucfg.VerifWalk(c) }); p {
		k.res.Violate("panic:VerifWalk", "walk panicked with %q at %s; %s", pv, where, what)
		return nil
	}
	for i, n := range nodes {
		if i == 0 {
			if n.Field != "" || n.Parent != 0 {
				k.res.Violate("miswired-tree", "root of a config made by NewFrom has stored field %q / a parent; %s", n.Field, what)
			}
			continue
		}
		last := n.Walk
		if j := strings.LastIndex(last, "."); j >= 0 {
			last = last[j+1:]
		}
		switch {
		case n.Kind == "<nil-interface>":
			k.res.Violate("miswired-tree", "node %q is a nil value interface; %s", n.Walk, what)
		case n.Field != last:
			k.res.Violate("miswired-tree", "node reached as %q stores field name %q; %s", n.Walk, n.Field, what)
		case n.Parent != n.Holder:
			k.res.Violate("miswired-tree", "node %q: stored parent is not the config holding it; %s", n.Walk, what)
		}
	}
	pos := 0
	var out []string
	normWalk(nodes, &pos, &out)
	return out
}

// normWalk consumes the pre-order listing of one node and appends its
// normalised lines; it reports whether the node is nil-like.
func normWalk(nodes []ucfg.VerifNode, pos *int, out *[]string) bool {
	if *pos >= len(nodes) {
		return true
	}
	n := nodes[*pos]
	*pos++
	if n.Kind != "sub" {
		if n.Kind == "nil" {
			return true
		}
		*out = append(*out, fmt.Sprintf("%s|%s|%q|%s", n.Walk, n.Kind, n.Text, n.Field))
		return false
	}
	self := len(*out)
	*out = append(*out, "")
	nd := 0
	for i := 0; i < n.NDict; i++ {
		mark := len(*out)
		if normWalk(nodes, pos, out) {
			*out = (*out)[:mark]
		} else {
			nd++
		}
	}
	for i := 0; i < n.NArr; i++ {
		mark := len(*out)
		if *pos < len(nodes) {
			el := nodes[*pos]
			if normWalk(nodes, pos, out) {
				*out = append((*out)[:mark], fmt.Sprintf("%s|nil|\"\"|%s", el.Walk, el.Field))
			}
		}
	}
	if nd == 0 && n.NArr == 0 {
		*out = (*out)[:self]
		return true
	}
	(*out)[self] = fmt.Sprintf("%s|sub|%s|dict=%d|list=%d", n.Walk, n.Field, nd, n.NArr)
	return false
}

func diffWalk(a, b []string) string {
	for i := 0; i < len(a) || i < len(b); i++ {
		x, y := "<end>", "<end>"
		if i < len(a) {
			x = a[i]
		}
		if i < len(b) {
			y = b[i]
		}
		if x != y {
			return fmt.Sprintf("first difference at node %d: %s vs %s", i, x, y)
		}
	}
	return ""
}

func sameWalk(a, b []string) bool {
	if len(a) != len(b) {
		return false
	}
	for i := range a {
		if a[i] != b[i] {
			return false
		}
	}
	return true
}

func reasonShort(err error) string {
	n := obs.ReasonName(err)
	if strings.HasPrefix(n, "other:") {
		return "other"
	}
	if strings.HasPrefix(n, "raw:") {
		return "untyped"
	}
	return n
}

// checkRep: oracle parts (1) and (2) for one representation of the tree.
func (k *kase) checkRep(name string, src interface{}, pathSep bool, extra ...ucfg.Option) {
	var opts []ucfg.Option
	label := name
	if pathSep {
		opts = sepOpts
		label += "+pathsep"
	}
	what := fmt.Sprintf("representation %s of tree %s", label, k.t)
	c1, err, ok := k.newFrom(what, src, append(append([]ucfg.Option{}, opts...), extra...))
	if !ok {
		return
	}
	if err != nil {
		if k.nilInline && reasonShort(err) == "ErrTypeMismatch" {
			k.res.Violate("inline-nil-field:rejected", "the input has struct fields tagged inline that hold a nil pointer or nil interface, and NewFrom returned %v; %s", err, what)
			return
		}
		k.res.Violate("newfrom-error:"+name, "NewFrom returned %v (%s); %s", err, reasonShort(err), what)
		return
	}
	x1, ok := k.unpack(what, c1, opts)
	if !ok {
		return
	}
	k.res.SetAdd("representation", label)
	got := model.CanonIfc(x1)
	if got != k.want {
		if typ, where, found := numberChanged(k.t, x1, ""); found {
			k.res.Violate("number-not-preserved:"+typ, "a number of the input comes back as another number: %s; unpack gives %s, the tree is %s; %s", where, got, k.want, what)
			return
		}
		if k.inlineListCfg && onlyMissing(k.t, x1) {
			k.res.Violate("inline-config-field:list-elements-missing", "the input has lists carried by a struct whose inline field holds an existing list Config, and settings are missing: unpack gives %s, the tree is %s; %s", got, k.want, what)
			return
		}
		if k.inlineCfg && onlyMissing(k.t, x1) {
			k.res.Violate("inline-config-field:settings-missing", "the input has struct fields tagged inline that hold an existing Config, and settings are missing: unpack gives %s, the tree is %s; %s", got, k.want, what)
			return
		}
		k.res.Violate("representation-disagrees:"+name, "unpack gives %s, the tree is %s; %s", got, k.want, what)
		return
	}
	w1 := k.walk(what, c1)
	k.checkSnaps(k.snaps, what)
	k.again(what, src, append(append([]ucfg.Option{}, opts...), extra...), opts, got, w1)
	if k.refWalk == nil {
		k.refWalk, k.refName = w1, label
	} else if !sameWalk(w1, k.refWalk) {
		k.res.Violate("representation-structure-differs:"+name, "stored structure differs from the one built from %s: %s; %s", k.refName, diffWalk(w1, k.refWalk), what)
	}
	// (2) feed the result back in
	what2 := "feeding back the unpacked result of " + what
	c2, err, ok := k.newFrom(what2, x1, opts)
	if !ok {
		return
	}
	if err != nil {
		k.res.Violate("refeed-newfrom-error", "NewFrom(unpacked) returned %v; %s", err, what2)
		return
	}
	x2, ok := k.unpack(what2, c2, opts)
	if !ok {
		return
	}
	if g2 := model.CanonIfc(x2); g2 != got {
		k.res.Violate("roundtrip-not-idempotent", "second unpack gives %s, first gave %s; %s", g2, got, what2)
		return
	}
	if w2 := k.walk(what2, c2); !sameWalk(w1, w2) {
		k.res.Violate("refeed-structure-differs", "config rebuilt from its own unpacked data is stored differently: %s; %s", diffWalk(w1, w2), what2)
	}
	k.res.Ev("refeed_checked", 1)
}

// again: the input is data, not consumed - normalising the same Go value once
// more gives the same config.
func (k *kase) again(what string, src interface{}, opts, unpackOpts []ucfg.Option, got string, w1 []string) {
	what = "second call with the same Go value: " + what
	c, err, ok := k.newFrom(what, src, opts)
	if !ok {
		return
	}
	if err != nil {
		k.res.Violate("second-call-with-same-value:error:"+reasonShort(err), "NewFrom returned %v, the first call succeeded; %s", err, what)
		return
	}
	x, ok := k.unpack(what, c, unpackOpts)
	if !ok {
		return
	}
	k.res.Ev("second_call_with_same_value_checked", 1)
	if g := model.CanonIfc(x); g != got {
		k.res.Violate("second-call-with-same-value:disagrees", "unpack gives %s, the first call gave %s; %s", g, got, what)
		return
	}
	if w := k.walk(what, c); w1 != nil && !sameWalk(w, w1) {
		k.res.Violate("second-call-with-same-value:structure-differs", "stored structure differs from the first call: %s; %s", diffWalk(w, w1), what)
	}
	k.checkSnaps(k.snaps, what)
}

// ptrIfaceValues renders the tree with map values and list elements wrapped
// in *interface{} (some of them holding another pointer).
func ptrIfaceValues(r *rand.Rand, n *model.Node) interface{} {
	wrap := func(v interface{}) interface{} {
		if v == nil || r.Intn(3) == 0 {
			return v // nil stays nil; some values stay plain
		}
		p := new(interface{})
		*p = v
		if r.Intn(4) == 0 {
			var q interface{} = p
			return &q // *interface{} holding a *interface{}
		}
		return p
	}
	if n == nil || n.Kind == model.KNil {
		return nil
	}
	if n.Kind == model.KPrim {
		return n.Prim
	}
	if (n.HasA || len(n.A) > 0) && len(n.D) == 0 {
		l := make([]interface{}, 0, len(n.A))
		for _, e := range n.A {
			l = append(l, wrap(ptrIfaceValues(r, e)))
		}
		return l
	}
	m := make(map[string]interface{}, len(n.D))
	for key, e := range n.D {
		m[key] = wrap(ptrIfaceValues(r, e))
	}
	return m
}

func (k *kase) representations() {
	r, t := k.r, k.t
	m := t.ToGo().(map[string]interface{})
	k.checkRep("map", m, false)
	k.checkRep("map", t.ToGo(), true)
	k.checkRep("mapi", gen.ToMapI(t), r.Intn(2) == 0)
	if v, ok := gen.ToStruct(r, t); ok && v != nil {
		k.checkRep("struct", v, r.Intn(2) == 0)
		if reflect.ValueOf(v).Kind() != reflect.Ptr {
			v = ptrTo(v)
		}
		k.checkRep("ptr-struct", v, r.Intn(2) == 0)
	}
	k.checkRep("typed", gen.ToTyped(r, t), r.Intn(2) == 0)
	k.checkRep("ptr-map", &m, r.Intn(2) == 0)
	if r.Intn(2) == 0 {
		pm := &m
		k.checkRep("ptr-ptr-map", &pm, r.Intn(2) == 0)
	}
	// pointers to interface values: the whole tree behind a *interface{}, and
	// every map value / list element behind one (also a *interface{} holding a
	// pointer) - pointers are followed to the end, whatever they point to
	{
		var top interface{} = m
		k.checkRep("ptr-iface", &top, r.Intn(2) == 0)
		k.checkRep("ptr-iface-values", ptrIfaceValues(r, t), r.Intn(2) == 0)
	}
	for _, st := range []int{stStruct, stTyped, stMixed, stConfigValues} {
		ps := r.Intn(2) == 0
		b := newBuilder(r, ps)
		b.tag, b.decoys = builderTags[r.Intn(len(builderTags))], true
		v := b.node(plain(t), st, true)
		k.res.Eval(b.evals)
		if b.parts["struct"] {
			k.res.SetAdd("struct_tag_option", "StructTag("+b.tag+")")
		}
		if b.err != nil && b.nilInline > 0 && reasonShort(b.err) == "ErrTypeMismatch" {
			k.res.Violate("inline-nil-field:rejected", "the input has struct fields tagged inline that hold a nil pointer or nil interface, and building a nested *Config from it failed: %v; tree %s", b.err, t)
			continue
		}
		if b.err != nil {
			k.res.Violate("newfrom-error:config-part", "building a nested *Config failed: %v; tree %s", b.err, t)
			continue
		}
		name := styleName[st] + "2"
		if st == stMixed || st == stConfigValues {
			name = styleName[st]
		}
		k.with(b, func() { k.checkRep(name, v, ps, b.tagOpts()...) })
		for p := range b.parts {
			if strings.HasPrefix(p, "elem:") {
				k.res.SetAdd("typed_container_element", p[5:])
				continue
			}
			k.res.SetAdd("node_representation", p)
		}
	}
	// an existing *Config built from another representation
	{
		from := []string{"map", "mapi", "struct", "typed"}[r.Intn(4)]
		var src interface{}
		switch from {
		case "map":
			src = t.ToGo()
		case "mapi":
			src = gen.ToMapI(t)
		case "typed":
			src = gen.ToTyped(r, t)
		default:
			if v, ok := gen.ToStruct(r, t); ok && v != nil {
				src = v
			} else {
				src, from = t.ToGo(), "map"
			}
		}
		base, err, ok := k.newFrom("building the base *Config from "+from, src, nil)
		if ok && err == nil {
			k.checkRep("config("+from+")", base, r.Intn(2) == 0)
			if k.idx < 3 {
				// the outcome does not depend on the tree: three cases per run
				// (fewer than the harness' per-batch witness limit)
				k.checkRep("config-by-value", *base, false)
			}
		}
	}
	// a child handle of a larger config
	{
		what := fmt.Sprintf("child handle of {w: %s}", t)
		w, err, ok := k.newFrom(what, map[string]interface{}{"w": t.ToGo(), "z": int64(1)}, nil)
		if ok && err == nil {
			var ch *ucfg.Config
			k.res.Eval(1)
			if p, pv, where := harness.Safe(func() { ch, err = w.Child("w", -1) }); p {
				k.res.Violate("panic:Child", "Child panicked with %q at %s; %s", pv, where, what)
			} else if err != nil {
				k.res.Violate("newfrom-error:child", "Child(\"w\") of a config holding the dictionary failed: %v; %s", err, what)
			} else {
				k.checkRep("child", ch, r.Intn(2) == 0)
			}
		}
	}
}

// ---------------------------------------------------------------- (3) flattenings

var carriers = []int{stMap, stMap, stMapI, stStruct, stTyped, stMixed}

func (k *kase) flattenings(n int) []string {
	var samples []string
	for i := 0; i < n; i++ {
		var f *flattener
		var s *sp
		for try := 0; try < 4; try++ {
			f = &flattener{r: k.r}
			s = f.dict(k.t, 0)
			if f.dotted > 0 {
				break
			}
		}
		if f.dotted == 0 {
			k.res.Ev("flattening_impossible", 1)
			return samples
		}
		shape := f.shape()
		first := carriers[k.r.Intn(len(carriers))]
		second := carriers[k.r.Intn(len(carriers))]
		sts := []int{first}
		if second != first {
			sts = append(sts, second)
		}
		for _, st := range sts {
			k.flatOne(f, s, st, shape, "")
			if st == stStruct || st == stMixed {
				// struct fields are met in declaration order: the other order too
				k.flatOne(f, s.reversed(), st, shape, "fields in the opposite order; ")
				k.res.Ev("flattenings_in_both_field_orders", 1)
			}
		}
		if len(samples) < 2 {
			samples = append(samples, s.String())
		}
	}
	return samples
}

// flatOne: one spelling carried by one carrier must give the nested form's
// config, twice in a row, and leave the configs inside the input alone.
func (k *kase) flatOne(f *flattener, s *sp, st int, shape, note string) {
	b := newBuilder(k.r, true)
	b.tag, b.decoys = builderTags[k.r.Intn(len(builderTags))], true
	v := b.node(s, st, true)
	k.res.Eval(b.evals)
	what := fmt.Sprintf("%sflattening %s (shape %s) carried by %s; tree %s", note, s, shape, styleName[st], k.t)
	if b.tag != "" {
		what += "; structs tagged `" + b.tag + "`, call with StructTag(" + b.tag + ")"
	}
	if b.err != nil && b.nilInline > 0 && reasonShort(b.err) == "ErrTypeMismatch" {
		k.res.Violate("inline-nil-field:rejected", "the input has struct fields tagged inline that hold a nil pointer or nil interface, and building a nested *Config from it failed: %v; %s", b.err, what)
		return
	}
	if b.err != nil {
		k.res.Violate("dotted-newfrom-error:config-part:"+reasonShort(b.err), "building a nested *Config from dotted keys failed: %v; %s", b.err, what)
		return
	}
	opts := append(append([]ucfg.Option{}, sepOpts...), b.tagOpts()...)
	c, err, ok := k.newFrom(what, v, opts)
	if !ok {
		return
	}
	sfx := ""
	switch {
	case f.partial > 0:
		sfx = ":partial-list"
	case f.phDict > 0:
		sfx = ":nil-placeholder"
	case f.listpos > 0:
		sfx = ":list-position"
	}
	if err != nil {
		if b.nilInline > 0 && reasonShort(err) == "ErrTypeMismatch" {
			k.res.Violate("inline-nil-field:rejected", "the input has struct fields tagged inline that hold a nil pointer or nil interface, and NewFrom returned %v; %s", err, what)
			return
		}
		k.res.Violate("dotted-newfrom-error:"+reasonShort(err)+sfx, "NewFrom with PathSep returned %v; %s", err, what)
		return
	}
	x, ok := k.unpack(what, c, sepOpts)
	if !ok {
		return
	}
	k.res.SetAdd("flattening_shape", shape)
	k.res.SetAdd("flattening_carrier", styleName[st])
	k.res.Ev("flattenings_checked", 1)
	if f.partial > 0 {
		k.res.Ev("flattenings_with_partial_lists", 1)
	}
	if f.phDict > 0 {
		k.res.Ev("flattenings_with_nil_placeholders", 1)
	}
	if f.trailing > 0 {
		k.res.Ev("flattenings_with_keys_ending_in_the_separator", 1)
	}
	got := model.CanonIfc(x)
	if got != k.want {
		if typ, where, found := numberChanged(k.t, x, ""); found {
			k.res.Violate("number-not-preserved:"+typ, "a number of the input comes back as another number: %s; unpack gives %s, the tree is %s; %s", where, got, k.want, what)
			return
		}
		if b.inlineListCfg > 0 && onlyMissing(k.t, x) {
			k.res.Violate("inline-config-field:list-elements-missing", "the input has lists carried by a struct whose inline field holds an existing list Config, and settings are missing: unpack gives %s, the tree is %s; %s", got, k.want, what)
			return
		}
		if b.inlineCfg > 0 && onlyMissing(k.t, x) {
			k.res.Violate("inline-config-field:settings-missing", "the input has struct fields tagged inline that hold an existing Config, and settings are missing: unpack gives %s, the tree is %s; %s", got, k.want, what)
			return
		}
		k.res.Violate("dotted-nested-disagree"+sfx, "unpack gives %s, the nested form gives %s; %s", got, k.want, what)
		return
	}
	w := k.walk(what, c)
	if k.refWalk != nil && !sameWalk(w, k.refWalk) {
		k.res.Violate("dotted-structure-differs"+sfx, "stored structure differs from the nested form: %s; %s", diffWalk(w, k.refWalk), what)
	}
	k.checkSnaps(b.cfgs, what)
	k.with(b, func() { k.again(what, v, opts, sepOpts, got, w) })
}

// ---------------------------------------------------------------- (4) duplicates

func isDup(err error) bool {
	if err == nil {
		return false
	}
	if errors.Is(err, ucfg.ErrDuplicateKey) {
		return true
	}
	if e, ok := err.(ucfg.Error); ok {
		if r := e.Reason(); r != nil && (r == ucfg.ErrDuplicateKey || errors.Is(r, ucfg.ErrDuplicateKey)) {
			return true
		}
	}
	return false
}

func classify(err error) string {
	switch {
	case err == nil:
		return "accepted"
	case isDup(err):
		return "duplicate-error"
	}
	return "other-error:" + reasonShort(err)
}

// ensureChain makes keys[0] -> ... -> keys[n-1] a chain of dictionaries below
// h ending in leaf.
func ensureChain(h *model.Node, keys []string, leaf *model.Node) {
	cur := h
	for _, key := range keys[:len(keys)-1] {
		c := cur.D[key]
		if !(c.IsSub() && !c.HasA && len(c.A) == 0) {
			c = model.Dict()
			cur.D[key] = c
		}
		if c.D == nil {
			c.D = map[string]*model.Node{}
		}
		cur = c
	}
	cur.D[keys[len(keys)-1]] = leaf
}

func (k *kase) pickKeys(n int) []string {
	out := make([]string, n)
	for i := range out {
		out[i] = gen.Keys[k.r.Intn(len(gen.Keys))]
	}
	return out
}

var mapDups = []string{"a/leaf", "a/leaf", "a/partial", "b/flat", "b/nested", "b/dotted", "c/flat", "c/nested"}

var sigBase = map[string]string{
	"a/leaf":                    "duplicate-dotted-vs-nested",
	"a/partial":                 "duplicate-two-partial-spellings",
	"b/flat":                    "duplicate-prefix-primitive",
	"b/nested":                  "duplicate-nested-prefix-primitive",
	"b/dotted":                  "duplicate-dotted-prefix-primitive",
	"c/flat":                    "duplicate-list-position",
	"c/nested":                  "duplicate-nested-list-position",
	"d/same-tag":                "duplicate-struct-field-names",
	"d/inline-struct-vs-field":  "duplicate-inline-struct-vs-field",
	"d/inline-map-vs-field":     "duplicate-inline-map-vs-field",
	"d/dotted-tag-vs-nested":    "duplicate-dotted-vs-nested",
	"d/dotted-tag-below-scalar": "duplicate-prefix-primitive",
}

const dupRuns = 40

// mapDuplicate builds one map-carried duplicate construction inside a copy of
// the tree and runs it dupRuns times with permuted insertion order.
func (k *kase) mapDuplicate(cons string) string {
	r := k.r
	t2 := k.t.Copy()
	// holder: the dictionary that receives both spellings
	h := t2
	var hpath []string
	for d := 0; d < 2 && r.Intn(2) == 0; d++ {
		var cand []string
		for _, key := range h.SortedKeys() {
			if c := h.D[key]; c.IsSub() && !c.HasA && len(c.A) == 0 && c.D != nil {
				cand = append(cand, key)
			}
		}
		if len(cand) == 0 {
			break
		}
		key := cand[r.Intn(len(cand))]
		hpath = append(hpath, key)
		h = h.D[key]
	}
	v, v2 := twoVals(r)
	var extra []ent
	var dropKey string
	switch cons {
	case "a/leaf":
		keys := k.pickKeys(2 + r.Intn(2))
		ensureChain(h, keys, model.P(v))
		extra = []ent{{strings.Join(keys, "."), leafSp(v2)}}
	case "a/partial":
		keys := k.pickKeys(3 + r.Intn(2))
		ensureChain(h, keys, model.P(v))
		i := 2 + r.Intn(len(keys)-2)
		extra = []ent{{strings.Join(keys[:i], "."), chain(keys[i:], leafSp(v2))}}
	case "b/flat":
		keys := k.pickKeys(2)
		h.D[keys[0]] = model.P(v)
		extra = []ent{{strings.Join(keys, "."), leafSp(v2)}}
	case "b/nested":
		keys := k.pickKeys(3)
		ensureChain(h, keys[:2], model.P(v))
		extra = []ent{{strings.Join(keys, "."), leafSp(v2)}}
	case "b/dotted":
		keys := k.pickKeys(3)
		dropKey = keys[0]
		delete(h.D, keys[0])
		extra = []ent{{strings.Join(keys[:2], "."), leafSp(v)}, {strings.Join(keys, "."), leafSp(v2)}}
	case "c/flat", "c/nested":
		keys := k.pickKeys(1)
		if cons == "c/nested" {
			keys = k.pickKeys(2)
		}
		l := model.List()
		for i, n := 0, 1+r.Intn(3); i < n; i++ {
			l.A = append(l.A, model.P(leafPool[r.Intn(len(leafPool))]))
		}
		i := r.Intn(len(l.A))
		l.A[i] = model.P(v)
		ensureChain(h, keys, l)
		extra = []ent{{strings.Join(keys, ".") + "." + strconv.Itoa(i), leafSp(v2)}}
	}
	top := plain(t2)
	holder := top.at(hpath)
	if holder == nil {
		k.res.Inconc("duplicate construction %s: holder %v not found in %s", cons, hpath, top)
		return ""
	}
	if dropKey != "" {
		holder.drop(dropKey)
	}
	holder.ents = append(holder.ents, extra...)
	st := stMap
	if r.Intn(4) == 0 {
		st = stMapI
	}
	counts := map[string]int{}
	for run := 0; run < dupRuns; run++ {
		holder.shuffle(r)
		b := newBuilder(r, true)
		v := b.node(top, st, true)
		what := fmt.Sprintf("duplicate construction %s: %s carried by %s", cons, top, styleName[st])
		_, err, ok := k.newFrom(what, v, sepOpts)
		if !ok {
			return ""
		}
		counts[classify(err)]++
	}
	var core []string
	for _, e := range extra {
		core = append(core, strconv.Quote(e.key)+":"+e.val.String())
	}
	input := fmt.Sprintf("%s carried by %s; the map at path %v (%d entries) holds %s next to the other spelling", top, styleName[st], hpath, len(holder.ents), strings.Join(core, " and "))
	k.judgeDup(cons, counts, input)
	return cons + ": " + top.String()
}

func outcomeSet(counts map[string]int) string {
	var l []string
	for o, n := range counts {
		l = append(l, fmt.Sprintf("%s x%d", o, n))
	}
	sort.Strings(l)
	return strings.Join(l, ", ")
}

func (k *kase) judgeDup(cons string, counts map[string]int, input string) {
	var classes []string
	for o := range counts {
		classes = append(classes, o)
		k.res.SetAdd("duplicate_outcome", cons+"="+o)
	}
	sort.Strings(classes)
	k.res.SetAdd("duplicate_construction", cons)
	k.res.SetAdd("duplicate_outcome_set", cons+"={"+strings.Join(classes, ",")+"}")
	k.res.Ev("duplicate_constructions_checked", 1)
	base := sigBase[cons]
	for _, o := range classes {
		switch {
		case o == "accepted":
			k.res.Violate(base+"-accepted", "an input defining one setting twice is accepted; outcomes over permuted orders: {%s}; input %s", outcomeSet(counts), input)
		case strings.HasPrefix(o, "other-error:"):
			k.res.Violate(base+"-wrong-error:"+strings.TrimPrefix(o, "other-error:"), "an input defining one setting twice is rejected, but not as a duplicate; outcomes over permuted orders: {%s}; input %s", outcomeSet(counts), input)
		}
	}
}

var structDups = []string{"d/same-tag", "d/inline-struct-vs-field", "d/inline-map-vs-field", "d/dotted-tag-vs-nested", "d/dotted-tag-below-scalar"}

// structDuplicate: struct fields are visited in declaration order, so these
// are deterministic; both orders are run.
func (k *kase) structDuplicate(cons string) string {
	r := k.r
	v, v2 := twoVals(r)
	keys := k.pickKeys(2)
	top := plain(k.t)
	top.drop(keys[0])
	b := newBuilder(r, true)
	b.noInline = true
	var others []fieldSpec
	for _, e := range top.ents {
		if e.key == "" {
			continue // not expressible as a struct tag
		}
		others = append(others, fieldSpec{tag: e.key, val: b.node(e.val, stStruct, false), concrete: r.Intn(2) == 0})
	}
	conc := func() bool { return r.Intn(2) == 0 }
	var pair [2]fieldSpec
	var desc [2]string
	opts := sepOpts
	switch cons {
	case "d/same-tag":
		pair = [2]fieldSpec{fld(keys[0], v, conc()), fld(keys[0], v2, conc())}
		desc = [2]string{fmt.Sprintf("`config:%q`=%v", keys[0], v), fmt.Sprintf("`config:%q`=%v", keys[0], v2)}
		if r.Intn(2) == 0 {
			opts = nil
		}
	case "d/inline-struct-vs-field":
		in := mkStruct([]fieldSpec{fld(keys[0], v2, conc())}, r.Intn(3) == 0)
		pair = [2]fieldSpec{fld(keys[0], v, conc()), fld(",inline", in, true)}
		desc = [2]string{fmt.Sprintf("`config:%q`=%v", keys[0], v), fmt.Sprintf("`config:\",inline\"` struct{`config:%q`=%v}", keys[0], v2)}
		if r.Intn(2) == 0 {
			opts = nil
		}
	case "d/inline-map-vs-field":
		pair = [2]fieldSpec{fld(keys[0], v, conc()), fld(",inline", map[string]interface{}{keys[0]: v2}, true)}
		desc = [2]string{fmt.Sprintf("`config:%q`=%v", keys[0], v), fmt.Sprintf("`config:\",inline\"` map{%q:%v}", keys[0], v2)}
		if r.Intn(2) == 0 {
			opts = nil
		}
	case "d/dotted-tag-vs-nested":
		var nested interface{} = map[string]interface{}{keys[1]: v}
		if r.Intn(2) == 0 {
			nested = mkStruct([]fieldSpec{fld(keys[1], v, conc())}, r.Intn(3) == 0)
		}
		pair = [2]fieldSpec{fld(keys[0]+"."+keys[1], v2, conc()), fld(keys[0], nested, conc())}
		desc = [2]string{fmt.Sprintf("`config:%q`=%v", keys[0]+"."+keys[1], v2), fmt.Sprintf("`config:%q`={%q:%v}", keys[0], keys[1], v)}
	case "d/dotted-tag-below-scalar":
		pair = [2]fieldSpec{fld(keys[0]+"."+keys[1], v2, conc()), fld(keys[0], v, conc())}
		desc = [2]string{fmt.Sprintf("`config:%q`=%v", keys[0]+"."+keys[1], v2), fmt.Sprintf("`config:%q`=%v", keys[0], v)}
	}
	counts := map[string]int{}
	var per []string
	for order := 0; order < 2; order++ {
		p, d := pair, desc
		if order == 1 {
			p[0], p[1] = p[1], p[0]
			d[0], d[1] = d[1], d[0]
		}
		// the two fields at random positions among the others, order kept
		i := r.Intn(len(others) + 1)
		j := i + r.Intn(len(others)-i+1)
		var fs []fieldSpec
		fs = append(fs, others[:i]...)
		fs = append(fs, p[0])
		fs = append(fs, others[i:j]...)
		fs = append(fs, p[1])
		fs = append(fs, others[j:]...)
		src := mkStruct(fs, r.Intn(3) == 0)
		what := fmt.Sprintf("duplicate construction %s: struct with fields %s then %s (plus %d other fields)", cons, d[0], d[1], len(others))
		_, err, ok := k.newFrom(what, src, opts)
		if !ok {
			return ""
		}
		o := classify(err)
		counts[o]++
		per = append(per, fmt.Sprintf("[%s ; %s] -> %s", d[0], d[1], o))
	}
	k.judgeDup(cons, counts, "struct fields in declaration order: "+strings.Join(per, " | ")+fmt.Sprintf(" (plus %d other fields, PathSep=%v)", len(others), opts != nil))
	return cons + ": " + strings.Join(per, " | ")
}

// ---------------------------------------------------------------- case

// emptyNames counts dictionary entries named "" below the top level.
func emptyNames(n *model.Node, depth int) int {
	c := 0
	if n.IsSub() {
		for key, ch := range n.D {
			if key == "" && depth > 0 {
				c++
			}
			c += emptyNames(ch, depth+1)
		}
		for _, ch := range n.A {
			c += emptyNames(ch, depth+1)
		}
	}
	return c
}

func levels(n *model.Node) int {
	if !n.IsSub() {
		return 0
	}
	d := 0
	for _, c := range n.D {
		if x := levels(c); x > d {
			d = x
		}
	}
	for _, c := range n.A {
		if x := levels(c); x > d {
			d = x
		}
	}
	return d + 1
}

func leaves(n *model.Node) int {
	if n.IsPrim() {
		return 1
	}
	s := 0
	if n.IsSub() {
		for _, c := range n.D {
			s += leaves(c)
		}
		for _, c := range n.A {
			s += leaves(c)
		}
	}
	return s
}

func (check) Run(seed int64, tier string, idx int, verbose bool) harness.Result {
	res := harness.NewR(idx)
	r := rand.New(rand.NewSource(harness.Mix(seed, "C05", idx)))
	o := gen.TreeOpts{Prims: casePool(r)}
	depth := 3
	if r.Intn(8) == 0 {
		depth = 5
	}
	if r.Intn(8) == 0 {
		o.Width = 6
	}
	if r.Intn(5) == 0 {
		// the empty string is a name like any other: its dotted spellings begin
		// or end with the separator or hold two separators in a row
		o.Keys = []string{"a", "b", "c", ""}
	}
	t := gen.TopDict(r, o, depth)
	// three quarters of the cases insist on a tree with nested containers
	for try := 0; try < 4 && idx%4 != 0 && levels(t) < 2; try++ {
		t = gen.TopDict(r, o, depth)
	}
	homogenize(r, t)
	k := &kase{res: res, idx: idx, r: r, t: t, want: t.Canon(), verbose: verbose, o: o}
	k.leafMonitors(t)
	if levels(t) >= 2 && leaves(t) >= 3 {
		res.Key(t.String())
	}
	res.SetAdd("tree_levels", strconv.Itoa(levels(t)))
	if n := emptyNames(t, 0); n > 0 {
		res.Ev("empty_names_below_top_level", int64(n))
	}

	k.representations()
	k.topLevelLists()
	if idx < 3 {
		k.typedNilTop()
	}
	wideDesc, deepDesc := "", ""
	if idx%60 == 7 {
		wideDesc = k.wide()
	}
	if idx%60 == 37 {
		deepDesc = k.deep()
	}
	twins := k.emptyTwins()
	views := k.tagViews()
	shared := k.sharedValues()
	flat := k.flattenings(4)
	var dups []string
	for i := 0; i < 2; i++ {
		dups = append(dups, k.mapDuplicate(mapDups[r.Intn(len(mapDups))]))
	}
	dups = append(dups, k.structDuplicate(structDups[r.Intn(len(structDups))]))
	// the parts added last draw last: the inputs of the parts above stay what
	// they were for a given seed
	mixedDesc := k.mixedObjects()
	orderedDesc := []string{k.orderedPositions(), k.orderedPositions()}
	literalDesc := k.literalSeparators()

	if idx < 2 || verbose {
		s := map[string]interface{}{"tree": t.String(), "canonical": k.want, "flattenings": flat, "duplicates": dups, "multi_tag_struct": views, "shared_value": shared, "wide": wideDesc, "deep": deepDesc, "empty_container_twins": twins, "mixed_object": mixedDesc, "ordered_positions": orderedDesc, "literal_separator_names": literalDesc}
		if idx < 2 {
			res.Sample = s
		}
		if verbose {
			fmt.Printf("tree %s\n canonical %s\n flattenings %v\n duplicates %v\n multi-tag struct %s\n shared value %s\n", t, k.want, flat, dups, views, shared)
		}
	}
	return res.Done()
}
