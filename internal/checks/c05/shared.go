package c05

import (
	"fmt"
	"reflect"
	"strings"

	ucfg "github.com/elastic/go-ucfg"

	"verif/internal/gen"
	"verif/internal/harness"
	"verif/internal/model"
)

// (6) One Go value at several places, in several calls.
//
// A representation is data: it is read, not consumed. The same Go value (an
// existing root *Config, a child handle, a Config by value, a pointer to a
// struct or map, a map, a struct) stands for the same dictionary wherever and
// however often it is used. One dictionary S is built once and put under 2-3
// keys of the case's tree (and into a list) as THE SAME Go value; with PathSep
// some of the places get further settings of their namespace from dotted
// sibling keys ("k": V next to "k.x": 1 and "k.y.z": 2, below a dictionary of
// S) or, in struct carriers, from a second field of the same name. The input
// is carried by a struct (both declaration orders) or a map and normalised 2-3
// times in a row: every call must give the expected tree, and the configs
// handed in must be what they were (content, parent, path).

var sharedForms = []string{"*Config", "*Config", "*Config", "child-*Config", "Config-by-value", "*struct", "*map", "map", "mapi", "struct"}

var sharedKeys = []string{"a", "b", "c", "d", "e"}

func freeKey(k *kase, d *model.Node, taken map[string]bool) string {
	var cand []string
	for _, x := range sharedKeys {
		if _, ok := d.D[x]; !ok && !taken[x] {
			cand = append(cand, x)
		}
	}
	if len(cand) == 0 {
		return ""
	}
	return cand[k.r.Intn(len(cand))]
}

func (k *kase) sharedValues() string {
	r := k.r
	S := gen.TopDict(r, k.o, 2)
	for try := 0; try < 4 && len(S.D) == 0; try++ {
		S = gen.TopDict(r, k.o, 2)
	}
	sep := r.Intn(4) != 0
	var sepO []ucfg.Option
	if sep {
		sepO = sepOpts
	}
	form := sharedForms[r.Intn(len(sharedForms))]
	base := "shared-value:" + form

	// the shared Go value
	cb := newBuilder(r, sep)
	cb.noInlineCfg, cb.noNilInline = true, true
	var V interface{}
	var snaps []cfgSnap
	switch form {
	case "*Config", "Config-by-value":
		inner := cb.node(plain(S), []int{stMap, stMapI, stStruct, stTyped}[r.Intn(4)], true)
		c, err, ok := k.newFrom("building the shared *Config from "+S.String(), inner, sepO)
		if !ok || err != nil || cb.err != nil {
			return ""
		}
		if sn, ok := snapConfig(c); ok {
			snaps = append(snaps, sn)
		}
		V = c
		if form == "Config-by-value" {
			V = *c
		}
	case "child-*Config":
		w, err, ok := k.newFrom("building the parent of the shared child handle", map[string]interface{}{"w": S.ToGo(), "z": int64(1)}, nil)
		if !ok || err != nil {
			return ""
		}
		var ch *ucfg.Config
		if p, _, _ := harness.Safe(func() { ch, err = w.Child("w", -1) }); p || err != nil {
			return ""
		}
		if sn, ok := snapConfig(ch); ok {
			snaps = append(snaps, sn)
		}
		if sn, ok := snapConfig(w); ok {
			snaps = append(snaps, sn)
		}
		V = ch
	case "*struct", "struct":
		v := cb.node(plain(S), stStruct, false)
		isPtr := reflect.ValueOf(v).Kind() == reflect.Ptr
		switch {
		case form == "*struct" && !isPtr:
			v = ptrTo(v)
		case form == "struct" && isPtr:
			v = reflect.ValueOf(v).Elem().Interface()
		}
		V = v
	case "*map":
		V = ptrTo(S.ToGo())
	case "map":
		V = S.ToGo()
	default:
		V = gen.ToMapI(S)
	}
	if cb.err != nil {
		return ""
	}
	k.res.Eval(cb.evals)

	// the tree and its spelling
	T := k.t.Copy()
	top := plain(k.t)
	nplaces := 2 + r.Intn(2)
	perm := r.Perm(len(sharedKeys))
	var places []string
	for _, i := range perm[:nplaces] {
		places = append(places, sharedKeys[i])
	}
	carrier := []int{stStruct, stStruct, stMap, stMapI}[r.Intn(4)]
	if carrier == stStruct {
		// the empty name can not be written as a struct tag
		top.drop("")
		delete(T.D, "")
	}
	raw := func() *sp { return &sp{kind: spRaw, raw: V, rawName: form + " of S"} }
	nextra := 0
	sameName := 0
	for _, key := range places {
		top.drop(key)
		want := S.Copy()
		top.ents = append(top.ents, ent{key, raw()})
		taken := map[string]bool{}
		for i, n := 0, r.Intn(3); sep && i < n; i++ {
			val := leafPool[r.Intn(len(leafPool))]
			// a dictionary of S that can take one more setting
			var dicts []string
			for _, y := range want.SortedKeys() {
				if c := want.D[y]; dictLike(c) && c.D != nil && !taken[y] {
					dicts = append(dicts, y)
				}
			}
			if len(dicts) > 0 && r.Intn(2) == 0 {
				y := dicts[r.Intn(len(dicts))]
				z := freeKey(k, want.D[y], nil)
				if z == "" {
					continue
				}
				want.D[y].D[z] = model.P(val)
				top.ents = append(top.ents, ent{key + "." + y + "." + z, leafSp(val)})
				nextra++
				continue
			}
			x := freeKey(k, want, taken)
			if x == "" {
				continue
			}
			taken[x] = true
			want.D[x] = model.P(val)
			if carrier == stStruct && r.Intn(4) == 0 {
				// a second field of the same name with the rest of the namespace
				top.ents = append(top.ents, ent{key, chain([]string{x}, leafSp(val))})
				sameName++
			} else {
				top.ents = append(top.ents, ent{key + "." + x, leafSp(val)})
			}
			nextra++
		}
		T.D[key] = want
	}
	inList := ""
	if r.Intn(3) == 0 {
		// and twice in a list
		for _, x := range sharedKeys {
			used := false
			for _, p := range places {
				used = used || p == x
			}
			if !used {
				inList = x
				break
			}
		}
		top.drop(inList)
		top.ents = append(top.ents, ent{inList, &sp{kind: spList, list: []*sp{raw(), raw()}}})
		T.D[inList] = model.List(S.Copy(), S.Copy())
	}
	top.shuffle(r)
	want := T.Canon()

	k.res.SetAdd("shared_value_form", form)
	k.res.SetAdd("shared_value_carrier", styleName[carrier])
	k.res.Ev("shared_value_places", int64(nplaces))
	k.res.Ev("shared_value_dotted_or_same_name_siblings", int64(nextra))
	if sameName > 0 {
		k.res.Ev("shared_value_same_field_name_twice", int64(sameName))
	}

	spellings := []*sp{top}
	if carrier == stStruct {
		spellings = append(spellings, top.reversed())
	}
	for _, s := range spellings {
		ob := newBuilder(r, sep)
		ob.noInlineCfg, ob.noNilInline = true, true
		ob.noInline = sameName > 0 // an inline map can not hold one name twice
		src := ob.node(s, carrier, true)
		k.res.Eval(ob.evals)
		if ob.err != nil {
			continue
		}
		all := append(append([]cfgSnap{}, snaps...), ob.cfgs...)
		for call, n := 0, 2+r.Intn(2); call < n; call++ {
			sfx := ""
			if call > 0 {
				sfx = ":second-call"
			}
			what := fmt.Sprintf("call %d with the same input %s carried by %s (pathsep=%v), S = %s is one %s value at every place; tree %s", call+1, s, styleName[carrier], sep, S, form, k.t)
			c, err, ok := k.newFrom(what, src, sepO)
			if !ok {
				break
			}
			if err != nil {
				k.res.Violate(base+":newfrom-error:"+reasonShort(err)+sfx, "NewFrom returned %v, expected %s; %s", err, want, what)
				break
			}
			x, ok := k.unpack(what, c, sepO)
			if !ok {
				break
			}
			k.res.Ev("shared_value_calls_checked", 1)
			if got := model.CanonIfc(x); got != want {
				k.res.Violate(base+":disagrees"+sfx, "unpack gives %s, expected %s; %s", got, want, what)
				k.checkSnaps(all, what)
				break
			}
			k.checkSnaps(all, what)
		}
	}
	// the value alone still stands for S
	{
		what := fmt.Sprintf("the shared %s value on its own after it has been used in %s; S = %s", form, top, S)
		c, err, ok := k.newFrom(what, V, sepO)
		if ok && err != nil {
			k.res.Violate(base+":value-unusable-afterwards:"+reasonShort(err), "NewFrom returned %v; %s", err, what)
		} else if ok {
			if x, ok := k.unpack(what, c, sepO); ok {
				if got := model.CanonIfc(x); got != S.Canon() {
					k.res.Violate(base+":value-changed", "unpack gives %s, expected %s; %s", got, S.Canon(), what)
				}
			}
		}
	}
	return strings.Join([]string{form, top.String()}, ": ")
}
