package c05

import (
	"fmt"
	"math"
	"reflect"
	"strconv"
	"strings"

	ucfg "github.com/elastic/go-ucfg"

	"verif/internal/gen"
	"verif/internal/harness"
	"verif/internal/model"
)

// (7) Width, (8) depth, (9) lists at the top level.
//
// "for all data trees of any depth and width": the trees of parts (1)-(6) are
// small. Every 60th case builds one WIDE tree (300 .. 40000 primitives, drawn
// log-uniformly; flat lists, lists of records, dictionaries with thousands of
// names, lists of lists) and reads it in generic, typed, interface-keyed,
// *Config, top-level and completely dotted form; the work the library spends on
// growing lists (hook "grow": elements copied per reallocation) must stay
// linear in the number of list elements of the input.
// Every 60th case builds one DEEP chain (20 .. 30000 levels, log-uniformly)
// and spells it nested, as one dotted key and in two mixtures: whatever the
// library does with a tree that deep (it may refuse it), it does the same for
// every spelling.
// Lists of the case's tree are also handed in as the top-level value.

func logUniform(k *kase, lo, hi float64) int {
	return int(lo * math.Pow(hi/lo, k.r.Float64()))
}

var wideShapes = []string{"list-of-numbers", "list-of-mixed", "list-of-records", "dict-of-prims", "dict-of-lists", "list-of-lists", "dict-of-records"}

func (k *kase) widePrim(typ string) *model.Node {
	if typ != "" {
		return model.P(randOfType(k.r, typ))
	}
	for {
		if v := leafPool[k.r.Intn(len(leafPool))]; v != nil {
			return model.P(v)
		}
	}
}

func (k *kase) wideTree(shape string, n int) *model.Node {
	rec := func() *model.Node {
		return model.Dict().Set("a", k.widePrim("")).Set("b", k.widePrim(""))
	}
	m := int(math.Sqrt(float64(n))) + 1
	switch shape {
	case "list-of-numbers":
		typ := numTypes[k.r.Intn(len(numTypes))]
		l := model.List()
		for i := 0; i < n; i++ {
			l.A = append(l.A, k.widePrim(typ))
		}
		return l
	case "list-of-mixed":
		l := model.List()
		for i := 0; i < n; i++ {
			l.A = append(l.A, k.widePrim(""))
		}
		return l
	case "list-of-records":
		l := model.List()
		for i := 0; i < n/2+1; i++ {
			l.A = append(l.A, rec())
		}
		return l
	case "dict-of-prims":
		d := model.Dict()
		for i := 0; i < n; i++ {
			d.D["k"+strconv.Itoa(i)] = k.widePrim("")
		}
		return d
	case "dict-of-lists":
		d := model.Dict()
		for i := 0; i < m; i++ {
			l := model.List()
			for j := 0; j < m; j++ {
				l.A = append(l.A, k.widePrim(""))
			}
			d.D["k"+strconv.Itoa(i)] = l
		}
		return d
	case "list-of-lists":
		o := model.List()
		for i := 0; i < m; i++ {
			l := model.List()
			for j := 0; j < m; j++ {
				l.A = append(l.A, k.widePrim(""))
			}
			o.A = append(o.A, l)
		}
		return o
	}
	d := model.Dict()
	for i := 0; i < n/2+1; i++ {
		d.D["k"+strconv.Itoa(i)] = rec()
	}
	return d
}

func countLists(n *model.Node) (lists, elems int) {
	if !n.IsSub() {
		return 0, 0
	}
	if n.HasA || len(n.A) > 0 {
		lists, elems = 1, len(n.A)
	}
	for _, c := range n.D {
		l, e := countLists(c)
		lists, elems = lists+l, elems+e
	}
	for _, c := range n.A {
		l, e := countLists(c)
		lists, elems = lists+l, elems+e
	}
	return
}

// growCost runs f and returns the number of elements the library copied while
// growing lists (sum of the new lengths over all reallocations).
func growCost(f func()) (copied int64) {
	ucfg.VerifSetHook(func(kind, site, s string, a, b int) {
		if kind == "grow" {
			copied += int64(b)
		}
	})
	defer ucfg.VerifSetHook(nil)
	f()
	return copied
}

func short(s string) string {
	if len(s) > 300 {
		return s[:300] + "...(" + strconv.Itoa(len(s)) + " bytes)"
	}
	return s
}

// firstDiff shows where two canonical forms part.
func firstDiff(a, b string) string {
	i := 0
	for i < len(a) && i < len(b) && a[i] == b[i] {
		i++
	}
	lo := i - 60
	if lo < 0 {
		lo = 0
	}
	cut := func(s string) string {
		hi := i + 60
		if hi > len(s) {
			hi = len(s)
		}
		return s[lo:hi]
	}
	return fmt.Sprintf("at byte %d: got ...%s... expected ...%s...", i, cut(a), cut(b))
}

// wideOne reads src, unpacks it (into a slice when asList) and compares.
func (k *kase) wideOne(rep, desc string, src interface{}, want string, asList bool, opts []ucfg.Option, lists, elems int, measure bool) {
	what := fmt.Sprintf("wide tree (%s) read as %s", desc, rep)
	var c *ucfg.Config
	var err error
	var panicked bool
	k.res.Eval(1)
	copied := growCost(func() {
		var pv, where string
		if panicked, pv, where = harness.Safe(func() { c, err = ucfg.NewFrom(src, opts...) }); panicked {
			k.res.Violate("panic:NewFrom:wide", "NewFrom panicked with %q at %s; %s", pv, where, what)
		}
	})
	if panicked {
		return
	}
	if err != nil {
		k.res.Violate("wide:"+rep+":newfrom-error:"+reasonShort(err), "NewFrom returned %v; %s", err, what)
		return
	}
	var got string
	k.res.Eval(1)
	if p, pv, where := harness.Safe(func() {
		if asList {
			var l []interface{}
			err = c.Unpack(&l, opts...)
			got = model.CanonIfc(l)
		} else {
			var m map[string]interface{}
			err = c.Unpack(&m, opts...)
			got = model.CanonIfc(m)
		}
	}); p {
		k.res.Violate("panic:Unpack:wide", "Unpack panicked with %q at %s; %s", pv, where, what)
		return
	}
	if err != nil {
		k.res.Violate("wide:"+rep+":unpack-error", "Unpack returned %v; %s", err, what)
		return
	}
	k.res.Ev("wide_inputs_checked", 1)
	k.res.SetAdd("wide_representation", rep)
	if got != want {
		k.res.Violate("wide:"+rep+":disagrees", "unpack gives another tree (%s); %s", firstDiff(got, want), what)
		return
	}
	if measure {
		k.res.Ev("wide_inputs_growth_measured", 1)
		if bound := int64(8*elems + 64*lists + 256); copied > bound {
			k.res.Violate("wide:"+rep+":list-growth-quadratic", "the library copied %d list elements while growing lists for an input with %d list elements in %d lists (linear work would stay below %d): each element added reallocates the list; %s", copied, elems, lists, bound, what)
		}
	}
}

func (k *kase) wide() string {
	r := k.r
	n := logUniform(k, 300, 40000)
	shape := wideShapes[r.Intn(len(wideShapes))]
	W := k.wideTree(shape, n)
	desc := fmt.Sprintf("%s, %d primitives", shape, leaves(W))
	k.res.SetAdd("wide_shape", shape)
	k.res.Ev("wide_trees", 1)
	if leaves(W) > 10000 {
		k.res.Ev("wide_trees_over_10000_primitives", 1)
	}
	tree := model.Dict().Set("w", W).Set("z", model.P(int64(1)))
	want := tree.Canon()
	lists, elems := countLists(W)
	sep := func() []ucfg.Option {
		if r.Intn(2) == 0 {
			return sepOpts
		}
		return nil
	}
	k.wideOne("generic", desc, tree.ToGo(), want, false, sep(), lists, elems, true)
	k.wideOne("typed", desc, gen.ToTyped(r, tree), want, false, sep(), lists, elems, true)
	k.wideOne("interface-keyed", desc, gen.ToMapI(tree), want, false, sep(), lists, elems, true)
	if outer, err, ok := k.newFrom("building a *Config holding the wide tree ("+desc+")", map[string]interface{}{"w": W.ToGo()}, nil); ok && err == nil {
		var inner *ucfg.Config
		if p, _, _ := harness.Safe(func() { inner, err = outer.Child("w", -1) }); !p && err == nil {
			k.wideOne("config-value", desc, map[string]interface{}{"w": inner, "z": int64(1)}, want, false, sep(), lists, elems, false)
		}
	}

	// the wide tree itself as the top-level value; lists not longer than 6000
	// here (a library that grows them element by element needs seconds)
	T := W
	if len(T.A) > 6000 {
		T = model.List(W.A[:2000+r.Intn(4000)]...)
	}
	tl, te := countLists(T)
	tdesc := fmt.Sprintf("%s, %d primitives", shape, leaves(T))
	isList := T.HasA || len(T.A) > 0
	k.wideOne("top-level", tdesc, T.ToGo(), T.Canon(), isList, sep(), tl, te, true)
	k.wideOne("top-level-typed", tdesc, gen.ToTyped(r, T), T.Canon(), isList, sep(), tl, te, true)

	// every name and every position of the first two levels dotted
	flat := map[string]interface{}{"z": int64(1)}
	var fold func(prefix string, c *model.Node, depth int)
	fold = func(prefix string, c *model.Node, depth int) {
		switch {
		case depth < 2 && c.IsSub() && len(c.D) > 0:
			for key, ch := range c.D {
				fold(prefix+"."+key, ch, depth+1)
			}
		case depth < 2 && c.IsSub() && len(c.A) > 0:
			for i, ch := range c.A {
				fold(prefix+"."+strconv.Itoa(i), ch, depth+1)
			}
		default:
			flat[prefix] = c.ToGo()
		}
	}
	F := W
	if len(F.A) > 6000 {
		F = T
	}
	fold("w", F, 0)
	fwant := model.Dict().Set("w", F).Set("z", model.P(int64(1))).Canon()
	// positions are indexes up to MaxIdx (default 1024, beyond that they are
	// names: C20): the call allows as many as the longest list has
	dopts := []ucfg.Option{ucfg.PathSep("."), ucfg.MaxIdx(int64(leaves(F) + 1))}
	k.wideOne("dotted", fmt.Sprintf("%s, %d primitives, %d dotted keys", shape, leaves(F), len(flat)-1), flat, fwant, false, dopts, 0, 0, false)
	return desc
}

// ---------------------------------------------------------------- (8) depth

func (k *kase) deep() string {
	r := k.r
	d := logUniform(k, 20, 30000)
	keys := make([]string, d)
	for i := range keys {
		keys[i] = gen.Keys[r.Intn(len(gen.Keys))]
	}
	leaf, _ := twoVals(r)
	nested := func(ks []string, v interface{}) interface{} {
		for i := len(ks) - 1; i >= 0; i-- {
			v = map[string]interface{}{ks[i]: v}
		}
		return v
	}
	mixture := func() interface{} {
		// chunks of 1..rest segments, each chunk one dotted key
		var chunks [][]string
		for rest := keys; len(rest) > 0; {
			n := logUniform(k, 1, float64(len(rest))+0.99)
			if n < 1 {
				n = 1
			}
			if n > len(rest) {
				n = len(rest)
			}
			chunks = append(chunks, rest[:n])
			rest = rest[n:]
		}
		var v interface{} = leaf
		for i := len(chunks) - 1; i >= 0; i-- {
			v = map[string]interface{}{strings.Join(chunks[i], "."): v}
		}
		return v
	}
	type spelling struct {
		name string
		src  interface{}
	}
	sps := []spelling{
		{"nested", nested(keys, leaf)},
		{"dotted", map[string]interface{}{strings.Join(keys, "."): leaf}},
		{"mixed", mixture()},
		{"mixed", mixture()},
	}
	class := make([]string, len(sps))
	for i, s := range sps {
		what := fmt.Sprintf("chain of %d dictionaries ending in %v, spelled %s", d, leaf, s.name)
		c, err, ok := k.newFrom(what, s.src, sepOpts)
		if !ok {
			return ""
		}
		if err != nil {
			class[i] = "refused"
			k.res.SetAdd("deep_chain_refusal", reasonShort(err))
			continue
		}
		class[i] = "accepted"
		var m map[string]interface{}
		k.res.Eval(1)
		if p, pv, where := harness.Safe(func() { err = c.Unpack(&m, sepOpts...) }); p {
			k.res.Violate("panic:Unpack:deep", "Unpack panicked with %q at %s; %s", pv, where, what)
			continue
		}
		if err != nil {
			k.res.Violate("deep-chain:unpack-error", "Unpack returned %v; %s", err, what)
			continue
		}
		var cur interface{} = m
		level := 0
		for ; level < d; level++ {
			mm, isMap := cur.(map[string]interface{})
			if !isMap || len(mm) != 1 {
				break
			}
			next, has := mm[keys[level]]
			if !has {
				break
			}
			cur = next
		}
		if level != d || model.PrimCanon(cur) != model.PrimCanon(leaf) {
			k.res.Violate("deep-chain:data-differs:"+s.name, "the unpacked data leave the chain at level %d (value there: %s); %s", level, short(fmt.Sprint(cur)), what)
		}
	}
	k.res.Ev("deep_chains", 1)
	k.res.SetAdd("deep_chain_outcome", strings.Join(class, ","))
	for i := 1; i < len(sps); i++ {
		if class[i] == class[0] {
			continue
		}
		sig := "deep-chain:" + sps[i].name + "-accepted-where-nested-is-refused"
		if class[0] == "accepted" {
			sig = "deep-chain:" + sps[i].name + "-refused-where-nested-is-accepted"
		}
		k.res.Violate(sig, "a chain of %d dictionaries is %s when it is spelled with nested maps and %s when it is spelled %s (PathSep): the spellings are not equivalent", d, class[0], class[i], sps[i].name)
	}
	if class[0] == "refused" {
		k.res.Ev("deep_chains_refused_when_nested", 1)
	}
	return fmt.Sprintf("depth %d: %s", d, strings.Join(class, ","))
}

// ---------------------------------------------------------------- (9) top-level lists

func collectLists(n *model.Node, out *[]*model.Node) {
	if !n.IsSub() {
		return
	}
	if (n.HasA || len(n.A) > 0) && len(n.D) == 0 {
		*out = append(*out, n)
	}
	for _, key := range n.SortedKeys() {
		collectLists(n.D[key], out)
	}
	for _, c := range n.A {
		collectLists(c, out)
	}
}

func (k *kase) unpackList(what string, c *ucfg.Config, opts []ucfg.Option) (l []interface{}, ok bool) {
	k.res.Eval(1)
	var err error
	if p, pv, where := harness.Safe(func() { err = c.Unpack(&l, opts...) }); p {
		k.res.Violate("panic:Unpack", "Unpack panicked with %q at %s; %s", pv, where, what)
		return nil, false
	}
	if err != nil {
		k.res.Violate("top-level-list:unpack-error", "Unpack into []interface{} failed: %v; %s", err, what)
		return nil, false
	}
	return l, true
}

func (k *kase) topLevelLists() {
	r := k.r
	var all []*model.Node
	collectLists(k.t, &all)
	if len(all) == 0 {
		return
	}
	for pick := 0; pick < 2 && pick < len(all); pick++ {
		L := all[r.Intn(len(all))]
		want := L.Canon()
		goList := L.ToGo().([]interface{})
		arr := reflect.New(reflect.ArrayOf(len(goList), ifaceT)).Elem()
		for i, e := range goList {
			if e != nil {
				arr.Index(i).Set(reflect.ValueOf(e))
			}
		}
		reps := []struct {
			name string
			src  interface{}
		}{
			{"[]interface", goList},
			{"typed", gen.ToTyped(r, L)},
			{"interface-keyed", gen.ToMapI(L)},
			{"*[]interface", &goList},
			{"[N]interface", arr.Interface()},
		}
		if base, err, ok := k.newFrom("building the base *Config from the list "+L.String(), goList, nil); ok && err == nil {
			reps = append(reps, struct {
				name string
				src  interface{}
			}{"config", base})
		}
		for _, rp := range reps {
			var opts []ucfg.Option
			if r.Intn(2) == 0 {
				opts = sepOpts
			}
			what := fmt.Sprintf("list %s handed in as the top-level value (%s)", L, rp.name)
			c, err, ok := k.newFrom(what, rp.src, opts)
			if !ok {
				continue
			}
			if err != nil {
				k.res.Violate("top-level-list:"+rp.name+":newfrom-error:"+reasonShort(err), "NewFrom returned %v; %s", err, what)
				continue
			}
			x, ok := k.unpackList(what, c, opts)
			if !ok {
				continue
			}
			k.res.Ev("top_level_lists_checked", 1)
			k.res.SetAdd("top_level_list_representation", rp.name)
			got := model.CanonIfc(x)
			if got != want {
				k.res.Violate("top-level-list:"+rp.name+":disagrees", "unpack gives %s, the list is %s; %s", got, want, what)
				continue
			}
			c2, err, ok := k.newFrom("feeding back the unpacked result of "+what, x, opts)
			if !ok {
				continue
			}
			if err != nil {
				k.res.Violate("top-level-list:refeed-newfrom-error", "NewFrom(unpacked) returned %v; %s", err, what)
				continue
			}
			if x2, ok := k.unpackList(what, c2, opts); ok && model.CanonIfc(x2) != got {
				k.res.Violate("top-level-list:roundtrip-not-idempotent", "second unpack gives %s, first gave %s; %s", model.CanonIfc(x2), got, what)
			}
		}
	}
}

// typedNilTop: a nil pointer is nil - NewFrom(nil), NewFrom of a nil map and
// NewFrom of a nil pointer to a map, struct or Config all give the empty
// config. Independent of the tree: run in the first cases of a run only.
func (k *kase) typedNilTop() {
	type T struct {
		X int `config:"x"`
	}
	var pm *map[string]interface{}
	var pc *ucfg.Config
	var ps *T
	var m map[string]interface{}
	var pi *interface{}
	for _, in := range []struct {
		name string
		src  interface{}
	}{{"nil", nil}, {"nil-map", m}, {"nil-*map", pm}, {"nil-*Config", pc}, {"nil-*struct", ps}, {"nil-*interface", pi}} {
		what := "NewFrom(" + in.name + ")"
		c, err, ok := k.newFrom(what, in.src, nil)
		if !ok {
			continue
		}
		k.res.SetAdd("typed_nil_top_level", in.name)
		if err != nil {
			k.res.Violate("top-level-typed-nil:rejected:"+in.name, "%s returned %v; NewFrom(nil) and NewFrom of a nil map give the empty config", what, err)
			continue
		}
		if x, ok := k.unpack(what, c, nil); ok && model.CanonIfc(x) != "nil" {
			k.res.Violate("top-level-typed-nil:not-empty:"+in.name, "%s unpacks to %s", what, model.CanonIfc(x))
		}
	}
}
