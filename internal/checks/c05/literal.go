package c05

import (
	"math/rand"
	"strconv"
	"strings"

	ucfg "github.com/elastic/go-ucfg"

	"verif/internal/harness"
	"verif/internal/model"
)

// (13) Existing Configs whose names hold the separator of the call literally.
//
// The names of a Config are settled when it is built: a Config built without
// PathSep (or with another separator) from {"x.y": 1} holds ONE setting named
// "x.y". The first sentence of the property makes such a Config an input like
// any other ("the same data whether it arrived as ... an existing Config"): a
// later NewFrom / Merge with PathSep(".") that meets it as the top-level
// value, as a value of a map / list / struct field, or as the inline part of a
// struct has to show the tree the Config itself shows - the separator of the
// call governs the KEYS AND TAGS of the Go value handed in, not the names
// inside a Config that exists already. The sibling field of the inline
// presentation is, half of the time, a dotted tag, which the call DOES split.

type litGen struct {
	r    *rand.Rand
	sep  string
	lit  int // names holding the separator
	edge int // names beginning or ending with the separator
	num  int // names with a numeric segment
	deep int // such names below the top level
}

var litSeps = []string{".", "/", "|", "::"}

func (g *litGen) name(depth int) string {
	letters := []string{"a", "b", "c"}
	n := 1
	if g.r.Intn(5) < 3 {
		n = 2 + g.r.Intn(2)
	}
	if n == 1 {
		return letters[g.r.Intn(3)]
	}
	segs := make([]string, n)
	edge, num := false, false
	for i := range segs {
		switch x := g.r.Intn(12); {
		case x == 0 && (i == 0 || i == n-1):
			segs[i], edge = "", true
		case x == 1 && i > 0:
			segs[i], num = strconv.Itoa(g.r.Intn(3)), true
		default:
			segs[i] = letters[g.r.Intn(3)]
		}
	}
	if n == 2 && segs[0] == "" && segs[1] == "" {
		segs[1] = "a"
	}
	g.lit++
	if edge {
		g.edge++
	}
	if num {
		g.num++
	}
	if depth > 0 {
		g.deep++
	}
	return strings.Join(segs, g.sep)
}

func (g *litGen) prim() *model.Node {
	switch g.r.Intn(4) {
	case 0:
		return model.P(g.r.Intn(100))
	case 1:
		return model.P([]string{"s", "t", "u v"}[g.r.Intn(3)])
	case 2:
		return model.P(g.r.Intn(2) == 0)
	}
	return model.P(float64(g.r.Intn(20)) + 0.5)
}

func (g *litGen) dict(depth int) *model.Node {
	d := model.Dict()
	for n := 1 + g.r.Intn(4); len(d.D) < n; {
		name := g.name(depth)
		if _, ok := d.D[name]; ok {
			continue
		}
		switch x := g.r.Intn(8); {
		case x < 2 && depth < 2:
			d.Set(name, g.dict(depth+1))
		case x == 2 && depth < 2:
			var el []*model.Node
			for i := 1 + g.r.Intn(3); i > 0; i-- {
				if g.r.Intn(3) == 0 {
					el = append(el, g.dict(depth+1))
				} else {
					el = append(el, g.prim())
				}
			}
			d.Set(name, model.List(el...))
		default:
			d.Set(name, g.prim())
		}
	}
	return d
}

// folded spells the dictionary with some of its nested dictionaries written
// as keys joined by osep (no name holds osep).
func (g *litGen) folded(n *model.Node, osep string, folds *int) map[string]interface{} {
	m := map[string]interface{}{}
	for _, key := range n.SortedKeys() {
		c := n.D[key]
		if c.IsSub() && len(c.A) == 0 && !c.HasA {
			sub := g.folded(c, osep, folds)
			if g.r.Intn(2) == 0 {
				*folds++
				for k2, v := range sub {
					m[key+osep+k2] = v
				}
			} else {
				m[key] = sub
			}
			continue
		}
		m[key] = c.ToGo()
	}
	return m
}

// splitNames is the tree a reader would see that took the names for paths
// (segments as names; "" when such a reading runs into a conflict). It only
// serves to name the deviation.
func splitNames(n *model.Node, sep string, deep bool) *model.Node {
	if !n.IsSub() {
		return n
	}
	if n.HasA || len(n.A) > 0 {
		var el []*model.Node
		for _, e := range n.A {
			s := e.Copy()
			if deep {
				s = splitNames(e, sep, deep)
			}
			if s == nil {
				return nil
			}
			el = append(el, s)
		}
		return model.List(el...)
	}
	out := model.Dict()
	for _, key := range n.SortedKeys() {
		v := n.D[key].Copy()
		if deep {
			v = splitNames(v, sep, deep)
		}
		if v == nil {
			return nil
		}
		segs := strings.Split(key, sep)
		cur := out
		for i, s := range segs {
			nx, ok := cur.D[s]
			if i == len(segs)-1 {
				if ok {
					return nil
				}
				cur.Set(s, v)
				break
			}
			if !ok {
				nx = model.Dict()
				cur.Set(s, nx)
			} else if !nx.IsSub() || nx.HasA {
				return nil
			}
			cur = nx
		}
	}
	return out
}

type litPres struct {
	class, form string
	src         interface{}
	want        *model.Node
	split       []*model.Node
}

func (k *kase) literalSeparators() string {
	g := &litGen{r: k.r}
	g.sep = litSeps[k.r.Intn(len(litSeps))]
	if k.r.Intn(2) == 0 {
		g.sep = "."
	}
	var t *model.Node
	for try := 0; try < 6; try++ {
		g.lit = 0
		t = g.dict(0)
		if g.lit > 0 {
			break
		}
	}
	res := k.res
	// the carrier: built without any separator, or with another one from a
	// spelling that folds some dictionaries
	built, osep, folds := "no-PathSep", "", 0
	var carrier *ucfg.Config
	var err error
	var ok bool
	if k.r.Intn(3) == 0 {
		for osep = g.sep; osep == g.sep; {
			osep = litSeps[k.r.Intn(len(litSeps))]
		}
		built = "PathSep(" + osep + ")"
		carrier, err, ok = k.newFromSig("panic:NewFrom", "part 13 carrier", g.folded(t, osep, &folds), []ucfg.Option{ucfg.PathSep(osep)})
	} else {
		carrier, err, ok = k.newFromSig("panic:NewFrom", "part 13 carrier", t.ToGo(), nil)
	}
	desc := "names with a literal " + strconv.Quote(g.sep) + ": " + t.Canon() + " carrier built with " + built
	if !ok {
		return desc
	}
	if err != nil {
		res.Violate("literal-sep:carrier:error", "NewFrom (%s) of a map whose names hold %q refused: %v; %s", built, g.sep, err, desc)
		return desc
	}
	m, ok := k.unpackSig("panic:Unpack", "literal-sep:carrier:unpack-error", "part 13 carrier", carrier, nil)
	if !ok {
		return desc
	}
	if got := model.CanonIfc(m); got != t.Canon() {
		res.Violate("literal-sep:carrier:differs", "a Config built with %s shows %s instead of %s", built, got, t.Canon())
		return desc
	}
	res.Ev("literal_sep_carriers", 1)
	res.Ev("literal_sep_names_holding_the_separator", int64(g.lit))
	res.Ev("literal_sep_names_beginning_or_ending_with_it", int64(g.edge))
	res.Ev("literal_sep_names_with_numeric_segment", int64(g.num))
	res.Ev("literal_sep_names_below_top_level", int64(g.deep))
	res.Ev("literal_sep_carrier_folded_dictionaries", int64(folds))
	res.SetAdd("literal_sep_separator", g.sep)
	res.SetAdd("literal_sep_carrier_built", built)

	// call options: the separator of the names (3/4), none (control)
	withSep := k.r.Intn(4) != 0
	var opts []ucfg.Option
	call := "no PathSep"
	if withSep {
		opts = []ucfg.Option{ucfg.PathSep(g.sep)}
		call = "PathSep(" + g.sep + ")"
	}
	res.SetAdd("literal_sep_call", map[bool]string{true: "PathSep(sep of the names)", false: "no PathSep"}[withSep])
	tsplits := []*model.Node{splitNames(t, g.sep, true), splitNames(t, g.sep, false)}

	var ps []litPres
	add := func(class, form string, src interface{}, shape func(*model.Node) *model.Node) {
		p := litPres{class: class, form: form, src: src, want: shape(t)}
		for _, s := range tsplits {
			if s != nil {
				p.split = append(p.split, shape(s))
			}
		}
		ps = append(ps, p)
	}
	same := func(v *model.Node) *model.Node { return v }
	underK := func(v *model.Node) *model.Node { return model.Dict().Set("k", v) }
	add("top", "*Config", carrier, same)
	add("top", "Config-by-value", *carrier, same)
	add("value", "map[string]interface{}{*Config}", map[string]interface{}{"k": carrier}, underK)
	switch k.r.Intn(6) {
	case 0:
		add("value", "map[string]*Config", map[string]*ucfg.Config{"k": carrier}, underK)
	case 1:
		add("value", "map[string]Config", map[string]ucfg.Config{"k": *carrier}, underK)
	case 2:
		add("value", "map[interface{}]interface{}{Config}", map[interface{}]interface{}{"k": *carrier}, underK)
	case 3:
		l := func(v *model.Node) *model.Node {
			return model.Dict().Set("l", model.List(model.P("s"), v))
		}
		add("value", "list-element", map[string]interface{}{"l": []interface{}{"s", carrier}}, l)
	case 4:
		add("value", "struct-field-*Config", mkStruct([]fieldSpec{fld("k", carrier, true)}, k.r.Intn(2) == 0), underK)
	default:
		add("value", "struct-field-interface{Config}", mkStruct([]fieldSpec{fld("k", *carrier, false)}, k.r.Intn(2) == 0), underK)
	}
	// inline, next to a sibling whose tag is plain or dotted (the call splits
	// the tag when it has the separator)
	for _, form := range []string{"*Config", "Config-by-value", "interface{*Config}"} {
		sib := "n"
		dotted := k.r.Intn(2) == 0
		if dotted {
			sib = "m" + g.sep + "n"
		}
		var f fieldSpec
		switch form {
		case "*Config":
			f = fld(",inline", carrier, true)
		case "Config-by-value":
			f = fld(",inline", *carrier, true)
		default:
			f = fld(",inline", carrier, false)
		}
		fs := []fieldSpec{f, fld(sib, 7, true)}
		if k.r.Intn(2) == 0 {
			fs[0], fs[1] = fs[1], fs[0]
		}
		with := func(v *model.Node) *model.Node {
			c := v.Copy()
			if dotted && withSep {
				c.Set("m", model.Dict().Set("n", model.P(7)))
			} else {
				c.Set(sib, model.P(7))
			}
			return c
		}
		ptr := k.r.Intn(2) == 0
		if ptr {
			form += "-in-*struct"
		}
		if dotted {
			form += "+dotted-sibling"
		}
		add("inline", form, mkStruct(fs, ptr), with)
	}

	snap, snapOK := snapConfig(carrier)
	for _, p := range ps {
		what := p.class + " presentation (" + p.form + "), " + call + "; " + desc
		viaMerge := k.r.Intn(3) == 0
		var c *ucfg.Config
		var err error
		if viaMerge {
			what = "Merge into an empty config, " + what
			c = ucfg.New()
			res.Eval(1)
			if pn, pv, where := harness.Safe(func() { err = c.Merge(p.src, opts...) }); pn {
				res.Violate("panic:Merge", "Merge panicked with %q at %s; %s", pv, where, what)
				continue
			}
		} else {
			var ok bool
			if c, err, ok = k.newFromSig("panic:NewFrom", what, p.src, opts); !ok {
				continue
			}
		}
		res.Ev("literal_sep_presentations", 1)
		res.SetAdd("literal_sep_presentation", p.class+":"+strings.TrimSuffix(p.form, "+dotted-sibling"))
		sigBase := "literal-sep:" + p.class + ":" + strings.TrimSuffix(strings.TrimSuffix(p.form, "+dotted-sibling"), "-in-*struct")
		if err != nil {
			sig := sigBase + ":error"
			if isDup(err) {
				sig += ":duplicate"
			}
			res.Violate(sig, "refused with %v although the Config itself shows %s; %s", err, t.Canon(), what)
			continue
		}
		m, ok := k.unpackSig("panic:Unpack", sigBase+":unpack-error", what, c, nil)
		if !ok {
			continue
		}
		got, want := model.CanonIfc(m), p.want.Canon()
		isSplit := false
		for _, sp := range p.split {
			isSplit = isSplit || got == sp.Canon()
		}
		switch {
		case got == want:
		case isSplit:
			res.Violate(sigBase+":name-split", "the names of the existing Config were taken for paths: got %s want %s; %s", got, want, what)
		default:
			res.Violate(sigBase+":differs", "got %s want %s; %s", got, want, what)
		}
		if snapOK {
			k.checkSnaps([]cfgSnap{snap}, what)
		}
	}
	return desc
}
