package c05

import (
	"fmt"
	"math"
	"math/rand"
	"reflect"
	"strconv"

	"verif/internal/gen"
	"verif/internal/model"
)

// Numeric leaves: "numerically equal integers and floats" is quantified over
// every Go number type and every value of it, so besides the fixed pool each
// case draws fresh values of all widths (floats from random bit patterns,
// short decimal fractions, integral values and scaled normal deviates; integers
// from the whole range with the boundaries favoured) and turns some all-leaf
// lists and dictionaries into homogeneous ones, which the typed carriers then
// spell as []T, [N]T, *[N]T and map[string]T.

var numTypes = []string{
	"float32", "float32", "float32", "float64", "float64",
	"int", "int8", "int16", "int32", "int64",
	"uint", "uint8", "uint16", "uint32", "uint64",
}

func randFloat32(r *rand.Rand) float32 {
	for {
		var f float32
		switch r.Intn(4) {
		case 0: // a number somebody would write: few decimal digits
			f = float32(float64(r.Intn(19999)-9999) / math.Pow10(1+r.Intn(6)))
		case 1: // any bit pattern
			f = math.Float32frombits(r.Uint32())
		case 2: // integral, up to the end of the contiguous range and beyond
			f = float32(r.Int63n(1<<25)) * float32(int64(1)<<uint(r.Intn(3)*20))
			if r.Intn(2) == 0 {
				f = -f
			}
		default:
			f = float32(r.NormFloat64() * math.Pow10(r.Intn(13)-6))
		}
		if f != f || math.IsInf(float64(f), 0) || (f == 0 && math.Signbit(float64(f))) {
			continue
		}
		return f
	}
}

func randFloat64(r *rand.Rand) float64 {
	for {
		var f float64
		switch r.Intn(4) {
		case 0:
			f = float64(r.Intn(1999999)-999999) / math.Pow10(1+r.Intn(9))
		case 1:
			f = math.Float64frombits(r.Uint64())
		case 2:
			f = float64(r.Int63n(1<<54)) * float64(int64(1)<<uint(r.Intn(3)*20))
			if r.Intn(2) == 0 {
				f = -f
			}
		default:
			f = r.NormFloat64() * math.Pow10(r.Intn(25)-12)
		}
		if f != f || math.IsInf(f, 0) || (f == 0 && math.Signbit(f)) {
			continue
		}
		return f
	}
}

// randBits: a value of a bits wide integer type as its two's complement bit
// pattern, boundaries and small magnitudes favoured.
func randBits(r *rand.Rand, bits uint) uint64 {
	mask := uint64(math.MaxUint64)
	if bits < 64 {
		mask = uint64(1)<<bits - 1
	}
	switch r.Intn(6) {
	case 0:
		return mask // -1 / max unsigned
	case 1:
		return mask >> 1 // max signed
	case 2:
		return mask>>1 + 1 // min signed / 2^(bits-1)
	case 3:
		return uint64(r.Intn(100)) & mask
	}
	return r.Uint64() & mask
}

func randOfType(r *rand.Rand, typ string) interface{} {
	switch typ {
	case "float32":
		return randFloat32(r)
	case "float64":
		return randFloat64(r)
	case "int":
		return int(int64(randBits(r, 64)))
	case "int8":
		return int8(randBits(r, 8))
	case "int16":
		return int16(randBits(r, 16))
	case "int32":
		return int32(randBits(r, 32))
	case "int64":
		return int64(randBits(r, 64))
	case "uint":
		return uint(randBits(r, 64))
	case "uint8":
		return uint8(randBits(r, 8))
	case "uint16":
		return uint16(randBits(r, 16))
	case "uint32":
		return uint32(randBits(r, 32))
	case "uint64":
		return randBits(r, 64)
	case "bool":
		return r.Intn(2) == 0
	}
	for {
		if s, ok := gen.Prims[r.Intn(len(gen.Prims))].(string); ok {
			return s
		}
	}
}

// casePool is the leaf pool of one case: the fixed pool plus fresh numbers.
func casePool(r *rand.Rand) []interface{} {
	pool := append([]interface{}{}, leafPool...)
	for i := 0; i < 9; i++ {
		pool = append(pool, randOfType(r, numTypes[r.Intn(len(numTypes))]))
	}
	return pool
}

func allPrims(ns []*model.Node) bool {
	for _, e := range ns {
		if !e.IsPrim() {
			return false
		}
	}
	return len(ns) > 0
}

// homogenize gives some all-leaf lists and dictionaries one Go element type.
func homogenize(r *rand.Rand, n *model.Node) {
	if !n.IsSub() {
		return
	}
	retype := func(ns []*model.Node) {
		typ := append(numTypes, "string", "bool")[r.Intn(len(numTypes)+2)]
		for _, e := range ns {
			e.Prim = randOfType(r, typ)
		}
	}
	if len(n.D) == 0 && allPrims(n.A) && r.Intn(3) == 0 {
		retype(n.A)
		return
	}
	if len(n.A) == 0 && len(n.D) > 0 {
		var vals []*model.Node
		for _, key := range n.SortedKeys() {
			vals = append(vals, n.D[key])
		}
		if allPrims(vals) && r.Intn(6) == 0 {
			retype(vals)
			return
		}
	}
	for _, key := range n.SortedKeys() {
		homogenize(r, n.D[key])
	}
	for _, e := range n.A {
		homogenize(r, e)
	}
}

func isNumber(v interface{}) bool {
	if v == nil {
		return false
	}
	switch reflect.TypeOf(v).Kind() {
	case reflect.Int, reflect.Int8, reflect.Int16, reflect.Int32, reflect.Int64,
		reflect.Uint, reflect.Uint8, reflect.Uint16, reflect.Uint32, reflect.Uint64,
		reflect.Float32, reflect.Float64:
		return true
	}
	return false
}

// leafMonitors records which Go leaf types the tree holds and how many
// float32 leaves have a float64 value that is not the float64 nearest to
// their shortest decimal form (the values for which "the same number" and
// "the number as it is printed" differ).
func (k *kase) leafMonitors(n *model.Node) {
	switch {
	case n.IsPrim():
		k.res.SetAdd("leaf_go_type", fmt.Sprintf("%T", n.Prim))
		if f, ok := n.Prim.(float32); ok {
			k.res.Ev("float32_leaves", 1)
			if g, _ := strconv.ParseFloat(strconv.FormatFloat(float64(f), 'g', -1, 32), 64); g != float64(f) {
				k.res.Ev("float32_leaves_not_a_short_decimal_as_float64", 1)
			}
		}
		if f, ok := n.Prim.(float64); ok && f != math.Trunc(f) {
			k.res.Ev("float64_fraction_leaves", 1)
		}
	case n.IsSub():
		for _, c := range n.D {
			k.leafMonitors(c)
		}
		for _, c := range n.A {
			k.leafMonitors(c)
		}
	}
}

// numberChanged tells whether the observed data are the tree except that some
// number leaves hold a number of another value (nothing else differs); it
// returns the Go type the first such number had in the input.
func numberChanged(want *model.Node, got interface{}, path string) (goType, where string, found bool) {
	patched := want.Copy()
	patchNumbers(patched, got, path, &goType, &where)
	if where == "" || patched.Canon() != model.CanonIfc(got) {
		return "", "", false
	}
	return goType, where, true
}

// patchNumbers overwrites number leaves of want that came back as another
// number with the observed value and notes the first one.
func patchNumbers(want *model.Node, got interface{}, path string, goType, where *string) {
	switch {
	case want.IsPrim():
		if isNumber(want.Prim) && isNumber(got) && model.NumCanon(want.Prim) != model.NumCanon(got) {
			if *where == "" {
				*goType = fmt.Sprintf("%T", want.Prim)
				*where = fmt.Sprintf("%s: %s (%T) became %s (%T)", path, model.NumCanon(want.Prim), want.Prim, model.NumCanon(got), got)
			}
			want.Prim = got
		}
	case want.IsSub() && len(want.D) > 0:
		if m, ok := got.(map[string]interface{}); ok {
			for _, key := range want.SortedKeys() {
				patchNumbers(want.D[key], m[key], path+"."+key, goType, where)
			}
		}
	case want.IsSub():
		if l, ok := got.([]interface{}); ok && len(l) == len(want.A) {
			for i, e := range want.A {
				patchNumbers(e, l[i], path+"."+strconv.Itoa(i), goType, where)
			}
		}
	}
}
