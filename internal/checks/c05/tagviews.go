package c05

import (
	"fmt"
	"math/rand"
	"reflect"
	"sort"
	"strconv"
	"strings"

	ucfg "github.com/elastic/go-ucfg"

	"verif/internal/harness"
	"verif/internal/model"
)

// (5) One struct type, several tag sets.
//
// "structs with tags": the tree a struct stands for is the one described by
// the tags the call selects (option StructTag, default `config`) - and by
// nothing else: not by tags of another name on the same fields, not by what an
// earlier call has done with the same type. The data of the case's tree are
// put into run-time built struct types (nested, by value and by pointer) whose
// fields carry 2-3 tag sets at once; under every tag set each field is
// independently named (the tree's key, another free key, a fresh name, a
// dotted name), inlined (dictionary valued fields) or ignored. The expected
// tree of a (tag set, PathSep) pair is computed from the field descriptions.
// The same value is then normalised in a sequence of 3-5 calls that switches
// between the tag sets, each call in another form (value, pointer, inside a
// map, inside []interface{}, as element type of []T and map[string]T; NewFrom
// or Merge into an empty config), and every call must give the tree of ITS
// tag set.

type tmode int

const (
	mNamed tmode = iota
	mInline
	mIgnore
)

var modeName = map[tmode]string{mNamed: "named", mInline: "inline", mIgnore: "ignore"}

type dfield struct {
	mode     []tmode
	name     []string
	text     []string    // the tag text per tag set
	node     *model.Node // the data below the field (when it is not a multi-tag struct)
	val      interface{}
	sub      *dstruct
	concrete bool
	ptr      bool
}

type dstruct struct {
	fields []*dfield
}

type namespace struct {
	used     map[string]bool
	prefixes []string
}

func newNS() *namespace { return &namespace{used: map[string]bool{}} }

type tagGen struct {
	r            *rand.Rand
	tags         []string
	fresh        int
	dotted       bool
	nstructs     int
	combos       map[string]bool
	cfgs         []cfgSnap
	inlineCfg    int // (field, tag set) pairs where an existing Config is inlined
	inlineCfgTag map[int]int
}

var tagNames = []string{"config", "config", "json", "yaml", "cfg", "ucfg", "conf", "x"}

func (g *tagGen) freshName() string {
	g.fresh++
	return string("pqruvwxyz"[g.r.Intn(9)]) + strconv.Itoa(g.fresh)
}

func dictLike(c *model.Node) bool { return c.IsSub() && !c.HasA && len(c.A) == 0 }

func (g *tagGen) build(n *model.Node, ns []*namespace, depth int) *dstruct {
	g.nstructs++
	d := &dstruct{}
	keys := n.SortedKeys()
	g.r.Shuffle(len(keys), func(i, j int) { keys[i], keys[j] = keys[j], keys[i] })
	for _, key := range keys {
		c := n.D[key]
		f := &dfield{mode: make([]tmode, len(g.tags)), name: make([]string, len(g.tags)), text: make([]string, len(g.tags))}
		f.concrete = g.r.Intn(2) == 0
		asSub := dictLike(c) && depth < 3 && g.r.Intn(2) == 0
		for x := range g.tags {
			p := g.r.Intn(8)
			switch {
			case p == 0:
				f.mode[x] = mIgnore
			case p <= 2 && dictLike(c):
				f.mode[x] = mInline
				if !asSub {
					// the keys of the map land in the enclosing namespace
					free := true
					for k2 := range c.D {
						if ns[x].used[k2] {
							free = false
						}
					}
					if !free {
						f.mode[x] = mNamed
						break
					}
					for k2 := range c.D {
						ns[x].used[k2] = true
					}
				}
			}
			switch f.mode[x] {
			case mIgnore:
				f.text[x] = ",ignore"
				if g.r.Intn(2) == 0 {
					f.text[x] = key + ",ignore"
				}
			case mInline:
				f.text[x] = []string{",inline", ",squash"}[g.r.Intn(2)]
			default:
				name := ""
				switch q := g.r.Intn(8); {
				case q < 4 && !ns[x].used[key] && key != "":
					name = key
				case q == 4:
					// another key of the small pool, if it is free here
					for _, k2 := range []string{"a", "b", "c"} {
						if !ns[x].used[k2] && g.r.Intn(2) == 0 {
							name = k2
							break
						}
					}
				case q == 5:
					// dotted name: a new namespace or one a sibling has opened
					var pre string
					if len(ns[x].prefixes) > 0 && g.r.Intn(2) == 0 {
						pre = ns[x].prefixes[g.r.Intn(len(ns[x].prefixes))]
					} else {
						pre = g.freshName()
						ns[x].prefixes = append(ns[x].prefixes, pre)
						ns[x].used[pre] = true
					}
					name = pre + "." + g.freshName()
					g.dotted = true
				}
				if name == "" {
					name = g.freshName()
				}
				ns[x].used[name] = true
				f.name[x] = name
				f.text[x] = name
			}
		}
		var ms []string
		for x := range g.tags {
			ms = append(ms, modeName[f.mode[x]])
		}
		sort.Strings(ms)
		g.combos[strings.Join(ms, "|")] = true
		if asSub {
			childNS := make([]*namespace, len(g.tags))
			for x := range g.tags {
				if f.mode[x] == mInline {
					childNS[x] = ns[x]
				} else {
					childNS[x] = newNS()
				}
			}
			f.sub = g.build(c, childNS, depth+1)
			f.ptr = g.r.Intn(3) == 0
		} else {
			f.node = c
			b := newBuilder(g.r, false)
			f.val = b.node(plain(c), []int{stMap, stMapI, stTyped}[g.r.Intn(3)], false)
			if dictLike(c) && g.r.Intn(4) == 0 {
				// the dictionary arrives as an existing Config (named or inlined)
				if cfg, err := ucfg.NewFrom(f.val); err == nil {
					if sn, ok := snapConfig(cfg); ok {
						g.cfgs = append(g.cfgs, sn)
					}
					f.val = cfg
					if g.r.Intn(3) == 0 {
						f.val = *cfg
					}
					for x := range g.tags {
						if f.mode[x] == mInline {
							g.inlineCfg++
							if g.inlineCfgTag == nil {
								g.inlineCfgTag = map[int]int{}
							}
							g.inlineCfgTag[x]++
						}
					}
				}
			}
		}
		d.fields = append(d.fields, f)
	}
	return d
}

func (g *tagGen) value(d *dstruct, ptr bool) reflect.Value {
	fields := make([]reflect.StructField, len(d.fields))
	vals := make([]reflect.Value, len(d.fields))
	for i, f := range d.fields {
		ft := ifaceT
		switch {
		case f.sub != nil:
			vals[i] = g.value(f.sub, f.ptr)
		case f.val != nil:
			vals[i] = reflect.ValueOf(f.val)
		}
		if vals[i].IsValid() && f.concrete {
			ft = vals[i].Type()
		}
		var tag []string
		for x, t := range g.tags {
			tag = append(tag, fmt.Sprintf(`%s:"%s"`, t, f.text[x]))
		}
		fields[i] = reflect.StructField{Name: fmt.Sprintf("F%d", i), Type: ft, Tag: reflect.StructTag(strings.Join(tag, " "))}
	}
	p := reflect.New(reflect.StructOf(fields))
	for i, v := range vals {
		if v.IsValid() {
			p.Elem().Field(i).Set(v)
		}
	}
	if ptr {
		return p
	}
	return p.Elem()
}

// expect adds what d stands for under tag set x to the dictionary into.
func (d *dstruct) expect(x int, sep bool, into *model.Node) {
	for _, f := range d.fields {
		switch f.mode[x] {
		case mIgnore:
		case mInline:
			if f.sub != nil {
				f.sub.expect(x, sep, into)
			} else {
				for k2, v := range f.node.D {
					into.D[k2] = v
				}
			}
		default:
			child := f.node
			if f.sub != nil {
				child = model.Dict()
				f.sub.expect(x, sep, child)
			}
			cur := into
			name := f.name[x]
			if sep {
				segs := strings.Split(name, ".")
				for _, s := range segs[:len(segs)-1] {
					if cur.D[s] == nil {
						cur.D[s] = model.Dict()
					}
					cur = cur.D[s]
				}
				name = segs[len(segs)-1]
			}
			cur.D[name] = child
		}
	}
}

func (d *dstruct) describe(tags []string) string {
	var l []string
	for i, f := range d.fields {
		var tag []string
		for x, t := range tags {
			tag = append(tag, fmt.Sprintf(`%s:%q`, t, f.text[x]))
		}
		v := ""
		switch {
		case f.sub != nil && f.ptr:
			v = "&" + f.sub.describe(tags)
		case f.sub != nil:
			v = f.sub.describe(tags)
		default:
			v = fmt.Sprintf("%s(%T)", f.node, f.val)
		}
		l = append(l, fmt.Sprintf("F%d `%s` = %s", i, strings.Join(tag, " "), v))
	}
	return "struct{" + strings.Join(l, "; ") + "}"
}

var tagForms = []string{"value", "pointer", "in-map", "in-[]interface", "elem-of-[]T", "elem-of-map[string]T"}

func (k *kase) tagViews() string {
	r := k.r
	nt := 2
	if r.Intn(3) == 0 {
		nt = 3
	}
	g := &tagGen{r: r, combos: map[string]bool{}}
	for len(g.tags) < nt {
		t := tagNames[r.Intn(len(tagNames))]
		dup := false
		for _, u := range g.tags {
			dup = dup || u == t
		}
		if !dup {
			g.tags = append(g.tags, t)
		}
	}
	ns := make([]*namespace, nt)
	for x := range ns {
		ns[x] = newNS()
	}
	d := g.build(k.t, ns, 0)
	val := g.value(d, false)
	ptr := reflect.New(val.Type())
	ptr.Elem().Set(val)
	desc := d.describe(g.tags)

	// the views must be told apart for the sequence to mean anything
	views := map[string]bool{}
	for x := range g.tags {
		e := model.Dict()
		d.expect(x, true, e)
		views[e.Canon()] = true
	}
	if len(views) > 1 {
		k.res.Ev("structtag_types_with_different_views", 1)
	}
	for c := range g.combos {
		k.res.SetAdd("structtag_field_modes", c)
	}
	k.res.SetAdd("structtag_tag_sets", strconv.Itoa(nt))
	if g.nstructs > 1 {
		k.res.Ev("structtag_nested_multi_tag_structs", int64(g.nstructs-1))
	}

	// every tag set at least once, then some more
	seq := r.Perm(nt)
	for i, n := 0, 1+r.Intn(3); i < n; i++ {
		seq = append(seq, r.Intn(nt))
	}
	var history []string
	seen := map[int]bool{}
	for step, x := range seq {
		sep := g.dotted || r.Intn(2) == 0
		form := r.Intn(len(tagForms))
		merge := r.Intn(3) == 0
		either := func() interface{} {
			if r.Intn(2) == 0 {
				return ptr.Interface()
			}
			return val.Interface()
		}
		var src interface{}
		wrap := func(e *model.Node) *model.Node { return e }
		switch tagForms[form] {
		case "value":
			src = val.Interface()
		case "pointer":
			src = ptr.Interface()
		case "in-map":
			src = map[string]interface{}{"w": either(), "z": int64(1)}
			wrap = func(e *model.Node) *model.Node {
				return model.Dict().Set("w", e).Set("z", model.P(int64(1)))
			}
		case "in-[]interface":
			src = map[string]interface{}{"l": []interface{}{either(), either()}}
			wrap = func(e *model.Node) *model.Node { return model.Dict().Set("l", model.List(e, e)) }
		case "elem-of-[]T":
			et, ev := val.Type(), val
			if r.Intn(2) == 0 {
				et, ev = ptr.Type(), ptr
			}
			n := 1 + r.Intn(2)
			sl := reflect.MakeSlice(reflect.SliceOf(et), n, n)
			for i := 0; i < n; i++ {
				sl.Index(i).Set(ev)
			}
			src = map[string]interface{}{"l": sl.Interface()}
			wrap = func(e *model.Node) *model.Node {
				var el []*model.Node
				for i := 0; i < n; i++ {
					el = append(el, e)
				}
				return model.Dict().Set("l", model.List(el...))
			}
		default:
			m := reflect.MakeMap(reflect.MapOf(reflect.TypeOf(""), val.Type()))
			m.SetMapIndex(reflect.ValueOf("k"), val)
			src = m.Interface()
			wrap = func(e *model.Node) *model.Node { return model.Dict().Set("k", e) }
		}
		var opts []ucfg.Option
		if sep {
			opts = append(opts, ucfg.PathSep("."))
		}
		optName := "StructTag(" + g.tags[x] + ")"
		if g.tags[x] == "config" && r.Intn(2) == 0 {
			optName = "default tag"
		} else {
			opts = append(opts, ucfg.StructTag(g.tags[x]))
		}
		call := "NewFrom"
		if merge {
			call = "New+Merge"
		}
		this := fmt.Sprintf("%s %s form=%s pathsep=%v", call, optName, tagForms[form], sep)
		history = append(history, this)
		what := fmt.Sprintf("call %d of the sequence [%s] on %s; data tree %s", step+1, strings.Join(history, " ; "), desc, k.t)

		exp := model.Dict()
		d.expect(x, sep, exp)
		want := wrap(exp).Canon()

		var c *ucfg.Config
		var err error
		k.res.Eval(1)
		if p, pv, where := harness.Safe(func() {
			if merge {
				c = ucfg.New()
				err = c.Merge(src, opts...)
			} else {
				c, err = ucfg.NewFrom(src, opts...)
			}
		}); p {
			k.res.Violate("panic:NewFrom:struct-tags", "%s panicked with %q at %s; %s", call, pv, where, what)
			return desc
		}
		later := ""
		for y := range seen {
			if y != x {
				later = ":after-call-with-other-tag"
			}
		}
		seen[x] = true
		if err != nil {
			k.res.Violate("struct-tag-view:newfrom-error:"+reasonShort(err)+later, "%s returned %v; expected %s; %s", call, err, want, what)
			continue
		}
		var sepO []ucfg.Option
		if sep {
			sepO = sepOpts
		}
		got, ok := k.unpack(what, c, sepO)
		if !ok {
			continue
		}
		k.res.Ev("structtag_calls_checked", 1)
		if later != "" {
			k.res.Ev("structtag_calls_after_call_with_other_tag", 1)
		}
		k.res.SetAdd("structtag_form", tagForms[form])
		k.res.SetAdd("structtag_option", optName)
		gc := model.CanonIfc(got)
		if gc == want {
			continue
		}
		if g.inlineCfgTag[x] > 0 && onlyMissing(wrap(exp), got) {
			k.res.Violate("inline-config-field:settings-missing", "the struct has fields tagged inline under %q that hold an existing Config, and settings are missing: unpack gives %s, the tags %q describe %s; %s", g.tags[x], gc, g.tags[x], want, what)
			continue
		}
		sig := "struct-tag-view:disagrees"
		note := ""
		for y := range g.tags {
			if y == x {
				continue
			}
			o := model.Dict()
			d.expect(y, sep, o)
			if wrap2 := wrap(o).Canon(); wrap2 == gc {
				sig = "struct-tag-view:names-of-other-tag"
				note = fmt.Sprintf(" (that is the tree the tags %q describe)", g.tags[y])
			}
		}
		if note == "" {
			if typ, where, found := numberChanged(wrap(exp), got, ""); found {
				k.res.Violate("number-not-preserved:"+typ, "a number of the input comes back as another number: %s; unpack gives %s, expected %s; %s", where, gc, want, what)
				continue
			}
		}
		k.res.Violate(sig+later, "unpack gives %s%s, the tags %q describe %s; %s", gc, note, g.tags[x], want, what)
	}
	if g.inlineCfg > 0 {
		k.res.Ev("structtag_inline_config_fields", int64(g.inlineCfg))
	}
	k.checkSnaps(g.cfgs, "after the sequence ["+strings.Join(history, " ; ")+"] on "+desc)
	return desc
}
