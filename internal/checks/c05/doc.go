// Package c05: see DESIGN.md section 3 C05.
package c05
