package c05

import (
	"fmt"
	"math/rand"
	"sort"
	"strconv"
	"strings"

	ucfg "github.com/elastic/go-ucfg"

	"verif/internal/harness"
	"verif/internal/model"
)

// (11) Objects that are a dictionary and a list at once, below the top level.
//
// A string-keyed map may hold names next to keys that spell list positions
// ({"0": x, "2": y, "n": z}). The first sentence of the property covers it like
// any other map: unpacking into interface{} returns the same data (the
// positions under their decimal keys, nil == absent), feeding the result back
// gives an identical config, and the dotted spellings of the same settings
// ("k.0", "k.n" next to or instead of the nested object) are equivalent. The
// object always holds at least one named primitive (an object with positions
// only IS a list: C20) and is never the top-level value (Unpack of the top
// level into a map shows the names only).
//
// (12) List positions written one by one in a FIXED order.
//
// Struct fields are read in declaration order, so a struct whose tags are
// positions of one list ("l.0", "l.1", ... or "0", "1", ... one level down)
// writes the list slot by slot in an order the input controls: ascending,
// descending, shuffled, interleaved. Positions whose element is nil may be
// left out. Whatever the order, the length reached so far and the room the
// list has at that moment: the result is the list, null at every position not
// written, the same config the nested []interface{} gives.

// ---------------------------------------------------------------- (11)

type mixedGen struct {
	r      *rand.Rand
	prims  []interface{}
	mixed  map[*model.Node]bool
	gaps   int
	inList int
	deepEl int
}

func (g *mixedGen) prim() interface{} {
	for {
		if v := g.prims[g.r.Intn(len(g.prims))]; v != nil {
			return v
		}
	}
}

// element draws one list element of a mixed object.
func (g *mixedGen) element(depth int) *model.Node {
	switch x := g.r.Intn(12); {
	case x == 0:
		g.deepEl++
		return model.Dict().Set(gKey(g.r), model.P(g.prim()))
	case x == 1:
		g.deepEl++
		return model.List(model.P(g.prim()), model.P(g.prim()))
	case x == 2 && depth < 2:
		g.deepEl++
		n := model.Dict().Set("n", model.P(g.prim()))
		g.addList(n, depth+1)
		return n
	}
	return model.P(g.prim())
}

func gKey(r *rand.Rand) string { return []string{"a", "b", "c"}[r.Intn(3)] }

// addList gives dictionary n a list part (and a named primitive if it has none).
func (g *mixedGen) addList(n *model.Node, depth int) {
	named := false
	for _, c := range n.D {
		if c.IsPrim() {
			named = true
		}
	}
	if !named {
		n.Set("n", model.P(g.prim()))
	}
	cnt := 1 + g.r.Intn(4)
	if g.r.Intn(8) == 0 {
		cnt = 5 + g.r.Intn(6)
	}
	n.A, n.HasA = nil, true
	for i := 0; i < cnt; i++ {
		if i < cnt-1 && g.r.Intn(4) == 0 {
			n.A = append(n.A, model.Nil())
			g.gaps++
			continue
		}
		n.A = append(n.A, g.element(depth))
	}
	g.mixed[n] = true
}

// nestedDicts lists the non-empty pure dictionaries below the top level.
func nestedDicts(n *model.Node, depth int, inList bool, out *[]*model.Node, lists map[*model.Node]bool) {
	if !n.IsSub() {
		return
	}
	if depth > 0 && pureDict(n) {
		*out = append(*out, n)
		lists[n] = inList
	}
	for _, key := range n.SortedKeys() {
		nestedDicts(n.D[key], depth+1, false, out, lists)
	}
	for _, e := range n.A {
		nestedDicts(e, depth+1, true, out, lists)
	}
}

const (
	mxKeys      = iota // names and positions are keys of the one nested map
	mxDotted           // every setting of the object is a dotted key of the enclosing map
	mxPositions        // the names stay nested, the positions are dotted keys of the enclosing map
	mxNames            // the positions stay nested (decimal keys), the names are dotted keys of the enclosing map
)

var mxName = map[int]string{mxKeys: "keys", mxDotted: "all-dotted", mxPositions: "positions-dotted", mxNames: "names-dotted"}

type mixedSpeller struct {
	r      *rand.Rand
	mixed  map[*model.Node]bool
	dotted bool // dotted modes allowed
	modes  map[string]bool
}

// members spells the settings of mixed object n as entries: names, and the
// positions under their decimal keys (a nil position is left out or written
// as nil; the last one is never nil).
func (m *mixedSpeller) members(n *model.Node) (names, pos []ent) {
	for _, key := range n.SortedKeys() {
		names = append(names, ent{key, m.spell(n.D[key])})
	}
	for i, e := range n.A {
		if e.IsNil() && m.r.Intn(2) == 0 {
			continue
		}
		pos = append(pos, ent{strconv.Itoa(i), m.spell(e)})
	}
	return names, pos
}

func (m *mixedSpeller) spell(n *model.Node) *sp {
	switch {
	case n == nil || !n.IsSub():
		return plain(n)
	case m.mixed[n]:
		names, pos := m.members(n)
		s := &sp{kind: spDict, ents: append(names, pos...)}
		s.shuffle(m.r)
		m.modes[mxName[mxKeys]] = true
		return s
	case n.HasA || len(n.A) > 0:
		s := &sp{kind: spList}
		for _, e := range n.A {
			s.list = append(s.list, m.spell(e))
		}
		return s
	}
	s := &sp{kind: spDict}
	for _, key := range n.SortedKeys() {
		c := n.D[key]
		mode := mxKeys
		if m.dotted && m.mixed[c] && key != "" {
			mode = m.r.Intn(4)
		}
		if mode == mxKeys {
			s.ents = append(s.ents, ent{key, m.spell(c)})
			continue
		}
		m.modes[mxName[mode]] = true
		names, pos := m.members(c)
		var nested, flat []ent
		switch mode {
		case mxDotted:
			flat = append(names, pos...)
		case mxPositions:
			nested, flat = names, pos
		case mxNames:
			nested, flat = pos, names
		}
		for _, e := range flat {
			s.ents = append(s.ents, ent{key + "." + e.key, e.val})
		}
		if len(nested) > 0 {
			in := &sp{kind: spDict, ents: nested}
			in.shuffle(m.r)
			s.ents = append(s.ents, ent{key, in})
		}
	}
	s.shuffle(m.r)
	return s
}

// withoutPart is a copy of the tree whose mixed objects have lost their list
// part (names == false) or their names (names == true).
func withoutPart(n *model.Node, mixed map[*model.Node]bool, names bool) *model.Node {
	if !n.IsSub() {
		return n
	}
	c := &model.Node{Kind: model.KSub, HasA: n.HasA}
	if n.D != nil {
		c.D = map[string]*model.Node{}
	}
	drop := mixed[n]
	if !(drop && names) {
		for key, e := range n.D {
			c.D[key] = withoutPart(e, mixed, names)
		}
	}
	if !(drop && !names) {
		for _, e := range n.A {
			c.A = append(c.A, withoutPart(e, mixed, names))
		}
	} else {
		c.HasA = false
	}
	return c
}

func (k *kase) mixedObjects() string {
	r := k.r
	t2 := k.t.Copy()
	g := &mixedGen{r: r, prims: k.o.Prims, mixed: map[*model.Node]bool{}}
	var cand []*model.Node
	inList := map[*model.Node]bool{}
	nestedDicts(t2, 0, false, &cand, inList)
	if len(cand) == 0 {
		n := model.Dict()
		t2.Set(gKey(r), n)
		cand = append(cand, n)
	}
	for i, cnt := 0, 1+r.Intn(2); i < cnt; i++ {
		n := cand[r.Intn(len(cand))]
		if g.mixed[n] {
			continue
		}
		g.addList(n, 0)
		if inList[n] {
			g.inList++
		}
	}
	want := t2.Canon()
	lostList := withoutPart(t2, g.mixed, false).Canon()
	lostNames := withoutPart(t2, g.mixed, true).Canon()
	k.res.Ev("mixed_objects_generated", int64(len(g.mixed)))
	k.res.Ev("mixed_objects_with_skipped_positions", int64(g.gaps))
	k.res.Ev("mixed_objects_that_are_list_elements", int64(g.inList))
	k.res.Ev("mixed_objects_with_container_elements", int64(g.deepEl))

	var refWalk []string
	refName := ""
	sample := ""
	for i := 0; i < 5; i++ {
		m := &mixedSpeller{r: r, mixed: g.mixed, dotted: i > 0 && i != 3, modes: map[string]bool{}}
		s := m.spell(t2)
		pathSep := m.dotted || r.Intn(2) == 0
		st := []int{stMap, stMap, stMapI, stStruct, stTyped, stMixed}[r.Intn(6)]
		if i == 0 {
			st = stMap
		}
		var modes []string
		for name := range m.modes {
			modes = append(modes, name)
		}
		sort.Strings(modes)
		mode := strings.Join(modes, "+")
		for order := 0; order < 2; order++ {
			note := ""
			if order == 1 {
				if st != stStruct && st != stMixed {
					break
				}
				s, note = s.reversed(), "fields in the opposite order; "
			}
			b := newBuilder(r, pathSep)
			b.tag = builderTags[r.Intn(len(builderTags))]
			b.noInlineCfg, b.noNilInline = true, true
			v := b.node(s, st, true)
			k.res.Eval(b.evals)
			what := fmt.Sprintf("%sobject with names and list positions, spelling %s (%s) carried by %s, PathSep=%v; tree %s", note, s, mode, styleName[st], pathSep, t2)
			if b.tag != "" {
				what += "; structs tagged `" + b.tag + "`, call with StructTag(" + b.tag + ")"
			}
			if b.err != nil {
				k.res.Violate("mixed-object:newfrom-error:config-part", "building a nested *Config failed: %v; %s", b.err, what)
				continue
			}
			var sep []ucfg.Option
			if pathSep {
				sep = sepOpts
			}
			opts := append(append([]ucfg.Option{}, sep...), b.tagOpts()...)
			w, ok := k.mixedOne(what, mode, v, opts, sep, want, lostList, lostNames)
			if !ok {
				continue
			}
			k.res.SetAdd("mixed_object_spelling", mode)
			k.res.SetAdd("mixed_object_carrier", styleName[st])
			for p := range b.parts {
				if p == "*Config" || p == "Config-by-value" {
					k.res.Ev("mixed_objects_carried_by_an_existing_Config", 1)
				}
			}
			k.checkSnaps(b.cfgs, what)
			if refWalk == nil {
				refWalk, refName = w, mode+"/"+styleName[st]
			} else if !sameWalk(w, refWalk) {
				k.res.Violate("mixed-object:structure-differs", "stored structure differs from the one built from spelling %s: %s; %s", refName, diffWalk(w, refWalk), what)
			}
		}
		if sample == "" || i == 1 {
			sample = s.String()
		}
	}
	return sample
}

// mixedOne: one spelling must unpack to the tree, and its unpacked data fed
// back in must give the same config.
func (k *kase) mixedOne(what, mode string, v interface{}, opts, sep []ucfg.Option, want, lostList, lostNames string) ([]string, bool) {
	c, err, ok := k.newFromSig("mixed-object:panic:NewFrom", what, v, opts)
	if !ok {
		return nil, false
	}
	if err != nil {
		k.res.Violate("mixed-object:newfrom-error:"+reasonShort(err), "NewFrom returned %v; %s", err, what)
		return nil, false
	}
	x, ok := k.unpackSig("mixed-object:panic:Unpack", "mixed-object:unpack-error", what, c, sep)
	if !ok {
		return nil, false
	}
	k.res.Ev("mixed_object_spellings_checked", 1)
	got := model.CanonIfc(x)
	switch {
	case got == want:
	case got == lostList:
		k.res.Violate("mixed-object:list-part-lost", "the positions of an object that has names as well are gone: unpack gives %s, the input holds %s; %s", got, want, what)
		return nil, false
	case got == lostNames:
		k.res.Violate("mixed-object:names-lost", "the names of an object that has list positions as well are gone: unpack gives %s, the input holds %s; %s", got, want, what)
		return nil, false
	default:
		k.res.Violate("mixed-object:disagrees:"+mode, "unpack gives %s, the input holds %s; %s", got, want, what)
		return nil, false
	}
	w := k.walk(what, c)
	what2 := "feeding back the unpacked result of " + what
	c2, err, ok := k.newFromSig("mixed-object:panic:NewFrom", what2, x, sep)
	if !ok {
		return w, true
	}
	if err != nil {
		k.res.Violate("mixed-object:refeed-error:"+reasonShort(err), "NewFrom(unpacked) returned %v; %s", err, what2)
		return w, true
	}
	x2, ok := k.unpackSig("mixed-object:panic:Unpack", "mixed-object:unpack-error", what2, c2, sep)
	if !ok {
		return w, true
	}
	if g2 := model.CanonIfc(x2); g2 != got {
		k.res.Violate("mixed-object:roundtrip-not-idempotent", "second unpack gives %s, first gave %s; %s", g2, got, what2)
		return w, true
	}
	if w2 := k.walk(what2, c2); !sameWalk(w, w2) {
		k.res.Violate("mixed-object:refeed-structure-differs", "config rebuilt from its own unpacked data is stored differently: %s; %s", diffWalk(w, w2), what2)
	}
	return w, true
}

func (k *kase) newFromSig(panicSig, what string, src interface{}, opts []ucfg.Option) (c *ucfg.Config, err error, ok bool) {
	k.res.Eval(1)
	if p, pv, where := harness.Safe(func() { c, err = ucfg.NewFrom(src, opts...) }); p {
		k.res.Violate(panicSig, "NewFrom panicked with %q at %s; %s", pv, where, what)
		return nil, nil, false
	}
	return c, err, true
}

func (k *kase) unpackSig(panicSig, errSig, what string, c *ucfg.Config, opts []ucfg.Option) (m map[string]interface{}, ok bool) {
	k.res.Eval(1)
	var err error
	if p, pv, where := harness.Safe(func() { err = c.Unpack(&m, opts...) }); p {
		k.res.Violate(panicSig, "Unpack panicked with %q at %s; %s", pv, where, what)
		return nil, false
	}
	if err != nil {
		k.res.Violate(errSig, "Unpack into map[string]interface{} failed: %v; %s", err, what)
		return nil, false
	}
	return m, true
}

// ---------------------------------------------------------------- (12)

var orderNames = []string{"ascending", "descending", "shuffled", "evens-then-odds", "ascending-blocks-swapped", "tail-first-then-ascending"}

// positionOrder returns the positions idx in one of the orders.
func positionOrder(r *rand.Rand, idx []int, kind int) []int {
	out := append([]int{}, idx...)
	switch kind {
	case 1:
		for i, j := 0, len(out)-1; i < j; i, j = i+1, j-1 {
			out[i], out[j] = out[j], out[i]
		}
	case 2:
		r.Shuffle(len(out), func(i, j int) { out[i], out[j] = out[j], out[i] })
	case 3:
		var ev, od []int
		for i, p := range out {
			if i%2 == 0 {
				ev = append(ev, p)
			} else {
				od = append(od, p)
			}
		}
		out = append(ev, od...)
	case 4:
		// ascending runs, two neighbouring runs exchanged
		if len(out) >= 4 {
			a := r.Intn(len(out) - 2)
			b := a + 1 + r.Intn(len(out)-a-2)
			c := b + 1 + r.Intn(len(out)-b-1)
			sw := append(append(append(append([]int{}, out[:a]...), out[b:c]...), out[a:b]...), out[c:]...)
			out = sw
		}
	case 5:
		if len(out) >= 2 {
			a := 1 + r.Intn(len(out)-1)
			out = append(append([]int{}, out[a:]...), out[:a]...)
		}
	}
	return out
}

type growEv struct{ from, to int }

func (k *kase) orderedPositions() string {
	r := k.r
	prims := k.o.Prims
	prim := func() interface{} {
		for {
			if v := prims[r.Intn(len(prims))]; v != nil {
				return v
			}
		}
	}
	// the list: length 1..48 (small lengths and lengths around powers of two
	// are frequent), a share of nil elements, last element not nil
	var n int
	switch r.Intn(4) {
	case 0:
		n = 1 + r.Intn(6)
	case 1:
		n = (2 << uint(r.Intn(5))) - 2 + r.Intn(5) // 0..4 around 2,4,8,16,32
		if n < 1 {
			n = 1
		}
	default:
		n = 3 + r.Intn(22)
	}
	nilShare := []int{0, 10, 25, 50, 80}[r.Intn(5)]
	list := model.List()
	var given []int
	containers := 0
	for i := 0; i < n; i++ {
		switch {
		case i < n-1 && r.Intn(100) < nilShare:
			list.A = append(list.A, model.Nil())
			if r.Intn(6) == 0 {
				given = append(given, i) // written as an explicit nil
			}
			continue
		case r.Intn(10) == 0:
			list.A = append(list.A, model.Dict().Set(gKey(r), model.P(prim())))
			containers++
		case r.Intn(14) == 0:
			list.A = append(list.A, model.List(model.P(prim()), model.P(prim())))
			containers++
		default:
			list.A = append(list.A, model.P(prim()))
		}
		given = append(given, i)
	}
	gaps := n - len(given)
	// the object holding the list: a named setting of the top level or one
	// level down; a third of the lists share their object with a name
	path := []string{"l"}
	if r.Intn(3) == 0 {
		path = []string{gKey(r), "l"}
	}
	holder := list
	mixedHolder := r.Intn(3) == 0
	if mixedHolder {
		holder = &model.Node{Kind: model.KSub, D: map[string]*model.Node{"n": model.P(prim())}, A: list.A, HasA: true}
	}
	tree := model.Dict().Set("z", model.P(prim()))
	cur := tree
	for _, key := range path[:len(path)-1] {
		nx := model.Dict()
		cur.Set(key, nx)
		cur = nx
	}
	cur.Set(path[len(path)-1], holder)
	want := tree.Canon()
	lostList := ""
	if mixedHolder {
		lostList = withoutPart(tree, map[*model.Node]bool{holder: true}, false).Canon()
	}

	kind := r.Intn(len(orderNames))
	order := positionOrder(r, given, kind)
	// a prefix of the list may arrive as a nested list, the rest by position
	prefix := 0
	if !mixedHolder && n > 1 && r.Intn(4) == 0 {
		prefix = 1 + r.Intn(n-1)
	}
	elem := func(i int) interface{} { return list.A[i].ToGo() }

	type form struct {
		name    string
		src     interface{}
		pathSep bool
		fixed   bool // the positions are written in the order drawn
	}
	var forms []form
	// reference: the nested form
	{
		var hv interface{} = list.ToGo()
		if mixedHolder {
			m := map[string]interface{}{"n": holder.D["n"].ToGo()}
			for i := range list.A {
				m[strconv.Itoa(i)] = elem(i)
			}
			hv = m
		}
		top := map[string]interface{}{"z": tree.D["z"].ToGo()}
		curm := top
		for _, key := range path[:len(path)-1] {
			nx := map[string]interface{}{}
			curm[key] = nx
			curm = nx
		}
		curm[path[len(path)-1]] = hv
		forms = append(forms, form{"nested", top, r.Intn(2) == 0, false})
	}
	dotted := strings.Join(path, ".")
	posFields := func(pfx string) []fieldSpec {
		var fs []fieldSpec
		for _, i := range order {
			if i < prefix {
				continue
			}
			fs = append(fs, fieldSpec{tag: pfx + strconv.Itoa(i), val: elem(i), concrete: r.Intn(2) == 0})
		}
		return fs
	}
	withRest := func(fs []fieldSpec, pfx string, head bool) []fieldSpec {
		var extra []fieldSpec
		if mixedHolder {
			extra = append(extra, fieldSpec{tag: pfx + "n", val: holder.D["n"].ToGo()})
		}
		if head {
			return append(extra, fs...)
		}
		return append(fs, extra...)
	}
	zf := fieldSpec{tag: "z", val: tree.D["z"].ToGo()}
	head := r.Intn(2) == 0
	// (a) one struct, tags are complete dotted paths
	{
		fs := withRest(posFields(dotted+"."), dotted+".", head)
		if prefix > 0 {
			pl := list.ToGo().([]interface{})[:prefix]
			pf := fieldSpec{tag: dotted, val: append([]interface{}{}, pl...)}
			if head {
				fs = append([]fieldSpec{pf}, fs...)
			} else {
				fs = append(fs, pf)
			}
		}
		if r.Intn(2) == 0 {
			fs = append(fs, zf)
		} else {
			fs = append([]fieldSpec{zf}, fs...)
		}
		forms = append(forms, form{"struct-with-dotted-tags", mkStruct(fs, r.Intn(3) == 0), true, prefix == 0})
	}
	// (b) a struct one level down whose tags are the positions themselves
	if prefix == 0 {
		inner := mkStruct(withRest(posFields(""), "", head), r.Intn(3) == 0)
		var hv interface{} = inner
		for i := len(path) - 1; i >= 1; i-- {
			hv = map[string]interface{}{path[i]: hv}
		}
		top := mkStruct([]fieldSpec{{tag: path[0], val: hv, concrete: r.Intn(2) == 0}, zf}, false)
		forms = append(forms, form{"struct-with-position-tags", top, r.Intn(2) == 0, true})
	}
	// (c) the same dotted keys carried by a map (enumeration order not fixed)
	{
		m := map[string]interface{}{"z": tree.D["z"].ToGo()}
		for _, i := range order {
			if i >= prefix {
				m[dotted+"."+strconv.Itoa(i)] = elem(i)
			}
		}
		if prefix > 0 {
			m[dotted] = append([]interface{}{}, list.ToGo().([]interface{})[:prefix]...)
		}
		if mixedHolder {
			m[dotted+".n"] = holder.D["n"].ToGo()
		}
		forms = append(forms, form{"map-with-dotted-keys", m, true, false})
	}

	k.res.Ev("ordered_position_lists_generated", 1)
	k.res.Ev("ordered_position_lists_with_skipped_positions", int64(b2i(gaps > 0)))
	k.res.Ev("ordered_position_lists_sharing_their_object_with_a_name", int64(b2i(mixedHolder)))
	k.res.Ev("ordered_position_lists_with_a_nested_prefix", int64(b2i(prefix > 0)))
	k.res.Ev("ordered_position_lists_with_container_elements", int64(b2i(containers > 0)))
	k.res.SetAdd("ordered_position_order", orderNames[kind])
	k.res.SetAdd("ordered_position_list_length", strconv.Itoa(n))

	desc := fmt.Sprintf("list %s of %d elements (%d positions left out) under %q, positions written in the order %v (%s), nested prefix of %d", list, n, gaps, dotted, order, orderNames[kind], prefix)
	var refWalk []string
	for _, f := range forms {
		what := fmt.Sprintf("%s carried by %s, PathSep=%v", desc, f.name, f.pathSep)
		var sep []ucfg.Option
		if f.pathSep {
			sep = sepOpts
		}
		var grows []growEv
		ucfg.VerifSetHook(func(kind, site, s string, a, b int) {
			if kind == "grow" {
				grows = append(grows, growEv{a, b})
			}
		})
		c, err, ok := k.newFromSig("ordered-list-positions:panic:NewFrom", what, f.src, sep)
		ucfg.VerifSetHook(nil)
		if !ok {
			continue
		}
		if err != nil {
			k.res.Violate("ordered-list-positions:newfrom-error:"+reasonShort(err), "NewFrom returned %v; %s", err, what)
			continue
		}
		if f.fixed {
			// monitor: extensions of the list that skipped a slot and needed no
			// new storage (no reallocation from the old to the new length seen)
			curLen := 0
			for _, i := range order {
				if i < curLen {
					continue
				}
				seen := -1
				for j, g := range grows {
					if g.from == curLen && g.to == i+1 {
						seen = j
						break
					}
				}
				if seen >= 0 {
					grows = append(grows[:seen], grows[seen+1:]...)
				} else if i > curLen {
					k.res.Ev("ordered_positions_skipping_a_slot_without_reallocation", 1)
				}
				curLen = i + 1
			}
		}
		// every slot holds a value (null where nothing was written)
		var nodes []ucfg.VerifNode
		if p, pv, where := harness.Safe(func() { nodes = ucfg.VerifWalk(c) }); p {
			k.res.Violate("ordered-list-positions:panic:walk", "walking the stored tree panicked with %q at %s; %s", pv, where, what)
			continue
		}
		bad := false
		for _, nd := range nodes {
			if nd.Kind == "<nil-interface>" {
				k.res.Violate("ordered-list-positions:slot-without-value", "slot %q of the stored list holds no value at all (not even null); %s", nd.Walk, what)
				bad = true
				break
			}
		}
		if bad {
			continue
		}
		x, ok := k.unpackSig("ordered-list-positions:panic:Unpack", "ordered-list-positions:unpack-error", what, c, sep)
		if !ok {
			continue
		}
		k.res.Ev("ordered_position_forms_checked", 1)
		k.res.SetAdd("ordered_position_carrier", f.name)
		got := model.CanonIfc(x)
		if got != want {
			sig := "ordered-list-positions:disagrees:" + f.name
			if mixedHolder && got == lostList {
				// the class of part 11, met on the way
				sig = "mixed-object:list-part-lost"
			}
			k.res.Violate(sig, "unpack gives %s, the list written is %s; %s", got, want, what)
			continue
		}
		w := k.walk(what, c)
		if refWalk == nil {
			refWalk = w
		} else if !sameWalk(w, refWalk) {
			k.res.Violate("ordered-list-positions:structure-differs:"+f.name, "stored structure differs from the nested form: %s; %s", diffWalk(w, refWalk), what)
		}
		// the result fed back in
		what2 := "feeding back the unpacked result of " + what
		c2, err, ok := k.newFromSig("ordered-list-positions:panic:NewFrom", what2, x, sep)
		if !ok {
			continue
		}
		if err != nil {
			k.res.Violate("ordered-list-positions:refeed-error:"+reasonShort(err), "NewFrom(unpacked) returned %v; %s", err, what2)
			continue
		}
		if x2, ok := k.unpackSig("ordered-list-positions:panic:Unpack", "ordered-list-positions:unpack-error", what2, c2, sep); ok {
			if g2 := model.CanonIfc(x2); g2 != got {
				k.res.Violate("ordered-list-positions:roundtrip-not-idempotent", "second unpack gives %s, first gave %s; %s", g2, got, what2)
			}
		}
	}
	return desc
}

func b2i(b bool) int {
	if b {
		return 1
	}
	return 0
}
