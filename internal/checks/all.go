// Package checks links every property check into the vcheck binary.
package checks

import (
	_ "verif/internal/checks/c01"
)
