//go:build !only || only_c11

package checks

import _ "verif/internal/checks/c11"
