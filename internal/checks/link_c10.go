//go:build !only || only_c10

package checks

import _ "verif/internal/checks/c10"
