// Package c19: repeated flags accumulate like sequential merges with the
// flag's options.
//
// Oracle: differential against the library's own NewFrom/Merge following the
// statement literally (every setting is created with the flag's options and
// merged in order with those same options), the C01 merge model as a second
// opinion, and the first-error-sticks / empty-value / bare-key laws.
package c19

import (
	"encoding/json"
	"errors"
	goflag "flag"
	"fmt"
	"io"
	"math"
	"math/rand"
	"os"
	"path/filepath"
	"reflect"
	"sort"
	"strconv"
	"strings"
	"unicode/utf8"

	ucfg "github.com/elastic/go-ucfg"
	"github.com/elastic/go-ucfg/cfgutil"
	"github.com/elastic/go-ucfg/flag"
	"github.com/elastic/go-ucfg/hjson"
	ujson "github.com/elastic/go-ucfg/json"
	"github.com/elastic/go-ucfg/parse"
	"github.com/elastic/go-ucfg/yaml"
	yamlv2 "gopkg.in/yaml.v2"

	"verif/internal/gen"
	"verif/internal/harness"
	"verif/internal/model"
	"verif/internal/obs"
)

type check struct{}

func init() { harness.Register(check{}) }

func (check) ID() string { return "C19" }

func (check) Cases(tier string) int {
	if tier == "thorough" {
		return 200000
	}
	return 3000
}

func (check) Rule() string {
	return "one sequence per case: 65% key=value flag (1-10 arguments over the keys a,b,c,l,a.b,a.c,l.0,l.1,l.0.k,c.0.b, a previous key reused w.p. 1/2, an identical earlier argument string repeated w.p. 1/6; 1 in 14 arguments has its '=' in an odd place (empty key \"=v\", \"=\", \"==x\", \"=a=b\", key==x, the empty argument), for both autoBool settings; values in every parse.Value syntax: uint/int/float/hex, bool words, null, bare words, single and double quoted, comma lists, [..] lists, {..} objects, nested, padded, trailing commas; empty value; bare key; malformed arguments (table + truncations of valid values) at a random position and w.p. 1/4 after it; autoBool off in 15% so that a bare key is the flag's own malformed form; 15% driven through a real flag.FlagSet/ConfigVar), 20% file flag (documents written in JSON (62%), YAML block style, HJSON's own syntax (comments, unquoted names, trailing commas) or empty, mostly but not always under a name that promises the syntax; 2 of 3 sequences give every document a setting that is only spelled with a dotted name; loader table: all four extensions / a random subset plus a \"\" fallback / only a fallback / yaml+yml+json, through NewFlagFiles or the public wrappers ConfigFilesVar, ConfigYAMLFilesVar, ConfigJSONFilesVar, ConfigFilesExtsVar; with a partial table 1 in 3 file names has a foreign extension .conf/.cfg/.txt/none; 1 in 8 sequences has VarExp and documents whose strings are ${...} references into the initial config; 1-5 temp files .yaml/.yml/.json/.hjson holding JSON renderings of correlated dict trees, every argument after the first names an earlier path again w.p. 1/3, half of the sequences put a differing non-empty list under one key shared by all documents; 1 in 4 sequences spell members of top-level dictionaries as dotted keys; a missing file / unknown extension / truncated document / scalar document as the failing argument), 15% cfgutil.Collector directly (Add(cfg,nil)/Add(nil,nil)/Add(nil,err) histories, GetOptions). Option sets: 2 of 3 padded with 1-8 neutral options (StructTag(config), ValidatorTag(validate), MaxIdx(1024), EnableNumKeys(false), FieldMergeValues()) at random places and rotated, so that the list has 1-12 entries and any option (w.p. 4/9 the separator) comes last; PathSep(\".\") +- one of {ReplaceValues, ReplaceArrValues, AppendValues, PrependValues} +- VarExp (6% of key=value cases, never with ReplaceValues; primitive-valued references to keys of the initial config only; half of them with a Resolve option that alone knows ${ext}; 1 in 4 arguments there is a reference to the keys u/w or sets u/w, so that a reference may precede its target and the config is unreadable in between); initial config nil or a small dictionary. In 1 of 5 sequences the case overwrites its own option slice (other separator, other policy) right after the flag/collector was created; the options given at creation stay the flag's options. After EVERY Set/Add the config is read back and compared. Before every argument of the two flags (and after the last) w.p. 1/3 one or two read-only calls (String, Config, Get, Error) are interleaved; a read must change neither the config nor Error(). Non-trivial = at least two accepted settings before the first failure whose keys are equal or one a path prefix of the other (files/collector: share a top-level key or both carry a list); distinct = distinct (mode, option set, autoBool, initial config, argument texts)."
}

func (check) Assumptions() []string {
	return []string{
		"ucfg.NewFrom and (*Config).Merge are the reference for what 'creating a setting with the options' and 'merging with the options' mean (checked by C01/C05); parse.Value is the reference for the value syntax (C17)",
		"the merge model of C01 (internal/model/merge.go) as second opinion, only where no VarExp is involved and nested object keys need no path expansion",
		"a bare key means true only when the flag was created with autoBool (documented parameter); with autoBool off a bare key is a failing argument",
		"errors are compared by identity/text against the collector's own earlier report; against the reference only raw (non ucfg.Error) texts produced by the same function on the same input, for ucfg.Error only that both are ucfg.Error",
		"not compared: Set's return value for failing or post-failure arguments, Add's return value at/after the failure, Add(cfg, err) with both non-nil, String() when the top level has a list part or holds NaN/Inf",
		"canonical comparison: numbers by value, nil == {} == [] == absent key inside dictionaries",
		"WHAT a merge yields is C01's matter, the flag only has to equal the sequential merges: padding nulls of a later indexed key (hosts.0=h1, hosts.1=h2 -> [null,h2]), null/[]/{}/blank values overriding a primitive but not a container, and ReplaceValues replacing the whole top level are generated and compared with the reference and the merge model, not judged against the explanatory 'so later occurrences override...' clause",
		"a blank value (\"a= \") is not an empty value: it is parsed (to null) and merged",
		"the file flag picks the loader registered for the extension, else the entry under \"\" (documented fallback), else the argument fails; every loader is given the flag's options",
		"the flag's options are those in the slice at creation time; the caller overwriting its own slice afterwards must not reach the flag",
		"not pinned and not generated: the value syntax under an IgnoreCommas option (the statement names parse.Value), resolver call counts / the moment a reference is evaluated, String() and key depth limits for keys of ~1e6 segments (C07), which of two spellings a duplicate-key message names (C05/C14 wording; only 'is a ucfg.Error' is compared)",
		"inputs whose value ends right after an opening bracket or a comma inside brackets crash parse.Value (C07/C17 defect); generated in ~1% of malformed arguments and reported as panic:parse-unterminated-bracket",
	}
}

// ---------------------------------------------------------------------------
// option sets

type optSet struct {
	pol    model.Policy
	varexp bool
	resolv bool   // with VarExp: a Resolve option that knows the name "ext"
	none   bool   // no options at all (collector only)
	swap   bool   // policy option before PathSep
	sep    string // "" means "."
	// neutral options (they restate defaults) inserted at fill[i].pos, and the
	// whole list rotated by rot: the LENGTH of the option list and WHICH option
	// comes last vary, what the options mean does not
	fill []filler
	rot  int
}

type filler struct{ pos, id int }

var neutralOpts = []func() ucfg.Option{
	func() ucfg.Option { return ucfg.StructTag("config") },
	func() ucfg.Option { return ucfg.ValidatorTag("validate") },
	func() ucfg.Option { return ucfg.MaxIdx(1024) },
	func() ucfg.Option { return ucfg.EnableNumKeys(false) },
	func() ucfg.Option { return ucfg.FieldMergeValues() },
}

// scribbled returns the option set the case writes into ITS OWN option slice
// after the flag was created (same length and order): another separator and,
// where there is a policy slot, another policy.
func (o optSet) scribbled() optSet {
	a := o
	a.sep = "/"
	switch o.pol {
	case model.PReplace:
		a.pol = model.PAppend
	case model.PArrReplace:
		a.pol = model.PPrepend
	case model.PAppend:
		a.pol = model.PReplace
	case model.PPrepend:
		a.pol = model.PArrReplace
	}
	return a
}

func (o optSet) name() string {
	if o.none {
		return "none"
	}
	s := "pathsep"
	if o.pol != model.PDefault {
		s += "+" + o.pol.String()
	}
	if o.varexp {
		s += "+varexp"
	}
	if o.resolv {
		s += "+resolve"
	}
	if len(o.fill) > 0 {
		s += fmt.Sprintf("+neutral%d", len(o.fill))
	}
	return s
}

func resolver(name string) (string, parse.Config, error) {
	if name == "ext" {
		return "E1", parse.DefaultConfig, nil
	}
	return "", parse.DefaultConfig, ucfg.ErrMissing
}

func polOpt(p model.Policy) ucfg.Option {
	switch p {
	case model.PReplace:
		return ucfg.ReplaceValues
	case model.PArrReplace:
		return ucfg.ReplaceArrValues
	case model.PAppend:
		return ucfg.AppendValues
	case model.PPrepend:
		return ucfg.PrependValues
	}
	return nil
}

// opts returns a fresh slice of the options given to the flag.
func (o optSet) opts() []ucfg.Option {
	if o.none {
		return nil
	}
	sep := "."
	if o.sep != "" {
		sep = o.sep
	}
	l := []ucfg.Option{ucfg.PathSep(sep)}
	if p := polOpt(o.pol); p != nil {
		if o.swap {
			l = []ucfg.Option{p, l[0]}
		} else {
			l = append(l, p)
		}
	}
	if o.varexp {
		l = append(l, ucfg.VarExp)
	}
	if o.resolv {
		l = append(l, ucfg.Resolve(resolver))
	}
	for _, f := range o.fill {
		at := f.pos % (len(l) + 1)
		l = append(l, nil)
		copy(l[at+1:], l[at:])
		l[at] = neutralOpts[f.id%len(neutralOpts)]()
	}
	if n := len(l); n > 1 && o.rot%n != 0 {
		k := o.rot % n
		l = append(append(make([]ucfg.Option, 0, n), l[k:]...), l[:k]...)
	}
	return l
}

// lastOpt names the option that comes last in the list.
func (o optSet) lastOpt() string {
	l := o.opts()
	if len(l) == 0 {
		return "none"
	}
	last := reflect.ValueOf(l[len(l)-1]).Pointer()
	for name, opt := range map[string]ucfg.Option{"pathsep": ucfg.PathSep("."), "policy": ucfg.ReplaceValues, "varexp": ucfg.VarExp, "resolve": ucfg.Resolve(resolver)} {
		if reflect.ValueOf(opt).Pointer() == last {
			return name
		}
	}
	return "neutral"
}

// read returns the options used for the pure read (no merge policy).
func (o optSet) read() []ucfg.Option {
	l := []ucfg.Option{ucfg.PathSep(".")}
	if o.varexp {
		l = append(l, ucfg.VarExp)
	}
	if o.resolv {
		l = append(l, ucfg.Resolve(resolver))
	}
	return l
}

func genOptSet(r *rand.Rand, allowVarExp bool) optSet {
	o := optSet{pol: model.Policy(r.Intn(5)), swap: r.Intn(4) == 0}
	if allowVarExp && r.Intn(16) == 0 {
		o.varexp = true
		o.resolv = r.Intn(2) == 0
		if o.pol == model.PReplace {
			// replacing the top level drops the initial keys the references point to
			o.pol = model.PDefault
		}
	}
	if r.Intn(3) > 0 {
		// longer option lists (up to 4 + 8), any option last
		for c := 1 + r.Intn(8); c > 0; c-- {
			o.fill = append(o.fill, filler{r.Intn(16), r.Intn(len(neutralOpts))})
		}
		o.rot = r.Intn(16)
		if r.Intn(3) > 0 {
			// an option that decides how a setting is CREATED (the separator)
			// comes last
			o.rot = 0
			l := o.opts()
			ps := reflect.ValueOf(ucfg.PathSep(".")).Pointer()
			for i, opt := range l {
				if reflect.ValueOf(opt).Pointer() == ps {
					o.rot = (i + 1) % len(l)
				}
			}
		}
	}
	return o
}

// ---------------------------------------------------------------------------
// value generator (text in parse.Value syntax + a syntax tag)

var kvKeys = []string{"a", "b", "c", "l", "a.b", "a.c", "l.0", "l.1", "l.0.k", "c.0.b"}

func pick(r *rand.Rand, l []string) string { return l[r.Intn(len(l))] }

var (
	uintTexts  = []string{"0", "1", "2", "3", "42", "18446744073709551615", "0x1F", "0b101", "0o17", "1_000", "007"}
	intTexts   = []string{"-3", "-1", "+7", "-9223372036854775808", "-0x10"}
	floatTexts = []string{"2.5", "-0.5", "1e3", "1e300", ".5", "3.0", "1E-2"}
	boolTexts  = []string{"true", "false", "on", "off", "T", "F", "True", "FALSE", "ON", "OFF", "t", "f"}
	topWords   = []string{"abc", "x y", "ünï", "a.b", "k=v", "a:b", "tr ue", "-", "1x", "0x", "nul", "x]", "y}", "a[0]", "http://h:1/p?q=1"}
	inWords    = []string{"abc", "x y", "ünï", "a.b", "k=v", "1x", "w", "v w"}
	nonFinite  = []string{"nan", "NaN", "inf", "-Inf", "Infinity"}
	sqTexts    = []string{"'abc'", "'a,b'", "'it\"s'", "'[x]'", "'{y:1}'", "''", "'a\\nb'", "' sp '", "'1'", "'true'", "'null'"}
	dqTexts    = []string{`"abc"`, `"a,b"`, `"q\"q"`, `"é"`, `"tab\t"`, `""`, `"[x]"`, `"a'b"`, `"1"`, `"true"`, `" sp "`, `"{y: 1}"`}
	refTexts   = []string{"${q}", "${r.s}", "${r.t}", `"x ${q} y"`, "'${r.s}'", "${q}-${r.s}"} // no object-valued references: merging into one is C10/C08 territory
	objKeys    = []string{"x", "y", "a", "b", "k"}
	oddObjKeys = []string{`"k k"`, `'q'`, "z.y", "0", `""`} // z is never a plain key: no dotted/nested twin in one map (C05/C09)
)

// varexp: 0 = off, 1 = references to the initial config, 2 = also to the
// name only the Resolve option knows
func genScalar(r *rand.Rand, top bool, varexp int) (string, string) {
	if varexp > 0 && r.Intn(3) == 0 {
		if varexp > 1 && r.Intn(3) == 0 {
			return pick(r, []string{"${ext}", `"x-${ext}"`, "${ext}${q}"}), "reference-resolver"
		}
		return pick(r, refTexts), "reference"
	}
	switch k := r.Intn(100); {
	case k < 16:
		return pick(r, uintTexts), "uint"
	case k < 24:
		return pick(r, intTexts), "int"
	case k < 32:
		return pick(r, floatTexts), "float"
	case k < 44:
		return pick(r, boolTexts), "bool"
	case k < 50:
		return "null", "null"
	case k < 66:
		if top {
			return pick(r, topWords), "word"
		}
		return pick(r, inWords), "word"
	case k < 67:
		return pick(r, nonFinite), "nonfinite"
	case k < 83:
		return pick(r, sqTexts), "squote"
	default:
		return pick(r, dqTexts), "dquote"
	}
}

func pad(r *rand.Rand) string {
	if r.Intn(4) == 0 {
		return " "
	}
	return ""
}

// genNested renders a bracketed list or an object.
func genNested(r *rand.Rand, depth int, varexp int) (string, string) {
	elem := func(inObj bool) string {
		if depth > 0 && r.Intn(4) == 0 {
			s, _ := genNested(r, depth-1, varexp)
			return s
		}
		s, tag := genScalar(r, false, varexp)
		// a bare word must not be followed by padding that matters; quoted and
		// nested member values followed by blanks are C17 territory: no padding
		if tag == "squote" || tag == "dquote" || strings.HasPrefix(tag, "reference") {
			return s
		}
		return s + pad(r)
	}
	if r.Intn(2) == 0 {
		n := r.Intn(4)
		if n == 0 {
			return "[" + pad(r) + "]", "list-empty"
		}
		var el []string
		for i := 0; i < n; i++ {
			el = append(el, pad(r)+elem(false))
		}
		s := "[" + strings.Join(el, ",")
		tag := "list"
		if r.Intn(8) == 0 {
			s += ","
			tag = "list-trailing-comma"
		}
		return s + "]", tag
	}
	n := r.Intn(4)
	if n == 0 {
		return "{" + pad(r) + "}", "object-empty"
	}
	var el []string
	tag := "object"
	for i := 0; i < n; i++ {
		k := pick(r, objKeys)
		if r.Intn(12) == 0 {
			k = pick(r, oddObjKeys)
			tag = "object-odd-key"
		}
		el = append(el, pad(r)+k+pad(r)+":"+pad(r)+elem(true))
	}
	s := "{" + strings.Join(el, ",")
	if r.Intn(8) == 0 {
		s += ","
		tag = "object-trailing-comma"
	}
	return s + "}", tag
}

// genValue renders a non-empty value text.
func genValue(r *rand.Rand, varexp int) (string, string) {
	var s, tag string
	switch k := r.Intn(100); {
	case k < 45:
		s, tag = genScalar(r, true, varexp)
	case k < 62:
		// top-level comma list
		n := 2 + r.Intn(3)
		var el []string
		for i := 0; i < n; i++ {
			if r.Intn(6) == 0 {
				e, _ := genNested(r, 1, varexp)
				el = append(el, e)
			} else {
				e, _ := genScalar(r, false, varexp)
				el = append(el, e)
			}
		}
		s, tag = strings.Join(el, ","), "comma-list"
		if r.Intn(10) == 0 {
			s += ","
			tag = "comma-list-trailing"
		}
	default:
		s, tag = genNested(r, 2, varexp)
		if strings.Count(s, "[")+strings.Count(s, "{") > 1 {
			tag += "-nested"
		}
	}
	if r.Intn(10) == 0 {
		s = " " + s + " "
		tag += "-padded"
	}
	return s, tag
}

var malformedTable = []string{
	"[1,2", "{a:", `"abc`, "'abc", "[1]]", "{a:1}}", `"a"b`, "{a 1}", "{:1}", "[,]", ",", "1,,2", `"\x"`,
	"[1,{a:2]", "{a:[1}", "[[1,2]", "{x:{y:1}", "[1 2", "'a'b", "{a:1 b:2}", "[1}", `{"a:1}`, "[x", "{k",
}

// the shapes that crash parse.Value on the pinned tree (C07/C17 defect)
var crashTable = []string{"[", "{", "[1,", "{a:1,", "[ ", "[1,[", "{a:["}

func endsOpen(v string) bool {
	t := strings.TrimSpace(v)
	return strings.HasSuffix(t, "[") || strings.HasSuffix(t, "{") || strings.HasSuffix(t, ",")
}

func genMalformedValue(r *rand.Rand, varexp int) (string, string) {
	if r.Intn(100) == 0 {
		return pick(r, crashTable), "crash-shape"
	}
	if r.Intn(2) == 0 {
		return pick(r, malformedTable), "malformed-table"
	}
	for i := 0; i < 20; i++ {
		s, _ := genNested(r, 2, varexp)
		if len(s) < 3 {
			continue
		}
		s = s[:1+r.Intn(len(s)-1)]
		for len(s) > 0 && s[len(s)-1] >= 0x80 { // do not cut inside a rune
			s = s[:len(s)-1]
		}
		if endsOpen(s) {
			s += "z"
		}
		return s, "malformed-truncated"
	}
	return "[1,2", "malformed-table"
}

type kvArg struct {
	text   string
	intent string // generator intent; the reference decides what it really is
	syntax string
}

// where the '=' sits: everything after an (often empty) key. The argument is
// split at its FIRST '=': "=v" is the empty key with value v, "=" an empty key
// with an empty value (ignored), "==x" the empty key with value "=x".
var equalsRests = []string{"=", "=v", "==x", "=a=b", "=1", "= ", "=[1,2]", "=k=", "==", "=a.b=c", "={x: 1}", "='='", "=true"}

// keys that only ever receive plain scalars and are the targets of references
// written BEFORE they exist (VarExp): the config is unreadable in between
var lateKeys = []string{"u", "w"}
var lateRefs = []string{"${u}", "${w}", `"x-${u}"`, "${u}${w}"}
var lateVals = []string{"1", "abc", "'s t'", "true", "2.5", `"d q"`}

func isLateKey(k string) bool { return k == "u" || k == "w" }

func genArgs(r *rand.Rand, varexp int) []kvArg {
	n := 1 + r.Intn(10)
	failAt := -1
	if r.Intn(100) < 40 {
		failAt = r.Intn(n)
	}
	var used []string
	var out []kvArg
	for i := 0; i < n; i++ {
		key := pick(r, kvKeys)
		if len(used) > 0 && r.Intn(2) == 0 {
			key = pick(r, used)
		}
		used = append(used, key)
		bad := i == failAt || (failAt >= 0 && i > failAt && r.Intn(4) == 0)
		if !bad && i > 0 && r.Intn(6) == 0 {
			// the identical argument string once more (adjacent or not): it must
			// be merged once per occurrence
			if c := out[r.Intn(len(out))]; c.intent != "malformed" {
				ck := c.text
				if j := strings.Index(c.text, "="); j >= 0 {
					ck = c.text[:j]
				}
				if ck == "" || isLateKey(ck) {
					used = used[:len(used)-1]
				} else {
					used[len(used)-1] = ck
				}
				out = append(out, c)
				continue
			}
		}
		if !bad && varexp > 0 && r.Intn(4) == 0 {
			// a reference to a key that is set later (or never), or that key
			used = used[:len(used)-1]
			if r.Intn(2) == 0 {
				out = append(out, kvArg{key + "=" + pick(r, lateRefs), "value", "reference-late"})
			} else {
				out = append(out, kvArg{pick(r, lateKeys) + "=" + pick(r, lateVals), "value", "late-target"})
			}
			continue
		}
		if !bad && r.Intn(14) == 0 {
			// '=' at position 0 (empty key), several '=' in a row, '=' last
			used = used[:len(used)-1]
			kp, tag := "", "emptykey"
			if r.Intn(3) == 0 {
				kp, tag = key, "key"
			}
			if r.Intn(12) == 0 {
				out = append(out, kvArg{"", "equals-shape", "eq:empty-argument"})
				continue
			}
			rest := pick(r, equalsRests)
			out = append(out, kvArg{kp + rest, "equals-shape", "eq:" + tag + ":" + rest})
			continue
		}
		switch k := r.Intn(100); {
		case bad:
			v, tag := genMalformedValue(r, varexp)
			out = append(out, kvArg{key + "=" + v, "malformed", tag})
		case k < 8:
			out = append(out, kvArg{key + "=", "empty-value", "empty"})
		case k < 17:
			out = append(out, kvArg{key, "bare-key", "bare"})
		default:
			v, tag := genValue(r, varexp)
			out = append(out, kvArg{key + "=" + v, "value", tag})
		}
	}
	return out
}

// ---------------------------------------------------------------------------
// helpers

var simplePrims = []interface{}{
	"s", "t", "", "x y", "ünï", "1,2", "[x]", int64(-3), int64(0), uint64(7), uint64(1), true, false, 2.5,
}

func sameErr(a, b error) bool {
	if a == nil || b == nil {
		return a == nil && b == nil
	}
	ta, tb := reflect.TypeOf(a), reflect.TypeOf(b)
	if ta != tb {
		return false
	}
	if ta.Comparable() {
		eq, ok := false, false
		func() {
			defer func() { recover() }()
			eq = a == b
			ok = true
		}()
		if ok {
			return eq
		}
	}
	return a.Error() == b.Error()
}

func isUcfgErr(err error) bool {
	_, ok := err.(ucfg.Error)
	return ok
}

// errAgrees compares the recorded error with the reference's error for the
// same argument: raw errors by text, ucfg errors only by being ucfg errors.
func errAgrees(got, ref error) bool {
	if ref == nil || got == nil {
		return true
	}
	if isUcfgErr(ref) || isUcfgErr(got) {
		return isUcfgErr(ref) == isUcfgErr(got)
	}
	return got.Error() == ref.Error()
}

func hasNonFinite(v interface{}) bool {
	switch x := v.(type) {
	case float64:
		return math.IsNaN(x) || math.IsInf(x, 0)
	case float32:
		return hasNonFinite(float64(x))
	case map[string]interface{}:
		for _, e := range x {
			if hasNonFinite(e) {
				return true
			}
		}
	case []interface{}:
		for _, e := range x {
			if hasNonFinite(e) {
				return true
			}
		}
	}
	return false
}

func jsonNumbers(v interface{}) interface{} {
	switch x := v.(type) {
	case json.Number:
		s := string(x)
		if i, err := strconv.ParseInt(s, 10, 64); err == nil {
			return i
		}
		if u, err := strconv.ParseUint(s, 10, 64); err == nil {
			return u
		}
		f, _ := strconv.ParseFloat(s, 64)
		return f
	case map[string]interface{}:
		for k, e := range x {
			x[k] = jsonNumbers(e)
		}
		return x
	case []interface{}:
		for i, e := range x {
			x[i] = jsonNumbers(e)
		}
		return x
	}
	return v
}

func decodeJSON(s string) (string, error) {
	dec := json.NewDecoder(strings.NewReader(s))
	dec.UseNumber()
	var v interface{}
	if err := dec.Decode(&v); err != nil {
		return "", err
	}
	if dec.More() {
		return "", errors.New("trailing data after the JSON document")
	}
	return model.CanonIfc(jsonNumbers(v)), nil
}

func plainKey(k string) bool {
	if k == "" || strings.Contains(k, ".") {
		return false
	}
	if _, err := strconv.ParseInt(k, 0, 64); err == nil {
		return false
	}
	return true
}

// plainValue: nested object keys need no path expansion / index reading.
func plainValue(v interface{}) bool {
	switch x := v.(type) {
	case map[string]interface{}:
		for k, e := range x {
			if !plainKey(k) || !plainValue(e) {
				return false
			}
		}
	case []interface{}:
		for _, e := range x {
			if !plainValue(e) {
				return false
			}
		}
	}
	return true
}

func parsedKind(v interface{}) string {
	switch v.(type) {
	case nil:
		return "nil"
	case []interface{}:
		return "list"
	case map[string]interface{}:
		return "object"
	}
	return fmt.Sprintf("%T", v)
}

// expand builds the model tree for {key: v} under PathSep("."): numeric
// segments (only 0 and 1 are generated) index lists, names nest dictionaries.
func expand(key string, v *model.Node) *model.Node {
	segs := strings.Split(key, ".")
	n := v
	for i := len(segs) - 1; i >= 0; i-- {
		if idx, err := strconv.Atoi(segs[i]); err == nil && idx >= 0 && i > 0 {
			l := model.List()
			for j := 0; j < idx; j++ {
				l.A = append(l.A, model.Nil())
			}
			l.A = append(l.A, n)
			n = l
		} else {
			n = model.Dict().Set(segs[i], n)
		}
	}
	return n
}

func related(a, b string) bool {
	return a == b || strings.HasPrefix(a, b+".") || strings.HasPrefix(b, a+".")
}

// ---------------------------------------------------------------------------
// the shared accumulation monitor

// refState is the reference accumulation: the statement executed literally
// with the library's NewFrom/Merge, a twin that merges WITHOUT the options
// (the classifier of the known "collector drops its options" defect), and the
// merge model.
type refState struct {
	os       optSet
	ref      *ucfg.Config
	refNo    *ucfg.Config
	m, mNo   *model.Node // nil once the model does not apply
	failed   bool
	failIdx  int
	failErr  error
	failKind string
	broken   bool // reference itself could not be computed

	canon, canonNo       string
	canonErr, canonNoErr error
	dirty                bool

	// twin for "the caller overwrote its option slice after creating the flag":
	// every setting created and merged with the overwritten options
	alt         *optSet
	refAlt      *ucfg.Config
	canonAlt    string
	canonAltErr error
}

// enableAlt starts the twin; the initial config was built before the slice
// was overwritten.
func (st *refState) enableAlt(alt optSet, initTree *model.Node) {
	st.alt = &alt
	st.refAlt = ucfg.New()
	if initTree != nil {
		c, err := ucfg.NewFrom(initTree.ToGo(), st.os.opts()...)
		if err != nil {
			st.refAlt = nil
			return
		}
		st.refAlt = c
	}
}

// acceptAlt merges one occurrence into the twin.
func (st *refState) acceptAlt(build func(opts []ucfg.Option) (*ucfg.Config, error)) {
	if st.refAlt == nil {
		return
	}
	harness.Safe(func() {
		c, err := build(st.alt.opts())
		if err == nil && c != nil {
			err = st.refAlt.Merge(c, st.alt.opts()...)
		}
		if err != nil {
			st.refAlt = nil
		}
	})
}

func newRefState(os optSet, initTree *model.Node) (*refState, *ucfg.Config, error) {
	st := &refState{os: os, dirty: true}
	if initTree == nil {
		st.ref, st.refNo = ucfg.New(), ucfg.New()
		if !os.varexp {
			st.m, st.mNo = &model.Node{Kind: model.KSub}, &model.Node{Kind: model.KSub}
		}
		return st, nil, nil
	}
	var cfgs [3]*ucfg.Config
	for i := range cfgs {
		c, err := ucfg.NewFrom(initTree.ToGo(), os.opts()...)
		if err != nil {
			return nil, nil, err
		}
		cfgs[i] = c
	}
	st.ref, st.refNo = cfgs[0], cfgs[1]
	if !os.varexp {
		st.m, st.mNo = initTree.Copy(), initTree.Copy()
	}
	return st, cfgs[2], nil
}

// accept merges one setting (given as two independently built configs) into
// the reference states. tree is the model form or nil.
func (st *refState) accept(idx int, a, b *ucfg.Config, tree *model.Node) {
	if a == nil {
		return
	}
	st.dirty = true
	if err := st.ref.Merge(a, st.os.opts()...); err != nil {
		st.fail(idx, err, "merge")
		st.broken = true // the reference may be half merged
		return
	}
	if err := st.refNo.Merge(b); err != nil {
		st.refNo = nil
	}
	if tree == nil {
		st.m, st.mNo = nil, nil
	}
	if st.m != nil {
		model.Merge(st.m, tree.Copy(), nil, model.Global(st.os.pol))
		model.Merge(st.mNo, tree.Copy(), nil, model.Global(model.PDefault))
	}
}

func (st *refState) fail(idx int, err error, kind string) {
	if st.failed {
		return
	}
	st.failed, st.failIdx, st.failErr, st.failKind = true, idx, err, kind
}

func (st *refState) refresh() {
	if !st.dirty {
		return
	}
	st.dirty = false
	st.canon, st.canonErr = obs.Top(st.ref, st.os.read()...)
	if st.refNo != nil {
		st.canonNo, st.canonNoErr = obs.Top(st.refNo, st.os.read()...)
	} else {
		st.canonNo, st.canonNoErr = "", errors.New("no twin")
	}
	if st.refAlt != nil {
		st.canonAlt, st.canonAltErr = obs.Top(st.refAlt, st.os.read()...)
	} else {
		st.canonAlt, st.canonAltErr = "", errors.New("no twin")
	}
}

// monitor holds what was observed so far.
type monitor struct {
	res       *harness.R
	st        *refState
	desc      func() string
	firstObs  error
	prevGot   string
	havePrev  bool
	atFailGot string
	argClass  string // class of the current argument (set by the caller before step)
	// fresh reports whether a NEW flag with the same options, given only the
	// current argument, agrees with the reference for that argument alone
	fresh     func() bool
	altDiffer bool // the overwritten options would have made a difference
	diverged  bool // a config mismatch was reported; stop comparing configs
	unread    bool
	mattered  bool
}

// prime records the config as it reads before the first Set/Add.
func (mo *monitor) prime(cfg *ucfg.Config) {
	if got, err := obs.Top(cfg, mo.st.os.read()...); err == nil {
		mo.prevGot, mo.havePrev = got, true
	}
}

// step is called after every Set/Add. kind is what the reference made of the
// argument ("ignored","bare","value","fail:*","post-failure").
func (mo *monitor) step(i int, arg, kind string, ret error, retIdentity bool, cfg *ucfg.Config, recorded error) {
	res, st := mo.res, mo.st
	// --- error part
	switch {
	case !st.failed:
		if recorded != nil {
			if kind == "ignored" {
				res.Violate("empty-value-not-ignored:error", "argument %d %q (empty value) made Error() = %v; %s", i, arg, recorded, mo.desc())
			} else {
				res.Violate("spurious-error", "no argument failed up to %d %q (%s) but Error() = %v; %s", i, arg, kind, recorded, mo.desc())
			}
		}
		if ret != nil {
			res.Violate("set-error-for-accepted-argument", "argument %d %q (%s) is accepted by the reference but Set/Add returned %v; %s", i, arg, kind, ret, mo.desc())
		}
	case i == st.failIdx:
		mo.firstObs = recorded
		if recorded == nil {
			res.Violate("failure-not-recorded", "argument %d %q fails in the reference (%s: %v) but Error() is nil; %s", i, arg, st.failKind, st.failErr, mo.desc())
		} else {
			if !errAgrees(recorded, st.failErr) {
				res.Violate("first-error-differs-from-reference", "argument %d %q: Error() = %q, the reference fails with %q; %s", i, arg, recorded, st.failErr, mo.desc())
			}
			if retIdentity && ret != nil && !sameErr(ret, recorded) {
				res.Violate("set-return-differs-from-recorded-error", "argument %d %q: Set returned %q but Error() = %q; %s", i, arg, ret, recorded, mo.desc())
			}
		}
	default:
		res.Ev("post_failure_steps", 1)
		if mo.firstObs != nil && !sameErr(recorded, mo.firstObs) {
			res.Violate("first-error-not-sticky", "after the first failure (argument %d, %q) argument %d %q changed Error() to %v; %s", st.failIdx, mo.firstObs, i, arg, recorded, mo.desc())
			mo.firstObs = recorded // report each change once
		}
	}
	// --- config part
	if mo.diverged || st.broken {
		return
	}
	got, gerr := obs.Top(cfg, st.os.read()...)
	st.refresh()
	res.Eval(2)
	if gerr != nil || st.canonErr != nil {
		mo.unread = true
		switch {
		case gerr != nil && st.canonErr != nil:
			res.Ev("unreadable_both", 1)
		case st.alt != nil && st.refAlt != nil && (gerr != nil) == (st.canonAltErr != nil) && (gerr != nil || got == st.canonAlt):
			mo.diverged = true
			res.Violate("options-slice-aliased-after-creation", "the flag follows options written into the caller's slice after creation: after argument %d %q the flag config reads as %s (error %v), the reference as %s (error %v), the twin with the overwritten options as %s (error %v); %s",
				i, arg, got, gerr, st.canon, st.canonErr, st.canonAlt, st.canonAltErr, mo.desc())
		case st.os.pol != model.PDefault && (gerr != nil) == (st.canonNoErr != nil) && (gerr != nil || got == st.canonNo):
			mo.diverged = true
			res.Violate("collector-drops-options:merge-policy", "policy %v ignored while accumulating: after argument %d %q: flag config reads as %s (error %v), the reference as %s (error %v), the twin merged without options as %s (error %v); %s",
				st.os.pol, i, arg, got, gerr, st.canon, st.canonErr, st.canonNo, st.canonNoErr, mo.desc())
		default:
			mo.diverged = true
			res.Violate("accumulation-mismatch:readability", "after argument %d %q: flag config read error %v, reference read error %v; %s", i, arg, gerr, st.canonErr, mo.desc())
		}
		return
	}
	mo.unread = false
	defer func() {
		mo.prevGot, mo.havePrev = got, true
		if st.failed && i == st.failIdx {
			mo.atFailGot = got
		}
	}()
	res.Ev("steps_compared", 1)
	wantM, wantMNo, haveM := "", "", st.m != nil
	if haveM {
		wantM, wantMNo = st.m.CanonTop(), st.mNo.CanonTop()
		res.Ev("steps_model_compared", 1)
	}
	if st.canonNoErr == nil && st.canon != st.canonNo {
		mo.mattered = true
	}
	if st.alt != nil && st.canonAltErr == nil && st.canon != st.canonAlt {
		mo.altDiffer = true
	}
	if got == st.canon && (!haveM || got == wantM) {
		return
	}
	mo.diverged = true
	detail := fmt.Sprintf("after argument %d %q (%s): got %s, reference (merged with the options) %s, twin merged without options %s, model %q; %s",
		i, arg, kind, got, st.canon, st.canonNo, wantM, mo.desc())
	switch {
	case st.failed && i > st.failIdx && mo.atFailGot != "" && got != mo.atFailGot:
		res.Violate("config-changed-after-failure", "the first failure was argument %d; %s", st.failIdx, detail)
	case st.alt != nil && st.canonAltErr == nil && got == st.canonAlt && got != st.canon:
		// observed == sequential merges with the options the CALLER wrote into
		// its own slice after the flag had been created
		res.Violate("options-slice-aliased-after-creation", "the flag follows options (%s) written into the caller's slice after creation (twin with those: %s): %s", st.alt.name()+" sep=/", st.canonAlt, detail)
	case st.os.pol != model.PDefault && st.canonNoErr == nil && got == st.canonNo && got != st.canon && (!haveM || got == wantMNo):
		// observed == sequential merges WITHOUT the options != with the options
		res.Violate("collector-drops-options:merge-policy", "policy %v ignored while accumulating: %s", st.os.pol, detail)
	case i > 0 && mo.fresh != nil && got != st.canon && mo.fresh():
		// all earlier arguments matched, this one does not, and a fresh flag
		// handles the same argument correctly: what the flag does with an
		// argument depends on the Sets before it
		res.Violate("later-set-differs-from-fresh-flag", "a new flag with the same options handles this argument like the reference, this flag (after %d earlier Sets) does not: %s", i, detail)
	case strings.HasPrefix(arg, "=") && got != st.canon:
		// '=' is the first character: the key is empty, the rest is the value
		res.Violate("empty-key-argument-mishandled", "%s", detail)
	case mo.argClass == "fallback-loader" && got != st.canon:
		// the file has no loader of its own and was read by the "" fallback
		res.Violate("fallback-loaded-file-mismatch", "%s", detail)
	case kind == "ignored" && mo.havePrev && got != mo.prevGot:
		res.Violate("empty-value-not-ignored", "%s", detail)
	case kind == "bare" && got != st.canon:
		res.Violate("bare-key-not-true", "%s", detail)
	case got != st.canon:
		res.Violate("accumulation-mismatch", "%s", detail)
	default:
		// the library agrees with its own NewFrom/Merge but not with the model
		res.Violate("accumulation-mismatch:model-only", "%s", detail)
	}
}

var readCalls = []string{"String", "Config", "Get", "Error"}

// genReads draws the read-only calls made before argument i (slot n: after the
// last one): w.p. 1/3 one or two of String(), Config(), Get(), Error().
func genReads(r *rand.Rand, n int) [][]string {
	out := make([][]string, n+1)
	for i := range out {
		if r.Intn(3) == 0 {
			for c := 1 + r.Intn(2); c > 0; c-- {
				out[i] = append(out[i], pick(r, readCalls))
			}
		}
	}
	return out
}

func descReads(sched [][]string) string {
	var l []string
	for i, c := range sched {
		if len(c) > 0 {
			l = append(l, fmt.Sprintf("%d:%s", i, strings.Join(c, "+")))
		}
	}
	return "reads-before-argument={" + strings.Join(l, " ") + "}"
}

// reads performs the read-only calls scheduled before argument i. The
// statement speaks of the sequence of Set calls alone: a read in between must
// neither change the config nor make the collector report an error. Returns
// false when the case cannot be continued.
func (mo *monitor) reads(calls []string, i int, fv *flag.FlagValue, cfg *ucfg.Config) bool {
	res, st := mo.res, mo.st
	for _, call := range calls {
		errBefore := fv.Error()
		gotBefore, gerrBefore := obs.Top(cfg, st.os.read()...)
		out := ""
		if p, pv, where := harness.Safe(func() {
			switch call {
			case "String":
				out = fv.String()
			case "Config":
				_ = fv.Config()
			case "Get":
				_ = fv.Get()
			default:
				_ = fv.Error()
			}
		}); p {
			res.Violate("panic:FlagValue."+call, "%s() before argument %d panics %q at %s; %s", call, i, pv, where, mo.desc())
			return false
		}
		res.Eval(1)
		res.Ev("reads_between_sets", 1)
		res.SetAdd("read_call", call)
		if gerrBefore != nil {
			res.Ev("reads_of_unreadable_config", 1)
			res.SetAdd("read_call_unreadable", call)
		}
		errAfter := fv.Error()
		gotAfter, gerrAfter := obs.Top(cfg, st.os.read()...)
		if !sameErr(errBefore, errAfter) {
			res.Violate("read-between-sets-changes-outcome:"+call, "%s() called before argument %d returned %q and changed Error() from %v to %v: a later valid argument is now ignored although no argument failed (config then: %s, read error %v); %s",
				call, i, out, errBefore, errAfter, gotBefore, gerrBefore, mo.desc())
			return false
		}
		if (gerrBefore != nil) != (gerrAfter != nil) || gotBefore != gotAfter {
			res.Violate("read-between-sets-changes-config:"+call, "%s() called before argument %d changed the config from %s (error %v) to %s (error %v); %s",
				call, i, gotBefore, gerrBefore, gotAfter, gerrAfter, mo.desc())
			return false
		}
	}
	return true
}

// checkString compares String() with the JSON rendering of the config. It is
// the last observation of a case: String() records its own failures in the
// collector.
func (mo *monitor) checkString(fv *flag.FlagValue, cfg *ucfg.Config) {
	res, st := mo.res, mo.st
	if mo.diverged || mo.unread || st.broken {
		return
	}
	var m map[string]interface{}
	var a []interface{}
	ro := st.os.read()
	if err := cfg.Unpack(&m, ro...); err != nil {
		return
	}
	if err := cfg.Unpack(&a, ro...); err != nil || len(a) > 0 {
		res.Ev("string_skipped_toplevel_list", 1)
		return
	}
	if hasNonFinite(m) {
		res.Ev("string_skipped_nonfinite", 1)
		return
	}
	want := model.CanonIfc(m)
	var s string
	if p, pv, where := harness.Safe(func() { s = fv.String() }); p {
		res.Violate("panic:FlagValue.String", "panic %q at %s; %s", pv, where, mo.desc())
		return
	}
	res.Eval(1)
	res.Ev("string_checked", 1)
	got, derr := decodeJSON(s)
	if derr == nil && got == want {
		return
	}
	// classifier of the known defect: String() reads without the options
	var m2 map[string]interface{}
	err2 := cfg.Unpack(&m2)
	known := false
	if err2 != nil {
		// reading without the options fails and String() printed the error the
		// collector now reports (which key is blamed depends on map order)
		e := fv.Error()
		known = e != nil && s == e.Error()
	} else if derr == nil && got == model.CanonIfc(m2) {
		known = true
	}
	if known {
		res.Violate("collector-drops-options:string", "String() = %q reads the config without the flag's options; with them the config is %s; %s", s, want, mo.desc())
		return
	}
	res.Violate("string-not-json", "String() = %q (decode error %v, canonical %s), config is %s; %s", s, derr, got, want, mo.desc())
}

// ---------------------------------------------------------------------------
// Run

func (check) Run(seed int64, tier string, idx int, verbose bool) harness.Result {
	res := harness.NewR(idx)
	r := rand.New(rand.NewSource(harness.Mix(seed, "C19", idx)))
	switch k := r.Intn(100); {
	case k < 65:
		runKV(res, r, idx, verbose)
	case k < 85:
		runFiles(res, r, idx, verbose)
	default:
		runCollector(res, r, idx, verbose)
	}
	return res.Done()
}

// ---------------------------------------------------------------------------
// key=value flag

func genInit(r *rand.Rand, os optSet) *model.Node {
	if os.varexp {
		t := model.Dict().Set("q", model.P("v0")).Set("r", model.Dict().Set("s", model.P("v1")).Set("t", model.P(uint64(2))))
		if r.Intn(2) == 0 {
			t.Set("a", model.List(model.P("i0"), model.P("i1")))
		}
		return t
	}
	if r.Intn(10) < 7 {
		return nil
	}
	return gen.TopDict(r, gen.TreeOpts{Depth: 2, Keys: []string{"a", "b", "c", "l"}, Prims: simplePrims}, 2)
}

func runKV(res *harness.R, r *rand.Rand, idx int, verbose bool) {
	os := genOptSet(r, true)
	autoBool := r.Intn(100) >= 15
	viaFlagSet := r.Intn(100) < 15
	if viaFlagSet {
		autoBool = true // ConfigVar always enables it
	}
	initTree := genInit(r, os)
	ve := 0
	if os.varexp {
		ve = 1
		if os.resolv {
			ve = 2
		}
	}
	args := genArgs(r, ve)
	sched := genReads(r, len(args))
	mode := "kv"
	if viaFlagSet {
		mode = "kv-flagset"
	}
	desc := func() string {
		var l []string
		for _, a := range args {
			l = append(l, strconv.Quote(a.text))
		}
		it := "nil"
		if initTree != nil {
			it = initTree.String()
		}
		return fmt.Sprintf("mode=%s options=%s autoBool=%v initial=%s args=[%s] %s", mode, os.name(), autoBool, it, strings.Join(l, " "), descReads(sched))
	}
	if idx < 2 {
		res.Sample = desc()
	}
	if verbose {
		fmt.Println(desc())
	}
	st, initCfg, err := newRefState(os, initTree)
	if err != nil {
		res.Inconc("initial config could not be built: %v", err)
		return
	}
	var fv *flag.FlagValue
	var cfgPtr *ucfg.Config
	var set func(string) error
	given := os.opts() // the case's own slice, handed to the flag as opts...
	if viaFlagSet {
		fs := goflag.NewFlagSet("t", goflag.ContinueOnError)
		fs.SetOutput(io.Discard)
		fs.Usage = func() {}
		cfgPtr = flag.ConfigVar(fs, initCfg, "D", "settings", given...)
		fv, _ = fs.Lookup("D").Value.(*flag.FlagValue)
		if fv == nil {
			res.Violate("flagset-registration", "ConfigVar did not register a *flag.FlagValue; %s", desc())
			return
		}
		eq := r.Intn(2) == 0
		set = func(a string) error {
			if eq {
				return fs.Parse([]string{"-D=" + a})
			}
			return fs.Parse([]string{"-D", a})
		}
	} else {
		fv = flag.NewFlagKeyValue(initCfg, autoBool, given...)
		cfgPtr = fv.Config()
		set = fv.Set
	}
	res.SetAdd("mode", mode)
	scribble(r, st, given, os, initTree)
	mo := &monitor{res: res, st: st, desc: desc}
	mo.prime(cfgPtr)
	var effective []string
	seenAt := map[string]int{}
	for i, a := range args {
		if !mo.reads(sched[i], i, fv, cfgPtr) {
			return
		}
		prevAt, repeated := seenAt[a.text]
		seenAt[a.text] = i
		before := ""
		if repeated && !st.failed {
			st.refresh()
			before = st.canon
		}
		var ret error
		panicked, pv, where := harness.Safe(func() { ret = set(a.text) })
		res.Eval(1)
		res.Ev("sets", 1)
		if panicked {
			val := a.text
			if j := strings.Index(val, "="); j >= 0 {
				val = val[j+1:]
			}
			if endsOpen(val) && strings.Contains(where, "parse.") {
				res.Violate("panic:parse-unterminated-bracket", "Set(%q) panics %q at %s; %s", a.text, pv, where, desc())
			} else {
				res.Violate("panic:flag.Set", "Set(%q) panics %q at %s; %s", a.text, pv, where, desc())
			}
			return
		}
		// reference, the statement executed literally
		kind := "post-failure"
		if !st.failed {
			kind = kvReference(res, st, i, a, autoBool, &effective)
			if kind == "ref-panic" {
				res.Inconc("the reference (parse.Value/NewFrom/Merge) panics on %q although Set did not", a.text)
				return
			}
			res.SetAdd("arg_kind", kind)
			if strings.HasPrefix(kind, "fail:") {
				res.SetAdd("failure", fmt.Sprintf("%s@%d", kind[5:], i))
				res.SetAdd("malformed_shape", a.syntax)
			} else if kind == "value" {
				res.SetAdd("syntax", a.syntax)
			}
			if a.intent == "equals-shape" {
				res.SetAdd("equals_shape", fmt.Sprintf("%s->%s/autoBool=%v", a.syntax, kind, autoBool))
				if strings.HasPrefix(a.text, "=") {
					res.Ev("empty_key_args", 1)
				}
			}
			if repeated && (kind == "value" || kind == "bare") {
				shape := "adjacent"
				if prevAt < i-1 {
					shape = "separated"
				}
				res.Ev("repeated_args", 1)
				st.refresh()
				if st.canonErr == nil && st.canon != before {
					res.Ev("repeated_args_that_matter", 1)
					res.SetAdd("repeat_matters", shape+"/"+os.pol.String())
				}
			}
		} else if a.intent == "malformed" {
			res.SetAdd("post_failure", "malformed")
		} else {
			res.SetAdd("post_failure", a.intent)
		}
		mo.step(i, a.text, kind, ret, !viaFlagSet, cfgPtr, fv.Error())
		if fv.Config() != cfgPtr || fv.Get() != interface{}(cfgPtr) {
			res.Violate("config-pointer-changed", "Config()/Get() no longer return the config handed out at creation after argument %d; %s", i, desc())
			return
		}
	}
	if !mo.reads(sched[len(args)], len(args), fv, cfgPtr) {
		return
	}
	mo.checkString(fv, cfgPtr)
	finish(res, mo, os, mode, effective, fmt.Sprintf("%s|%s|%v|%v|%s", mode, os.name(), autoBool, initTree, argTexts(args)))
}

func argTexts(args []kvArg) string {
	var l []string
	for _, a := range args {
		l = append(l, a.text)
	}
	return strings.Join(l, "\x1f")
}

func finish(res *harness.R, mo *monitor, os optSet, mode string, effective []string, key string) {
	res.SetAdd("optset", os.name())
	res.SetAdd("option_count", strconv.Itoa(len(os.opts())))
	res.SetAdd("last_option", os.lastOpt())
	if len(os.opts()) >= 5 {
		res.Ev("sequences_with_5_or_more_options", 1)
	}
	if mo.mattered {
		res.SetAdd("policy_mattered", os.pol.String())
		res.Ev("sequences_where_policy_matters", 1)
	}
	res.Ev("sequences", 1)
	if mo.st.alt != nil {
		res.Ev("sequences_option_slice_overwritten_after_creation", 1)
		if mo.altDiffer {
			res.Ev("sequences_where_overwritten_options_would_matter", 1)
		}
	}
	if mo.st.failed {
		res.Ev("sequences_with_failure", 1)
	}
	nt := false
	for i := range effective {
		for j := 0; j < i; j++ {
			if related(effective[i], effective[j]) {
				nt = true
			}
		}
	}
	if nt {
		res.Key(key)
	}
}

// scribble: w.p. 1/5 the case overwrites ITS OWN option slice after the flag
// (collector) was created. The options "given when the flag was created" are
// the flag's options; what the caller does with its slice later is not.
func scribble(r *rand.Rand, st *refState, given []ucfg.Option, os optSet, initTree *model.Node) {
	if len(given) == 0 || r.Intn(5) != 0 {
		return
	}
	alt := os.scribbled()
	copy(given, alt.opts())
	st.enableAlt(alt, initTree)
}

// kvReference executes the statement for one argument and returns its kind.
func kvReference(res *harness.R, st *refState, i int, a kvArg, autoBool bool, effective *[]string) string {
	kind := ""
	panicked, _, _ := harness.Safe(func() {
		var key string
		var val interface{}
		j := strings.Index(a.text, "=")
		switch {
		case j < 0:
			if !autoBool {
				st.fail(i, nil, "bare-key-without-autobool")
				kind = "fail:bare-key-without-autobool"
				return
			}
			key, val, kind = a.text, true, "bare"
		case a.text[j+1:] == "":
			kind = "ignored"
			return
		default:
			key = a.text[:j]
			v, err := parse.Value(a.text[j+1:])
			if err != nil {
				st.fail(i, err, "parse")
				kind = "fail:parse"
				return
			}
			val, kind = v, "value"
			res.SetAdd("parsed_kind", parsedKind(v))
		}
		c1, err := ucfg.NewFrom(map[string]interface{}{key: val}, st.os.opts()...)
		if err != nil {
			st.fail(i, err, "newfrom")
			kind = "fail:newfrom"
			return
		}
		c2, err := ucfg.NewFrom(map[string]interface{}{key: val}, st.os.opts()...)
		if err != nil {
			// order dependent acceptance of one map: C05/C09 territory
			st.broken = true
			return
		}
		var tree *model.Node
		if st.m != nil && plainValue(val) {
			tree = expand(key, model.FromIfc(val))
		}
		st.accept(i, c1, c2, tree)
		if st.failed {
			kind = "fail:merge"
			return
		}
		st.acceptAlt(func(o []ucfg.Option) (*ucfg.Config, error) {
			return ucfg.NewFrom(map[string]interface{}{key: val}, o...)
		})
		*effective = append(*effective, key)
	})
	if panicked {
		return "ref-panic"
	}
	return kind
}

// ---------------------------------------------------------------------------
// file flag

var loaders = map[string]flag.FileLoader{
	".yaml":  yaml.NewConfigWithFile,
	".yml":   yaml.NewConfigWithFile,
	".json":  ujson.NewConfigWithFile,
	".hjson": hjson.NewConfigWithFile,
}

var exts = []string{".yaml", ".yml", ".json", ".hjson"}

// names outside every table: read by the "" fallback where there is one
var foreignExts = []string{".conf", ".cfg", ".txt", ""}

// loaderTable is the extensions argument of the file flag. A file is read by
// the loader registered for its extension, else by the entry under "" (the
// documented default fallback), else the argument fails.
type loaderTable struct {
	kind  string
	m     map[string]flag.FileLoader
	names map[string]string // which front-end sits behind each entry
}

var loaderNames = map[string]string{".yaml": "yaml", ".yml": "yaml", ".json": "json", ".hjson": "hjson"}

// frontEnd names the loader that reads the path ("" if none).
func (t loaderTable) frontEnd(path string) string {
	if n, ok := t.names[filepath.Ext(path)]; ok {
		return n
	}
	return t.names[""]
}

func (t loaderTable) lookup(path string) (flag.FileLoader, bool) {
	if l := t.m[filepath.Ext(path)]; l != nil {
		return l, false
	}
	if l := t.m[""]; l != nil {
		return l, true
	}
	return nil, false
}

var fallbackLoaders = []struct {
	name string
	l    flag.FileLoader
}{{"yaml", yaml.NewConfigWithFile}, {"json", ujson.NewConfigWithFile}, {"hjson", hjson.NewConfigWithFile}}

// every document is a JSON rendering, which all three loaders read
func genTable(r *rand.Rand) loaderTable {
	switch k := r.Intn(100); {
	case k < 50:
		return loaderTable{"all4", loaders, loaderNames}
	case k < 68:
		m, nm := map[string]flag.FileLoader{}, map[string]string{}
		for _, e := range exts {
			if r.Intn(2) == 0 {
				m[e], nm[e] = loaders[e], loaderNames[e]
			}
		}
		fb := fallbackLoaders[r.Intn(len(fallbackLoaders))]
		m[""], nm[""] = fb.l, fb.name
		return loaderTable{fmt.Sprintf("subset%d+fallback:%s", len(m)-1, fb.name), m, nm}
	case k < 88:
		fb := fallbackLoaders[r.Intn(len(fallbackLoaders))]
		return loaderTable{"fallback-only:" + fb.name, map[string]flag.FileLoader{"": fb.l}, map[string]string{"": fb.name}}
	default:
		return loaderTable{"yaml+yml+json", map[string]flag.FileLoader{".yaml": loaders[".yaml"], ".yml": loaders[".yml"], ".json": loaders[".json"]},
			map[string]string{".yaml": "yaml", ".yml": "yaml", ".json": "json"}}
	}
}

// renderHjson writes the document in HJSON's own syntax: comments, unquoted
// names, newline separated members, trailing commas.
func renderHjson(r *rand.Rand, v interface{}, ind string) string {
	switch x := v.(type) {
	case map[string]interface{}:
		keys := make([]string, 0, len(x))
		for k := range x {
			keys = append(keys, k)
		}
		sort.Strings(keys)
		var b strings.Builder
		b.WriteString("{\n")
		if r.Intn(2) == 0 {
			b.WriteString(ind + "  # a comment\n")
		}
		for _, k := range keys {
			name := k
			simple := k != ""
			for _, c := range k {
				if !(c >= 'a' && c <= 'z') {
					simple = false
				}
			}
			if !simple || r.Intn(3) == 0 {
				q, _ := json.Marshal(k)
				name = string(q)
			}
			b.WriteString(ind + "  " + name + ": " + renderHjson(r, x[k], ind+"  "))
			if r.Intn(2) == 0 {
				b.WriteString(",")
			}
			b.WriteString("\n")
		}
		b.WriteString(ind + "}")
		return b.String()
	case []interface{}:
		var el []string
		for _, e := range x {
			el = append(el, renderHjson(r, e, ind+"  "))
		}
		s := "[" + strings.Join(el, ", ")
		if len(el) > 0 && r.Intn(2) == 0 {
			s += ","
		}
		return s + "]"
	}
	q, _ := json.Marshal(v)
	return string(q)
}

// renderDoc writes the document in the syntax of one front-end. The styles
// other than JSON are read differently (or not at all) by the other loaders.
func renderDoc(r *rand.Rand, doc interface{}, style string) string {
	switch style {
	case "yaml-block":
		if b, err := yamlv2.Marshal(doc); err == nil {
			return string(b)
		}
	case "hjson-native":
		return renderHjson(r, doc, "") + "\n"
	case "empty":
		return pick(r, []string{"", "\n", "  \n"})
	}
	if r.Intn(3) == 0 {
		b, _ := json.MarshalIndent(doc, "", "  ")
		return string(b)
	}
	b, _ := json.Marshal(doc)
	return string(b)
}

func genStyle(r *rand.Rand) string {
	switch k := r.Intn(100); {
	case k < 62:
		return "json"
	case k < 80:
		return "yaml-block"
	case k < 95:
		return "hjson-native"
	}
	return "empty"
}

// spliceRefs replaces some string leaves by references to the initial config.
func spliceRefs(r *rand.Rand, n *model.Node) {
	for _, k := range n.SortedKeys() {
		v := n.D[k]
		if v.IsPrim() {
			if _, ok := v.Prim.(string); ok && r.Intn(2) == 0 {
				v.Prim = pick(r, []string{"${q}", "x-${r.s}", "${r.t}"})
			}
		} else {
			spliceRefs(r, v)
		}
	}
	for _, v := range n.A {
		if v.IsPrim() {
			if _, ok := v.Prim.(string); ok && r.Intn(3) == 0 {
				v.Prim = pick(r, []string{"${q}", "x-${r.s}"})
			}
		} else if v.IsSub() {
			spliceRefs(r, v)
		}
	}
}

type fileArg struct {
	name    string // base name
	style   string
	content string
	write   bool
	intent  string
	tree    *model.Node
}

func tmpBase() string { return filepath.Join(harness.Root, "work", "C19tmp") }

// flatten spells the members of some top-level dictionaries as dotted keys
// ({"a":{"b":1}} -> {"a.b":1}); the dictionary itself disappears from the map,
// so one setting is never spelled dotted and nested in the same map (C05/C09).
func flatten(r *rand.Rand, t *model.Node) (map[string]interface{}, bool) {
	out := map[string]interface{}{}
	did := false
	for _, k := range t.SortedKeys() {
		v := t.D[k]
		if v.IsSub() && len(v.D) > 0 && !v.HasA && len(v.A) == 0 && r.Intn(2) == 0 {
			for _, k2 := range v.SortedKeys() {
				out[k+"."+k2] = v.D[k2].ToGo()
			}
			did = true
			continue
		}
		out[k] = v.ToGo()
	}
	return out, did
}

func genDictChain(r *rand.Rand, n int) []*model.Node {
	keys := []string{"a", "b", "c"}
	o := gen.TreeOpts{Depth: 2, Keys: keys, Prims: simplePrims}
	out := []*model.Node{gen.TopDict(r, o, 2)}
	for len(out) < n {
		var t *model.Node
		if r.Intn(4) > 0 {
			for k := 0; k < 20 && t == nil; k++ {
				if m := gen.Mutate(r, o, out[len(out)-1], 2); m.IsSub() && !m.HasA && len(m.A) == 0 {
					t = m
				}
			}
		}
		if t == nil {
			t = gen.TopDict(r, o, 2)
		}
		out = append(out, t)
	}
	return out
}

func runFiles(res *harness.R, r *rand.Rand, idx int, verbose bool) {
	os_ := genOptSet(r, false)
	viaFlagSet := r.Intn(100) < 15
	table := genTable(r)
	if (table.kind == "fallback-only:yaml" || table.kind == "fallback-only:json" || table.kind == "yaml+yml+json") && r.Intn(2) == 0 {
		viaFlagSet = true // the public wrapper that builds this table
	}
	var initTree *model.Node
	if r.Intn(10) >= 7 {
		initTree = gen.TopDict(r, gen.TreeOpts{Depth: 2, Prims: simplePrims}, 2)
	}
	if r.Intn(8) == 0 {
		// documents with ${...} strings: references only if the loader is given
		// the flag's options
		os_.varexp = true
		if os_.pol == model.PReplace {
			os_.pol = model.PDefault
		}
		initTree = model.Dict().Set("q", model.P("v0")).Set("r", model.Dict().Set("s", model.P("v1")).Set("t", model.P(uint64(2))))
	}
	// the argument sequence: every argument after the first names an EARLIER
	// path again w.p. 1/3 (adjacent or with other files in between); a repeated
	// file must be loaded and merged once per occurrence, in order
	m := 1 + r.Intn(6)
	seq := []int{0}
	n := 1
	for j := 1; j < m; j++ {
		if r.Intn(3) == 0 {
			seq = append(seq, seq[r.Intn(len(seq))])
		} else {
			seq = append(seq, n)
			n++
		}
	}
	dotted := r.Intn(3) == 0
	trees := genDictChain(r, n)
	if os_.varexp {
		for _, t := range trees {
			spliceRefs(r, t)
		}
	}
	if r.Intn(2) == 0 {
		// every document carries a non-empty list under one shared key (and the
		// documents differ there): append/prepend add it once per occurrence,
		// the other policies must restore the last occurrence's elements
		lk := pick(r, []string{"a", "b", "c"})
		for i, t := range trees {
			l := model.List()
			for c := 1 + r.Intn(3); c > 0; c-- {
				l.A = append(l.A, model.P(simplePrims[r.Intn(len(simplePrims))]))
			}
			l.A = append(l.A, model.P(fmt.Sprintf("doc%d", i)))
			t.Set(lk, l)
		}
	}
	if r.Intn(3) > 0 {
		// every document has a setting that is only ever spelled with a dotted
		// name ("d.x": ...): what each file means depends on the options it is
		// loaded with, the first file as much as the last
		for i, t := range trees {
			t.Set("d", model.Dict().Set(pick(r, []string{"x", "y"}), model.P(fmt.Sprintf("d%d", i))))
		}
	}
	failAt := -1
	if r.Intn(100) < 40 {
		failAt = r.Intn(n)
	}
	var files []fileArg
	for i, t := range trees {
		ext := pick(r, exts)
		if table.kind != "all4" && r.Intn(3) == 0 {
			ext = pick(r, foreignExts)
		}
		style := genStyle(r)
		if r.Intn(3) > 0 {
			// mostly under a name that promises the syntax
			switch style {
			case "yaml-block":
				ext = pick(r, []string{".yaml", ".yml"})
			case "hjson-native":
				ext = ".hjson"
			}
		}
		f := fileArg{name: fmt.Sprintf("f%d%s", i, ext), style: style, write: true, intent: "document", tree: t}
		var doc interface{} = t.ToGo()
		if dotted {
			if m, did := flatten(r, t); did {
				doc = m
				f.intent = "document-dotted"
			}
		}
		if m, ok := doc.(map[string]interface{}); ok {
			if d := t.D["d"]; d != nil && d.IsSub() && len(d.D) > 0 {
				delete(m, "d")
				for _, k2 := range d.SortedKeys() {
					m["d."+k2] = d.D[k2].ToGo()
				}
				f.intent = "document-dotted"
			}
		}
		f.content = renderDoc(r, doc, style)
		if style != "json" {
			f.intent += "/" + style
			if style == "empty" {
				f.tree = model.Dict()
			}
			// the tree is what the document says only for its own front-end
			if fe := table.frontEnd(f.name); (style == "yaml-block" && fe != "yaml") || (style == "hjson-native" && fe != "hjson") || (style == "empty" && fe != "yaml") {
				f.tree = nil
			}
		}
		if i == failAt || (failAt >= 0 && i > failAt && r.Intn(4) == 0) {
			f.tree = nil
			switch r.Intn(6) {
			case 0, 1:
				f.write, f.intent = false, "missing-file"
			case 2:
				f.name, f.intent = fmt.Sprintf("f%d%s", i, pick(r, []string{".txt", "", ".YAML", ".jsn"})), "unknown-extension"
			case 3, 4:
				if len(f.content) > 2 {
					f.content = f.content[:1+r.Intn(len(f.content)-2)]
					for len(f.content) > 1 && !utf8.ValidString(f.content) { // do not cut inside a rune
						f.content = f.content[:len(f.content)-1]
					}
				} else {
					f.content = "{"
				}
				f.intent = "truncated-document"
			default:
				f.content, f.intent = pick(r, []string{"5", `"s"`, "true"}), "scalar-document"
			}
		} else if r.Intn(25) == 0 {
			f.content, f.intent, f.tree = pick(r, []string{"[1, 2]", `[{"a": 1}]`, "{}", "null"}), "odd-document", nil
		}
		files = append(files, f)
	}
	sched := genReads(r, len(seq))
	mode := "files"
	if viaFlagSet {
		mode = "files-flagset"
	}
	desc := func() string {
		var l []string
		for _, f := range files {
			if f.write {
				l = append(l, fmt.Sprintf("%s(%s)=%s", f.name, f.intent, strconv.Quote(f.content)))
			} else {
				l = append(l, fmt.Sprintf("%s(%s)", f.name, f.intent))
			}
		}
		it := "nil"
		if initTree != nil {
			it = initTree.String()
		}
		var a []string
		for _, fi := range seq {
			a = append(a, files[fi].name)
		}
		return fmt.Sprintf("mode=%s options=%s loaders=%s initial=%s args=[%s] %s files=[%s]", mode, os_.name(), table.kind, it, strings.Join(a, " "), descReads(sched), strings.Join(l, " "))
	}
	if idx < 2 {
		res.Sample = desc()
	}
	if verbose {
		fmt.Println(desc())
	}
	if err := os.MkdirAll(tmpBase(), 0o755); err != nil {
		res.Inconc("cannot create %s: %v", tmpBase(), err)
		return
	}
	dir, err := os.MkdirTemp(tmpBase(), "case-")
	if err != nil {
		res.Inconc("cannot create a temp directory: %v", err)
		return
	}
	defer os.RemoveAll(dir)
	for _, f := range files {
		if f.write {
			if err := os.WriteFile(filepath.Join(dir, f.name), []byte(f.content), 0o644); err != nil {
				res.Inconc("cannot write a temp file: %v", err)
				return
			}
		}
	}
	st, initCfg, err := newRefState(os_, initTree)
	if err != nil {
		res.Inconc("initial config could not be built: %v", err)
		return
	}
	var fv *flag.FlagValue
	var set func(string) error
	given := os_.opts() // the case's own slice, handed to the flag as opts...
	if viaFlagSet {
		fs := goflag.NewFlagSet("t", goflag.ContinueOnError)
		fs.SetOutput(io.Discard)
		fs.Usage = func() {}
		// the public wrappers where the table is one of theirs
		switch table.kind {
		case "fallback-only:yaml":
			fv = flag.ConfigYAMLFilesVar(fs, initCfg, "c", "files", given...)
			res.SetAdd("wrapper", "ConfigYAMLFilesVar")
		case "fallback-only:json":
			fv = flag.ConfigJSONFilesVar(fs, initCfg, "c", "files", given...)
			res.SetAdd("wrapper", "ConfigJSONFilesVar")
		case "yaml+yml+json":
			fv = flag.ConfigFilesExtsVar(fs, initCfg, "c", "files", given...)
			res.SetAdd("wrapper", "ConfigFilesExtsVar")
		default:
			fv = flag.ConfigFilesVar(fs, initCfg, "c", "files", table.m, given...)
			res.SetAdd("wrapper", "ConfigFilesVar")
		}
		set = func(a string) error { return fs.Parse([]string{"-c", a}) }
	} else {
		fv = flag.NewFlagFiles(initCfg, table.m, given...)
		set = fv.Set
	}
	cfgPtr := fv.Config()
	res.SetAdd("mode", mode)
	res.SetAdd("loader_table", table.kind)
	scribble(r, st, given, os_, initTree)
	mo := &monitor{res: res, st: st, desc: desc}
	mo.prime(cfgPtr)
	var effective []string
	lastAt := map[int]int{}
	for i, fi := range seq {
		if !mo.reads(sched[i], i, fv, cfgPtr) {
			return
		}
		f := files[fi]
		path := filepath.Join(dir, f.name)
		prevAt, repeated := lastAt[fi]
		lastAt[fi] = i
		before := ""
		if repeated && !st.failed {
			st.refresh()
			before = st.canon
		}
		mo.argClass = ""
		mo.fresh = func() bool {
			ok := false
			harness.Safe(func() {
				l, _ := table.lookup(path)
				if l == nil {
					return
				}
				ff := flag.NewFlagFiles(nil, table.m, os_.opts()...)
				ff.Set(path)
				c, err := l(path, os_.opts()...)
				if err != nil || ff.Error() != nil {
					return
				}
				a, e1 := obs.Top(ff.Config(), os_.read()...)
				b, e2 := obs.Top(c, os_.read()...)
				ok = e1 == nil && e2 == nil && a == b
			})
			return ok
		}
		var ret error
		panicked, pv, where := harness.Safe(func() { ret = set(path) })
		res.Eval(1)
		res.Ev("sets", 1)
		if panicked {
			res.Violate("panic:flag.Set", "Set(%q) panics %q at %s; %s", f.name, pv, where, desc())
			return
		}
		kind := "post-failure"
		if !st.failed {
			viaFallback := false
			kind, viaFallback = fileReference(st, table, i, path, f, &effective)
			if viaFallback {
				mo.argClass = "fallback-loader"
				if kind == "document" {
					res.Ev("fallback_loads", 1)
					if filepath.Ext(f.name) != "" {
						res.Ev("fallback_loads_of_a_foreign_extension", 1)
						if strings.HasPrefix(f.intent, "document-dotted") || os_.varexp {
							// what the file means depends on the load-time options
							res.Ev("fallback_loads_of_a_foreign_extension_option_sensitive", 1)
						}
					}
				}
			}
			if kind == "ref-panic" {
				res.Inconc("the reference loader panics on %q although Set did not", f.name)
				return
			}
			res.SetAdd("arg_kind", kind)
			res.SetAdd("ext", filepath.Ext(f.name))
			if strings.HasPrefix(kind, "fail:") {
				res.SetAdd("failure", fmt.Sprintf("%s/%s@%d", kind[5:], f.intent, i))
			}
			if repeated && kind == "document" {
				shape := "adjacent"
				if prevAt < i-1 {
					shape = "separated"
				}
				res.Ev("repeated_path_loads", 1)
				st.refresh()
				if st.canonErr == nil && st.canon != before {
					// loading the same path again changes the expected config
					res.Ev("repeated_path_loads_that_matter", 1)
					res.SetAdd("repeat_matters", shape+"/"+os_.pol.String())
				}
			}
		} else {
			res.SetAdd("post_failure", f.intent)
		}
		res.SetAdd("doc_style", f.style+"->"+table.frontEnd(f.name)+":"+strings.SplitN(kind, "/", 2)[0])
		if kind == "fail:load" && f.write {
			res.Ev("documents_their_front_end_rejects", 1)
			if fv.Error() == nil {
				// not a failing argument for the flag: which front-end read it?
				otherFrontEnd(res, st, table, path, f, cfgPtr, desc)
			}
		}
		mo.step(i, f.name, kind, ret, true, cfgPtr, fv.Error())
		if fv.Config() != cfgPtr {
			res.Violate("config-pointer-changed", "Config() no longer returns the config handed out at creation after file %d; %s", i, desc())
			return
		}
	}
	if !mo.reads(sched[len(seq)], len(seq), fv, cfgPtr) {
		return
	}
	mo.checkString(fv, cfgPtr)
	var k strings.Builder
	fmt.Fprintf(&k, "%s|%s|%v|%v", mode, os_.name(), initTree, seq)
	for _, f := range files {
		fmt.Fprintf(&k, "|%s:%s:%s", f.name, f.intent, f.content)
	}
	finish(res, mo, os_, mode, effective, k.String())
}

// otherFrontEnd: the reference's loader rejects the file but the flag recorded
// no error. If the flag's config equals the reference plus the file as read by
// ANOTHER front-end, the flag used the wrong loader.
func otherFrontEnd(res *harness.R, st *refState, table loaderTable, path string, f fileArg, cfg *ucfg.Config, desc func() string) {
	got, gerr := obs.Top(cfg, st.os.read()...)
	if gerr != nil {
		return
	}
	for _, fb := range fallbackLoaders {
		if fb.name == table.frontEnd(path) {
			continue
		}
		match := false
		harness.Safe(func() {
			c, err := fb.l(path, st.os.opts()...)
			if err != nil {
				return
			}
			tmp, err := ucfg.NewFrom(st.ref, st.os.opts()...)
			if err != nil || tmp.Merge(c, st.os.opts()...) != nil {
				return
			}
			want, err := obs.Top(tmp, st.os.read()...)
			match = err == nil && want == got
		})
		if match {
			res.Violate("file-read-by-another-front-end", "%s belongs to the %s loader of this flag (which rejects it), but the flag's config %s is what the %s loader makes of it; %s", f.name, table.frontEnd(path), got, fb.name, desc())
			return
		}
	}
}

// fileReference loads the file with the loader of its extension and the
// flag's options and merges it with those options.
func fileReference(st *refState, table loaderTable, i int, path string, f fileArg, effective *[]string) (string, bool) {
	kind := ""
	loader, viaFallback := table.lookup(path)
	panicked, _, _ := harness.Safe(func() {
		if loader == nil {
			st.fail(i, nil, "no-loader")
			kind = "fail:no-loader"
			return
		}
		c1, err := loader(path, st.os.opts()...)
		if err != nil {
			st.fail(i, err, "load")
			kind = "fail:load"
			return
		}
		c2, err := loader(path, st.os.opts()...)
		if err != nil {
			st.broken = true
			return
		}
		kind = "document"
		tree := f.tree
		if tree != nil && !treePlain(tree) {
			tree = nil
		}
		st.accept(i, c1, c2, tree)
		if st.failed {
			kind = "fail:merge"
			return
		}
		st.acceptAlt(func(o []ucfg.Option) (*ucfg.Config, error) { return loader(path, o...) })
		// overlap rule: record the top-level keys of the document
		if f.tree != nil {
			for k, v := range f.tree.D {
				if v.Canon() != "nil" {
					*effective = append(*effective, k)
				}
			}
		}
	})
	if panicked {
		return "ref-panic", viaFallback
	}
	return kind, viaFallback
}

func treePlain(n *model.Node) bool {
	if n == nil {
		return true
	}
	for k, v := range n.D {
		if !plainKey(k) || !treePlain(v) {
			return false
		}
	}
	for _, v := range n.A {
		if !treePlain(v) {
			return false
		}
	}
	return true
}

// ---------------------------------------------------------------------------
// cfgutil.Collector directly

type colOp struct {
	kind string // "cfg", "nil", "err"
	tree *model.Node
	err  error
}

func runCollector(res *harness.R, r *rand.Rand, idx int, verbose bool) {
	os_ := genOptSet(r, false)
	if r.Intn(10) == 0 {
		os_ = optSet{none: true}
	}
	var initTree *model.Node
	o := gen.TreeOpts{Depth: 2, Prims: simplePrims}
	if r.Intn(10) >= 7 {
		initTree = gen.Top(r, o, 2)
	}
	n := 1 + r.Intn(6)
	chain := gen.Chain(r, o, n, 2)
	failAt := -1
	if r.Intn(100) < 40 {
		failAt = r.Intn(n)
	}
	var ops []colOp
	for i, t := range chain {
		switch {
		case i == failAt || (failAt >= 0 && i > failAt && r.Intn(3) == 0):
			ops = append(ops, colOp{kind: "err", err: fmt.Errorf("injected error #%d", i)})
		case r.Intn(10) == 0:
			ops = append(ops, colOp{kind: "nil"})
		default:
			ops = append(ops, colOp{kind: "cfg", tree: t})
		}
	}
	desc := func() string {
		var l []string
		for _, op := range ops {
			switch op.kind {
			case "cfg":
				l = append(l, "Add("+op.tree.String()+",nil)")
			case "nil":
				l = append(l, "Add(nil,nil)")
			default:
				l = append(l, "Add(nil,"+op.err.Error()+")")
			}
		}
		it := "nil"
		if initTree != nil {
			it = initTree.String()
		}
		return fmt.Sprintf("mode=collector options=%s initial=%s ops=[%s]", os_.name(), it, strings.Join(l, " "))
	}
	if idx < 2 {
		res.Sample = desc()
	}
	if verbose {
		fmt.Println(desc())
	}
	st, initCfg, err := newRefState(os_, initTree)
	if err != nil {
		res.Inconc("initial config could not be built: %v", err)
		return
	}
	given := os_.opts()
	var col *cfgutil.Collector
	if p, pv, where := harness.Safe(func() { col = cfgutil.NewCollector(initCfg, given...) }); p {
		res.Violate("panic:NewCollector", "panic %q at %s; %s", pv, where, desc())
		return
	}
	res.SetAdd("mode", "collector")
	checkGetOptions(res, col, given, os_, desc)
	if before := probe(col.GetOptions()); true {
		scribble(r, st, given, os_, initTree)
		if st.alt != nil {
			if after := probe(col.GetOptions()); after != before {
				res.Violate("options-slice-aliased-after-creation:getoptions", "after the caller overwrote its own option slice GetOptions() behaves like %s, before like %s (given at creation: %s); %s", after, before, os_.name(), desc())
			}
		}
	}
	cfgPtr := col.Config()
	if cfgPtr == nil {
		res.Violate("collector-nil-config", "Config() is nil right after NewCollector; %s", desc())
		return
	}
	mo := &monitor{res: res, st: st, desc: desc}
	mo.prime(cfgPtr)
	var effective []string
	for i, op := range ops {
		var c0, c1, c2 *ucfg.Config
		kind := "post-failure"
		if op.kind == "cfg" {
			var e0, e1, e2 error
			c0, e0 = ucfg.NewFrom(op.tree.ToGo(), os_.opts()...)
			c1, e1 = ucfg.NewFrom(op.tree.ToGo(), os_.opts()...)
			c2, e2 = ucfg.NewFrom(op.tree.ToGo(), os_.opts()...)
			if e0 != nil || e1 != nil || e2 != nil {
				res.Inconc("operand could not be built: %v %v %v", e0, e1, e2)
				return
			}
		}
		var ret error
		arg := ""
		panicked, pv, where := harness.Safe(func() {
			switch op.kind {
			case "cfg":
				arg = "Add(" + op.tree.String() + ",nil)"
				ret = col.Add(c0, nil)
			case "nil":
				arg = "Add(nil,nil)"
				ret = col.Add(nil, nil)
			default:
				arg = "Add(nil," + op.err.Error() + ")"
				ret = col.Add(nil, op.err)
			}
		})
		res.Eval(1)
		res.Ev("adds", 1)
		if panicked {
			res.Violate("panic:Collector.Add", "%s panics %q at %s; %s", arg, pv, where, desc())
			return
		}
		if !st.failed {
			switch op.kind {
			case "cfg":
				kind = "value"
				st.accept(i, c1, c2, op.tree)
				if !st.failed {
					tr := op.tree
					st.acceptAlt(func(o []ucfg.Option) (*ucfg.Config, error) { return ucfg.NewFrom(tr.ToGo(), o...) })
				}
				if st.failed {
					kind = "fail:merge"
				} else if len(op.tree.A) > 0 {
					effective = append(effective, "[]")
				} else {
					for k, v := range op.tree.D {
						if v.Canon() != "nil" {
							effective = append(effective, k)
						}
					}
				}
			case "nil":
				kind = "ignored"
			default:
				kind = "fail:injected"
				st.fail(i, op.err, "injected")
				res.SetAdd("failure", fmt.Sprintf("injected@%d", i))
			}
			res.SetAdd("arg_kind", "collector:"+kind)
		} else {
			res.SetAdd("post_failure", "collector:"+op.kind)
		}
		mo.step(i, arg, kind, ret, true, cfgPtr, col.Error())
		// Get()/Config()/Error() are consistent views
		gc, ge := col.Get()
		if gc != col.Config() || !sameErr(ge, col.Error()) || col.Config() != cfgPtr {
			res.Violate("collector-views-inconsistent", "after %s: Get() = (%p, %v), Config() = %p, Error() = %v, initial Config() = %p; %s", arg, gc, ge, col.Config(), col.Error(), cfgPtr, desc())
			return
		}
		if st.failed && i == st.failIdx && op.kind == "err" && col.Error() != nil && col.Error() != op.err {
			res.Violate("first-error-differs-from-reference", "Add(nil, %v) recorded %v; %s", op.err, col.Error(), desc())
		}
	}
	finish(res, mo, os_, "collector", effective, fmt.Sprintf("collector|%s|%v|%s", os_.name(), initTree, desc()))
}

// probe applies an option list to a fixed two-step workload whose result
// depends on PathSep and on the merge policy.
func probe(opts []ucfg.Option) string {
	out := ""
	harness.Safe(func() {
		c, err := ucfg.NewFrom(map[string]interface{}{"p.q": []interface{}{1, 2}, "d": map[string]interface{}{"x": 1}}, opts...)
		if err != nil {
			out = "newfrom-error"
			return
		}
		if err := c.Merge(map[string]interface{}{"p.q": []interface{}{3}, "d": map[string]interface{}{"y": 2}}, opts...); err != nil {
			out = "merge-error"
			return
		}
		s, err := obs.Top(c, ucfg.PathSep("/"))
		if err != nil {
			out = "read-error"
			return
		}
		out = s
	})
	return out
}

func checkGetOptions(res *harness.R, col *cfgutil.Collector, given []ucfg.Option, os_ optSet, desc func() string) {
	var got []ucfg.Option
	if p, pv, where := harness.Safe(func() { got = col.GetOptions() }); p {
		res.Violate("panic:Collector.GetOptions", "panic %q at %s; %s", pv, where, desc())
		return
	}
	res.Eval(1)
	res.Ev("getoptions_checked", 1)
	if len(given) == 0 {
		if len(got) != 0 {
			res.Violate("getoptions-mismatch", "no options given but GetOptions() has %d; %s", len(got), desc())
		}
		return
	}
	if len(got) == 0 {
		res.Violate("collector-drops-options:getoptions", "NewCollector was given %d options (%s) but GetOptions() returns %d; %s", len(given), os_.name(), len(got), desc())
		return
	}
	same := len(got) == len(given)
	if same {
		for i := range got {
			if got[i] == nil || reflect.ValueOf(got[i]).Pointer() != reflect.ValueOf(given[i]).Pointer() {
				same = false
			}
		}
	}
	pg, pw := probe(got), probe(given)
	if !same || pg != pw {
		res.Violate("getoptions-mismatch", "GetOptions() returns %d options for %d given (%s); applying them gives %s, the given ones %s; %s", len(got), len(given), os_.name(), pg, pw, desc())
	}
}
