// Package c19: see DESIGN.md section 3 C19.
package c19
