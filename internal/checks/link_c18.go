//go:build !only || only_c18

package checks

import _ "verif/internal/checks/c18"
