// Package c01: Merge follows the selected policy exactly.
package c01

import (
	"fmt"
	"math/rand"
	"strings"

	ucfg "github.com/elastic/go-ucfg"

	"verif/internal/gen"
	"verif/internal/harness"
	"verif/internal/model"
	"verif/internal/obs"
)

type check struct{}

func init() { harness.Register(check{}) }

func (check) ID() string { return "C01" }

var smallTrees []*model.Node

func init() { smallTrees = enumSmall() }

const enumChunk = 64

func enumPairs() int { return len(smallTrees) * len(smallTrees) }

func (check) Cases(tier string) int {
	if tier == "thorough" {
		return 400000 + (enumPairs()+enumChunk-1)/enumChunk
	}
	return 4000 + 200
}

func randomCases(tier string) int {
	if tier == "thorough" {
		return 400000
	}
	return 4000
}

func (check) Exhaustive(string) bool { return false }

func (check) Rule() string {
	return "chains of 2-4 correlated trees (operand k+1 = mutation of operand k w.p. 3/4; 3 keys repeated at every depth; nil/{}/[]/primitive/object/list clashes at the same key; w.p. 1/4 per pair an explicit empty list planted in operand k against nil/{}/[] at the same place of operand k+1, w.p. 1/4 a nil planted in operand k+1 at the place of a primitive of operand k) merged under one of the 5 global policies (w.p. 1/3 the policy changes from step to step), each operand given as map, interface-keyed map, reflect.StructOf struct, *Config, child Config or (2/10) 'spelled': nil as typed nil pointer, [] as typed nil/empty slice or empty array, {} as nil/empty typed map or empty struct, objects as run-time built structs whose field types are these types (zero-valued fields), pointers to values - a deviation at such a step is classified by re-rendering the operand with one spelling class at a time; w.p. 1/8 a step with the target itself as source is inserted before another step; w.p. 1/3 the very same *Config object of an earlier step is merged once more after at least one other merge; after every step the target is observed by Unpack into map and slice and compared with the merge model, and the empty-list laws (kept / taken, through keys and list positions) are asserted on the raw unpacked data; plus identity/self-merge/append-length laws; w.p. 1/4 the chain (strings without '$', half of the time nil/primitive/empty planted over a container of an earlier operand) is repeated with VarExp on and one operand (2/3: the first) holding 1-2 of its non-empty containers by reference ${r<i>} (1/3 through a second reference), compared with the model after every step without the r<i> settings; w.p. 1/6 (other chains) a final merge between two handles of the target (root or Child of a non-empty container reached through keys; nested pairs preferred) under a random policy, expectation: merge of a snapshot of the source, observed through the target handle and the root; plus (thorough: all, quick: a seed-chosen slice of) pairs of small trees (<=3 nodes below the root, 2 keys) x 5 policies, observed after each of the two merges. Non-trivial = at least two operands are non-empty and share a key or both carry a list; distinct = distinct (policies, operands, representations)."
}

func (check) Assumptions() []string {
	return []string{
		"merge model written from the statement of C01 (internal/model/merge.go)",
		"canonical comparison with the model: numbers by value, nil == {} == [] == absent key inside dictionaries",
		"in addition, on the raw data: an explicit empty list of the target stays an empty list when the source holds nil, {}, [] or nothing there; an explicit empty list of the source appears where the target held nothing, a primitive or nil (nil is not a container: 'B's value wherever the two sides are not both containers'; 'an empty list in B replaces nothing' speaks about containers of A). Not compared: {} <- [], presence of nil-valued keys, nodes carrying both parts (decimal keys)",
		"ReplaceValues: the statement describes the dictionaries by their union and the policies by what they do to lists; what ReplaceValues does to dictionaries is taken from the option's documentation - a non-empty dictionary of B replaces the dictionary of A wholesale at every level, an empty B changes nothing",
		"a *Config source merged a second time must act like the tree it was built from (the model merges that tree again); a source that is the target itself, a part of it or contains it is merged as it is when Merge is called (snapshot)",
		"references (VarExp) only as a second way to hold a container: a setting ${r} evaluating to an object/list merges like that object/list; everything else about expansion is C02/C08",
		"Go spellings taken as the same tree: a nil pointer of any type = nil, a nil or empty slice / empty array = [], a nil or empty map / empty struct = {}, a pointer to a value = the value (top-level sources and inline fields stay C05's)",
		"keys are non-numeric and contain no path separator (numeric keys are list positions, gaps are filled with nil: C20/C05); lists are short (the cost of growing very long lists is no subject of the statement); how Go values denote a tree (nil pointers, inline fields, typed nil sources) is C05's, Unpack into *Config fields C10's subject",
	}
}

var policies = []struct {
	p    model.Policy
	opts []ucfg.Option
}{
	{model.PDefault, nil},
	{model.PReplace, []ucfg.Option{ucfg.ReplaceValues}},
	{model.PArrReplace, []ucfg.Option{ucfg.ReplaceArrValues}},
	{model.PAppend, []ucfg.Option{ucfg.AppendValues}},
	{model.PPrepend, []ucfg.Option{ucfg.PrependValues}},
}

// enumSmall lists all top-level containers with at most 3 nodes below the
// root over keys {a,b} and leaves {s, 1, nil, {}, []}.
func enumSmall() []*model.Node {
	leaves := func() []*model.Node {
		return []*model.Node{model.P("s"), model.P(int64(-1)), model.Nil(), model.Dict(), model.List()}
	}
	// level-1 containers holding only leaves (<=2 children)
	var l1 []*model.Node
	for _, x := range leaves() {
		l1 = append(l1, model.Dict().Set("a", x))
		l1 = append(l1, model.List(x))
	}
	for _, x := range leaves() {
		for _, y := range leaves() {
			l1 = append(l1, model.Dict().Set("a", x).Set("b", y))
			l1 = append(l1, model.List(x, y))
		}
	}
	children := append(leaves(), l1...)
	var out []*model.Node
	out = append(out, model.Dict(), model.List())
	for _, x := range children {
		if x.Size() <= 3 {
			out = append(out, model.Dict().Set("a", x.Copy()))
			out = append(out, model.List(x.Copy()))
		}
	}
	for _, x := range children {
		for _, y := range children {
			if x.Size()+y.Size() <= 3 {
				out = append(out, model.Dict().Set("a", x.Copy()).Set("b", y.Copy()))
				out = append(out, model.List(x.Copy(), y.Copy()))
			}
		}
	}
	return out
}

type operand struct {
	tree  *model.Node // nil for a self step
	rep   string
	pol   int  // index into policies: the policy of this step
	reuse int  // >= 0: the source is the very *Config object built for that earlier step
	self  bool // the source is the target itself
}

func plain(t *model.Node, rep string, pol int) operand {
	return operand{tree: t, rep: rep, pol: pol, reuse: -1}
}

// source renders the operand in the chosen Go representation.
func source(r *rand.Rand, t *model.Node, rep string) (interface{}, string, error) {
	switch rep {
	case "mapi":
		return gen.ToMapI(t), rep, nil
	case "struct":
		if t.HasA || len(t.A) > 0 {
			return t.ToGo(), "map", nil
		}
		v, ok := gen.ToStruct(r, t)
		if !ok || v == nil {
			return t.ToGo(), "map", nil
		}
		return v, rep, nil
	case "typed":
		return gen.ToTyped(r, t), rep, nil
	case "config":
		c, err := ucfg.NewFrom(t.ToGo())
		if err != nil {
			return nil, rep, err
		}
		return c, rep, nil
	case "config-mixed":
		// a *Config source that carries a dictionary part AND a list part
		// (built by merging a list over a dictionary)
		c := ucfg.New()
		if len(t.D) > 0 {
			if err := c.Merge((&model.Node{Kind: model.KSub, D: t.D}).ToGo()); err != nil {
				return nil, rep, err
			}
		}
		if len(t.A) > 0 {
			if err := c.Merge((&model.Node{Kind: model.KSub, A: t.A, HasA: true}).ToGo()); err != nil {
				return nil, rep, err
			}
		}
		return c, rep, nil
	case "child":
		w, err := ucfg.NewFrom(map[string]interface{}{"w": t.ToGo()})
		if err != nil {
			return nil, rep, err
		}
		ch, err := w.Child("w", -1)
		if err != nil {
			// an empty container normalises to a nil-ish value: use the plain form
			return t.ToGo(), "map", nil
		}
		return ch, rep, nil
	}
	return t.ToGo(), "map", nil
}

var reps = []string{"map", "map", "map", "mapi", "struct", "typed", "config", "child", "spelled", "spelled"}

func nonEmpty(t *model.Node) bool { return len(t.D) > 0 || len(t.A) > 0 }

func overlap(a, b *model.Node) bool {
	if len(a.A) > 0 && len(b.A) > 0 {
		return true
	}
	for k := range a.D {
		if _, ok := b.D[k]; ok {
			return true
		}
	}
	return false
}

func shapeOf(n *model.Node) string {
	switch {
	case n == nil:
		return "absent"
	case n.Kind == model.KNil:
		return "nil"
	case n.Kind == model.KPrim:
		return "prim"
	case len(n.D) == 0 && len(n.A) == 0:
		return "empty"
	case len(n.D) > 0 && len(n.A) > 0:
		return "mixed"
	case len(n.A) > 0:
		return "list"
	}
	return "dict"
}

func clashes(res *harness.R, a, b *model.Node, depth int) {
	if !a.IsSub() || !b.IsSub() {
		return
	}
	for k, x := range a.D {
		if y, ok := b.D[k]; ok {
			res.SetAdd("shape_clash", fmt.Sprintf("d%d:%s<-%s", depth, shapeOf(x), shapeOf(y)))
			clashes(res, x, y, depth+1)
		}
	}
	for i := range a.A {
		if i < len(b.A) {
			res.SetAdd("shape_clash", fmt.Sprintf("d%d:%s<-%s", depth, shapeOf(a.A[i]), shapeOf(b.A[i])))
			clashes(res, a.A[i], b.A[i], depth+1)
		}
	}
}

func (check) Run(seed int64, tier string, idx int, verbose bool) harness.Result {
	res := harness.NewR(idx)
	nRandom := randomCases(tier)
	if idx >= nRandom {
		runEnum(res, seed, tier, idx-nRandom, verbose)
		return res.Done()
	}
	r := rand.New(rand.NewSource(harness.Mix(seed, "C01", idx)))
	depth := 3
	if tier == "thorough" && r.Intn(4) == 0 {
		depth = 5
	}
	o := gen.TreeOpts{Depth: depth}
	// a quarter of the chains is repeated with one operand holding its
	// containers by reference (VarExp on): no '$' in their strings
	withRefs := r.Intn(4) == 0
	if withRefs {
		o.Prims = noDollar
	}
	// the chain ends with a merge between two handles of the target
	sharedRoot := !withRefs && r.Intn(6) == 0
	base := r.Intn(len(policies))
	chain := gen.Chain(r, o, 2+r.Intn(3), depth)
	ops := make([]operand, len(chain))
	for i, t := range chain {
		ops[i] = plain(t, reps[r.Intn(len(reps))], base)
		if r.Intn(8) == 0 {
			// give the operand both parts: its own plus the missing one from a small tree
			extra := gen.Top(r, o, 2)
			mixed := t.Copy()
			if len(mixed.A) == 0 && len(extra.A) > 0 {
				mixed.A, mixed.HasA = extra.Copy().A, true
			} else if len(mixed.D) == 0 && len(extra.D) > 0 {
				mixed.D = extra.Copy().D
			}
			if len(mixed.D) > 0 && len(mixed.A) > 0 {
				chain[i] = mixed
				ops[i] = plain(mixed, "config-mixed", base)
			}
		}
	}
	// emptiness clashes: an explicit empty list in one operand, nil / {} / [] at
	// the same place of the next one
	for i := 1; i < len(ops); i++ {
		if r.Intn(4) == 0 && plantEmptinessClash(r, ops[i-1].tree, ops[i].tree) {
			res.Ev("planted_emptiness_clashes", 1)
		}
	}
	// nil in one operand at the place of a primitive of the one before
	for i := 1; i < len(ops); i++ {
		if r.Intn(4) == 0 && plantNilOverPrimitive(r, ops[i-1].tree, ops[i].tree) {
			res.Ev("planted_nil_over_primitive", 1)
		}
	}
	// chains repeated with references: a later operand says nil (mostly) at
	// the place of a container of an earlier one
	if withRefs && r.Intn(2) == 0 {
		i := r.Intn(len(ops) - 1)
		j := i + 1 + r.Intn(len(ops)-1-i)
		if plantOverContainer(r, ops[i].tree, ops[j].tree) {
			res.Ev("planted_nil_or_other_over_container", 1)
		}
	}
	// the policy may change from step to step
	if r.Intn(3) == 0 {
		for i := range ops {
			if r.Intn(2) == 0 {
				ops[i].pol = r.Intn(len(policies))
			}
		}
	}
	// the target itself as the source of a step that is followed by another
	// one; half of the time it doubles the lists (append / prepend) and the
	// next step merges index-wise into the doubled lists
	if !withRefs && r.Intn(8) == 0 {
		at := 1 + r.Intn(len(ops)-1)
		self := operand{rep: "self", pol: ops[at].pol, reuse: -1, self: true}
		if r.Intn(2) == 0 {
			self.pol = 3 + r.Intn(2) // append, prepend
			if r.Intn(2) == 0 {
				ops[at].pol = 0 // default
			}
		}
		ops = append(ops[:at], append([]operand{self}, ops[at:]...)...)
	}
	// the very same *Config source once more, after at least one other merge
	if r.Intn(3) == 0 {
		j := r.Intn(len(ops) - 1)
		if !ops[j].self {
			switch ops[j].rep {
			case "config", "child", "config-mixed":
			default:
				ops[j].rep = "config"
			}
			again := ops[j]
			again.reuse = j
			if r.Intn(2) == 0 {
				again.pol = ops[len(ops)-1].pol
			}
			ops = append(ops, again)
		}
	}
	runChain(res, r, base, ops, withRefs, sharedRoot, verbose)
	if idx < 2 {
		res.Sample = describe(ops)
	}
	return res.Done()
}

func describe(ops []operand) map[string]interface{} {
	var l []string
	for _, o := range ops {
		pn := policies[o.pol].p.String()
		switch {
		case o.self:
			l = append(l, pn+"/self")
		case o.reuse >= 0:
			l = append(l, fmt.Sprintf("%s/%s(same object as operand %d):%s", pn, o.rep, o.reuse, o.tree.String()))
		default:
			l = append(l, pn+"/"+o.rep+":"+o.tree.String())
		}
	}
	return map[string]interface{}{"operands": l}
}

func runChain(res *harness.R, r *rand.Rand, base int, ops []operand, withRefs, sharedRoot, verbose bool) {
	desc := func() string {
		return fmt.Sprintf("operands (policy/representation:tree)=%v", strings.Join(describe(ops)["operands"].([]string), " ; "))
	}
	c := ucfg.New()
	m := &model.Node{Kind: model.KSub}
	var usedReps []string
	srcs := make([]interface{}, len(ops))  // the source objects as built
	orig := make([]string, len(ops))       // what a *Config source unpacked to when it was built
	trees := make([]*model.Node, len(ops)) // what each step merged
	selfSeen, reusedSteps, mixedPolicies := false, 0, false
	panicked, pv, where := harness.Safe(func() {
		prev, err := observe(c)
		if err != nil {
			res.Violate("unpack-error", "Unpack of the empty config failed: %v", err)
			return
		}
		for i, op := range ops {
			pol := policies[op.pol]
			if op.pol != base {
				mixedPolicies = true
			}
			var src interface{}
			var rep string
			var b *model.Node
			var reusedCfg *ucfg.Config
			var spellSeed int64
			var spellUsed []string
			if op.self {
				src, rep, b = c, "self", m.Copy()
				selfSeen = true
			} else {
				b = op.tree
				if op.reuse >= 0 {
					reusedCfg, _ = srcs[op.reuse].(*ucfg.Config)
				}
				if reusedCfg != nil {
					src, rep = reusedCfg, usedReps[op.reuse]+"-again"
					reusedSteps++
				} else {
					var err error
					if op.rep == "spelled" && !(len(op.tree.D) > 0 && len(op.tree.A) > 0) {
						spellSeed = r.Int63()
						src, spellUsed = spelled(spellSeed, op.tree, nil)
						rep = "spelled"
					} else {
						src, rep, err = source(r, op.tree, op.rep)
					}
					if err != nil {
						usedReps = append(usedReps, rep)
						res.Violate("source-build-error", "building operand %d failed: %v; %s", i, err, desc())
						return
					}
					srcs[i] = src
					if cfg, ok := src.(*ucfg.Config); ok {
						orig[i], _ = obs.Top(cfg)
						res.Eval(1)
					}
				}
			}
			usedReps = append(usedReps, rep)
			trees[i] = b
			for _, class := range spellUsed {
				res.Ev("spelled:"+class, 1)
			}
			// a deviation at a step whose source uses other spellings is
			// classified by re-rendering the source (once, on demand)
			var blame *string
			spellSuffix := func() string {
				if rep != "spelled" {
					return ""
				}
				if blame == nil {
					b := spellingBlame(ops[:i+1], trees[:i+1], spellSeed, spellUsed)
					blame = &b
				}
				return *blame
			}
			aBefore := m.Copy()
			res.Eval(1)
			if err := c.Merge(src, pol.opts...); err != nil {
				res.Violate("merge-error", "Merge of operand %d returned error %v; %s", i, err, desc())
				if p := obs.TypedErrorProblem(err); p != "" {
					res.Violate("untyped-error", "%s", p)
				}
				return
			}
			model.Merge(m, b.Copy(), nil, model.Global(pol.p))
			got, err := observe(c)
			res.Eval(1)
			if err != nil {
				res.Violate("unpack-error", "Unpack after merging operand %d failed: %v; %s", i, err, desc())
				return
			}
			if want := m.CanonTop(); got.canon != want {
				// classify: was a *Config source that is used again altered by the merges in between?
				sig, note := "merge-model-mismatch", ""
				if reusedCfg != nil {
					if now, err := obs.Top(reusedCfg); err != nil || now != orig[op.reuse] {
						sig = "merge-model-mismatch:reused-config-source-no-longer-holds-what-it-was-built-from"
						note = fmt.Sprintf(" (the source unpacked to %s when built, to %s now, err=%v)", orig[op.reuse], now, err)
					}
				}
				if sig == "merge-model-mismatch" {
					if sfx := spellSuffix(); sfx != "" {
						sig += sfx
						note = fmt.Sprintf(" (spellings used: %v)", spellUsed)
					}
				}
				if sig == "merge-model-mismatch" && selfSeen && plainTwinAgrees(res, ops[:i+1], trees[:i+1]) {
					// the same steps with the target's contents handed in as plain data are fine
					sig = "merge-model-mismatch:only-with-target-as-its-own-source"
				}
				res.Violate(sig, "after merging operand %d (%s, %v): got %s want %s%s; %s", i, rep, pol.p, got.canon, want, note, desc())
				return
			}
			if !op.self {
				emptinessLaws(res, prev, got, aBefore, b, pol.p, desc, spellSuffix)
				if len(res.Violations) > 0 {
					return
				}
			}
			prev = got
		}
	})
	if panicked {
		res.Violate("panic", "panic %q at %s; %s", pv, where, desc())
		return
	}
	if len(usedReps) != len(ops) || len(res.Violations) > 0 {
		return
	}
	if verbose {
		fmt.Printf("chain %s\n  result %s\n", desc(), m.CanonTop())
	}
	for _, rep := range usedReps {
		res.SetAdd("representation", rep)
	}
	for _, op := range ops {
		res.SetAdd("policy", policies[op.pol].p.String())
	}
	if mixedPolicies {
		res.Ev("chains_with_policy_changing_between_steps", 1)
	}
	if selfSeen {
		res.Ev("chains_with_target_as_source_step", 1)
	}
	if reusedSteps > 0 {
		res.Ev("chains_with_same_config_object_merged_again", 1)
	}
	nt := 0
	for _, t := range trees {
		if nonEmpty(t) {
			nt++
		}
	}
	ov := false
	for i := 1; i < len(trees); i++ {
		if overlap(trees[i-1], trees[i]) {
			ov = true
			clashes(res, trees[i-1], trees[i], 0)
		}
	}
	if nt >= 2 && ov {
		var k strings.Builder
		for i, op := range ops {
			fmt.Fprintf(&k, "|%d:%s", op.pol, usedReps[i])
			if !op.self {
				k.WriteString(":" + op.tree.String())
			}
		}
		res.Key(k.String())
	}
	laws(res, policies[base].p, policies[base].opts, ops, desc)
	if len(res.Violations) > 0 {
		return
	}
	if withRefs {
		referenceTwin(res, r, ops, trees, desc)
	}
	if sharedRoot {
		sharedRootStep(res, r, c, m, desc)
	}
}

// hasNestedMixed reports whether a node below the root carries both parts
// (plain Go data cannot express that).
func hasNestedMixed(n *model.Node, root bool) bool {
	if !n.IsSub() {
		return false
	}
	if !root && len(n.D) > 0 && len(n.A) > 0 {
		return true
	}
	for _, v := range n.D {
		if hasNestedMixed(v, false) {
			return true
		}
	}
	for _, v := range n.A {
		if hasNestedMixed(v, false) {
			return true
		}
	}
	return false
}

// plainTwinAgrees repeats the steps on a fresh target with every source -
// the target-as-source steps too - handed in as freshly built plain data, and
// reports whether that twin agrees with the model. Used only to classify a
// deviation seen in a chain that contains a target-as-source step.
func plainTwinAgrees(res *harness.R, ops []operand, trees []*model.Node) bool {
	c := ucfg.New()
	m := &model.Node{Kind: model.KSub}
	for k, t := range trees {
		if t == nil || hasNestedMixed(t, true) {
			return false
		}
		rep := "map"
		if len(t.D) > 0 && len(t.A) > 0 {
			rep = "config-mixed"
		}
		src, _, err := source(nil, t, rep)
		if err != nil {
			return false
		}
		pol := policies[ops[k].pol]
		res.Eval(1)
		if err := c.Merge(src, pol.opts...); err != nil {
			return false
		}
		model.Merge(m, t.Copy(), nil, model.Global(pol.p))
	}
	got, err := observe(c)
	return err == nil && got.canon == m.CanonTop()
}

// laws asserts the derived, model-independent laws of the statement.
func laws(res *harness.R, p model.Policy, opts []ucfg.Option, ops []operand, desc func() string) {
	x := ops[0].tree
	if len(x.D) > 0 && len(x.A) > 0 {
		return // the laws are stated on plain Go data, which cannot express a node with both parts
	}
	panicked, pv, where := harness.Safe(func() {
		base, err := ucfg.NewFrom(x.ToGo())
		if err != nil {
			return
		}
		want, err := obs.Top(base)
		if err != nil {
			return
		}
		// X merged with the empty config, both directions
		c1, _ := ucfg.NewFrom(x.ToGo())
		for _, e := range []interface{}{map[string]interface{}{}, []interface{}{}, ucfg.New()} {
			if err := c1.Merge(e, opts...); err != nil {
				res.Violate("law-identity", "merging an empty %T returned %v", e, err)
			}
		}
		res.Eval(3)
		if got, _ := obs.Top(c1); got != want {
			res.Violate("law-identity", "X.Merge(empty) changed X under %v: got %s want %s; X=%s", p, got, want, x)
		}
		c2 := ucfg.New()
		c2.Merge(map[string]interface{}{}, opts...)
		if err := c2.Merge(x.ToGo(), opts...); err != nil {
			res.Violate("law-identity", "empty.Merge(X) failed: %v", err)
		}
		res.Eval(2)
		if got, _ := obs.Top(c2); got != want {
			res.Violate("law-identity", "empty.Merge(X) differs from X under %v: got %s want %s; X=%s", p, got, want, x)
		}
		// self merge
		if p == model.PDefault || p == model.PReplace || p == model.PArrReplace {
			c3, _ := ucfg.NewFrom(x.ToGo())
			cp, _ := ucfg.NewFrom(x.ToGo())
			if err := c3.Merge(cp, opts...); err != nil {
				res.Violate("law-self-merge", "X.Merge(copy of X) failed: %v", err)
			}
			res.Eval(1)
			if got, _ := obs.Top(c3); got != want {
				res.Violate("law-self-merge", "X.Merge(copy of X) changed X under %v: got %s want %s; X=%s", p, got, want, x)
			}
			if p != model.PArrReplace {
				c4, _ := ucfg.NewFrom(x.ToGo())
				if err := c4.Merge(c4, opts...); err != nil {
					res.Violate("law-self-merge", "X.Merge(X) failed: %v", err)
				}
				res.Eval(1)
				if got, _ := obs.Top(c4); got != want {
					res.Violate("law-self-merge", "X.Merge(X) changed X under %v: got %s want %s; X=%s", p, got, want, x)
				}
			}
		}
		// append / prepend: length is the sum, both orders preserved
		if (p == model.PAppend || p == model.PPrepend) && len(ops) > 1 {
			a, b := ops[0].tree, ops[1].tree
			if !ops[1].self && len(a.A) > 0 && len(b.A) > 0 && len(a.D) == 0 && len(b.D) == 0 {
				c5, _ := ucfg.NewFrom(a.ToGo())
				if err := c5.Merge(b.ToGo(), opts...); err != nil {
					res.Violate("law-append", "append/prepend merge failed: %v", err)
					return
				}
				var got []interface{}
				if err := c5.Unpack(&got); err != nil {
					res.Violate("law-append", "unpack failed: %v", err)
					return
				}
				res.Eval(1)
				first, second := a, b
				if p == model.PPrepend {
					first, second = b, a
				}
				wantL := model.List()
				for _, e := range first.A {
					wantL.A = append(wantL.A, e)
				}
				for _, e := range second.A {
					wantL.A = append(wantL.A, e)
				}
				if len(got) != len(a.A)+len(b.A) || model.CanonIfc(got) != wantL.Canon() {
					res.Violate("law-append", "policy %v: lists of length %d and %d gave %s, want %s", p, len(a.A), len(b.A), model.CanonIfc(got), wantL.Canon())
				}
				res.Ev("law_append_checked", 1)
			}
		}
	})
	if panicked {
		res.Violate("panic", "panic %q at %s in laws; %s", pv, where, desc())
	}
}

func runEnum(res *harness.R, seed int64, tier string, chunk int, verbose bool) {
	total := enumPairs()
	n := len(smallTrees)
	start := chunk * enumChunk
	if tier != "thorough" {
		// quick: a seed-chosen slice of the pair space
		r := rand.New(rand.NewSource(harness.Mix(seed, "C01enum", chunk)))
		start = r.Intn(total/enumChunk) * enumChunk
	}
	for i := start; i < start+enumChunk && i < total; i++ {
		a, b := smallTrees[i/n], smallTrees[i%n]
		for _, pol := range policies {
			c := ucfg.New()
			m := &model.Node{Kind: model.KSub}
			panicked, pv, where := harness.Safe(func() {
				prev, err := observe(c)
				if err != nil {
					res.Violate("unpack-error", "Unpack of the empty config failed: %v", err)
					return
				}
				for _, t := range []*model.Node{a, b} {
					res.Eval(1)
					if err := c.Merge(t.ToGo(), pol.opts...); err != nil {
						res.Violate("merge-error", "Merge returned %v; policy=%v A=%s B=%s", err, pol.p, a, b)
						return
					}
					aBefore := m.Copy()
					model.Merge(m, t.Copy(), nil, model.Global(pol.p))
					got, err := observe(c)
					res.Eval(1)
					if err != nil {
						res.Violate("unpack-error", "Unpack failed: %v; policy=%v A=%s B=%s", err, pol.p, a, b)
						return
					}
					if want := m.CanonTop(); got.canon != want {
						res.Violate("merge-model-mismatch", "enumerated pair: got %s want %s; policy=%v A=%s B=%s", got.canon, want, pol.p, a, b)
						return
					}
					emptinessLaws(res, prev, got, aBefore, t, pol.p, func() string {
						return fmt.Sprintf("enumerated pair: policy=%v A=%s B=%s", pol.p, a, b)
					}, nil)
					prev = got
				}
			})
			if panicked {
				res.Violate("panic", "panic %q at %s; policy=%v A=%s B=%s", pv, where, pol.p, a, b)
			}
			if nonEmpty(a) && nonEmpty(b) && overlap(a, b) {
				res.Key(fmt.Sprintf("enum|%d|%s|%s", pol.p, a, b))
			}
			res.Ev("enumerated_pairs_x_policy", 1)
		}
	}
	if verbose {
		fmt.Printf("enumerated pairs %d..%d of %d\n", start, start+enumChunk, total)
	}
}
