package c01

import (
	"fmt"
	"math/rand"
	"reflect"
	"sort"
	"strings"

	ucfg "github.com/elastic/go-ucfg"

	"verif/internal/harness"
	"verif/internal/model"
)

// Representation "spelled": the operand is handed in as Go data in which nil,
// the empty list, the empty object and objects are written in the other ways
// Go offers for the same tree - typed nil pointers, typed nil / empty slices,
// empty arrays, nil / empty typed maps, empty structs, run-time built structs
// whose fields have exactly these types (so that the zero value of the field
// IS the spelling), pointers to values. "With the source given as map, struct
// or *Config": the tree is the same, so the oracle is the same (merge model +
// empty-list laws). A deviation seen with such an operand is classified by
// re-rendering the operand with one spelling class at a time.

const (
	spNilPtrField   = "nil-as-nil-pointer-struct-field"
	spNilPtrValue   = "nil-as-nil-pointer-in-map-or-list"
	spNilSliceField = "empty-list-as-nil-slice-struct-field"
	spNilSliceValue = "empty-list-as-nil-slice-in-map-or-list"
	spEmptyTyped    = "empty-list-as-empty-typed-slice"
	spEmptyArray    = "empty-list-as-empty-array"
	spNilMap        = "empty-object-as-nil-map"
	spEmptyTypedMap = "empty-object-as-empty-typed-map"
	spEmptyStruct   = "empty-object-as-empty-struct"
	spPtrToValue    = "pointer-to-value"
	spStruct        = "object-as-struct"
)

var (
	nilPtrTypes = []reflect.Type{
		reflect.TypeOf((*int)(nil)), reflect.TypeOf((*string)(nil)), reflect.TypeOf((*bool)(nil)),
		reflect.TypeOf((*float64)(nil)), reflect.TypeOf((*uint64)(nil)), reflect.TypeOf((*struct{ X int })(nil)),
	}
	nilSliceTypes = []reflect.Type{
		reflect.TypeOf([]interface{}(nil)), reflect.TypeOf([]string(nil)), reflect.TypeOf([]int(nil)), reflect.TypeOf([][]int(nil)),
	}
	nilMapTypes = []reflect.Type{
		reflect.TypeOf(map[string]interface{}(nil)), reflect.TypeOf(map[string]int(nil)), reflect.TypeOf(map[string][]string(nil)),
	}
	ifaceType = reflect.TypeOf((*interface{})(nil)).Elem()
)

type speller struct {
	r     *rand.Rand
	allow func(class string) bool // nil: every class
	used  map[string]bool
}

func (s *speller) ok(class string) bool {
	if s.allow != nil && !s.allow(class) {
		return false
	}
	s.used[class] = true
	return true
}

// value renders n. The random draws made for a node do not depend on allow, so
// that re-rendering with fewer classes keeps all other decisions. The result
// is invalid for the untyped nil. typedZero: the value is the zero value of
// its type (a struct field of that type spells it without holding anything).
func (s *speller) value(n *model.Node, inStruct bool) (v reflect.Value, typedZero bool) {
	switch {
	case n == nil || n.Kind == model.KNil:
		x, y := s.r.Intn(4), s.r.Intn(len(nilPtrTypes))
		class := spNilPtrValue
		if inStruct {
			class = spNilPtrField
		}
		if x >= 1 && s.ok(class) {
			return reflect.Zero(nilPtrTypes[y]), true
		}
		return reflect.Value{}, false
	case n.Kind == model.KPrim:
		x := s.r.Intn(6)
		pv := reflect.ValueOf(n.Prim)
		if x == 0 && s.ok(spPtrToValue) {
			p := reflect.New(pv.Type())
			p.Elem().Set(pv)
			return p, false
		}
		return pv, false
	case len(n.D) == 0 && len(n.A) == 0 && n.HasA:
		x, y := s.r.Intn(5), s.r.Intn(len(nilSliceTypes))
		class := spNilSliceValue
		if inStruct {
			class = spNilSliceField
		}
		switch {
		case (x == 1 || x == 2) && s.ok(class):
			return reflect.Zero(nilSliceTypes[y]), true
		case x == 3 && s.ok(spEmptyTyped):
			return reflect.MakeSlice(nilSliceTypes[y], 0, 0), false
		case x == 4 && s.ok(spEmptyArray):
			return reflect.Zero(reflect.ArrayOf(0, nilSliceTypes[y].Elem())), false
		}
		return reflect.ValueOf([]interface{}{}), false
	case len(n.D) == 0 && len(n.A) == 0:
		x, y := s.r.Intn(5), s.r.Intn(len(nilMapTypes))
		switch {
		case x == 2 && s.ok(spNilMap):
			return reflect.Zero(nilMapTypes[y]), true
		case x == 3 && s.ok(spEmptyTypedMap):
			return reflect.MakeMap(nilMapTypes[y]), false
		case x == 4 && s.ok(spEmptyStruct):
			if y == 0 {
				return reflect.ValueOf(&struct{}{}), false
			}
			return reflect.ValueOf(struct{}{}), false
		}
		return reflect.ValueOf(map[string]interface{}{}), false
	case len(n.D) == 0:
		l := make([]interface{}, 0, len(n.A))
		for _, e := range n.A {
			ev, _ := s.value(e, false)
			if ev.IsValid() {
				l = append(l, ev.Interface())
			} else {
				l = append(l, nil)
			}
		}
		return reflect.ValueOf(l), false
	}
	// a non-empty object (a list part next to it can not be written in Go data)
	keys := n.SortedKeys()
	asStruct := s.r.Intn(3) > 0
	for _, k := range keys {
		if k == "" || k == "-" || strings.ContainsAny(k, ",\"`\\") {
			asStruct = false
		}
	}
	if !asStruct || !s.ok(spStruct) {
		m := make(map[string]interface{}, len(keys))
		for _, k := range keys {
			ev, _ := s.value(n.D[k], false)
			s.r.Intn(2) // the draws of the struct rendering, to stay aligned with it
			if ev.IsValid() {
				m[k] = ev.Interface()
			} else {
				m[k] = nil
			}
		}
		s.r.Intn(3)
		return reflect.ValueOf(m), false
	}
	fields := make([]reflect.StructField, 0, len(keys))
	vals := make([]reflect.Value, 0, len(keys))
	for i, k := range keys {
		ev, zero := s.value(n.D[k], true)
		concrete := s.r.Intn(2) == 0
		ft := ifaceType
		if ev.IsValid() && (zero || concrete) {
			ft = ev.Type()
		}
		fields = append(fields, reflect.StructField{
			Name: fmt.Sprintf("F%d", i),
			Type: ft,
			Tag:  reflect.StructTag(fmt.Sprintf(`config:"%s"`, k)),
		})
		vals = append(vals, ev)
	}
	sv := reflect.New(reflect.StructOf(fields)).Elem()
	for i, ev := range vals {
		if ev.IsValid() {
			sv.Field(i).Set(ev)
		}
	}
	if s.r.Intn(3) == 0 {
		p := reflect.New(sv.Type())
		p.Elem().Set(sv)
		return p, false
	}
	return sv, false
}

// spelled renders the operand t (no node with both parts) from the given
// seed; allow restricts the spelling classes (nil: all). The top level is
// always a plain container.
func spelled(seed int64, t *model.Node, allow func(string) bool) (interface{}, []string) {
	s := &speller{r: rand.New(rand.NewSource(seed)), allow: allow, used: map[string]bool{}}
	var out interface{}
	if len(t.D) == 0 {
		l := make([]interface{}, 0, len(t.A))
		for _, e := range t.A {
			ev, _ := s.value(e, false)
			if ev.IsValid() {
				l = append(l, ev.Interface())
			} else {
				l = append(l, nil)
			}
		}
		out = l
		if len(t.A) == 0 && !t.HasA {
			out = map[string]interface{}{}
		}
	} else {
		v, _ := s.value(t, false)
		out = v.Interface()
	}
	used := make([]string, 0, len(s.used))
	for c := range s.used {
		used = append(used, c)
	}
	sort.Strings(used)
	return out, used
}

// replayStepOK repeats the steps before the last one with plain sources on a
// fresh target, merges src as the last step and applies the oracle of a step
// (model comparison + empty-list laws) to it. decided is false when the steps
// can not be repeated with plain data.
func replayStepOK(ops []operand, trees []*model.Node, src interface{}) (ok, decided bool) {
	c := ucfg.New()
	m := &model.Node{Kind: model.KSub}
	last := len(trees) - 1
	scratch := harness.NewR(0)
	panicked, _, _ := harness.Safe(func() {
		for k, t := range trees {
			if t == nil || hasNestedMixed(t, true) {
				return
			}
			var s interface{}
			if k == last {
				s = src
			} else {
				rep := "map"
				if len(t.D) > 0 && len(t.A) > 0 {
					rep = "config-mixed"
				}
				var err error
				if s, _, err = source(nil, t, rep); err != nil {
					return
				}
			}
			pol := policies[ops[k].pol]
			before, err := observe(c)
			if err != nil {
				return
			}
			aBefore := m.Copy()
			if err := c.Merge(s, pol.opts...); err != nil {
				if k == last {
					decided = true
				}
				return
			}
			model.Merge(m, t.Copy(), nil, model.Global(pol.p))
			if k < last {
				continue
			}
			decided = true
			got, err := observe(c)
			if err != nil || got.canon != m.CanonTop() {
				return
			}
			emptinessLaws(scratch, before, got, aBefore, t, pol.p, func() string { return "" }, nil)
			ok = len(scratch.Violations) == 0
		}
	})
	if panicked {
		return false, decided
	}
	return ok, decided
}

// spellingBlame classifies a deviation seen at the last step, whose source was
// spelled(seed, tree): "" when the plain map source deviates as well (or the
// question can not be decided), else the first spelling class that alone
// reproduces a deviation, else "a-combination-of-spellings".
func spellingBlame(ops []operand, trees []*model.Node, seed int64, used []string) string {
	t := trees[len(trees)-1]
	if ok, decided := replayStepOK(ops, trees, t.ToGo()); !decided || !ok {
		return ""
	}
	for _, class := range used {
		only := class
		src, _ := spelled(seed, t, func(c string) bool {
			// the struct classes need the object written as a struct
			return c == only || (c == spStruct && strings.HasSuffix(only, "struct-field"))
		})
		if ok, decided := replayStepOK(ops, trees, src); decided && !ok {
			return ":only-when-the-source-spells-" + class
		}
	}
	return ":only-when-the-source-spells-a-combination"
}

// plantNilOverPrimitive makes b hold nil at the place of a primitive of a (a
// nil of B is B's value there: the setting becomes nil).
func plantNilOverPrimitive(r *rand.Rand, a, b *model.Node) bool {
	if len(a.D) > 0 && len(a.A) > 0 || len(b.D) > 0 && len(b.A) > 0 {
		return false
	}
	var prims [][]pseg
	for _, p := range nodePaths(a) {
		if modelAt(a, p).IsPrim() {
			prims = append(prims, p)
		}
	}
	if len(prims) == 0 {
		return false
	}
	bc := b.Copy()
	if !setAt(bc, prims[r.Intn(len(prims))], model.Nil()) {
		return false
	}
	*b = *bc
	return true
}
