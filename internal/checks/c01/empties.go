package c01

import (
	"fmt"
	"math/rand"
	"sort"
	"strconv"
	"strings"

	ucfg "github.com/elastic/go-ucfg"

	"verif/internal/harness"
	"verif/internal/model"
)

// The canonical comparison with the merge model equates nil, {}, [] and an
// absent key. Two sentences of C01 are about exactly that family and are
// asserted here as conservation laws on the raw unpacked data, independent of
// the merge model:
//
//  kept:  a place at which the target unpacked to an explicit empty list
//         before the merge still unpacks to an empty list afterwards when the
//         source holds nil ("a nil in B leaves a container of A in place"),
//         {} or [] ("an empty list or dictionary in B replaces nothing") or
//         nothing at all at that place;
//  taken: an explicit empty list of the source shows up in the result where
//         the target held nothing or a primitive ("union of the dictionaries",
//         "B's value wherever the two sides are not both containers").
//
// Everything else about emptiness (nil <- [], {} <- [], nil-valued keys) is
// not pinned down by the statement and is not compared.

// pseg is one step of a path through unpacked data: a dictionary key or a
// list index.
type pseg struct {
	key   string
	idx   int
	isIdx bool
}

func pathString(p []pseg) string {
	var b strings.Builder
	for i, s := range p {
		if s.isIdx {
			fmt.Fprintf(&b, "[%d]", s.idx)
			continue
		}
		if i > 0 {
			b.WriteByte('.')
		}
		b.WriteString(s.key)
	}
	return b.String()
}

func extend(p []pseg, s pseg) []pseg {
	q := make([]pseg, len(p)+1)
	copy(q, p)
	q[len(p)] = s
	return q
}

// obsv is a config observed through Unpack into a map and into a slice.
type obsv struct {
	m     map[string]interface{}
	a     []interface{}
	canon string
}

func observe(c *ucfg.Config) (obsv, error) {
	var o obsv
	if err := c.Unpack(&o.m); err != nil {
		return o, fmt.Errorf("unpack into map: %w", err)
	}
	if err := c.Unpack(&o.a); err != nil {
		return o, fmt.Errorf("unpack into slice: %w", err)
	}
	o.canon = model.CanonIfc(o.m) + "|" + model.CanonIfc(o.a)
	return o, nil
}

func isNumeric(k string) bool {
	if k == "" {
		return false
	}
	for _, c := range k {
		if c < '0' || c > '9' {
			return false
		}
	}
	return true
}

func isEmptyList(v interface{}) bool {
	l, ok := v.([]interface{})
	return ok && len(l) == 0
}

// emptyListPaths returns the places (below the top level) at which the
// observed data holds an explicit empty list. Decimal keys of maps are the
// list part of a node that carries both parts; they are not followed.
func emptyListPaths(o obsv) [][]pseg {
	var out [][]pseg
	var walk func(v interface{}, p []pseg)
	walk = func(v interface{}, p []pseg) {
		switch x := v.(type) {
		case map[string]interface{}:
			keys := make([]string, 0, len(x))
			for k := range x {
				keys = append(keys, k)
			}
			sort.Strings(keys)
			for _, k := range keys {
				if isNumeric(k) {
					continue
				}
				walk(x[k], extend(p, pseg{key: k}))
			}
		case []interface{}:
			if len(x) == 0 {
				if len(p) > 0 {
					out = append(out, p)
				}
				return
			}
			for i, e := range x {
				walk(e, extend(p, pseg{idx: i, isIdx: true}))
			}
		}
	}
	walk(o.m, nil)
	walk(o.a, nil)
	return out
}

// lookup follows a path through the observed data. A node carrying both
// parts unpacks to a map whose list part sits under the decimal keys.
func lookup(o obsv, path []pseg) (interface{}, bool) {
	if len(path) == 0 {
		return nil, false
	}
	var cur interface{} = o.m
	if path[0].isIdx {
		cur = o.a
	}
	for _, s := range path {
		switch x := cur.(type) {
		case map[string]interface{}:
			k := s.key
			if s.isIdx {
				k = strconv.Itoa(s.idx)
			}
			v, ok := x[k]
			if !ok {
				return nil, false
			}
			cur = v
		case []interface{}:
			if !s.isIdx || s.idx >= len(x) {
				return nil, false
			}
			cur = x[s.idx]
		default:
			return nil, false
		}
	}
	return cur, true
}

func isExplicitEmptyList(n *model.Node) bool {
	return n.IsSub() && n.HasA && len(n.D) == 0 && len(n.A) == 0
}

// keptWhere decides whether the statement demands that the empty list the
// target holds at path survives the merge of b under pol, where it sits
// afterwards (prepend shifts indices) and what b holds at the place.
func keptWhere(b *model.Node, path []pseg, pol model.Policy) (after []pseg, bHolds string, claim bool) {
	cur := b
	for i, s := range path {
		var next *model.Node
		if !s.isIdx {
			if pol == model.PReplace && len(cur.D) > 0 {
				return nil, "", false // the dictionary of the target is swapped wholesale
			}
			next = cur.D[s.key]
			after = append(after, s)
		} else {
			switch pol {
			case model.PReplace, model.PArrReplace:
				if len(cur.A) > 0 {
					return nil, "", false // the list of the target is replaced
				}
				after = append(after, s)
			case model.PAppend:
				after = append(after, s)
			case model.PPrepend:
				after = append(after, pseg{idx: s.idx + len(cur.A), isIdx: true})
			default:
				if s.idx < len(cur.A) {
					next = cur.A[s.idx]
				}
				after = append(after, s)
			}
		}
		last := i == len(path)-1
		switch {
		case next == nil:
			return append(after, path[i+1:]...), "nothing", true
		case next.Kind == model.KNil:
			return append(after, path[i+1:]...), "nil", true
		case next.Kind == model.KPrim:
			return nil, "", false
		}
		if last {
			if len(next.D) > 0 || len(next.A) > 0 {
				return nil, "", false
			}
			if next.HasA {
				return after, "empty-list", true
			}
			return after, "empty-dict", true
		}
		cur = next
	}
	return nil, "", false
}

type takenClaim struct {
	path   []pseg
	aHolds string
}

// takenWhere lists the places at which b holds an explicit empty list while
// the target a (the accumulated operands, nil = nothing there) holds nothing,
// a primitive or nil: none of these is a container, so B's value - the empty
// list - is the result. Lists are followed by the rule of the policy: the
// element i of b meets the element i of a (default), lands behind a's
// elements (append) or at i (prepend, replace).
func takenWhere(a, b *model.Node, pol model.Policy, path []pseg, top bool, out *[]takenClaim) {
	visit := func(old, v *model.Node, p []pseg) {
		if !v.IsSub() {
			return
		}
		if len(v.D) == 0 && len(v.A) == 0 {
			if v.HasA {
				switch {
				case old == nil:
					*out = append(*out, takenClaim{p, "nothing"})
				case old.IsPrim():
					*out = append(*out, takenClaim{p, "primitive"})
				case old.Kind == model.KNil:
					*out = append(*out, takenClaim{p, "nil"})
				}
			}
			return
		}
		if old.IsSub() {
			takenWhere(old, v, pol, p, false, out)
		} else {
			takenWhere(nil, v, pol, p, false, out)
		}
	}
	for _, k := range b.SortedKeys() {
		if isNumeric(k) {
			continue
		}
		var old *model.Node
		if a.IsSub() && pol != model.PReplace {
			old = a.D[k]
		}
		visit(old, b.D[k], extend(path, pseg{key: k}))
	}
	la := 0
	if a.IsSub() {
		if !top && len(a.D) > 0 && len(a.A) > 0 {
			return // the length of the list part of such a node is not observable (decimal keys, nil entries dropped)
		}
		la = len(a.A)
	}
	for i, v := range b.A {
		var old *model.Node
		at := i
		switch pol {
		case model.PDefault:
			if i < la {
				old = a.A[i]
			}
		case model.PAppend:
			at = la + i
		}
		visit(old, v, extend(path, pseg{idx: at, isIdx: true}))
	}
}

func describeObserved(v interface{}, ok bool) string {
	if !ok {
		return "<nothing>"
	}
	return model.CanonIfc(v) + fmt.Sprintf(" (%T)", v)
}

// emptinessLaws asserts the two laws for one merge step: before/after are the
// observations of the target, aBefore is the model of what had been merged
// into the target before, b the tree merged in this step.
func emptinessLaws(res *harness.R, before, after obsv, aBefore, b *model.Node, pol model.Policy, desc func() string, suffix func() string) {
	sfx := func() string {
		if suffix == nil {
			return ""
		}
		return suffix()
	}
	for _, p := range emptyListPaths(before) {
		where, bHolds, claim := keptWhere(b, p, pol)
		if !claim {
			continue
		}
		res.Ev("empty_list_of_target_vs_"+bHolds+"_in_source", 1)
		res.SetAdd("empty_list_kept_class", pol.String()+":"+bHolds)
		got, ok := lookup(after, where)
		if !ok || !isEmptyList(got) {
			res.Violate("empty-list-of-a-not-kept:b-holds-"+bHolds+sfx(),
				"the target unpacked to an empty list at %s before the merge, the source holds %s there, afterwards %s unpacks to %s; policy of the step=%v; %s",
				pathString(p), bHolds, pathString(where), describeObserved(got, ok), pol, desc())
		}
	}
	var claims []takenClaim
	takenWhere(aBefore, b, pol, nil, true, &claims)
	for _, cl := range claims {
		res.Ev("empty_list_of_source_over_"+cl.aHolds+"_in_target", 1)
		res.SetAdd("empty_list_taken_class", pol.String()+":"+cl.aHolds)
		got, ok := lookup(after, cl.path)
		if !ok || !isEmptyList(got) {
			res.Violate("empty-list-of-b-not-taken:a-holds-"+cl.aHolds+sfx(),
				"the source holds an empty list at %s, the target held %s there, afterwards it unpacks to %s; policy of the step=%v; %s",
				pathString(cl.path), cl.aHolds, describeObserved(got, ok), pol, desc())
		}
	}
}

// ---- generation: emptiness clashes at the same place of two consecutive operands

// nodePaths lists the places below the root of t (through keys and indices).
func nodePaths(t *model.Node) [][]pseg {
	var out [][]pseg
	var walk func(n *model.Node, p []pseg)
	walk = func(n *model.Node, p []pseg) {
		if !n.IsSub() {
			return
		}
		for _, k := range n.SortedKeys() {
			q := extend(p, pseg{key: k})
			out = append(out, q)
			walk(n.D[k], q)
		}
		if len(n.D) > 0 {
			return // a node with both parts: the list part is not addressed
		}
		for i, e := range n.A {
			q := extend(p, pseg{idx: i, isIdx: true})
			out = append(out, q)
			walk(e, q)
		}
	}
	walk(t, nil)
	return out
}

// setAt stores v at path inside t, creating the containers on the way (lists
// are padded with nil elements, which leave the target's elements in place).
// It gives up (false) where that would need a node with both parts.
func setAt(t *model.Node, path []pseg, v *model.Node) bool {
	cur := t
	for i, s := range path {
		last := i == len(path)-1
		var child *model.Node
		if s.isIdx {
			if len(cur.D) > 0 || s.idx > 4 {
				return false
			}
			for len(cur.A) <= s.idx {
				cur.A = append(cur.A, model.Nil())
			}
			cur.HasA = true
			if last {
				cur.A[s.idx] = v
				return true
			}
			child = cur.A[s.idx]
			if !child.IsSub() {
				child = &model.Node{Kind: model.KSub}
				cur.A[s.idx] = child
			}
		} else {
			if len(cur.A) > 0 {
				return false
			}
			cur.HasA = false
			if cur.D == nil {
				cur.D = map[string]*model.Node{}
			}
			if last {
				cur.D[s.key] = v
				return true
			}
			child = cur.D[s.key]
			if !child.IsSub() {
				child = &model.Node{Kind: model.KSub}
				cur.D[s.key] = child
			}
		}
		cur = child
	}
	return false
}

// plantEmptinessClash makes a hold an explicit empty list at a random place
// and b hold nil, {} or [] at the same place.
func plantEmptinessClash(r *rand.Rand, a, b *model.Node) bool {
	if len(a.D) > 0 && len(a.A) > 0 || len(b.D) > 0 && len(b.A) > 0 {
		return false
	}
	paths := nodePaths(a)
	if len(paths) == 0 {
		ks := []string{"a", "b", "c"}
		paths = [][]pseg{{{key: ks[r.Intn(len(ks))]}}}
		if a.HasA {
			paths = [][]pseg{{{idx: 0, isIdx: true}}}
		}
	}
	for try := 0; try < 3; try++ {
		p := paths[r.Intn(len(paths))]
		var v *model.Node
		switch r.Intn(3) {
		case 0:
			v = model.Nil()
		case 1:
			v = model.Dict()
		default:
			v = model.List()
		}
		bc := b.Copy()
		if !setAt(bc, p, v) {
			continue
		}
		if !setAt(a, p, model.List()) {
			continue
		}
		*b = *bc
		return true
	}
	return false
}
