package c01

import (
	"fmt"
	"math/rand"
	"sort"
	"strconv"
	"strings"

	ucfg "github.com/elastic/go-ucfg"

	"verif/internal/gen"
	"verif/internal/harness"
	"verif/internal/model"
)

// Operands holding their containers by reference (VarExp). A setting of one
// operand whose value is a non-empty object or list is moved to a top-level
// setting r<i> (a name no tree uses) and replaced by the reference ${r<i>},
// optionally through a chain ${r<i>} -> ${r<i>x}. Unpacked, the operand is the
// same tree plus the r<i> settings, so the chain merged with VarExp on must -
// without the r<i> settings - unpack to what the statement demands for the
// literal trees after every step (the merge model), whatever the later
// operands hold at the place of the reference: nil leaves the container in
// place, a container is merged with it, a primitive replaces it.

// noDollar is the primitive pool without strings VarExp would read as syntax.
var noDollar = func() []interface{} {
	var l []interface{}
	for _, p := range gen.Prims {
		if s, ok := p.(string); ok && strings.Contains(s, "$") {
			continue
		}
		l = append(l, p)
	}
	return l
}()

type refSite struct {
	path  []pseg
	key   string
	chain bool
}

func (s refSite) String() string {
	c := ""
	if s.chain {
		c = " via ${" + s.key + "x}"
	}
	return fmt.Sprintf("%s=${%s}%s", pathString(s.path), s.key, c)
}

// containerSites lists the places below n that hold a non-empty container.
func containerSites(n *model.Node) [][]pseg {
	var out [][]pseg
	for _, p := range nodePaths(n) {
		if c := modelAt(n, p); c.IsSub() && len(c.D)+len(c.A) > 0 && len(p) <= 4 {
			out = append(out, p)
		}
	}
	return out
}

// modelAt follows a path through a model tree (nil: nothing there).
func modelAt(n *model.Node, path []pseg) *model.Node {
	for _, s := range path {
		if !n.IsSub() {
			return nil
		}
		if s.isIdx {
			if s.idx >= len(n.A) {
				return nil
			}
			n = n.A[s.idx]
		} else {
			c, ok := n.D[s.key]
			if !ok {
				return nil
			}
			n = c
		}
	}
	return n
}

func swapAt(n *model.Node, path []pseg, v *model.Node) *model.Node {
	parent := modelAt(n, path[:len(path)-1])
	s := path[len(path)-1]
	if s.isIdx {
		old := parent.A[s.idx]
		parent.A[s.idx] = v
		return old
	}
	old := parent.D[s.key]
	parent.D[s.key] = v
	return old
}

// withReferences derives the operand holding 1-2 of its containers by
// reference from t (a top-level dictionary).
func withReferences(r *rand.Rand, t *model.Node, later []*model.Node) (*model.Node, []refSite) {
	all := containerSites(t)
	if len(all) == 0 {
		return nil, nil
	}
	// prefer the places about which a later operand says something
	var near [][]pseg
	for _, q := range all {
		for _, l := range later {
			if kindAt(l, q) != "nothing" {
				near = append(near, q)
				break
			}
		}
	}
	n := 1 + r.Intn(2)
	var sites []refSite
	for i := 0; i < n; i++ {
		pool := all
		if len(near) > 0 && r.Intn(4) > 0 {
			pool = near
		}
		q := pool[r.Intn(len(pool))]
		dup := false
		for _, s := range sites {
			if pathString(s.path) == pathString(q) {
				dup = true
			}
		}
		if !dup {
			sites = append(sites, refSite{path: q, chain: r.Intn(3) == 0})
		}
	}
	// deepest first: a site inside another site's value ends up inside the
	// referenced value (a reference met while merging through a reference)
	sort.SliceStable(sites, func(i, j int) bool { return len(sites[i].path) > len(sites[j].path) })
	out := t.Copy()
	for i := range sites {
		s := &sites[i]
		s.key = "r" + strconv.Itoa(i)
		moved := swapAt(out, s.path, model.P("${"+s.key+"}"))
		if s.chain {
			out.D[s.key] = model.P("${" + s.key + "x}")
			out.D[s.key+"x"] = moved
		} else {
			out.D[s.key] = moved
		}
	}
	return out, sites
}

func kindAt(n *model.Node, path []pseg) string {
	c := modelAt(n, path)
	switch {
	case c == nil:
		return "nothing"
	case c.Kind == model.KNil:
		return "nil"
	case c.Kind == model.KPrim:
		return "primitive"
	case len(c.D) == 0 && len(c.A) == 0:
		return "empty-container"
	case len(c.A) > 0 && len(c.D) == 0:
		return "list"
	}
	return "object"
}

func refEligible(t *model.Node) bool {
	return t != nil && len(t.A) == 0 && !t.HasA && len(t.D) > 0 && len(containerSites(t)) > 0
}

// referenceTwin repeats the chain with one operand holding containers by
// reference, VarExp on, and compares the unpacked target with the merge model after every step.
func referenceTwin(res *harness.R, r *rand.Rand, ops []operand, trees []*model.Node, desc func() string) {
	var eligible []int
	for i, op := range ops {
		if op.self {
			return
		}
		if op.reuse < 0 && refEligible(trees[i]) {
			eligible = append(eligible, i)
		}
	}
	if len(eligible) == 0 {
		return
	}
	// the destination (first operand) most of the time
	k := eligible[0]
	if r.Intn(3) == 0 {
		k = eligible[r.Intn(len(eligible))]
	}
	tRef, sites := withReferences(r, trees[k], trees[k+1:])
	if tRef == nil {
		return
	}
	var sl []string
	for _, s := range sites {
		sl = append(sl, s.String())
	}
	rdesc := func() string {
		return fmt.Sprintf("operand %d holds %s: %s; %s", k, strings.Join(sl, ", "), tRef, desc())
	}
	varexp := []ucfg.Option{ucfg.VarExp}
	c := ucfg.New()
	m := &model.Node{Kind: model.KSub}
	met := map[string]bool{}
	panicked, pv, where := harness.Safe(func() {
		for i, op := range ops {
			pol := policies[op.pol]
			t := trees[i]
			if i == k {
				// (a later step using the same operand again merges the literal
				// tree: the r<i> settings are touched by no other step)
				t = tRef
			}
			var src interface{} = t.ToGo()
			if len(trees[i].D) > 0 && len(trees[i].A) > 0 {
				s, _, err := source(nil, t, "config-mixed")
				if err != nil {
					return
				}
				src = s
			} else if r.Intn(3) == 0 {
				cfg, err := ucfg.NewFrom(src, varexp...)
				if err != nil {
					res.Violate("reference-twin:source-build-error", "NewFrom of operand %d failed: %v; %s", i, err, rdesc())
					return
				}
				src = cfg
			}
			if i > k {
				for _, s := range sites {
					met[kindAt(trees[i], s.path)] = true
				}
			}
			res.Eval(1)
			if err := c.Merge(src, append(varexp, pol.opts...)...); err != nil {
				res.Violate("reference-twin:merge-error", "Merge of operand %d (VarExp) returned %v; %s", i, err, rdesc())
				return
			}
			model.Merge(m, trees[i].Copy(), nil, model.Global(pol.p))
			var om map[string]interface{}
			var oa []interface{}
			res.Eval(1)
			if err := c.Unpack(&om, varexp...); err != nil {
				res.Violate("reference-twin:unpack-error", "Unpack (VarExp) after operand %d failed: %v; %s", i, err, rdesc())
				return
			}
			if err := c.Unpack(&oa, varexp...); err != nil {
				res.Violate("reference-twin:unpack-error", "Unpack into slice (VarExp) after operand %d failed: %v; %s", i, err, rdesc())
				return
			}
			for _, s := range sites {
				delete(om, s.key)
				delete(om, s.key+"x")
			}
			got := model.CanonIfc(om) + "|" + model.CanonIfc(oa)
			want := m.CanonTop()
			if got == want {
				continue
			}
			// classify by what the operand of this step holds where the
			// deviating reference sits
			sig := "reference-twin-differs-from-literal-operands:away-from-the-references"
			if i == k {
				sig = "reference-twin-differs-from-literal-operands:step-bringing-the-references"
			} else {
				view := obsv{m: om, a: oa}
				outerFirst := append([]refSite(nil), sites...)
				sort.SliceStable(outerFirst, func(i, j int) bool { return len(outerFirst[i].path) < len(outerFirst[j].path) })
				for _, s := range outerFirst {
					v, ok := lookup(view, s.path)
					wantAt := "nil"
					if n := modelAt(m, s.path); n != nil {
						wantAt = n.Canon()
					}
					gotAt := "nil"
					if ok {
						gotAt = model.CanonIfc(v)
					}
					if gotAt != wantAt {
						sig = "reference-twin-differs-from-literal-operands:source-holds-" + kindAt(trees[i], s.path) + "-at-the-reference"
						break
					}
				}
			}
			res.Violate(sig, "after merging operand %d (%v, VarExp): got %s want %s; %s", i, pol.p, got, want, rdesc())
			return
		}
	})
	if panicked {
		res.Violate("panic", "panic %q at %s in the reference twin; %s", pv, where, rdesc())
		return
	}
	if len(res.Violations) > 0 {
		return
	}
	res.Ev("reference_twin_chains", 1)
	if k > 0 {
		res.Ev("reference_twin_chains_with_references_in_a_later_operand", 1)
	}
	for kind := range met {
		res.Ev("reference_meets_"+kind+"_of_later_operand", 1)
		res.SetAdd("reference_meets", kind)
	}
}

// ---- operands sharing their root with the target

// A handle to a part of the target (or the target itself) is merged into
// another part of the same configuration: child into parent, parent into
// child, sibling into sibling. The statement speaks about the two operands as
// they are when Merge is called, so the expectation is the merge of a
// snapshot of the source.

func keyPathsOfContainers(n *model.Node) [][]pseg {
	var out [][]pseg
	var walk func(c *model.Node, p []pseg)
	walk = func(c *model.Node, p []pseg) {
		for _, k := range c.SortedKeys() {
			v := c.D[k]
			if v.IsSub() && len(v.D)+len(v.A) > 0 && k != "" {
				q := extend(p, pseg{key: k})
				out = append(out, q)
				if len(q) < 3 {
					walk(v, q)
				}
			}
		}
	}
	walk(n, nil)
	return out
}

func handleAt(c *ucfg.Config, path []pseg) (*ucfg.Config, error) {
	cur := c
	for _, s := range path {
		ch, err := cur.Child(s.key, -1)
		if err != nil {
			return nil, err
		}
		cur = ch
	}
	return cur, nil
}

func isPrefix(p, q []pseg) bool {
	if len(p) > len(q) {
		return false
	}
	for i := range p {
		if p[i] != q[i] {
			return false
		}
	}
	return true
}

// sharedRootStep merges one part of c into another part of c and compares the
// target handle and the root with the model (m is updated in place).
func sharedRootStep(res *harness.R, r *rand.Rand, c *ucfg.Config, m *model.Node, desc func() string) {
	paths := append([][]pseg{nil}, keyPathsOfContainers(m)...)
	if len(paths) < 2 {
		return
	}
	ti := r.Intn(len(paths))
	si := r.Intn(len(paths) - 1)
	if si >= ti {
		si++
	}
	// prefer nested pairs: they are the ones in which one operand changes
	// while the other is read
	for try := 0; try < 3 && !isPrefix(paths[ti], paths[si]) && !isPrefix(paths[si], paths[ti]); try++ {
		si = r.Intn(len(paths) - 1)
		if si >= ti {
			si++
		}
	}
	tp, sp := paths[ti], paths[si]
	rel := "source-beside-the-target"
	switch {
	case isPrefix(tp, sp):
		rel = "source-is-part-of-the-target"
	case isPrefix(sp, tp):
		rel = "source-contains-the-target"
	}
	pol := policies[r.Intn(len(policies))]
	name := func(p []pseg) string {
		if len(p) == 0 {
			return "<root>"
		}
		return pathString(p)
	}
	sdesc := func() string {
		return fmt.Sprintf("then %s.Merge(%s, %v) on handles of the same configuration; %s", name(tp), name(sp), pol.p, desc())
	}
	panicked, pv, where := harness.Safe(func() {
		th, err := handleAt(c, tp)
		if err != nil {
			res.Ev("shared_root_handle_unavailable", 1)
			return
		}
		sh, err := handleAt(c, sp)
		if err != nil {
			res.Ev("shared_root_handle_unavailable", 1)
			return
		}
		tm, sm := modelAt(m, tp), modelAt(m, sp)
		snapshot := sm.Copy()
		res.Eval(1)
		if err := th.Merge(sh, pol.opts...); err != nil {
			res.Violate("merge-error:"+rel, "Merge returned %v; %s", err, sdesc())
			return
		}
		model.Merge(tm, snapshot, nil, model.Global(pol.p))
		res.Ev("shared_root_steps:"+rel, 1)
		res.SetAdd("shared_root_class", rel+":"+pol.p.String())
		got, err := observe(th)
		res.Eval(1)
		if err != nil {
			res.Violate("unpack-error:"+rel, "Unpack of the target handle failed: %v; %s", err, sdesc())
			return
		}
		if want := tm.CanonTop(); got.canon != want {
			res.Violate("merge-model-mismatch:"+rel, "the target handle unpacks to %s, merging a snapshot of the source gives %s; %s", got.canon, want, sdesc())
			return
		}
		root, err := observe(c)
		res.Eval(1)
		if err != nil {
			res.Violate("unpack-error:"+rel, "Unpack of the root failed: %v; %s", err, sdesc())
			return
		}
		if want := m.CanonTop(); root.canon != want {
			res.Violate("merge-model-mismatch:"+rel+":seen-from-the-root", "the root unpacks to %s, want %s (the target handle itself unpacks as expected); %s", root.canon, want, sdesc())
		}
	})
	if panicked {
		res.Violate("panic", "panic %q at %s; %s", pv, where, sdesc())
	}
}

// plantOverContainer makes b hold nil (half of the time), a primitive or an
// empty container at the place of a non-empty container of a.
func plantOverContainer(r *rand.Rand, a, b *model.Node) bool {
	if len(a.D) > 0 && len(a.A) > 0 || len(b.D) > 0 && len(b.A) > 0 {
		return false
	}
	sites := containerSites(a)
	if len(sites) == 0 {
		return false
	}
	var v *model.Node
	switch r.Intn(6) {
	case 0:
		v = model.P(noDollar[r.Intn(len(noDollar))])
	case 1:
		v = model.Dict()
	case 2:
		v = model.List()
	default:
		v = model.Nil()
	}
	bc := b.Copy()
	if !setAt(bc, sites[r.Intn(len(sites))], v) {
		return false
	}
	*b = *bc
	return true
}
