//go:build !only || only_c08

package checks

import _ "verif/internal/checks/c08"
