// Package c20: see DESIGN.md section 3 C20.
package c20
