package c20

// Sixth wave, second batch: one more ROUTE on which a key string meets the
// classifier - the key as member name of an object that only comes into being
// by EXPANSION at reading time.
//
// A setting "a" holds a reference / a splice. What it expands to is text in
// the object syntax of package parse whose (innermost) object has ONE member,
// named like the key under test:
//
//	resolver       a = ${ext}, ext answered by a Resolve function with the text
//	splice-default a = {KEY: ${nope:V}}   the default of a reference nobody answers
//	splice-value   a = {KEY: ${v}}        v a setting of the same config
//	splice-key     a = {${k}: V}          k a setting holding the key
//	splice-env     a = {KEY: ${v}}        v a setting of an Env config
//
// The object the text parses into is created by the READING call, so the
// (MaxIdx, EnableNumKeys) of that call classify the key - not the options the
// config was built with and not the defaults. Every scenario reads ONE config
// under two settings, one after the other; each reading is compared with the
// statement's classifier under its own setting (unchanged oracle: expect()):
// Unpack of the whole, then Child("a") [+ the wrapper step] with IsArray /
// IsDict / GetFields / CountField("") for the role of the first segment and
// Has / Int / CountField(key) with the same key and options.
//
// A deviation is named with the classifier signature of the usual usages plus
// ":key-of-expanded-object" when the twin - the same object given as plain data
// to NewFrom with the same options - agrees with the oracle; when the twin
// deviates too it is the shared classifier (bare signature).

import (
	"fmt"
	"math/rand"
	"strconv"
	"strings"

	ucfg "github.com/elastic/go-ucfg"
	"github.com/elastic/go-ucfg/parse"

	"verif/internal/harness"
)

const expansionsPerCase = 6

var (
	expCarriers = []string{"resolver", "resolver", "splice-default", "splice-value", "splice-key", "splice-env"}
	expWrappers = []string{"object", "object", "object-in-array", "object-in-object"}
	expQuotings = []string{"single-quoted", "double-quoted", "bare"}
)

type expScenario struct {
	carrier, wrapper, quoting string
	pos                       position
	s, key                    string
	text                      string // what "a" expands to
	in                        map[string]interface{}
	build                     []ucfg.Option
	buildDesc                 string
	extra                     []ucfg.Option // VarExp + what the carrier needs, appended to every reading's options
}

// plainKey: the characters that mean nothing to the expression syntax of a
// setting (${...}, defaults) nor to the object syntax outside quotes.
func plainKey(key string) bool {
	if key == "" {
		return false
	}
	for i := 0; i < len(key); i++ {
		c := key[i]
		switch {
		case c >= '0' && c <= '9', c >= 'a' && c <= 'z', c >= 'A' && c <= 'Z', c == '_', c == '+', c == '-', c == '.':
		default:
			return false
		}
	}
	return true
}

func wrapText(wrapper, obj string) string {
	switch wrapper {
	case "object-in-array":
		return "[" + obj + "]"
	case "object-in-object":
		return "{n: " + obj + "}"
	}
	return obj
}

func wrapData(wrapper string, obj interface{}) interface{} {
	switch wrapper {
	case "object-in-array":
		return []interface{}{obj}
	case "object-in-object":
		return map[string]interface{}{"n": obj}
	}
	return obj
}

// unwrap strips the wrapper from an unpacked value.
func unwrap(wrapper string, x interface{}) (interface{}, bool) {
	switch wrapper {
	case "object-in-array":
		l, ok := x.([]interface{})
		if !ok || len(l) != 1 {
			return nil, false
		}
		return l[0], true
	case "object-in-object":
		m, ok := x.(map[string]interface{})
		if !ok || len(m) != 1 {
			return nil, false
		}
		v, ok := m["n"]
		return v, ok
	}
	return x, true
}

// textDenotes: precondition of a scenario - package parse reads the text as
// the wrapper around an object with exactly the member key: val.
func textDenotes(text, wrapper, key string, val int64) bool {
	var (
		x   interface{}
		err error
	)
	if panicked, _, _ := harness.Safe(func() { x, err = parse.Value(text) }); panicked || err != nil {
		return false
	}
	x, ok := unwrap(wrapper, x)
	if !ok {
		return false
	}
	m, ok := x.(map[string]interface{})
	if !ok || len(m) != 1 {
		return false
	}
	v, ok := m[key]
	return ok && numEq(v, val)
}

func quoteKey(quoting, key string) (string, bool) {
	switch quoting {
	case "single-quoted":
		if strings.ContainsAny(key, "'") {
			return "", false
		}
		return "'" + key + "'", true
	case "double-quoted":
		for i := 0; i < len(key); i++ {
			if key[i] < 0x20 || key[i] > 0x7e {
				return "", false
			}
		}
		return strconv.Quote(key), true
	}
	if !plainKey(key) {
		return "", false
	}
	if key != strings.TrimSpace(key) {
		return "", false
	}
	return key, true
}

// drawExpansion draws the config of one scenario; ok = false when the key can
// not be written that way.
func (w *world) drawExpansion(r *rand.Rand, bySep map[string][]position, seps []string) (sc expScenario, ok bool) {
	sc.carrier = expCarriers[r.Intn(len(expCarriers))]
	sc.wrapper = expWrappers[r.Intn(len(expWrappers))]
	sc.quoting = expQuotings[r.Intn(len(expQuotings))]
	sep := seps[r.Intn(len(seps))]
	if r.Intn(3) == 0 {
		sep = "" // whole keys: the place where EnableNumKeys decides
	}
	ps := bySep[sep]
	sc.pos = ps[r.Intn(len(ps))]
	sc.s = drawOptKey(r)
	if sc.s == "" || (sc.pos.sep != "" && strings.Contains(sc.s, sc.pos.sep)) {
		return sc, false
	}
	sc.key = sc.pos.key(sc.s, w.p, w.q)
	if sc.carrier == "splice-key" {
		sc.quoting = "bare" // the key arrives as the text of another setting
	}
	if sc.carrier != "resolver" && !plainKey(sc.key) {
		// the text is part of an expression: only keys that mean nothing to its syntax
		return sc, false
	}
	qk, can := quoteKey(sc.quoting, sc.key)
	if !can {
		return sc, false
	}
	V := strconv.FormatInt(w.val, 10)
	sc.text = wrapText(sc.wrapper, "{"+qk+": "+V+"}")
	if !textDenotes(sc.text, sc.wrapper, sc.key, w.val) {
		return sc, false
	}
	sc.extra = []ucfg.Option{ucfg.VarExp}
	switch sc.carrier {
	case "resolver":
		text := sc.text
		sc.in = map[string]interface{}{"a": "${ext}"}
		sc.extra = append(sc.extra, ucfg.Resolve(func(name string) (string, parse.Config, error) {
			if name == "ext" {
				return text, parse.DefaultConfig, nil
			}
			return "", parse.DefaultConfig, ucfg.ErrMissing
		}))
	case "splice-default":
		// the value is the default of a reference nobody answers (a default can not hold a '}' itself)
		sc.in = map[string]interface{}{"a": wrapText(sc.wrapper, "{"+qk+": ${nope:"+V+"}}")}
	case "splice-value":
		sc.in = map[string]interface{}{"a": wrapText(sc.wrapper, "{"+qk+": ${v}}"), "v": w.val}
	case "splice-key":
		sc.in = map[string]interface{}{"a": wrapText(sc.wrapper, "{${k}: "+V+"}"), "k": sc.key}
	case "splice-env":
		env, err := ucfg.NewFrom(map[string]interface{}{"v": w.val})
		if err != nil {
			return sc, false
		}
		sc.in = map[string]interface{}{"a": wrapText(sc.wrapper, "{"+qk+": ${v}}")}
		sc.extra = append(sc.extra, ucfg.Env(env))
	}
	return sc, true
}

// walkExpanded compares an unpacked value with the oracle's shape.
func (w *world) walkExpanded(x interface{}, segs []segment, val int64) (dev *deviation, maxList int) {
	cur := levelOf(x)
	for i, sg := range segs {
		if cur.kind == "index" && cur.n > maxList {
			maxList = cur.n
		}
		if sg.index {
			if cur.kind != "index" {
				return &deviation{at: i, obs: cur.kind, detail: fmt.Sprintf("level %d is %s", i, describeLevel(cur))}, maxList
			}
			if int64(cur.n) != sg.v+1 || int64(cur.pos) != sg.v {
				return &deviation{at: i, obs: "index-wrong-slot", obsPos: cur.pos, detail: fmt.Sprintf("level %d is %s, want %d slots with the value in slot %d", i, describeLevel(cur), sg.v+1, sg.v)}, maxList
			}
		} else {
			if cur.kind != "name" {
				return &deviation{at: i, obs: cur.kind, detail: fmt.Sprintf("level %d is %s", i, describeLevel(cur))}, maxList
			}
			if cur.name != sg.s {
				return &deviation{at: i, obs: "name-differs", detail: fmt.Sprintf("level %d has key %q, want %q unchanged", i, cur.name, sg.s)}, maxList
			}
		}
		cur = levelOf(cur.next)
	}
	if !(cur.kind == "leaf" && numEq(cur.next, val)) {
		return &deviation{at: len(segs), obs: "leaf-wrong", detail: fmt.Sprintf("below the last segment: %s, want the value %d", describeLevel(cur), val)}, maxList
	}
	return nil, maxList
}

// readExpanded: one reading of c under opts; dev == nil when Unpack shows the
// oracle's shape. ch is the config of the innermost object (nil: not reached).
func (w *world) readExpanded(c *ucfg.Config, wrapper string, segs []segment, opts []ucfg.Option, allowed int) (dev *deviation, slots int, ch *ucfg.Config, note string) {
	var (
		out  map[string]interface{}
		err  error
		cerr error
	)
	w.arm(allowed)
	panicked, pv, where := harness.Safe(func() {
		if err = c.Unpack(&out, opts...); err != nil {
			return
		}
		if ch, cerr = c.Child("a", -1, opts...); cerr != nil {
			return
		}
		switch wrapper {
		case "object-in-array":
			ch, cerr = ch.Child("", 0, opts...)
		case "object-in-object":
			ch, cerr = ch.Child("n", -1, opts...)
		}
	})
	w.res.Eval(3)
	w.res.Ev("grow_events", int64(w.grows))
	slots = w.maxGrow
	tripped, tripB := w.tripped, w.tripB
	w.arm(1 << 17)
	firstNumericName := func() int {
		for i, sg := range segs {
			if !sg.index && sg.ok {
				return i
			}
		}
		return 0
	}
	switch {
	case tripped:
		return &deviation{at: firstNumericName(), obs: "grow", obsPos: tripB - 1, detail: fmt.Sprintf("the library started to grow a list to %d slots (oracle allows at most %d for this key; growth aborted by the monitor)", tripB, allowed)}, slots, nil, ""
	case panicked:
		return &deviation{at: firstNumericName(), obs: "panic", pval: pv, where: where}, slots, nil, ""
	case err != nil:
		return &deviation{at: firstNumericName(), obs: "error", detail: fmt.Sprintf("Unpack returned error %v", err)}, slots, nil, ""
	}
	x, ok := unwrap(wrapper, out["a"])
	if !ok {
		return nil, slots, nil, fmt.Sprintf("Unpack gave a = %#v", out["a"])
	}
	d, ml := w.walkExpanded(x, segs, w.val)
	if ml > slots {
		slots = ml
	}
	if cerr != nil {
		ch = nil
		if d == nil {
			note = fmt.Sprintf("Unpack shows the object but Child fails: %v", cerr)
		}
	}
	return d, slots, ch, note
}

func (w *world) expandedScenario(r *rand.Rand, sc expScenario) {
	numeric := false
	var v int64
	if pv, err := strconv.ParseInt(sc.s, 0, 64); err == nil {
		numeric, v = true, pv
	}
	// two reading settings: limits around the key's number and the usual ones
	pool := maxIdxPool(v, numeric)
	draw := func() setting {
		if r.Intn(3) == 0 {
			return allSettings[r.Intn(len(allSettings))]
		}
		return setting{m: pool[r.Intn(len(pool))], e: r.Intn(2) == 0}
	}
	sts := []setting{draw(), draw()}
	switch r.Intn(4) {
	case 0:
		sts[1] = setting{m: sts[0].m, e: !sts[0].e}
	case 1:
		sts[1] = setting{m: 1024, e: false} // the defaults, spelled out
	}
	if r.Intn(2) == 0 {
		sts[0], sts[1] = sts[1], sts[0]
	}
	// the config is built with VarExp and the separator, in half of the
	// scenarios also with a (MaxIdx, EnableNumKeys) of its own
	sc.build = []ucfg.Option{ucfg.VarExp}
	sc.buildDesc = "VarExp"
	if sc.pos.sep != "" {
		sc.build = append(sc.build, ucfg.PathSep(sc.pos.sep))
		sc.buildDesc += fmt.Sprintf(", PathSep(%q)", sc.pos.sep)
	}
	if r.Intn(2) == 0 {
		bst := draw()
		sc.build = append(sc.build, ucfg.MaxIdx(bst.m), ucfg.EnableNumKeys(bst.e))
		sc.buildDesc += fmt.Sprintf(", MaxIdx(%d), EnableNumKeys(%v)", bst.m, bst.e)
		w.res.Ev("expansion_config_built_under_own_setting", 1)
	}
	var (
		c   *ucfg.Config
		err error
	)
	w.arm(1)
	panicked, pv, where := harness.Safe(func() { c, err = ucfg.NewFrom(sc.in, sc.build...) })
	w.arm(1 << 17)
	w.res.Eval(1)
	if panicked {
		if sig := "panic:" + firstFrame(where); !w.capped(sig) {
			w.res.Violate(sig, "NewFrom(%v, %s): panic %q at %s", sc.in, sc.buildDesc, pv, where)
		}
		return
	}
	if err != nil {
		w.res.Ev("expansion_config_unbuildable", 1)
		return
	}
	w.res.Ev("expansion_scenarios", 1)
	w.res.SetAdd("expansion_carrier", sc.carrier)
	w.res.SetAdd("expansion_wrapper", sc.wrapper)
	w.res.SetAdd("expansion_key_quoting", sc.quoting)
	w.res.SetAdd("expansion_key_position", sc.pos.name)
	dflt := setting{m: 1024, e: false}
	for k, st := range sts {
		segs := expect(sc.key, sc.pos.sep, st)
		skip := false
		allowed := 0
		for _, sg := range segs {
			if sg.s == "" || (sg.index && sg.v > w.capInterior) {
				skip = true
			}
			if sg.index && int(sg.v)+1 > allowed {
				allowed = int(sg.v) + 1
			}
		}
		if skip {
			w.res.Ev("expansion_reading_skipped_costly_or_empty_segment", 1)
			continue
		}
		if sc.wrapper == "object-in-array" && allowed < 1 {
			allowed = 1 // the list of the text itself
		}
		opts := st.opts(sc.pos.sep)
		optDesc := st.String()
		if r.Intn(4) == 0 {
			var d string
			opts, d = repeatedList(r, st, sc.pos.sep)
			optDesc = "options [" + d + "]"
			w.res.Ev("expansion_readings_with_repeated_option_list", 1)
		}
		opts = append(opts[:len(opts):len(opts)], sc.extra...)
		sg := targetSeg(sc.pos, segs)
		single := len(segs) == 1
		w.res.Ev("expansion_readings", 1)
		w.res.Ev("classifications", 1)
		w.res.SetAdd("expansion_expected_role", sg.reason(st, single))
		if k == 1 {
			w.res.Ev("expansion_second_reading_of_the_same_config", 1)
			if targetSeg(sc.pos, expect(sc.key, sc.pos.sep, sts[0])).index != sg.index {
				w.res.Ev("expansion_second_reading_with_the_other_role", 1)
			}
		}
		if targetSeg(sc.pos, expect(sc.key, sc.pos.sep, dflt)).index != sg.index {
			// the reading's own setting decides otherwise than the defaults would
			w.res.Ev("expansion_readings_where_the_defaults_would_decide_otherwise", 1)
			w.res.SetAdd("expansion_non_default_decision", sg.reason(st, single)+"/"+sc.carrier)
		}
		ctx := func() string {
			return fmt.Sprintf("config NewFrom(%v, %s); a expands (%s) to the text %s; read with PathSep=%q, %s, VarExp (reading %d of this config; key %q, %s; oracle: %s)",
				sc.in, sc.buildDesc, sc.carrier, sc.text, sc.pos.sep, optDesc, k+1, sc.key, sc.pos.name, describeSegs(segs))
		}
		dev, slots, ch, note := w.readExpanded(c, sc.wrapper, segs, opts, allowed)
		limit := int(st.m) + 1
		if limit < 0 {
			limit = 0
		}
		if sc.wrapper == "object-in-array" && limit < 1 {
			limit = 1
		}
		if slots > limit && !w.capped("list-longer-than-max+1:key-of-expanded-object") {
			w.res.Violate("list-longer-than-max+1:key-of-expanded-object", "a single key of an expanded object made a list of %d slots (or started to, aborted by the monitor), more than MaxIdx+1 = %d: %s", slots, limit, ctx())
		}
		if note != "" {
			if sig := "expanded-object-not-read-back:" + sc.wrapper; !w.capped(sig) {
				w.res.Violate(sig, "%s: %s", note, ctx())
			}
			continue
		}
		if dev != nil {
			i := dev.at
			if i >= len(segs) {
				i = len(segs) - 1
			}
			sig := w.sigFor(segs[i], st, single, *dev, false)
			// the twin: the same object as plain data, same options
			var (
				tc   *ucfg.Config
				terr error
				tout map[string]interface{}
			)
			twinDev := true
			w.arm(allowed)
			tp, _, _ := harness.Safe(func() {
				if tc, terr = ucfg.NewFrom(map[string]interface{}{"a": wrapData(sc.wrapper, map[string]interface{}{sc.key: w.val})}, opts...); terr == nil {
					terr = tc.Unpack(&tout, opts...)
				}
			})
			ttrip := w.tripped
			w.arm(1 << 17)
			w.res.Eval(2)
			if !tp && !ttrip && terr == nil {
				if x, ok := unwrap(sc.wrapper, tout["a"]); ok {
					td, _ := w.walkExpanded(x, segs, w.val)
					twinDev = td != nil
				}
			}
			if twinDev {
				w.res.Ev("expansion_deviation_shared_with_plain_data", 1)
			} else if !strings.HasPrefix(sig, "panic:") {
				sig += ":key-of-expanded-object"
			}
			if w.capped(sig) {
				continue
			}
			role := "name"
			if segs[i].index {
				role = fmt.Sprintf("list index %d", segs[i].v)
			}
			extra := ""
			if dev.obs == "panic" {
				extra = fmt.Sprintf(" panic %q at %s", dev.pval, dev.where)
			}
			w.res.Violate(sig, "segment %q of a key of an expanded object must be %s under the reading call's setting but observed %s: %s%s; the same object as plain data deviates: %v; %s",
				segs[i].s, role, dev.obs, dev.detail, extra, twinDev, ctx())
			continue
		}
		w.res.Ev("expansion_roles_confirmed", 1)
		w.res.SetAdd("confirmed", "key-of-expanded-object/"+sc.carrier)
		if ch == nil {
			continue
		}
		// the raw observers on the innermost object and the same key as getter name
		var (
			isA, isD       bool
			names          []string
			cnt, cntKey    int
			has            bool
			got            int64
			e0, e1, e2, e3 error
		)
		w.arm(allowed)
		panicked, pv, where := harness.Safe(func() {
			isA, isD = ch.IsArray(), ch.IsDict()
			names = ch.GetFields()
			cnt, e0 = ch.CountField("", opts...)
			has, e1 = ch.Has(sc.key, -1, opts...)
			got, e2 = ch.Int(sc.key, -1, opts...)
			cntKey, e3 = ch.CountField(sc.key, opts...)
		})
		tripped := w.tripped
		w.arm(1 << 17)
		w.res.Eval(7)
		first := segs[0]
		switch {
		case panicked || tripped:
			if sig := "panic:" + firstFrame(where); !w.capped(sig) {
				w.res.Violate(sig, "observers / getters on the innermost object (reached with Child): panic %q at %s (growth aborted by the monitor: %v); %s", pv, where, tripped, ctx())
			}
		case first.index && !(isA && !isD && e0 == nil && int64(cnt) == first.v+1 && len(names) == 0),
			!first.index && !(isD && !isA && e0 == nil && cnt == 1 && len(names) == 1 && names[0] == first.s):
			if sig := "role-observers-disagree:key-of-expanded-object"; !w.capped(sig) {
				w.res.Violate(sig, "Unpack shows segment %q as %s but the object reached with Child has IsArray=%v IsDict=%v GetFields=%q CountField(\"\")=%d, %v; %s",
					first.s, roleWord(first), isA, isD, names, cnt, e0, ctx())
			}
		case e1 != nil || !has || e2 != nil || got != w.val || e3 != nil || cntKey != 1:
			if sig := "same-key-roundtrip-fails:key-of-expanded-object:" + roleWord(sg); !w.capped(sig) {
				w.res.Violate(sig, "on the object reached with Child the key itself, same options: Has = %v, %v; Int = %d, %v (want %d); CountField = %d, %v (want 1); %s",
					has, e1, got, e2, w.val, cntKey, e3, ctx())
			}
		default:
			w.res.Ev("expansion_child_observers_and_same_key_confirmed", 1)
		}
	}
}

// runExpansions: expansionsPerCase scenarios per case.
func (w *world) runExpansions(seed int64, idx int) {
	r := rand.New(rand.NewSource(harness.Mix(seed, "C20/expansions", idx)))
	bySep := map[string][]position{}
	var seps []string
	for _, p := range w.poss {
		if p.twice {
			continue
		}
		if _, ok := bySep[p.sep]; !ok {
			seps = append(seps, p.sep)
		}
		bySep[p.sep] = append(bySep[p.sep], p)
	}
	for k := 0; k < expansionsPerCase; k++ {
		sc, ok := w.drawExpansion(r, bySep, seps)
		if !ok {
			w.res.Ev("expansion_key_not_expressible_that_way", 1)
			continue
		}
		w.expandedScenario(r, sc)
	}
}
