package c20

// Multi-call sequences on ONE list.
//
// The classification part (c20.go) applies every key to a fresh, empty
// configuration. The last sentence of the statement ("no single key makes a
// list grow beyond MaxIdx+1 entries") is also a statement about lists that
// exist already: a list of L entries, then one more call that carries an
// index - as idx argument of a setter/getter, as a segment of a setter name,
// of a (flat or nested) map key given to Merge, of a struct tag, of a -D
// key=value flag. The oracle is a conservation law that needs no knowledge of
// the library:
//
//	after one call the list is not longer than max(L, MaxIdx+1)
//	(L+1 if the call addressed exactly the slot behind the last one),
//
// observed twice: as (old, new) sizes at the grow hook (the growth is aborted
// before the allocation) and as the slot count read back after the call.
// Where the statement pins the outcome (index segment/argument within
// [0, MaxIdx]; any other segment is a name) the outcome itself is compared:
// slot written, length max(L, v+1), name stored byte for byte next to the list.

import (
	"fmt"
	"math"
	"math/rand"
	"reflect"
	"sort"
	"strconv"
	"strings"

	ucfg "github.com/elastic/go-ucfg"
	uflag "github.com/elastic/go-ucfg/flag"

	"verif/internal/harness"
)

const seqPerCase = 8

// MaxIdx values of the sequences (weighted towards small ones: the band of
// indices between max(MaxIdx, L) and MaxIdx+L is reachable with short lists).
var seqMaxIdx = []int64{-5, -1, -1, 0, 0, 0, 1, 1, 1, 1, 2, 2, 2, 2, 3, 3, 3, 3, 3, 4, 4, 4, 7, 7, 7, 7, 16, 16, 100, 1024, 1024}

var hugeIdx = []int64{1<<16 + 1, 1 << 20, 1<<31 - 1, 1 << 31, 1 << 40, 1 << 62, math.MaxInt64}

type locStep struct {
	name string
	idx  int // >= 0: list slot, else the name
}

// seqLoc = where the list under test lives.
type seqLoc struct {
	kind    string
	idxName string    // name argument of the calls that take (name, idx); "" = the config itself
	prefix  []string  // key segments in front of the segment under test
	nest    []string  // names for the nested-map form (nil: not available)
	path    []locStep // how the monitor reaches the holder of the list
}

type seqObs struct {
	exists bool
	n      int               // slots of the list
	arr    []string          // canonical slot values
	names  map[string]string // dictionary entries stored next to the list
}

type seq struct {
	w     *world
	r     *rand.Rand
	st    setting
	sep   string
	opts  []ucfg.Option
	loc   seqLoc
	root  *ucfg.Config
	cur   seqObs
	step  int
	log   []string
	dead  bool
	limit int // MaxIdx+1, at least 0
	// olDesc != "": q.opts is a list repeating MaxIdx / EnableNumKeys whose last occurrences are q.st
	olDesc string
}

type seqOp struct {
	entry string // "idx-argument", "index-key", "getter", "data"
	via   string // entry point, part of the signature
	form  string // index-key: how the key is handed over (setter-name, flag, ...)
	desc  string // the call, for the witness
	i     int64  // idx argument
	key   string // whole key (index-key)
	ksep  string // separator the key is split with
	val   string // canonical form of the value written
	data  int    // entries of the caller's own list (entry "data")
	run   func() error
}

func canonOf(x interface{}) string {
	switch t := x.(type) {
	case nil:
		return "nil"
	case bool:
		return strconv.FormatBool(t)
	case int:
		return strconv.FormatInt(int64(t), 10)
	case int64:
		return strconv.FormatInt(t, 10)
	case uint64:
		return strconv.FormatUint(t, 10)
	case float64:
		return strconv.FormatFloat(t, 'g', -1, 64)
	case string:
		return t
	case map[string]interface{}:
		keys := make([]string, 0, len(t))
		for k := range t {
			keys = append(keys, k)
		}
		sort.Strings(keys)
		var b strings.Builder
		b.WriteString("{")
		for i, k := range keys {
			if i > 0 {
				b.WriteString(",")
			}
			b.WriteString(k + ":" + canonOf(t[k]))
		}
		b.WriteString("}")
		return b.String()
	case []interface{}:
		l := make([]string, len(t))
		for i, e := range t {
			l[i] = canonOf(e)
		}
		return "[" + strings.Join(l, ",") + "]"
	}
	return fmt.Sprintf("%v", x)
}

func max64(a, b int64) int64 {
	if a > b {
		return a
	}
	return b
}

func maxInt(a, b int) int {
	if a > b {
		return a
	}
	return b
}

// observe reads the holder of the list back with raw observers only.
func (q *seq) observe() (o seqObs, problem string) {
	var (
		names   []string
		cnt     int
		aa      []interface{}
		mm      map[string]interface{}
		e1, e2  error
		missing bool
	)
	panicked, pv, where := harness.Safe(func() {
		lc := q.root
		for _, s := range q.loc.path {
			var err error
			if s.idx >= 0 {
				c, _ := lc.CountField("")
				if c-len(lc.GetFields()) <= s.idx {
					missing = true
					return
				}
				lc, err = lc.Child("", s.idx)
			} else {
				if !lc.HasField(s.name) {
					missing = true
					return
				}
				lc, err = lc.Child(s.name, -1)
			}
			if err != nil || lc == nil {
				missing = true
				return
			}
		}
		names = lc.GetFields()
		cnt, _ = lc.CountField("")
		e1 = lc.Unpack(&aa)
		e2 = lc.Unpack(&mm)
	})
	q.w.res.Eval(4 + 2*len(q.loc.path))
	switch {
	case panicked:
		return o, fmt.Sprintf("panic %q at %s while reading the config back", pv, where)
	case missing:
		return seqObs{names: map[string]string{}}, ""
	case e1 != nil || e2 != nil:
		return o, fmt.Sprintf("Unpack of the list holder failed: slice: %v, map: %v", e1, e2)
	}
	o = seqObs{exists: true, n: len(aa), names: map[string]string{}}
	o.arr = make([]string, len(aa))
	for i, e := range aa {
		o.arr[i] = canonOf(e)
	}
	for k, v := range mm {
		o.names[k] = canonOf(v)
	}
	if cnt-len(names) != len(aa) || len(names) != len(mm) {
		return o, fmt.Sprintf("CountField=%d GetFields=%q but Unpack gave a list of %d and a dictionary of %d entries", cnt, names, len(aa), len(mm))
	}
	for _, k := range names {
		if _, ok := mm[k]; !ok {
			return o, fmt.Sprintf("GetFields=%q but Unpack gave the dictionary keys %q", names, keysOf(o.names))
		}
	}
	return o, ""
}

func keysOf(m map[string]string) []string {
	l := make([]string, 0, len(m))
	for k := range m {
		l = append(l, k)
	}
	sort.Strings(l)
	return l
}

func (q *seq) history() string {
	l := q.log
	if len(l) > 14 {
		l = append([]string{"..."}, l[len(l)-14:]...)
	}
	return strings.Join(l, "; ")
}

func (q *seq) ctx() string {
	if q.olDesc != "" {
		return fmt.Sprintf("list at %s, PathSep=%q, %s configured as the end of the option list %s used in every call", q.loc.kind, q.sep, q.st, q.olDesc)
	}
	return fmt.Sprintf("list at %s, PathSep=%q, %s", q.loc.kind, q.sep, q.st)
}

func (q *seq) violate(sig, format string, a ...interface{}) {
	q.dead = true
	if q.olDesc != "" {
		sig += ":via-repeated-option-list"
	}
	if q.w.capped(sig) {
		return
	}
	q.w.res.Violate(sig, "sequence on one list (%s): %s [calls so far: %s]", q.ctx(), fmt.Sprintf(format, a...), q.history())
}

// idxClass names the relation of an index to the list it meets.
func idxClass(i, m, n int64) string {
	switch {
	case i < 0:
		return "negative"
	case i < n && i > m:
		return "inside-list-above-max"
	case i < n:
		return "inside-list"
	case i == n && i > m:
		return "append-above-max"
	case i == n:
		return "append"
	case i <= m:
		return "gap-within-max"
	case i <= m+n:
		return "band(max(MaxIdx,L),MaxIdx+L]"
	case i >= 1<<16:
		return "huge"
	}
	return "beyond-MaxIdx+L"
}

func overgrownSig(n int, via string) string {
	if n == 0 {
		return "new-list-grows-beyond-max+1:" + via
	}
	return "existing-list-grows-beyond-max+1:" + via
}

// exec runs one call against the list and compares with the oracle.
func (q *seq) exec(op seqOp) {
	w := q.w
	prev := q.cur
	m := q.st.m
	n0 := int64(prev.n)
	q.step++
	q.log = append(q.log, op.desc)
	w.res.Ev("seq_steps", 1)
	if prev.n >= 1 {
		w.res.Ev("seq_steps_on_existing_list", 1)
	}
	if prev.n > q.limit {
		w.res.Ev("seq_steps_on_list_longer_than_max+1", 1)
	}

	// what the statement says about this call
	var (
		segs   []segment
		sg     segment
		single bool
		class  string
	)
	allowed := maxInt(prev.n, q.limit)
	switch op.entry {
	case "idx-argument", "getter":
		class = idxClass(op.i, m, n0)
		if op.entry == "idx-argument" && op.i == n0 {
			allowed = maxInt(allowed, prev.n+1)
		}
	case "index-key":
		segs = expect(op.key, op.ksep, q.st)
		sg = segs[len(segs)-1]
		single = len(segs) == 1
		switch {
		case !sg.ok:
			class = "name:not-an-integer-literal"
		default:
			class = idxClass(sg.v, m, n0)
		}
		if sg.index {
			w.res.Ev("seq_key_is_index", 1)
		} else {
			w.res.Ev("seq_key_is_name", 1)
		}
	case "data":
		class = "callers-own-list"
		allowed = maxInt(allowed, prev.n+op.data)
	}
	w.res.SetAdd("seq_index_class", op.entry+"/"+class)
	band := strings.HasPrefix(class, "band")
	if band {
		w.res.Ev("seq_band_steps", 1)
		w.res.SetAdd("seq_band_entry_points", op.via)
		w.res.Key(fmt.Sprintf("seq|%s|m=%d|L=%d|%s", q.loc.kind, m, prev.n, op.via))
	}

	// the call, under the conservation law at the grow hook
	w.arm(allowed)
	w.law = q.limit
	if op.entry == "data" {
		// the caller's own list: how many growth events the library needs to
		// hold its elements (one per element, or one for all of them) is not
		// part of the claim, only the slot count the call may leave (allowed)
		w.law = -1
	}
	var err error
	panicked, pv, where := harness.Safe(func() { err = op.run() })
	w.law = -1
	w.res.Eval(1)
	w.res.Ev("seq_grow_events", int64(w.grows))
	tripped, tripA, tripB, grows := w.tripped, w.tripA, w.tripB, w.grows
	w.arm(1 << 17)

	if tripped {
		detail := fmt.Sprintf("%s made the library start growing a list from %d to %d slots (growth aborted by the monitor); the list under test had %d slots, MaxIdx+1 = %d, so one call may leave at most %d",
			op.desc, tripA, tripB, prev.n, q.limit, allowed)
		if op.entry == "index-key" && !sg.index {
			d := deviation{obs: "grow", obsPos: tripB - 1}
			q.violate(w.sigFor(sg, q.st, single, d, false)+":seq:"+op.form, "segment %q of key %q must be a name [oracle: %s] but %s", sg.s, op.key, describeSegs(segs), detail)
			return
		}
		q.violate(overgrownSig(prev.n, op.via), "%s", detail)
		return
	}
	if panicked {
		q.violate("panic:"+firstFrame(where), "%s: panic %q at %s", op.desc, pv, where)
		return
	}
	now, problem := q.observe()
	if problem != "" {
		q.violate("role-observers-disagree", "after %s: %s", op.desc, problem)
		return
	}
	q.cur = now
	if now.n > allowed {
		q.violate(overgrownSig(prev.n, op.via), "%s (err=%v) left the list with %d slots; it had %d, MaxIdx+1 = %d, so one call may leave at most %d", op.desc, err, now.n, prev.n, q.limit, allowed)
		return
	}

	namesSame := func() (string, bool) {
		if len(now.names) != len(prev.names) {
			return fmt.Sprintf("names next to the list were %q, now %q", keysOf(prev.names), keysOf(now.names)), false
		}
		for k := range prev.names {
			if _, ok := now.names[k]; !ok {
				return fmt.Sprintf("names next to the list were %q, now %q", keysOf(prev.names), keysOf(now.names)), false
			}
		}
		return "", true
	}
	slotIs := func(i int64) bool { return i >= 0 && i < int64(now.n) && now.arr[i] == op.val }
	findVal := func() int {
		if op.val == "true" || op.val == "false" {
			return -1
		}
		for i, x := range now.arr {
			if x == op.val {
				return i
			}
		}
		return -1
	}

	switch op.entry {
	case "data":
		if err != nil || now.n != op.data {
			w.res.Ev("seq_prefill_from_data_unexpected", 1)
		}
	case "getter":
		if grows > 0 {
			q.violate("getter-grows-list:"+op.via, "%s caused %d list growth events", op.desc, grows)
			return
		}
		lo := prev.n
		if strings.HasSuffix(op.via, "Remove") && op.i < n0 {
			lo = prev.n - 1
		}
		if now.n > prev.n || now.n < lo {
			q.violate("getter-changes-list-length:"+op.via, "%s (err=%v): the list had %d slots, now %d", op.desc, err, prev.n, now.n)
			return
		}
		w.res.Ev("seq_getter_steps_confirmed", 1)
	case "idx-argument":
		switch {
		case op.i <= m:
			// pinned: an index between 0 and the maximum is a list index
			want := int(max64(n0, op.i+1))
			switch {
			case err != nil:
				q.violate("in-range-idx-argument-refused:"+op.via, "%s with 0 <= idx <= MaxIdx failed: %v", op.desc, err)
			case now.n != want || !slotIs(op.i):
				q.violate("idx-argument-wrong-slot:"+op.via, "%s: want %d slots with %s in slot %d, have %d slots, value found in slot %d", op.desc, want, op.val, op.i, now.n, findVal())
			default:
				w.res.Ev("seq_idxarg_in_range_confirmed", 1)
			}
		case op.i <= n0:
			// above the maximum, inside the list or directly behind it: the
			// statement does not say whether the call is accepted
			if err == nil {
				want := int(max64(n0, op.i+1))
				if now.n != want || !slotIs(op.i) {
					q.violate("idx-argument-wrong-slot:"+op.via, "%s returned nil: want %d slots with %s in slot %d, have %d slots, value found in slot %d", op.desc, want, op.val, op.i, now.n, findVal())
					return
				}
				w.res.SetAdd("seq_above_max_"+strings.TrimSuffix(class, "-above-max"), "accepted")
			} else {
				if now.n != prev.n {
					q.violate("failed-call-changes-list-length:"+op.via, "%s failed (%v) but the list went from %d to %d slots", op.desc, err, prev.n, now.n)
					return
				}
				w.res.SetAdd("seq_above_max_"+strings.TrimSuffix(class, "-above-max"), "refused")
			}
		default:
			// above the maximum and beyond the end of the list
			switch {
			case now.n != prev.n:
				q.violate(overgrownSig(prev.n, op.via), "%s (err=%v): idx is above MaxIdx and beyond the end of the list, the list went from %d to %d slots", op.desc, err, prev.n, now.n)
			case err == nil:
				q.violate("over-limit-idx-argument-not-reported:"+op.via, "%s returned nil although idx is above MaxIdx and beyond the end of the list (%d slots, unchanged)", op.desc, now.n)
			default:
				w.res.Ev("seq_over_limit_idx_refused", 1)
				if band {
					w.res.Ev("seq_band_steps_refused", 1)
				}
			}
		}
	case "index-key":
		report := func(d deviation) {
			role := "a name"
			if sg.index {
				role = fmt.Sprintf("list index %d", sg.v)
			}
			q.violate(w.sigFor(sg, q.st, single, d, false)+":seq:"+op.form, "%s: segment %q of key %q must be %s [oracle: %s] but observed %s: %s", op.desc, sg.s, op.key, role, describeSegs(segs), d.obs, d.detail)
		}
		if sg.index {
			want := int(max64(n0, sg.v+1))
			_, asName := now.names[sg.s]
			_, wasName := prev.names[sg.s]
			diff, same := namesSame()
			switch {
			case err != nil:
				report(deviation{obs: "error", detail: fmt.Sprintf("returned error %v", err)})
			case asName && !wasName:
				report(deviation{obs: "name", detail: fmt.Sprintf("the holder of the list now has the name %q; list has %d slots", sg.s, now.n)})
			case now.n != want || !slotIs(sg.v):
				report(deviation{obs: "index-wrong-slot", obsPos: findVal(), detail: fmt.Sprintf("want %d slots with %s in slot %d, have %d slots, value found in slot %d", want, op.val, sg.v, now.n, findVal())})
			case !same:
				report(deviation{obs: "name-differs", detail: diff})
			default:
				w.res.Ev("seq_key_index_confirmed", 1)
			}
		} else {
			got, has := now.names[sg.s]
			extra := len(now.names) - len(prev.names)
			if _, was := prev.names[sg.s]; !was {
				extra--
			}
			switch {
			case now.n != prev.n:
				report(deviation{obs: "index", detail: fmt.Sprintf("the list went from %d to %d slots (err=%v)", prev.n, now.n, err)})
			case !has && findVal() >= 0 && (findVal() >= len(prev.arr) || prev.arr[findVal()] != op.val):
				report(deviation{obs: "index", obsPos: findVal(), detail: fmt.Sprintf("the value was written to list slot %d", findVal())})
			case err != nil:
				report(deviation{obs: "error", detail: fmt.Sprintf("returned error %v", err)})
			case !has:
				report(deviation{obs: "missing", detail: fmt.Sprintf("names next to the list: %q", keysOf(now.names))})
			case got != op.val:
				q.violate("value-lost:seq:"+op.form, "%s: name %q holds %s, want %s", op.desc, sg.s, got, op.val)
			case extra != 0:
				report(deviation{obs: "name-differs", detail: fmt.Sprintf("names next to the list were %q, now %q", keysOf(prev.names), keysOf(now.names))})
			default:
				w.res.Ev("seq_key_name_confirmed", 1)
				if sg.ok && sg.v > m && sg.v >= 0 {
					w.res.Ev("seq_above_max_key_kept_as_name_next_to_list", 1)
				}
			}
		}
	}
}

// ---------------------------------------------------------------------------
// generation
// ---------------------------------------------------------------------------

var setterNames = []string{"SetBool", "SetInt", "SetUint", "SetFloat", "SetString", "SetChild"}

// setter returns the call and the canonical form of what it stores.
func (q *seq) setter(k int, name string, idx int, v int64) (func() error, string, string) {
	c, o := q.root, q.opts
	show := func(x interface{}) string {
		return fmt.Sprintf("%s(%q, %d, %v)", setterNames[k], name, idx, x)
	}
	switch k {
	case 0:
		b := v%2 == 0
		return func() error { return c.SetBool(name, idx, b, o...) }, strconv.FormatBool(b), show(b)
	case 1:
		return func() error { return c.SetInt(name, idx, v, o...) }, canonOf(v), show(v)
	case 2:
		return func() error { return c.SetUint(name, idx, uint64(v), o...) }, canonOf(v), show(v)
	case 3:
		f := float64(v) + 0.5
		return func() error { return c.SetFloat(name, idx, f, o...) }, canonOf(f), show(f)
	case 4:
		s := "s" + strconv.FormatInt(v, 10)
		return func() error { return c.SetString(name, idx, s, o...) }, s, show(s)
	}
	return func() error {
		ch, err := ucfg.NewFrom(map[string]interface{}{"k": v})
		if err != nil {
			return err
		}
		return c.SetChild(name, idx, ch, o...)
	}, "{k:" + canonOf(v) + "}", show(fmt.Sprintf("{k:%d}", v))
}

func (q *seq) nextVal() int64 { return int64(1000 + 10*q.step + q.r.Intn(10)) }

func (q *seq) idxArgOp(i int64) seqOp {
	k := q.r.Intn(len(setterNames))
	run, val, desc := q.setter(k, q.loc.idxName, int(i), q.nextVal())
	return seqOp{entry: "idx-argument", via: "idx-argument:" + setterNames[k], desc: desc, i: i, val: val, run: run}
}

func (q *seq) getterOp(i int64) seqOp {
	c, o, name := q.root, q.opts, q.loc.idxName
	idx := int(i)
	ops := []struct {
		n string
		f func() error
	}{
		{"Has", func() error { _, err := c.Has(name, idx, o...); return err }},
		{"Int", func() error { _, err := c.Int(name, idx, o...); return err }},
		{"String", func() error { _, err := c.String(name, idx, o...); return err }},
		{"Child", func() error { _, err := c.Child(name, idx, o...); return err }},
		{"Remove", func() error { _, err := c.Remove(name, idx, o...); return err }},
	}
	g := ops[q.r.Intn(len(ops))]
	return seqOp{entry: "getter", via: "idx-argument:" + g.n, desc: fmt.Sprintf("%s(%q, %d)", g.n, name, idx), i: i, run: g.f}
}

// spelling of an index as a key segment.
func (q *seq) spell(i int64) string {
	ok := func(s string) bool {
		return s != "" && !strings.ContainsAny(s, "./= ,\"`\\") && tagSafe(s)
	}
	switch k := q.r.Intn(20); {
	case k < 11:
		return strconv.FormatInt(i, 10)
	case k < 17:
		sp := spellings(i)
		if s := sp[q.r.Intn(len(sp))]; ok(s) {
			return s
		}
	case k < 19:
		if s := randomString(q.r); ok(s) {
			return s
		}
	default:
		return "-" + strconv.FormatInt(i, 10)
	}
	return strconv.FormatInt(i, 10)
}

func (q *seq) flatKey(s string) string {
	return strings.Join(append(append([]string{}, q.loc.prefix...), s), q.sep)
}

// keyOp: the index arrives as a segment of a key.
func (q *seq) keyOp(i int64) seqOp {
	s := q.spell(i)
	v := q.nextVal()
	c, o := q.root, q.opts
	flat := len(q.loc.prefix) == 0 || q.sep != ""
	var forms []string
	if flat {
		forms = append(forms, "setter-name", "setter-name", "merge-flat-key", "flag", "struct-tag")
	}
	if q.loc.nest != nil {
		forms = append(forms, "merge-nested-map", "merge-nested-struct-tag")
	}
	form := forms[q.r.Intn(len(forms))]
	key := q.flatKey(s)
	op := seqOp{entry: "index-key", via: "index-key:" + form, form: form, i: i, key: key, ksep: q.sep}
	switch form {
	case "setter-name":
		k := q.r.Intn(len(setterNames))
		op.run, op.val, op.desc = q.setter(k, key, -1, v)
		op.via += ":" + setterNames[k]
	case "merge-flat-key":
		var x interface{} = v
		if q.r.Intn(3) == 0 {
			x = "s" + strconv.FormatInt(v, 10)
		}
		op.val = canonOf(x)
		op.desc = fmt.Sprintf("Merge({%q: %v})", key, x)
		op.run = func() error { return c.Merge(map[string]interface{}{key: x}, o...) }
	case "flag":
		arg, auto := key+"="+strconv.FormatInt(v, 10), q.r.Intn(2) == 0
		op.val = canonOf(v)
		switch q.r.Intn(5) {
		case 0:
			arg, op.val = key+"=s"+strconv.FormatInt(v, 10), "s"+strconv.FormatInt(v, 10)
		case 1:
			arg, op.val, auto = key, "true", true
		}
		op.desc = fmt.Sprintf("flag.NewFlagKeyValue(cfg, %v, opts).Set(%q)", auto, arg)
		op.run = func() error {
			fv := uflag.NewFlagKeyValue(c, auto, o...)
			if err := fv.Set(arg); err != nil {
				return err
			}
			return fv.Error()
		}
	case "struct-tag":
		T := structType(key)
		if T == nil {
			return q.idxArgOp(i)
		}
		op.val = canonOf(v)
		op.desc = fmt.Sprintf("Merge(struct{F int64 `config:%q`}{%d})", key, v)
		op.run = func() error {
			sv := reflect.New(T).Elem()
			sv.Field(0).SetInt(v)
			return c.Merge(sv.Interface(), o...)
		}
	case "merge-nested-map":
		// the segment is a key of its own in a nested map
		op.key, op.val = s, canonOf(v)
		var x interface{} = map[string]interface{}{s: v}
		for j := len(q.loc.nest) - 1; j >= 0; j-- {
			x = map[string]interface{}{q.loc.nest[j]: x}
		}
		op.desc = fmt.Sprintf("Merge(%v)", x)
		op.run = func() error { return c.Merge(x, o...) }
	case "merge-nested-struct-tag":
		T := structType(s)
		if T == nil {
			return q.idxArgOp(i)
		}
		op.key, op.val = s, canonOf(v)
		op.desc = fmt.Sprintf("Merge(%v: struct{F int64 `config:%q`}{%d})", q.loc.nest, s, v)
		op.run = func() error {
			sv := reflect.New(T).Elem()
			sv.Field(0).SetInt(v)
			var x interface{} = sv.Interface()
			for j := len(q.loc.nest) - 1; j >= 0; j-- {
				x = map[string]interface{}{q.loc.nest[j]: x}
			}
			return c.Merge(x, o...)
		}
	}
	return op
}

// dataOp: the caller's own list of k entries (prefill only).
func (q *seq) dataOp(k int) seqOp {
	l := make([]interface{}, k)
	for i := range l {
		l[i] = int64(100 + i)
	}
	var x interface{} = l
	for j := len(q.loc.nest) - 1; j >= 0; j-- {
		x = map[string]interface{}{q.loc.nest[j]: x}
	}
	c, o := q.root, q.opts
	return seqOp{entry: "data", via: "data:merge-slice", desc: fmt.Sprintf("Merge(%v: list of %d entries)", q.loc.nest, k), data: k,
		run: func() error { return c.Merge(x, o...) }}
}

func (q *seq) drawIndex() int64 {
	m, n := q.st.m, int64(q.cur.n)
	r := q.r
	for tries := 0; tries < 12; tries++ {
		switch k := r.Intn(100); {
		case k < 38: // the band between max(MaxIdx, L) and MaxIdx+L
			lo, hi := max64(m, n)+1, m+n
			if hi < lo {
				continue
			}
			switch r.Intn(3) {
			case 0:
				return lo
			case 1:
				return hi
			}
			return lo + r.Int63n(hi-lo+1)
		case k < 50:
			return n
		case k < 60:
			if n == 0 {
				continue
			}
			return r.Int63n(n)
		case k < 70: // padded growth within the maximum
			if m <= n {
				continue
			}
			hi := m
			if hi > n+40 && r.Intn(5) != 0 {
				hi = n + 40
			}
			return n + 1 + r.Int63n(hi-n)
		case k < 78:
			if m < 0 {
				continue
			}
			return m + int64(r.Intn(2))
		case k < 93: // beyond the band
			base := max64(n, m+n)
			if r.Intn(4) == 0 {
				return 2*base + 2
			}
			return base + 1 + int64(r.Intn(3))
		default:
			return hugeIdx[r.Intn(len(hugeIdx))]
		}
	}
	return max64(n, m+n) + 1
}

func (q *seq) drawLoc() {
	p, l := q.w.p, "l"
	if q.r.Intn(2) == 0 {
		l = q.w.q
	}
	kinds := []string{"top", "named", "named"}
	if q.sep != "" {
		kinds = append(kinds, "nested", "nested")
		if q.st.m >= 0 {
			kinds = append(kinds, "list-in-list")
		}
	}
	switch kind := kinds[q.r.Intn(len(kinds))]; kind {
	case "top":
		q.loc = seqLoc{kind: kind}
	case "named":
		q.loc = seqLoc{kind: kind, idxName: l, prefix: []string{l}, nest: []string{l}, path: []locStep{{l, -1}}}
	case "nested":
		q.loc = seqLoc{kind: kind, idxName: p + q.sep + l, prefix: []string{p, l}, nest: []string{p, l}, path: []locStep{{p, -1}, {l, -1}}}
	case "list-in-list":
		j := q.r.Intn(int(minInt64(q.st.m, 3)) + 1)
		js := strconv.Itoa(j)
		q.loc = seqLoc{kind: kind, idxName: l + q.sep + js, prefix: []string{l, js}, path: []locStep{{l, -1}, {"", j}}}
	}
}

func minInt64(a, b int64) int64 {
	if a < b {
		return a
	}
	return b
}

// prefill brings the list to its starting length through calls that are
// themselves checked against the oracle.
func (q *seq) prefill() {
	m := q.st.m
	r := q.r
	L := 0
	switch k := r.Intn(100); {
	case k < 7:
		L = 0
	case k < 72:
		L = 1 + r.Intn(6)
	case k < 84:
		if m+1 >= 1 && (m < 1000 || r.Intn(3) == 0) {
			L = int(m + 1)
		} else {
			L = 1 + r.Intn(6)
		}
	default:
		if m >= 0 && m <= 100 {
			L = int(m) + 2 + r.Intn(3)
		} else {
			L = 7 + r.Intn(6)
		}
	}
	method := "element-by-element"
	switch k := r.Intn(100); {
	case k < 25 && L >= 2 && int64(L) <= m+1:
		method = "one-padded-jump"
	case k < 55 && q.loc.kind != "list-in-list" && L >= 1:
		method = "callers-own-list"
	case L > 40:
		method = "callers-own-list"
		if q.loc.kind == "list-in-list" {
			method = "one-padded-jump"
			if int64(L) > m+1 {
				L = int(m + 1)
			}
		}
	}
	q.w.res.SetAdd("seq_prefill", method)
	switch method {
	case "one-padded-jump":
		q.exec(q.idxArgOp(int64(L - 1)))
	case "callers-own-list":
		q.exec(q.dataOp(L))
	default:
		for i := 0; i < L && !q.dead; i++ {
			if q.cur.n != i {
				// an append above the maximum was refused (not pinned by the statement)
				break
			}
			q.exec(q.idxArgOp(int64(i)))
		}
	}
}

func (w *world) runSequence(r *rand.Rand) {
	q := &seq{w: w, r: r}
	q.st = setting{m: seqMaxIdx[r.Intn(len(seqMaxIdx))], e: r.Intn(3) == 0}
	q.sep = []string{"", ".", ".", ".", "/"}[r.Intn(5)]
	q.opts = q.st.opts(q.sep)
	if w.olr != nil && w.olr.Intn(3) == 0 {
		// the setting arrives as the END of a list that repeats MaxIdx /
		// EnableNumKeys (optlist.go); the one list value serves every call
		q.opts, q.olDesc = repeatedList(w.olr, q.st, q.sep)
		w.res.Ev("seq_sequences_with_repeated_option_list", 1)
	}
	q.limit = int(q.st.m) + 1
	if q.limit < 0 {
		q.limit = 0
	}
	q.drawLoc()
	q.root = ucfg.New()
	q.cur = seqObs{names: map[string]string{}}
	w.res.Ev("seq_sequences", 1)
	w.res.SetAdd("seq_list_location", q.loc.kind)
	w.res.SetAdd("seq_setting", fmt.Sprintf("m=%d/e=%v/sep=%q", q.st.m, q.st.e, q.sep))

	q.prefill()
	if q.dead {
		return
	}
	w.res.SetAdd("seq_start_length", lengthBucket(q.cur.n, q.limit))
	steps := 3 + r.Intn(6)
	for k := 0; k < steps && !q.dead; k++ {
		i := q.drawIndex()
		var op seqOp
		switch e := r.Intn(100); {
		case e < 42:
			op = q.idxArgOp(i)
		case e < 88:
			op = q.keyOp(i)
		default:
			op = q.getterOp(i)
		}
		q.exec(op)
	}
	if !q.dead {
		w.res.Ev("seq_sequences_completed", 1)
		w.res.SetAdd("seq_end_length", lengthBucket(q.cur.n, q.limit))
	}
}

func lengthBucket(n, limit int) string {
	switch {
	case n == 0:
		return "0"
	case n < limit:
		return "below-max+1"
	case n == limit:
		return "max+1"
	}
	return "above-max+1"
}

func (w *world) runSequences(seed int64, idx int) {
	r := rand.New(rand.NewSource(harness.Mix(seed, "C20/sequences", idx)))
	w.olr = rand.New(rand.NewSource(harness.Mix(seed, "C20/sequences/optlists", idx)))
	for k := 0; k < seqPerCase; k++ {
		w.runSequence(r)
	}
}
