package c20

// Names that arrive together with an idx argument, CountField, and
// white-space padded near-numeric keys.
//
// (a) Every getter/setter takes (name, idx). The role of the NAME's segments
// is what the statement says, whether or not the same call also carries an
// idx >= 0: on a prepared configuration that holds, side by side, list slot v
// and the dictionary entry s - both leading to a LIST, with different contents
// and lengths - name+idx calls must reach the list the oracle's role of s
// selects.
//
// (b) CountField(name) is one more name-taking getter: it must find the same
// setting as Has/Int/... with the same name and options.
//
// (c) wsTable: integer literals padded with white space (outer, inner) are no
// integer literals; through every usage - in particular the flag package's
// key=value route - they are names that round-trip byte for byte.

import (
	"fmt"
	"math/rand"
	"strconv"
	"strings"

	ucfg "github.com/elastic/go-ucfg"

	"verif/internal/harness"
)

const (
	nameBase = 70  // the list stored under the NAME s: [{k:70}, 71, 72, true] (4 entries)
	slotBase = 300 // the list in slot v: [{k:300}, 301, 302, false, 304] (5 entries); slot v+1: 400.. (6 entries)
	nameLen  = 4
	slotLen  = 5
)

func leafList(base int64, n int, flag bool) []interface{} {
	l := []interface{}{map[string]interface{}{"k": base}, base + 1, base + 2, flag}
	for i := 4; i < n; i++ {
		l = append(l, base+int64(i))
	}
	return l
}

func nestAny(names []string, x interface{}) interface{} {
	for i := len(names) - 1; i >= 0; i-- {
		x = map[string]interface{}{names[i]: x}
	}
	return x
}

func walkTo(x interface{}, names []string) []interface{} {
	for _, n := range names {
		m, ok := x.(map[string]interface{})
		if !ok {
			return nil
		}
		x = m[n]
	}
	l, _ := x.([]interface{})
	return l
}

// countFieldSig: class of the name CountField did not treat like the getters.
func countFieldSig(segs []segment) string {
	multi := keySegs(segs) > 1
	hasIdx := false
	for _, sg := range segs {
		if sg.index && !sg.syn {
			hasIdx = true
		}
	}
	switch {
	case multi && hasIdx:
		return "countfield-name-not-parsed:path-with-index-segment"
	case multi:
		return "countfield-name-not-parsed:multi-segment-path"
	case hasIdx:
		return "countfield-name-not-parsed:index-name"
	}
	return "countfield-disagrees-with-getters:plain-name"
}

// prepareL is prepare with lists as leaves (see the constants above); extra
// lengthens every list (for the config that is mutated setting after setting).
func (w *world) prepareL(s string, prefix, suffix []string, extra int) (hy hybrid, ok bool) {
	hv := int64(-1)
	if v, err := strconv.ParseInt(s, 0, 64); err == nil {
		if v >= 0 && v <= 65536 {
			hv = v
		}
	} else if v, err := strconv.ParseInt(s, 10, 64); err == nil && v >= 0 && v <= 65536 {
		hv = v
	} else if v, err := strconv.ParseInt(strings.TrimSpace(s), 0, 64); err == nil && v >= 0 && v <= 65536 {
		hv = v // a padded literal: a reading as index would go here
	}
	hy.hv = hv
	w.arm(1 << 17)
	panicked, _, _ := harness.Safe(func() {
		h := ucfg.New()
		first, n := int64(0), int64(3)
		if hv >= 0 {
			first, n = hv, 2
		}
		for i := first; i < first+n; i++ {
			k := i - first
			ch, err := ucfg.NewFrom(nestAny(suffix, leafList(slotBase+100*k, slotLen+int(k)+extra, false)))
			if err != nil {
				return
			}
			if err := h.SetChild("", int(i), ch, ucfg.MaxIdx(1<<17)); err != nil {
				return
			}
		}
		hy.l = int(first + n)
		if err := h.Merge(map[string]interface{}{s: nestAny(suffix, leafList(nameBase, nameLen+extra, true))}, ucfg.EnableNumKeys(true)); err != nil {
			return
		}
		names := h.GetFields()
		cnt, _ := h.CountField("")
		if !h.HasField(s) || len(names) != 1 || names[0] != s || cnt != hy.l+1 || !h.IsArray() {
			return
		}
		hy.h = h
		cur := h
		for i := len(prefix) - 1; i >= 0; i-- {
			t := ucfg.New()
			if err := t.SetChild(prefix[i], -1, cur); err != nil {
				return
			}
			cur = t
		}
		hy.top = cur
		ok = true
	})
	w.res.Eval(6)
	if panicked {
		ok = false
	}
	return hy, ok
}

// readLists reads the list under the name s and the list in slot hv back
// with raw observers.
func (w *world) readLists(hy hybrid, s string, suffix []string) (nameL, slotL []interface{}, ok bool) {
	var (
		mm     map[string]interface{}
		aa     []interface{}
		e1, e2 error
	)
	panicked, _, _ := harness.Safe(func() {
		e1 = hy.h.Unpack(&mm)
		e2 = hy.h.Unpack(&aa)
	})
	w.res.Eval(2)
	if panicked || e1 != nil || e2 != nil {
		return nil, nil, false
	}
	nameL = walkTo(mm[s], suffix)
	if hy.hv >= 0 && int(hy.hv) < len(aa) {
		slotL = walkTo(aa[hy.hv], suffix)
	}
	return nameL, slotL, nameL != nil
}

func at(l []interface{}, i int) string {
	if i < 0 || i >= len(l) {
		return "<absent>"
	}
	return canonOf(l[i])
}

// gettersIdx: name + idx argument >= 0 and CountField on the prepared config.
func (w *world) gettersIdx(pos position, s, key string, sts []setting) (wrongIndex bool) {
	if pos.twice || key == "" || (pos.sep != "" && strings.Contains(s, pos.sep)) {
		return false
	}
	prefix, suffix := pos.names(w.p, w.q, pos.prefix), pos.names(w.p, w.q, pos.suffix)
	single := len(prefix)+len(suffix) == 0
	hy, ok := w.prepareL(s, prefix, suffix, 0)
	if !ok {
		w.res.Ev("prepared_list_config_unbuildable", 1)
		return false
	}
	// the config the setters and Remove work on: one for all settings (every
	// call is judged by what it changed), rebuilt after a deviation
	var fresh hybrid
	haveFresh := false
	roleOf := func(x, off int64) string {
		switch {
		case x == nameBase+off:
			return "name"
		case hy.hv >= 0 && x == slotBase+off:
			return "index"
		}
		return "wrong-value"
	}
	for si, st := range sts {
		sg := classify(s, st, single)
		segs := expect(key, pos.sep, st)
		opts := w.optsFor(st, pos.sep)
		want := "name"
		if sg.index {
			want = "index"
		}
		asIdxSeen := false
		judge := func(op, obs, detail string, countField bool) {
			w.res.Ev("classifications", 1)
			if obs == want {
				w.res.Ev("name_with_idx_roles_confirmed", 1)
				w.res.SetAdd("confirmed", "name+idx:"+strings.SplitN(op, "(", 2)[0]+"/"+pos.name)
				return
			}
			d := deviation{obs: obs, detail: detail, hint: asIdxSeen && obs == "missing"}
			if obs == "panic" {
				d.pval, d.where = detail, op
			}
			var sig string
			switch {
			case obs == "panic":
				sig = "panic:" + op
			case countField && !(want == "name" && obs == "index"):
				sig = countFieldSig(segs)
			case countField:
				sig = w.sigFor(sg, st, single, d, false) + ":countfield"
			default:
				sig = w.sigFor(sg, st, single, d, false) + ":with-idx-argument"
			}
			if treatedAsIndex(sg, d) {
				wrongIndex, asIdxSeen = true, true
			}
			if w.capped(sig) {
				return
			}
			role := "a name (the list under it is [{k:70} 71 72 true])"
			if sg.index {
				role = fmt.Sprintf("list index %d (the list in that slot is [{k:300} 301 302 false 304])", sg.v)
			}
			w.res.Violate(sig, "%s with name %q (%s, PathSep=%q, %s) on a config holding both list slots and the name %q, each leading to a list: segment %q must be %s but observed %s: %s",
				op, key, pos.name, pos.sep, st, s, s, role, obs, detail)
		}
		num := func(op string, off int64, f func() (int64, error)) {
			var (
				x   int64
				err error
			)
			panicked, pv, where := harness.Safe(func() { x, err = f() })
			w.res.Eval(1)
			switch {
			case panicked:
				judge(firstFrame(where), "panic", pv, false)
			case err != nil:
				judge(op, "missing", fmt.Sprintf("error %v", err), false)
			default:
				judge(op, roleOf(x, off), fmt.Sprintf("read %d", x), false)
			}
		}
		c := hy.top
		// Has(key, 1): both lists have a slot 1
		num("Has(name, 1)", 1, func() (int64, error) {
			has, err := c.Has(key, 1, opts...)
			if err != nil || !has {
				return 0, fmt.Errorf("Has = %v, %v", has, err)
			}
			if want == "index" {
				return slotBase + 1, nil
			}
			return nameBase + 1, nil
		})
		num("Int(name, 1)", 1, func() (int64, error) { return c.Int(key, 1, opts...) })
		num("Uint(name, 2)", 2, func() (int64, error) { x, err := c.Uint(key, 2, opts...); return int64(x), err })
		num("Float(name, 2)", 2, func() (int64, error) { x, err := c.Float(key, 2, opts...); return int64(x), err })
		num("String(name, 1)", 1, func() (int64, error) {
			x, err := c.String(key, 1, opts...)
			if err != nil {
				return 0, err
			}
			return strconv.ParseInt(x, 10, 64)
		})
		num("Bool(name, 3)", 3, func() (int64, error) {
			b, err := c.Bool(key, 3, opts...)
			if err != nil {
				return 0, err
			}
			if b {
				return nameBase + 3, nil
			}
			return slotBase + 3, nil
		})
		num("Child(name, 0)", 0, func() (int64, error) {
			ch, err := c.Child(key, 0, opts...)
			if err != nil {
				return 0, err
			}
			return ch.Int("k", -1)
		})
		// Has(key, 4): only the list in the slot has a fifth entry
		num("Has(name, 4)", 4, func() (int64, error) {
			has, err := c.Has(key, 4, opts...)
			if err != nil {
				return 0, err
			}
			if has {
				return slotBase + 4, nil
			}
			return nameBase + 4, nil
		})
		// CountField(key): 4 entries under the name, 5 in the slot
		{
			var (
				n   int
				err error
			)
			panicked, pv, where := harness.Safe(func() { n, err = c.CountField(key, opts...) })
			w.res.Eval(1)
			switch {
			case panicked:
				judge(firstFrame(where), "panic", pv, true)
			case err != nil:
				judge("CountField(name)", "missing", fmt.Sprintf("CountField = %d, %v", n, err), true)
			case n == nameLen:
				judge("CountField(name)", "name", "counted the 4 entries of the list under the name", true)
			case n == slotLen && hy.hv >= 0:
				judge("CountField(name)", "index", fmt.Sprintf("counted the 5 entries of the list in slot %d", hy.hv), true)
			default:
				judge("CountField(name)", "wrong-value", fmt.Sprintf("CountField = %d", n), true)
			}
		}
		// setter and Remove with idx (mutate: fresh config, only when cheap)
		if hy.l > 66 {
			continue
		}
		if !haveFresh {
			if fresh, haveFresh = w.prepareL(s, prefix, suffix, 2*len(allSettings)); !haveFresh {
				continue
			}
		}
		n0, s0, ok := w.readLists(fresh, s, suffix)
		if !ok || len(n0) < 5 || (fresh.hv >= 0 && len(s0) < 5) {
			haveFresh = false
			continue
		}
		before := w.res.Events["name_with_idx_roles_confirmed"]
		k := (len(s) + si) % len(setterNames)
		t := 2
		wv := int64(900 + si)
		nums := strconv.FormatInt(wv, 10)
		var (
			err     error
			written string
		)
		panicked, pv, where := harness.Safe(func() {
			switch k {
			case 0:
				t = 3
				sel := n0
				if want == "index" {
					sel = s0
				}
				b := at(sel, t) != "true" // not what the selected list holds
				written = strconv.FormatBool(b)
				err = fresh.top.SetBool(key, t, b, opts...)
			case 1:
				written = nums
				err = fresh.top.SetInt(key, t, wv, opts...)
			case 2:
				written = nums
				err = fresh.top.SetUint(key, t, uint64(wv), opts...)
			case 3:
				written = nums + ".5"
				err = fresh.top.SetFloat(key, t, float64(wv)+0.5, opts...)
			case 4:
				written = "s" + nums
				err = fresh.top.SetString(key, t, "s"+nums, opts...)
			default:
				written = "{k:" + nums + "}"
				ch, e := ucfg.NewFrom(map[string]interface{}{"k": wv})
				if e != nil {
					err = e
					return
				}
				err = fresh.top.SetChild(key, t, ch, opts...)
			}
		})
		w.res.Eval(1)
		op := fmt.Sprintf("%s(name, %d, %s)", setterNames[k], t, written)
		n1, s1, ok1 := w.readLists(fresh, s, suffix)
		switch {
		case panicked:
			judge(firstFrame(where), "panic", pv, false)
		case err != nil:
			judge(op, "missing", fmt.Sprintf("error %v", err), false)
		case !ok1:
			judge(op, "wrong-value", "the prepared configuration can not be read back any more", false)
		default:
			cn, cs := at(n1, t) != at(n0, t), at(s1, t) != at(s0, t)
			switch {
			case cn && !cs && at(n1, t) == written:
				judge(op, "name", "", false)
			case cs && !cn && at(s1, t) == written:
				judge(op, "index", fmt.Sprintf("entry %d of the list in slot %d was written", t, hy.hv), false)
			case !cn && !cs:
				judge(op, "missing", fmt.Sprintf("returned nil but neither list changed at entry %d", t), false)
			default:
				judge(op, "wrong-value", fmt.Sprintf("entry %d: list under the name %s -> %s, list in the slot %s -> %s", t, at(n0, t), at(n1, t), at(s0, t), at(s1, t)), false)
			}
		}
		if panicked || err != nil || !ok1 {
			haveFresh = false
			continue
		}
		var removed bool
		panicked, pv, where = harness.Safe(func() { removed, err = fresh.top.Remove(key, 1, opts...) })
		w.res.Eval(1)
		n2, s2, ok2 := w.readLists(fresh, s, suffix)
		switch {
		case panicked:
			judge(firstFrame(where), "panic", pv, false)
		case err != nil || !removed:
			judge("Remove(name, 1)", "missing", fmt.Sprintf("Remove = %v, %v", removed, err), false)
		case !ok2:
			judge("Remove(name, 1)", "wrong-value", "the prepared configuration can not be read back any more", false)
		case len(n2) == len(n1)-1 && len(s2) == len(s1):
			judge("Remove(name, 1)", "name", "", false)
		case len(s2) == len(s1)-1 && len(n2) == len(n1):
			judge("Remove(name, 1)", "index", fmt.Sprintf("the list in slot %d lost an entry", hy.hv), false)
		default:
			judge("Remove(name, 1)", "wrong-value", fmt.Sprintf("list under the name %d -> %d entries, list in the slot %d -> %d entries", len(n1), len(n2), len(s1), len(s2)), false)
		}
		if w.res.Events["name_with_idx_roles_confirmed"] != before+2 {
			haveFresh = false // a deviation: start from a clean configuration
		}
	}
	return wrongIndex
}

// ---------------------------------------------------------------------------
// white-space padded literals
// ---------------------------------------------------------------------------

// Unicode White_Space (what strings.TrimSpace / unicode.IsSpace strip) and a
// few invisible characters that are not white space.
var wsPads = []string{" ", "\t", "\n", "\r", "\v", "\f", "\u00a0", "\u0085", "\u2003", "\u3000", "\u1680", "  ", " \t", "\u200b", "\ufeff"}

var wsLiterals = []string{"0", "1", "7", "8", "1024", "0x7", "+1", "-1", "0b1", "007", "1_0"}

var wsTable = func() []string {
	seen := map[string]bool{}
	var out []string
	add := func(s string) {
		if !seen[s] {
			seen[s] = true
			out = append(out, s)
		}
	}
	for _, lit := range wsLiterals {
		for _, p := range wsPads {
			add(p + lit)
			add(lit + p)
		}
		for _, p := range []string{" ", "\t", "\n", "\u00a0"} {
			add(p + lit + p)
			if len(lit) > 1 {
				add(lit[:1] + p + lit[1:])
			}
		}
	}
	return out
}()

// randomPadded: a seed-chosen in-range literal in a seed-chosen spelling with
// white space at a seed-chosen place.
func randomPadded(r *rand.Rand) string {
	v := interesting[r.Intn(len(interesting))]
	sp := spellings(v)
	s := sp[r.Intn(len(sp))]
	p := wsPads[r.Intn(len(wsPads))]
	switch r.Intn(5) {
	case 0, 1:
		return p + s
	case 2, 3:
		return s + p
	}
	if len(s) > 1 {
		i := 1 + r.Intn(len(s)-1)
		return s[:i] + p + s[i:]
	}
	return p + s + p
}
