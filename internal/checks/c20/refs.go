package c20

// Round 4: three more places where a key string meets the classifier.
//
// (a) reference names: under ONE option set (the same for building and for
// reading) ${key}, ${key:default}, ${key:+alt}, ${key:?msg} and ${${n}} with
// n = key must all look at the setting the map key of the same spelling
// created - whatever the roles of its segments are.
//
// (b) a name next to list entries (a "hybrid") unpacked as part of its parent:
// the name must come back with its own value, also when it is spelled like
// the position of one of the list entries (or the clash is reported as an
// error) - "an ordinary name that round-trips unchanged".
//
// (c) names given to FieldAppendValues: the policy named K governs the setting
// the data key K creates under the same options, and no setting that the
// oracle says is a different one.

import (
	"fmt"
	"strconv"
	"strings"

	ucfg "github.com/elastic/go-ucfg"

	"verif/internal/harness"
)

func refSafe(key string) bool {
	return key != "" && !strings.ContainsAny(key, "${}:")
}

func roleWord(sg segment) string {
	if sg.index {
		return "index"
	}
	return "name"
}

// targetSeg returns the segment under test of a key built by pos.key.
func targetSeg(pos position, segs []segment) segment {
	i := len(pos.prefix)
	if i >= len(segs) {
		i = len(segs) - 1
	}
	return segs[i]
}

var refForms = []struct{ name, form, op, want string }{
	{"rplain", "plain", "", ""},
	{"rdef", "default", ":dflt", ""},
	{"ralt", "alt", ":+alt", "alt"},
	{"rerr", "error", ":?msg", ""},
	{"rnest", "nested", "", ""},
}

func (w *world) refsUsage(pos position, key string, st setting, segs []segment) {
	if !refSafe(key) {
		return
	}
	opts := append(w.optsFor(st, pos.sep), ucfg.VarExp)
	if w.val%2 == 0 {
		// EscapePath only concerns names of the form [..]: no key of the universe, the oracle is unchanged
		opts = append(opts, ucfg.EscapePath())
		w.res.Ev("reference_cases_with_escapepath", 1)
	}
	V := "v" + strconv.FormatInt(w.val, 10)
	in := map[string]interface{}{key: V, "rn": key}
	for _, f := range refForms {
		if f.form == "nested" {
			in[f.name] = "${${rn}}"
		} else {
			in[f.name] = "${" + key + f.op + "}"
		}
	}
	allowed := 0
	for _, sg := range segs {
		if sg.index && int(sg.v)+1 > allowed {
			allowed = int(sg.v) + 1
		}
	}
	var (
		c    *ucfg.Config
		err  error
		got  [5]string
		errs [5]error
	)
	w.arm(allowed)
	panicked, pv, where := harness.Safe(func() {
		if c, err = ucfg.NewFrom(in, opts...); err != nil {
			return
		}
		for i, f := range refForms {
			got[i], errs[i] = c.String(f.name, -1, opts...)
		}
	})
	tripped := w.tripped
	w.arm(1 << 17)
	w.res.Eval(6)
	sg := targetSeg(pos, segs)
	ctx := func() string {
		return fmt.Sprintf("{%q: %q, r: reference} built and read with PathSep=%q, %s, VarExp (%s; oracle: %s)", key, V, pos.sep, st, pos.name, describeSegs(segs))
	}
	switch {
	case tripped:
		return // the map-key usage reports the wrongly accepted index
	case panicked:
		if sig := "panic:" + firstFrame(where); !w.capped(sig) {
			w.res.Violate(sig, "references to %s: panic %q at %s", ctx(), pv, where)
		}
		return
	case err != nil:
		// whether the key can be stored is the map-key usage's business
		w.res.Ev("reference_config_unbuildable", 1)
		return
	}
	for i, f := range refForms {
		want := V
		if f.want != "" {
			want = f.want
		}
		w.res.Ev("classifications", 1)
		if errs[i] == nil && got[i] == want {
			w.res.Ev("reference_roles_confirmed", 1)
			w.res.SetAdd("confirmed", "reference-"+f.form+"/"+pos.name)
			continue
		}
		sig := "reference-misses-setting:" + f.form + ":" + roleWord(sg)
		if errs[0] != nil || got[0] != V {
			// not even the plain reference finds it
			sig = "reference-misses-setting:all-forms:" + roleWord(sg)
		}
		if w.capped(sig) {
			continue
		}
		expr := in[f.name]
		w.res.Violate(sig, "%s = %q read %q, %v; want %q: the reference must look at the setting the key %q created; %s", f.name, expr, got[i], errs[i], want, key, ctx())
	}
}

// hybridRendering: the prepared config (list slots and the name s side by
// side below the prefix names) unpacked from the top.
func (w *world) hybridRendering(pos position, s string, hy hybrid, prefix, suffix []string) {
	if len(prefix) == 0 || hy.l > 1100 {
		return
	}
	var (
		m   map[string]interface{}
		err error
	)
	panicked, pv, where := harness.Safe(func() { err = hy.top.Unpack(&m) })
	w.res.Eval(1)
	clash := hy.hv >= 0 && int(hy.hv) < hy.l && s == strconv.FormatInt(hy.hv, 10)
	class := "other-spelling"
	if clash {
		class = "spelled-like-a-list-position"
	}
	switch {
	case panicked:
		if sig := "panic:" + firstFrame(where); !w.capped(sig) {
			w.res.Violate(sig, "Unpack of a config holding list slots and the name %q side by side: panic %q at %s", s, pv, where)
		}
		return
	case err != nil:
		// a reported clash is a legitimate answer; anything else is not C20's to judge
		w.res.SetAdd("hybrid_unpack_error", class)
		return
	}
	var x interface{} = m
	for _, p := range prefix {
		mm, ok := x.(map[string]interface{})
		if !ok {
			x = nil
			break
		}
		x = mm[p]
	}
	var found interface{}
	have := false
	if mm, ok := x.(map[string]interface{}); ok {
		found, have = mm[s]
		for _, q := range suffix {
			sub, ok := found.(map[string]interface{})
			if !ok {
				have = false
				break
			}
			found, have = sub[q]
		}
	}
	w.res.Ev("classifications", 1)
	if have && numEq(found, nameValue) {
		w.res.Ev("hybrid_name_roundtrips", 1)
		w.res.SetAdd("hybrid_name_class", class)
		return
	}
	sig := "name-next-to-list-lost-on-unpack:" + class
	if w.capped(sig) {
		return
	}
	w.res.Violate(sig, "a config holds, below %q, list slots 0..%d AND the name %q (value %d, stored with EnableNumKeys; HasField true); Unpack of the whole into map[string]interface{} succeeded but the name came back as %v (present=%v), want %d (%s)",
		prefix, hy.l-1, s, nameValue, found, have, nameValue, pos.name)
}

// policyUsage: FieldAppendValues(key) next to the data key of the same spelling.
func (w *world) policyUsage(pos position, s, key string, st setting, segs []segment) {
	if pos.sep != "." || key == "" || strings.Contains(key, "*") {
		return
	}
	for _, x := range segs {
		if x.s == "" {
			return // an empty segment: a map key only (see Assumptions)
		}
	}
	sg := targetSeg(pos, segs)
	// a second key the oracle says is a DIFFERENT setting of the same kind
	s2 := ""
	switch {
	case sg.index && sg.v+1 <= st.m:
		s2 = strconv.FormatInt(sg.v+1, 10)
	case sg.index && sg.v >= 1:
		s2 = strconv.FormatInt(sg.v-1, 10)
	case !sg.index && sg.ok && sg.v >= 0:
		if s2 = strconv.FormatInt(sg.v, 10); s2 == s {
			s2 = "0x" + strconv.FormatInt(sg.v, 16)
		}
	}
	key2 := ""
	if s2 != "" && s2 != s && !strings.Contains(s, pos.sep) {
		key2 = pos.key(s2, w.p, w.q)
		segs2 := expect(key2, pos.sep, st)
		if t2 := targetSeg(pos, segs2); t2.index != sg.index || (sg.index && t2.v == sg.v) || interiorLarge(segs2, st, w.capInterior) {
			key2 = ""
		}
	}
	opts := append(w.optsFor(st, pos.sep), ucfg.FieldAppendValues(key))
	first := map[string]interface{}{key: []interface{}{"one"}}
	second := map[string]interface{}{key: []interface{}{"two"}}
	allowed := 2 // the appended list itself
	for _, x := range segs {
		if x.index && int(x.v)+2 > allowed {
			allowed = int(x.v) + 2
		}
	}
	if key2 != "" {
		first[key2] = []interface{}{"one"}
		second[key2] = []interface{}{"two"}
	}
	var (
		c      *ucfg.Config
		err    error
		n, n2  int
		e1, e2 error
	)
	w.arm(allowed)
	panicked, pv, where := harness.Safe(func() {
		if c, err = ucfg.NewFrom(first, opts...); err != nil {
			return
		}
		if err = c.Merge(second, opts...); err != nil {
			return
		}
		n, e1 = c.CountField(key, opts...)
		if key2 != "" {
			n2, e2 = c.CountField(key2, opts...)
		}
	})
	tripped := w.tripped
	tripB := w.tripB
	w.arm(1 << 17)
	w.res.Eval(4)
	ctx := func() string {
		return fmt.Sprintf("NewFrom({%q: [one]%s}) then Merge({%q: [two]%s}), both with PathSep(\".\"), %s, FieldAppendValues(%q) (%s; oracle: %s)",
			key, also(key2, "one"), key, also(key2, "two"), st, key, pos.name, describeSegs(segs))
	}
	switch {
	case tripped:
		// somewhere (the data or the policy's own table) a segment was taken
		// for an index the oracle does not allow for these options
		w.res.Ev("classifications", 1)
		if sig := "field-policy-name-grows-list-beyond-oracle:" + roleWord(sg); !w.capped(sig) {
			w.res.Violate(sig, "a list was about to grow to %d slots (aborted by the monitor), the oracle allows at most %d for these keys and options: %s", tripB, allowed, ctx())
		}
		return
	case panicked:
		if sig := "panic:" + firstFrame(where); !w.capped(sig) {
			w.res.Violate(sig, "%s: panic %q at %s", ctx(), pv, where)
		}
		return
	case err != nil || e1 != nil || e2 != nil:
		w.res.Ev("field_policy_config_unbuildable", 1)
		return
	}
	w.res.Ev("classifications", 1)
	switch {
	case n != 2:
		if sig := "field-policy-name-misses-own-key:" + roleWord(sg); !w.capped(sig) {
			w.res.Violate(sig, "the list under %q has %d entries, want 2 (the policy named like the key appends): %s", key, n, ctx())
		}
	case key2 != "" && n2 != 1:
		if sig := "field-policy-applies-to-other-key:" + roleWord(sg); !w.capped(sig) {
			w.res.Violate(sig, "the list under %q has %d entries, want 1: %q is a different setting than %q and has no policy: %s", key2, n2, key2, key, ctx())
		}
	default:
		w.res.Ev("field_policy_roles_confirmed", 1)
		if key2 != "" {
			w.res.Ev("field_policy_other_key_untouched", 1)
		}
		w.res.SetAdd("confirmed", "field-policy-name/"+pos.name)
	}
}

func also(key2, v string) string {
	if key2 == "" {
		return ""
	}
	return fmt.Sprintf(", %q: [%s]", key2, v)
}
