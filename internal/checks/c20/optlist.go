// optlist.go - sixth wave: option LISTS in which MaxIdx / EnableNumKeys occur
// more than once.
//
// The statement speaks of "the configured maximum index" and of numeric keys
// being "enabled" or not: what is configured by a list of options is what the
// list says at its end - options are applied in the order given and a later
// occurrence of an option replaces the value of an earlier one
// ([base..., EnableNumKeys(true)] + EnableNumKeys(false) ends with numeric
// keys disabled, [MaxIdx(1024), MaxIdx(3)] ends with the limit 3). The oracle
// is the statement's classifier under the EFFECTIVE values (the arguments of
// the last MaxIdx and of the last EnableNumKeys of the list); the list is a
// random interleaving of 1..3 EnableNumKeys, 1..3 MaxIdx, PathSep (once or
// twice, always the same separator) and options that do not concern keys
// (VarExp, StructTag("config"), ValidatorTag("validate"), MetaData). One list
// value is used for every call of a scenario: two keys, every building usage
// (map key, setter name, struct tag, setter name + idx argument, flag), the
// getters Has/Int/Remove/CountField/Child on the prepared configs - the same
// []Option and the same Option values from the first call to the last.
//
// A deviation is classified by a differential re-run (nothing is reported
// from the re-runs): the same calls with the canonical three-option list of
// the effective setting, then with the repeated list against the classifier
// under the values of EARLIER occurrences. Silent canonical list + silent
// under an earlier value = the last occurrence was not the effective one.
package c20

import (
	"fmt"
	"math/rand"
	"reflect"
	"strconv"
	"strings"

	ucfg "github.com/elastic/go-ucfg"

	"verif/internal/harness"
)

const optListsPerCase = 2

// optList is one drawn option list.
type optList struct {
	opts []ucfg.Option
	desc []string
	sep  string
	es   []bool  // arguments of the EnableNumKeys occurrences, in list order
	ms   []int64 // arguments of the MaxIdx occurrences, in list order
}

func (ol *optList) effective() setting {
	return setting{m: ol.ms[len(ol.ms)-1], e: ol.es[len(ol.es)-1]}
}

func (ol *optList) String() string { return "[" + strings.Join(ol.desc, ", ") + "]" }

// optsFor: the option list of a call - the canonical three options of the
// setting, or the drawn list while an option-list scenario runs (the SAME
// backing array every time; the capacity is cut so that an append by the
// caller can not write into it).
func (w *world) optsFor(st setting, sep string) []ucfg.Option {
	if w.ol != nil && w.ol.sep == sep {
		return w.ol.opts[:len(w.ol.opts):len(w.ol.opts)]
	}
	return st.opts(sep)
}

// maxIdxPool: limits around the numeric reading v of the key (so that the
// occurrences of one list disagree about the key) and the check's usual ones.
func maxIdxPool(v int64, numeric bool) []int64 {
	pool := []int64{-5, -1, 0, 1, 7, 1024}
	if numeric && v >= 0 && v <= 1100 {
		pool = append(pool, v-1, v-1, v, v, v+1, 2*v+2, v+3)
	}
	return pool
}

// drawOptList draws a list for keys whose numeric reading is v.
func drawOptList(r *rand.Rand, sep string, v int64, numeric bool) *optList {
	ol := &optList{sep: sep}
	type item struct {
		o    ucfg.Option
		desc string
		kind byte // 'e', 'm', other
		e    bool
		m    int64
	}
	var items []item
	nE, nM := 1+r.Intn(3), 1+r.Intn(3)
	if nE == 1 && nM == 1 {
		if r.Intn(2) == 0 {
			nE = 2
		} else {
			nM = 2
		}
	}
	es := make([]bool, nE)
	for i := range es {
		es[i] = r.Intn(2) == 0
	}
	if nE >= 2 && r.Intn(4) != 0 {
		// the occurrences disagree: the last one differs from the one before
		es[nE-2] = !es[nE-1]
	}
	for _, e := range es {
		items = append(items, item{o: ucfg.EnableNumKeys(e), desc: fmt.Sprintf("EnableNumKeys(%v)", e), kind: 'e', e: e})
	}
	pool := maxIdxPool(v, numeric)
	ms := make([]int64, nM)
	for i := range ms {
		ms[i] = pool[r.Intn(len(pool))]
	}
	if nM >= 2 && numeric && v >= 0 && v <= 1100 && r.Intn(4) != 0 {
		// the occurrences disagree about the key: one admits v, the other does not
		in, out := v+int64(r.Intn(3)), []int64{v - 1, -1, -5, 0}[r.Intn(4)]
		if out >= v {
			out = v - 1
		}
		if r.Intn(2) == 0 {
			ms[nM-2], ms[nM-1] = in, out
		} else {
			ms[nM-2], ms[nM-1] = out, in
		}
	}
	for _, m := range ms {
		items = append(items, item{o: ucfg.MaxIdx(m), desc: fmt.Sprintf("MaxIdx(%d)", m), kind: 'm', m: m})
	}
	if sep != "" {
		for k := 1 + r.Intn(2); k > 0; k-- {
			items = append(items, item{o: ucfg.PathSep(sep), desc: fmt.Sprintf("PathSep(%q)", sep)})
		}
	}
	for k := r.Intn(4); k > 0; k-- {
		switch r.Intn(4) {
		case 0:
			items = append(items, item{o: ucfg.VarExp, desc: "VarExp"})
		case 1:
			items = append(items, item{o: ucfg.StructTag("config"), desc: `StructTag("config")`})
		case 2:
			items = append(items, item{o: ucfg.ValidatorTag("validate"), desc: `ValidatorTag("validate")`})
		default:
			items = append(items, item{o: ucfg.MetaData(ucfg.Meta{Source: "optlist"}), desc: "MetaData"})
		}
	}
	r.Shuffle(len(items), func(i, j int) { items[i], items[j] = items[j], items[i] })
	for _, it := range items {
		ol.opts = append(ol.opts, it.o)
		ol.desc = append(ol.desc, it.desc)
		switch it.kind {
		case 'e':
			ol.es = append(ol.es, it.e)
		case 'm':
			ol.ms = append(ol.ms, it.m)
		}
	}
	return ol
}

// drawOptKey: mostly small integers in every spelling (cheap lists whatever
// occurrence of MaxIdx is taken), some of the usual near-numeric strings.
func drawOptKey(r *rand.Rand) string {
	var v int64
	switch k := r.Intn(16); {
	case k == 0:
		return randomString(r)
	case k == 1:
		v = []int64{63, 64, 255, 256, 1023, 1024}[r.Intn(6)]
	case k < 5:
		v = int64(r.Intn(40))
	default:
		v = int64(r.Intn(10))
	}
	sp := spellings(v)
	if r.Intn(3) == 0 {
		return sp[0] // plain decimal
	}
	return sp[r.Intn(len(sp))]
}

// muted runs f with a scratch result: nothing f reports reaches the case.
func (w *world) muted(f func()) (violations int) {
	res, seen := w.res, w.sigSeen
	w.res, w.sigSeen = harness.NewR(res.Index), map[string]int{}
	f()
	violations = len(w.res.Violations)
	evals := w.res.Evals
	w.res, w.sigSeen = res, seen
	w.res.Eval(evals)
	return violations
}

// optKeyUsages: one key through every building usage and the getters, all
// with the options optsFor hands out, judged under st.
func (w *world) optKeyUsages(pos position, s string, st setting) {
	key := pos.key(s, w.p, w.q)
	var T reflect.Type
	if tagSafe(key) {
		T = structType(key)
	}
	segs := expect(key, pos.sep, st)
	if segs[0].index && segs[0].v > w.capTop {
		return
	}
	large := interiorLarge(segs, st, w.capInterior)
	for u := uMap; u < nUsages; u++ {
		switch {
		case u == uStruct && T == nil,
			u != uMap && u != uStruct && key == "",
			(u == uFlag || u == uFlagBool) && strings.Contains(key, "="),
			u == uFlagBool,
			u == uSetIdx && st.m < 0,
			u != uSet && large:
			continue
		}
		w.builder(u, pos, key, st, segs, T, false)
	}
	if large || key == "" {
		return
	}
	w.getters(pos, s, key, []setting{st}, T)
	w.gettersIdx(pos, s, key, []setting{st})
}

func maxIdxRelation(last, inEffect int64) string {
	switch {
	case last < 0 && inEffect >= 0:
		return "negative-after-non-negative"
	case last < inEffect:
		return "lower-after-higher"
	}
	return "higher-after-lower"
}

// runOptLists: optListsPerCase lists per case, two keys per list.
func (w *world) runOptLists(seed int64, idx int) {
	r := rand.New(rand.NewSource(harness.Mix(seed, "C20/optlists", idx)))
	bySep := map[string][]position{}
	var seps []string
	for _, p := range w.poss {
		if p.twice {
			continue
		}
		if _, ok := bySep[p.sep]; !ok {
			seps = append(seps, p.sep)
		}
		bySep[p.sep] = append(bySep[p.sep], p)
	}
	for k := 0; k < optListsPerCase; k++ {
		sep := seps[r.Intn(len(seps))]
		if r.Intn(3) == 0 {
			sep = "" // whole keys: the place where EnableNumKeys decides
		}
		s1 := drawOptKey(r)
		v, err := strconv.ParseInt(s1, 0, 64)
		ol := drawOptList(r, sep, v, err == nil)
		st := ol.effective()
		// the second key: another spelling of a number near the first one
		s2 := drawOptKey(r)
		if err == nil && v >= 0 && v < 1100 && r.Intn(2) == 0 {
			sp := spellings(v + int64(r.Intn(3)) - 1)
			s2 = sp[r.Intn(len(sp))]
		}
		w.res.Ev("optlist_lists", 1)
		w.res.SetAdd("optlist_shape", fmt.Sprintf("EnableNumKeys x%d, MaxIdx x%d, %d options", len(ol.es), len(ol.ms), len(ol.opts)))
		w.res.SetAdd("optlist_effective_setting", st.String())
		if n := len(ol.es); n >= 2 && ol.es[n-1] != ol.es[n-2] {
			w.res.Ev(fmt.Sprintf("optlist_last_enablenumkeys_%v_after_%v", ol.es[n-1], ol.es[n-2]), 1)
		}
		if n := len(ol.ms); n >= 2 && ol.ms[n-1] != ol.ms[n-2] {
			w.res.Ev("optlist_last_maxidx_"+maxIdxRelation(ol.ms[n-1], ol.ms[n-2]), 1)
		}
		for _, s := range []string{s1, s2} {
			ps := bySep[sep]
			pos := ps[r.Intn(len(ps))]
			if pos.sep != "" && strings.Contains(s, pos.sep) {
				continue
			}
			w.optScenario(ol, pos, s, st)
		}
	}
}

// alternatives: the settings the list would configure if an earlier
// occurrence were the effective one.
func (ol *optList) alternatives() (onlyE, onlyM, both []setting) {
	st := ol.effective()
	otherE := false
	for _, e := range ol.es {
		if e != st.e {
			otherE = true
		}
	}
	seen := map[int64]bool{st.m: true}
	var otherM []int64
	for _, m := range ol.ms {
		if !seen[m] {
			seen[m] = true
			otherM = append(otherM, m)
		}
	}
	if otherE {
		onlyE = append(onlyE, setting{st.m, !st.e})
	}
	for _, m := range otherM {
		onlyM = append(onlyM, setting{m, st.e})
		if otherE {
			both = append(both, setting{m, !st.e})
		}
	}
	return
}

func (w *world) optScenario(ol *optList, pos position, s string, st setting) {
	key := pos.key(s, w.p, w.q)
	// does the role of a segment depend on which occurrence is taken?
	onlyE, onlyM, both := ol.alternatives()
	role := func(x setting) string {
		var b strings.Builder
		for _, sg := range expect(key, pos.sep, x) {
			if sg.index {
				b.WriteByte('i')
			} else {
				b.WriteByte('n')
			}
		}
		return b.String()
	}
	want := role(st)
	dependsE, dependsM := false, false
	for _, a := range onlyE {
		dependsE = dependsE || role(a) != want
	}
	for _, a := range onlyM {
		dependsM = dependsM || role(a) != want
	}
	w.res.Ev("optlist_keys", 1)
	if dependsE {
		w.res.Ev("optlist_role_depends_on_enablenumkeys_occurrence", 1)
	}
	if dependsM {
		w.res.Ev("optlist_role_depends_on_maxidx_occurrence", 1)
	}
	w.res.SetAdd("optlist_position", pos.name)
	if hasDigit(s) && (dependsE || dependsM) {
		w.res.Key("optlist|" + pos.name + "|" + s + "|" + st.String())
	}

	n0, e0 := len(w.res.Violations), w.res.Evals
	w.ol = ol
	w.optKeyUsages(pos, s, st)
	w.ol = nil
	w.res.Ev("optlist_calls_with_one_list_value", int64(w.res.Evals-e0))
	if len(w.res.Violations) == n0 {
		return
	}
	// classify: is it the list, and which occurrence was taken?
	found := append([]harness.Violation(nil), w.res.Violations[n0:]...)
	w.res.Violations = w.res.Violations[:n0]
	readd := func(sig func(string) string) {
		for _, v := range found {
			w.res.Violate(sig(v.Sig), "%s [options given: %s, the same list value in every call; configured at the end of the list: %s]", v.Detail, ol, st)
		}
	}
	if w.muted(func() { w.optKeyUsages(pos, s, st) }) > 0 {
		// the canonical list PathSep, MaxIdx, EnableNumKeys deviates as well: not a matter of the list
		readd(func(s string) string { return s })
		return
	}
	silentUnder := func(alts []setting) (setting, bool) {
		for _, a := range alts {
			a := a
			if w.muted(func() { w.ol = ol; w.optKeyUsages(pos, s, a); w.ol = nil }) == 0 {
				return a, true
			}
		}
		return setting{}, false
	}
	_, byE := silentUnder(onlyE)
	am, byM := silentUnder(onlyM)
	switch {
	case byE && byM:
		// an earlier EnableNumKeys and an earlier MaxIdx explain the calls equally well
		readd(func(string) string { return "option-list:last-maxidx-or-enablenumkeys-not-effective" })
		return
	case byE:
		readd(func(string) string {
			return fmt.Sprintf("option-list:last-enablenumkeys(%v)-not-effective", st.e)
		})
		return
	case byM:
		readd(func(string) string {
			return "option-list:last-maxidx-not-effective:" + maxIdxRelation(st.m, am.m)
		})
		return
	}
	if _, ok := silentUnder(both); ok {
		readd(func(string) string { return "option-list:last-maxidx-and-enablenumkeys-not-effective" })
		return
	}
	readd(func(s string) string { return "option-list:repeated-options:" + s })
}

// repeatedList: a list whose LAST MaxIdx / EnableNumKeys are those of st, with
// one or two earlier occurrences that say something else (the opposite
// EnableNumKeys, a limit on the other side of small indices).
func repeatedList(r *rand.Rand, st setting, sep string) ([]ucfg.Option, string) {
	var opts []ucfg.Option
	var desc []string
	add := func(o ucfg.Option, d string) { opts = append(opts, o); desc = append(desc, d) }
	otherM := []int64{-1, 0, 1, 3, 7, 100, 1024, st.m + 1, st.m - 1, 2*st.m + 2}
	early := r.Intn(3) // 0: EnableNumKeys earlier, 1: MaxIdx earlier, 2: both
	sepAt := r.Intn(3)
	if sep != "" && sepAt == 0 {
		add(ucfg.PathSep(sep), fmt.Sprintf("PathSep(%q)", sep))
	}
	if early != 1 {
		add(ucfg.EnableNumKeys(!st.e), fmt.Sprintf("EnableNumKeys(%v)", !st.e))
	}
	if early != 0 {
		m := otherM[r.Intn(len(otherM))]
		if m > 1100 {
			m = 1024
		}
		add(ucfg.MaxIdx(m), fmt.Sprintf("MaxIdx(%d)", m))
	}
	if sep != "" && sepAt == 1 {
		add(ucfg.PathSep(sep), fmt.Sprintf("PathSep(%q)", sep))
	}
	if r.Intn(2) == 0 {
		add(ucfg.VarExp, "VarExp")
	}
	if r.Intn(2) == 0 {
		add(ucfg.MaxIdx(st.m), fmt.Sprintf("MaxIdx(%d)", st.m))
		add(ucfg.EnableNumKeys(st.e), fmt.Sprintf("EnableNumKeys(%v)", st.e))
	} else {
		add(ucfg.EnableNumKeys(st.e), fmt.Sprintf("EnableNumKeys(%v)", st.e))
		add(ucfg.MaxIdx(st.m), fmt.Sprintf("MaxIdx(%d)", st.m))
	}
	if sep != "" && sepAt == 2 {
		add(ucfg.PathSep(sep), fmt.Sprintf("PathSep(%q)", sep))
	}
	return opts[:len(opts):len(opts)], "[" + strings.Join(desc, ", ") + "]"
}
