package c20

// Round 5: "exactly when". The prepared configuration of the getter usages
// holds list slot v AND the name s; a library that lets an index segment fall
// back to the name of the same number (or the other way round) is not seen
// there. Here the holder has ONLY ONE of the two:
//
//	name-only: the name s (value 7), no list entry v (no list at all, or a
//	           list that ends right before v)
//	slot-only: a pure list with entries v, v+1 (values 100+v, 101+v), no name
//
// A key whose segment the oracle classifies as the role that is present finds
// it; a key whose segment has the OTHER role finds nothing, and a setter with
// such a key creates the missing one next to the present one without touching
// it. The key is applied as getter name (Has/Int), as idx argument, as setter
// name and as struct tag on Unpack, the tag in four struct shapes: plain
// field, field of a struct inlined by value, through a nil pointer, through an
// allocated pointer.

import (
	"fmt"
	"reflect"
	"strconv"
	"strings"

	ucfg "github.com/elastic/go-ucfg"

	"verif/internal/harness"
)

var shapeNames = []string{"plain-field", "inlined-by-value", "inlined-nil-pointer", "inlined-allocated-pointer"}

// tagShapes builds, for one tag, the four target types. Field 0 of every
// outer type leads to the int64 field F carrying the tag.
func tagShapes(key string) (ts [4]reflect.Type, ok bool) {
	inner := structType(key)
	if inner == nil {
		return ts, false
	}
	harness.Safe(func() {
		inl := reflect.StructTag(`config:",inline"`)
		ts[0] = inner
		ts[1] = reflect.StructOf([]reflect.StructField{{Name: "In", Type: inner, Tag: inl}})
		ts[2] = reflect.StructOf([]reflect.StructField{{Name: "In", Type: reflect.PtrTo(inner), Tag: inl}})
		ts[3] = ts[2]
		ok = true
	})
	return ts, ok
}

// unpackShape unpacks c into shape k and returns the value of F (-3 = never set).
func unpackShape(c *ucfg.Config, ts [4]reflect.Type, k int, opts []ucfg.Option) (f int64, err error) {
	target := reflect.New(ts[k])
	switch k {
	case 0:
		target.Elem().Field(0).SetInt(-3)
	case 1:
		target.Elem().Field(0).Field(0).SetInt(-3)
	case 3:
		p := reflect.New(ts[0])
		p.Elem().Field(0).SetInt(-3)
		target.Elem().Field(0).Set(p)
	}
	if err = c.Unpack(target.Interface(), opts...); err != nil {
		return -3, err
	}
	switch k {
	case 0:
		return target.Elem().Field(0).Int(), nil
	case 1:
		return target.Elem().Field(0).Field(0).Int(), nil
	}
	if p := target.Elem().Field(0); !p.IsNil() {
		f = p.Elem().Field(0).Int()
		if k == 2 && f == 0 {
			// allocated but F never written: as good as not set
			return -3, nil
		}
		return f, nil
	}
	return -3, nil
}

func numericValueOf(s string) int64 {
	if v, err := strconv.ParseInt(s, 0, 64); err == nil {
		if v >= 0 && v <= 65536 {
			return v
		}
		return -1
	}
	if v, err := strconv.ParseInt(s, 10, 64); err == nil && v >= 0 && v <= 65536 {
		return v
	}
	if v, err := strconv.ParseInt(strings.TrimSpace(s), 0, 64); err == nil && v >= 0 && v <= 65536 {
		return v
	}
	return -1
}

// prepareOnly builds the holder with only the name (nameOnly) or only the
// list entries, wrapped in the prefix names.
func (w *world) prepareOnly(s string, hv int64, prefix, suffix []string, nameOnly bool) (hy hybrid, ok bool) {
	hy.hv = hv
	w.arm(1 << 17)
	panicked, _, _ := harness.Safe(func() {
		h := ucfg.New()
		set := func(i int64) bool {
			if len(suffix) == 0 {
				return h.SetInt("", int(i), 100+i, ucfg.MaxIdx(1<<17)) == nil
			}
			ch, err := ucfg.NewFrom(nest(suffix, 100+i))
			return err == nil && h.SetChild("", int(i), ch, ucfg.MaxIdx(1<<17)) == nil
		}
		if nameOnly {
			if (hv+int64(len(s)))%2 == 0 && hv >= 1 && hv <= 66 {
				// a list that ends right before entry hv
				for i := int64(0); i < hv; i++ {
					if !set(i) {
						return
					}
				}
				hy.l = int(hv)
			}
			if err := h.Merge(map[string]interface{}{s: nest(suffix, nameValue)}, ucfg.EnableNumKeys(true)); err != nil {
				return
			}
			names := h.GetFields()
			cnt, _ := h.CountField("")
			if !h.HasField(s) || len(names) != 1 || names[0] != s || cnt != hy.l+1 {
				return
			}
		} else {
			for i := hv; i < hv+2; i++ {
				if !set(i) {
					return
				}
			}
			hy.l = int(hv + 2)
			cnt, _ := h.CountField("")
			if len(h.GetFields()) != 0 || cnt != hy.l || !h.IsArray() {
				return
			}
		}
		hy.h = h
		cur := h
		for i := len(prefix) - 1; i >= 0; i-- {
			t := ucfg.New()
			if err := t.SetChild(prefix[i], -1, cur); err != nil {
				return
			}
			cur = t
		}
		hy.top = cur
		ok = true
	})
	w.res.Eval(5)
	return hy, ok && !panicked
}

// readOnly reads the value under the name s and in slot hv back (raw).
func (w *world) readOnly(hy hybrid, s string, suffix []string) (nameV, slotV interface{}, n int, ok bool) {
	var (
		mm     map[string]interface{}
		aa     []interface{}
		e1, e2 error
	)
	panicked, _, _ := harness.Safe(func() {
		e1 = hy.h.Unpack(&mm)
		e2 = hy.h.Unpack(&aa)
	})
	w.res.Eval(2)
	if panicked || e1 != nil || e2 != nil {
		return nil, nil, 0, false
	}
	down := func(x interface{}) interface{} {
		for _, q := range suffix {
			m, isM := x.(map[string]interface{})
			if !isM {
				return nil
			}
			x = m[q]
		}
		return x
	}
	nameV = down(mm[s])
	if int(hy.hv) < len(aa) {
		slotV = down(aa[hy.hv])
	}
	return nameV, slotV, len(aa), true
}

func (w *world) onlyConfigs(pos position, s, key string, sts []setting) {
	hv := numericValueOf(s)
	if hv < 0 || hv > 1100 || pos.twice || key == "" || (pos.sep != "" && strings.Contains(s, pos.sep)) {
		return
	}
	prefix, suffix := pos.names(w.p, w.q, pos.prefix), pos.names(w.p, w.q, pos.suffix)
	single := len(prefix)+len(suffix) == 0
	var (
		ts     [4]reflect.Type
		haveTs bool
	)
	if tagSafe(key) {
		ts, haveTs = tagShapes(key)
	}
	for _, nameOnly := range []bool{true, false} {
		hy, ok := w.prepareOnly(s, hv, prefix, suffix, nameOnly)
		if !ok {
			w.res.Ev("only_config_unbuildable", 1)
			continue
		}
		kind, other := "slot-only", "name-segment-reads-list-entry-of-same-number"
		otherVal := 100 + hv // what a wrong reading of the other role would find
		if nameOnly {
			kind, other, otherVal = "name-only", "index-segment-reads-name-of-same-number", nameValue
		}
		for _, st := range sts {
			sg := classify(s, st, single)
			opts := w.optsFor(st, pos.sep)
			present := nameOnly != sg.index
			want := int64(nameValue)
			if sg.index {
				want = 100 + sg.v
			}
			describe := func() string {
				role := "a name"
				if sg.index {
					role = fmt.Sprintf("list index %d", sg.v)
				}
				have := fmt.Sprintf("ONLY the list entries %d, %d (values %d, %d), no name", hv, hv+1, 100+hv, 101+hv)
				if nameOnly {
					have = fmt.Sprintf("ONLY the name %q (value %d) next to a list of %d entries, no list entry %d", s, nameValue, hy.l, hv)
				}
				return fmt.Sprintf("key %q (%s, PathSep=%q, %s): segment %q must be %s; the config holds %s", key, pos.name, pos.sep, st, s, role, have)
			}
			// found = the call reported a setting and its value
			judge := func(op string, found bool, got int64, err error) {
				w.res.Ev("classifications", 1)
				switch {
				case present && found && got == want:
					w.res.Ev("only_config_present_role_found", 1)
					w.res.SetAdd("confirmed", kind+":"+op+"/"+pos.name)
				case present:
					if sig := "setting-of-present-role-not-found:" + kind + ":" + op; !w.capped(sig) {
						w.res.Violate(sig, "%s with %s: want the value %d, got found=%v value=%d err=%v", op, describe(), want, found, got, err)
					}
				case found && got == otherVal:
					if sig := other + ":" + op; !w.capped(sig) {
						w.res.Violate(sig, "%s with %s: the call must find nothing but read the value %d stored under the OTHER role", op, describe(), got)
					}
				case found:
					if sig := "absent-role-found:" + kind + ":" + op; !w.capped(sig) {
						w.res.Violate(sig, "%s with %s: the call must find nothing but reported the value %d", op, describe(), got)
					}
				default:
					w.res.Ev("only_config_absent_role_missing", 1)
					w.res.SetAdd("confirmed", kind+":absent:"+op+"/"+pos.name)
				}
			}
			run := func(op string, f func() (bool, int64, error)) {
				var (
					found bool
					got   int64
					err   error
				)
				panicked, pv, where := harness.Safe(func() { found, got, err = f() })
				w.res.Eval(1)
				if panicked {
					if sig := "panic:" + firstFrame(where); !w.capped(sig) {
						w.res.Violate(sig, "%s with %s: panic %q at %s", op, describe(), pv, where)
					}
					return
				}
				judge(op, found, got, err)
			}
			c := hy.top
			run("Has+Int(name)", func() (bool, int64, error) {
				has, e1 := c.Has(key, -1, opts...)
				got, e2 := c.Int(key, -1, opts...)
				if e1 != nil {
					return false, 0, e1
				}
				if has != (e2 == nil) {
					return true, -999, fmt.Errorf("Has = %v but Int = %d, %v", has, got, e2)
				}
				return has, got, e2
			})
			if haveTs {
				for k := range shapeNames {
					k := k
					run("struct-tag:"+shapeNames[k], func() (bool, int64, error) {
						f, err := unpackShape(c, ts, k, opts)
						return err == nil && f != -3, f, err
					})
				}
			}
			// the idx argument is an index whatever the options: on the name-only
			// config (s last segment) there is no entry hv
			if nameOnly && len(suffix) == 0 {
				name := strings.Join(prefix, pos.sep)
				var (
					has bool
					got int64
					e1  error
					e2  error
				)
				panicked, pv, where := harness.Safe(func() {
					has, e1 = c.Has(name, int(hv), opts...)
					got, e2 = c.Int(name, int(hv), opts...)
				})
				w.res.Eval(2)
				w.res.Ev("classifications", 1)
				switch {
				case panicked:
					if sig := "panic:" + firstFrame(where); !w.capped(sig) {
						w.res.Violate(sig, "Has/Int(%q, %d) with %s: panic %q at %s", name, hv, describe(), pv, where)
					}
				case (has && e1 == nil) || (e2 == nil && got == nameValue):
					if sig := "idx-argument-reads-name-of-same-number"; !w.capped(sig) {
						w.res.Violate(sig, "Has(%q, %d) = %v, %v; Int(%q, %d) = %d, %v: an idx argument addresses list entry %d, there is none (%s)", name, hv, has, e1, name, hv, got, e2, hv, describe())
					}
				default:
					w.res.Ev("only_config_idx_argument_missing", 1)
				}
			}
			// a setter whose key has the absent role creates it next to the present one
			if present || hv > 66 {
				continue
			}
			fresh, ok := w.prepareOnly(s, hv, prefix, suffix, nameOnly)
			if !ok {
				continue
			}
			var err error
			w.arm(int(hv) + 2)
			panicked, pv, where := harness.Safe(func() { err = fresh.top.SetInt(key, -1, 999, opts...) })
			tripped := w.tripped
			w.arm(1 << 17)
			w.res.Eval(1)
			nameV, slotV, n, okR := w.readOnly(fresh, s, suffix)
			w.res.Ev("classifications", 1)
			wantName, wantSlot := interface{}(int64(999)), interface{}(100+hv)
			if nameOnly {
				wantName, wantSlot = int64(nameValue), int64(999)
			}
			good := okR && canonOf(nameV) == canonOf(wantName) && canonOf(slotV) == canonOf(wantSlot)
			switch {
			case panicked && !tripped:
				if sig := "panic:" + firstFrame(where); !w.capped(sig) {
					w.res.Violate(sig, "SetInt(name, -1, 999) with %s: panic %q at %s", describe(), pv, where)
				}
			case good && err == nil:
				w.res.Ev("only_config_setter_creates_absent_role", 1)
				w.res.SetAdd("confirmed", kind+":setter/"+pos.name)
			default:
				sig := "setter-walks-into-other-role-of-same-number:" + kind
				if !w.capped(sig) {
					w.res.Violate(sig, "SetInt(name, -1, 999) with %s: err=%v (growth aborted=%v); afterwards the name holds %v (want %v), list entry %d holds %v (want %v), list has %d entries", describe(), err, tripped, nameV, wantName, hv, slotV, wantSlot, n)
				}
			}
		}
	}
}
