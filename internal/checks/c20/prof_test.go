package c20

import (
	"fmt"
	ucfg "github.com/elastic/go-ucfg"
	"math/rand"
	"os"
	"sort"
	"strconv"
	"strings"
	"testing"
	"time"
	"verif/internal/harness"
)

func TestGroups(t *testing.T) {
	debugSigs = true
	c := check{}
	tier := "quick"
	if s := os.Getenv("TIER"); s != "" {
		tier = s
	}
	n := c.Cases(tier)
	step := 1
	if s := os.Getenv("STEP"); s != "" {
		step, _ = strconv.Atoi(s)
	}
	seed := int64(1)
	if s := os.Getenv("SEED"); s != "" {
		seed, _ = strconv.ParseInt(s, 10, 64)
	}
	other := map[string]string{}
	for i := 0; i < n; i += step {
		r := c.Run(seed, tier, i, false)
		for _, v := range r.Violations {
			other[v.Sig] = v.Detail
		}
	}
	var ks []string
	for k := range debugCount {
		ks = append(ks, k)
	}
	sort.Strings(ks)
	for _, k := range ks {
		fmt.Printf("%6d x %s\n      %s\n", debugCount[k], k, debugEx[k])
	}
	for k, d := range other {
		fmt.Printf("SIG %s: %s\n", k, d)
	}
}

func BenchmarkThorough(b *testing.B) {
	c := check{}
	for i := 0; i < b.N; i++ {
		c.Run(1, "thorough", 5000+i, false)
	}
}

func TestStringTiming(t *testing.T) {
	type st struct {
		s string
		d time.Duration
	}
	var l []st
	var total time.Duration
	tier := "thorough"
	for idx := 5000; idx < 5100; idx++ {
		res := harness.NewR(idx)
		r := rand.New(rand.NewSource(harness.Mix(1, "C20", idx)))
		w := &world{res: res, r: r, tier: tier, poss: tierPositions(tier), p: "p", q: "q", val: 1, capTop: 1024, capInterior: 1024, sigSeen: map[string]int{}}
		w.arm(1 << 17)
		ucfg.VerifSetHook(w.hook)
		var strs []string
		n := chunkCases(tier)
		for i := idx; i < universe(tier); i += n {
			strs = append(strs, universeString(tier, i))
		}
		for i := 0; i < 4; i++ {
			strs = append(strs, "R:"+randomString(r))
		}
		for _, s := range strs {
			s2 := strings.TrimPrefix(s, "R:")
			t0 := time.Now()
			w.runString(s2, settingsFor(s2, tier))
			d := time.Since(t0)
			total += d
			l = append(l, st{s, d})
		}
	}
	sort.Slice(l, func(a, b int) bool { return l[a].d > l[b].d })
	fmt.Println("total", total, "strings", len(l))
	var cum time.Duration
	for i, x := range l {
		cum += x.d
		if i < 30 || i%100 == 0 {
			fmt.Printf("%4d %-14q %v cum %v\n", i, x.s, x.d, cum)
		}
	}
}
