package c20

import (
	"fmt"
	"os"
	"sort"
	"strconv"
	"testing"
)

func TestGroups(t *testing.T) {
	debugSigs = true
	c := check{}
	tier := "quick"
	if s := os.Getenv("TIER"); s != "" {
		tier = s
	}
	n := c.Cases(tier)
	step := 1
	if s := os.Getenv("STEP"); s != "" {
		step, _ = strconv.Atoi(s)
	}
	seed := int64(1)
	if s := os.Getenv("SEED"); s != "" {
		seed, _ = strconv.ParseInt(s, 10, 64)
	}
	other := map[string]string{}
	for i := 0; i < n; i += step {
		r := c.Run(seed, tier, i, false)
		for _, v := range r.Violations {
			other[v.Sig] = v.Detail
		}
	}
	var ks []string
	for k := range debugCount {
		ks = append(ks, k)
	}
	sort.Strings(ks)
	for _, k := range ks {
		fmt.Printf("%6d x %s\n      %s\n", debugCount[k], k, debugEx[k])
	}
	for k, d := range other {
		fmt.Printf("SIG %s: %s\n", k, d)
	}
}
