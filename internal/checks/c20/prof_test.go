package c20

import (
	"strconv"
	"testing"
)

func BenchmarkCase(b *testing.B) {
	c := check{}
	for i := 0; i < b.N; i++ {
		c.Run(1, "quick", 100+i%200, false)
	}
}

func TestCount(t *testing.T) {
	for _, tier := range []string{"quick", "thorough"} {
		n := universe(tier)
		ok, big, neg, dig := 0, 0, 0, 0
		for i := 0; i < n; i++ {
			s := universeString(tier, i)
			if hasDigit(s) {
				dig++
			}
			if v, err := strconv.ParseInt(s, 0, 64); err == nil {
				ok++
				if v > 300 && v <= 65536 {
					big++
				}
				if v < 0 {
					neg++
				}
			}
		}
		t.Logf("%s: universe %d table %d parse-ok %d big(300..65536] %d negative %d with-digit %d", tier, n, len(smallTable), ok, big, neg, dig)
	}
}
