package c20

import (
	"fmt"
	"sort"
	"testing"
	"time"
)

func TestTiming(t *testing.T) {
	c := check{}
	n := c.Cases("quick")
	type ct struct {
		i int
		d time.Duration
	}
	var l []ct
	var total time.Duration
	for i := 0; i < n; i++ {
		t0 := time.Now()
		c.Run(1, "quick", i, false)
		d := time.Since(t0)
		total += d
		l = append(l, ct{i, d})
	}
	sort.Slice(l, func(a, b int) bool { return l[a].d > l[b].d })
	fmt.Println("total", total, "cases", n)
	for _, x := range l[:25] {
		var strs []string
		if x.i < chunkCases("quick") {
			for j := x.i; j < universe("quick"); j += chunkCases("quick") {
				strs = append(strs, universeString("quick", j))
			}
		}
		fmt.Println(x.i, x.d, strs)
	}
	fmt.Println("median", l[len(l)/2].d)
}
