// Package c20: numeric path segments index lists only within [0, MaxIdx].
//
// Oracle (the statement verbatim): for a key/segment s, MaxIdx m and
// EnableNumKeys e
//
//	index(s) <=> !(e && the key has a single segment)
//	             && strconv.ParseInt(s, 0, 64) succeeds with value v
//	             && 0 <= v <= m
//
// every other segment is an ordinary name that round-trips byte for byte, and
// therefore no single key makes a list longer than m+1 slots.
//
// The role the library gave a segment is observed through the public API
// only (IsArray/IsDict/GetFields/CountField/HasField, Unpack into
// map[string]interface{} / []interface{} / a reflect.StructOf struct, the
// getters Has/Int/Remove) and through the "grow" hook.
//
// seq.go adds multi-call sequences on one existing list (idx arguments, index
// segments of setter names / Merge keys / struct tags / flags) under the
// conservation law "one call leaves a list of L slots with at most
// max(L, MaxIdx+1) slots (L+1 for an append)".
package c20

import (
	"fmt"
	"math/rand"
	"reflect"
	"sort"
	"strconv"
	"strings"
	"sync"
	"unicode"

	ucfg "github.com/elastic/go-ucfg"
	uflag "github.com/elastic/go-ucfg/flag"

	"verif/internal/harness"
)

type check struct{}

func init() { harness.Register(check{}) }

func (check) ID() string { return "C20" }

// ---------------------------------------------------------------------------
// the space
// ---------------------------------------------------------------------------

// alphabet of the exhaustive part ('.' is covered by the dotted positions).
const alphabet = "-+019xbo_a"

// MaxIdx values and EnableNumKeys settings every string is classified under.
var maxIdxValues = []int64{-5, -1, 0, 1, 7, 1024, 65536}

type setting struct {
	m int64
	e bool
}

var allSettings = func() []setting {
	var l []setting
	for _, m := range maxIdxValues {
		l = append(l, setting{m, false}, setting{m, true})
	}
	return l
}()

func (st setting) opts(sep string) []ucfg.Option {
	var o []ucfg.Option
	if sep != "" {
		o = append(o, ucfg.PathSep(sep))
	}
	return append(o, ucfg.MaxIdx(st.m), ucfg.EnableNumKeys(st.e))
}

func (st setting) String() string { return fmt.Sprintf("MaxIdx=%d EnableNumKeys=%v", st.m, st.e) }

// position = where the string under test is placed inside the key.
type position struct {
	name     string
	sep      string   // "" = no PathSep option
	prefix   []string // "p"/"q" placeholders before the string
	suffix   []string // placeholders after the string
	twice    bool     // key = s + sep + s
	thorough bool     // only in the thorough tier
}

var positions = []position{
	{name: "single/no-sep"},
	{name: "single/sep", sep: "."},
	{name: "first", sep: ".", suffix: []string{"q"}},
	{name: "middle", sep: ".", prefix: []string{"p"}, suffix: []string{"q"}},
	{name: "last", sep: ".", prefix: []string{"p"}},
	{name: "twice", sep: ".", twice: true, thorough: true},
	{name: "deep-last", sep: ".", prefix: []string{"p", "q"}, thorough: true},
	{name: "middle/slash", sep: "/", prefix: []string{"p"}, suffix: []string{"q"}, thorough: true},
}

func tierPositions(tier string) []position {
	if tier == "thorough" {
		return positions
	}
	var l []position
	for _, p := range positions {
		if !p.thorough {
			l = append(l, p)
		}
	}
	return l
}

func (p position) names(pn, qn string, l []string) []string {
	out := make([]string, len(l))
	for i, x := range l {
		if x == "p" {
			out[i] = pn
		} else {
			out[i] = qn
		}
	}
	return out
}

func (p position) key(s, pn, qn string) string {
	if p.twice {
		return s + p.sep + s
	}
	parts := append(p.names(pn, qn, p.prefix), s)
	parts = append(parts, p.names(pn, qn, p.suffix)...)
	return strings.Join(parts, p.sep)
}

func maxLen(tier string) int {
	if tier == "thorough" {
		return 5
	}
	return 4
}

// enumCount = number of strings of length <= L over the alphabet.
func enumCount(L int) int {
	n, p := 0, 1
	for k := 0; k <= L; k++ {
		n += p
		p *= len(alphabet)
	}
	return n
}

// enumString: length-major, then lexicographic in alphabet order.
func enumString(i int) string {
	k, p := 0, 1
	for i >= p {
		i -= p
		p *= len(alphabet)
		k++
	}
	b := make([]byte, k)
	for j := k - 1; j >= 0; j-- {
		b[j] = alphabet[i%len(alphabet)]
		i /= len(alphabet)
	}
	return string(b)
}

func inEnum(s string, L int) bool {
	if len(s) > L {
		return false
	}
	for i := 0; i < len(s); i++ {
		if strings.IndexByte(alphabet, s[i]) < 0 {
			return false
		}
	}
	return true
}

// spellings of one integer in every syntax strconv.ParseInt(base 0) accepts,
// plus look-alikes that it does not accept.
func spellings(v int64) []string {
	neg := v < 0
	var a uint64
	if neg {
		a = uint64(-v)
	} else {
		a = uint64(v)
	}
	sign := ""
	if neg {
		sign = "-"
	}
	dec := strconv.FormatUint(a, 10)
	l := []string{
		sign + dec,
		sign + "0x" + strconv.FormatUint(a, 16),
		sign + "0X" + strings.ToUpper(strconv.FormatUint(a, 16)),
		sign + "0b" + strconv.FormatUint(a, 2),
		sign + "0o" + strconv.FormatUint(a, 8),
		sign + "0" + strconv.FormatUint(a, 8), // legacy octal
		sign + "0" + dec,                      // leading zero: octal reading of the decimal digits (or invalid)
		sign + "00" + dec,
		sign + "0x0" + strconv.FormatUint(a, 16),
		sign + "0_" + strconv.FormatUint(a, 8),
		sign + "0x_" + strconv.FormatUint(a, 16),
	}
	if !neg {
		l = append(l, "+"+dec, "+0x"+strconv.FormatUint(a, 16), "-"+dec)
	}
	if len(dec) >= 2 {
		l = append(l, sign+dec[:1]+"_"+dec[1:], sign+dec[:1]+"__"+dec[1:], sign+dec+"_")
	}
	return l
}

// table of boundary spellings whose value (if any) is at most 2^20 in
// magnitude or negative: safe under every setting.
var smallTable = func() []string {
	l := []string{
		"", "-0", "+0", "+1", "-1", "0x10", "0X1f", "0b101", "0o17", "017", "007", "1_000", "1__0",
		"0x", "0b", "0o", "1e3", "1.0", "1.", ".1", "0.", " 1", "1 ", "\t1", "٣", "१", "１", "0B11", "0O7", "0_7",
		"0x_f", "_1", "1_", "+-1", "--1", "++1", "- 1", "1,0", "0x1p3", "0b2", "0o8", "08", "09", "00", "0_0",
		"000000000000000000001", "0000000000000000000000000000000000000007", "-", "+", "0xg", "1a", "a1",
		"-0x1", "-0b1", "-0o1", "-01", "-9223372036854775808", "-9223372036854775809", "-0x8000000000000000",
		"0x400", "0x401", "1_0_2_4", "1024.5", "+1024", "+1025", "0b10000000000", "0o2000", "0o2001",
	}
	for _, m := range maxIdxValues {
		for _, v := range []int64{m - 1, m, m + 1, 2*m + 2} {
			l = append(l, spellings(v)...)
		}
	}
	l = append(l, spellings(1<<16+1)...)
	l = append(l, "1048576", "0x100000") // 2^20
	seen := map[string]bool{}
	var out []string
	for _, s := range l {
		if seen[s] {
			continue
		}
		seen[s] = true
		out = append(out, s)
	}
	return out
}()

// large over-limit magnitudes; only tried after the ascending ladder passed.
var largeTable = []string{
	"2147483648", "0x80000000", // 2^31
	"1099511627776", "0x10000000000", // 2^40
	"9223372036854775807", "0x7fffffffffffffff", // 2^63-1
	"9223372036854775808", "18446744073709551615", "0xffffffffffffffff", // not an int64: a name
}

const chunkSize = 8

func tierIdx(tier string) int {
	if tier == "thorough" {
		return 1
	}
	return 0
}

var (
	extraOnce [2]sync.Once
	extraStrs [2][]string
)

// literalsOfLen lists the strings of exactly n alphabet characters that
// strconv.ParseInt(s, 0, 64) accepts.
func literalsOfLen(n int) []string {
	var out []string
	lo, hi := enumCount(n-1), enumCount(n)
	for i := lo; i < hi; i++ {
		s := enumString(i)
		if _, err := strconv.ParseInt(s, 0, 64); err == nil {
			out = append(out, s)
		}
	}
	return out
}

// extras = what the universe of a tier holds beyond the exhaustive strings:
// the boundary table and every integer literal one character longer.
func extras(tier string) []string {
	t := tierIdx(tier)
	extraOnce[t].Do(func() {
		L := maxLen(tier)
		var out []string
		for _, s := range smallTable {
			if !inEnum(s, L+1) || (len(s) == L+1 && !isLiteral(s)) {
				out = append(out, s)
			}
		}
		extraStrs[t] = append(out, literalsOfLen(L+1)...)
	})
	return extraStrs[t]
}

func isLiteral(s string) bool {
	_, err := strconv.ParseInt(s, 0, 64)
	return err == nil
}

func universe(tier string) int { return enumCount(maxLen(tier)) + len(extras(tier)) }

func chunkCases(tier string) int { return (universe(tier) + chunkSize - 1) / chunkSize }

func universeString(tier string, i int) string {
	n := enumCount(maxLen(tier))
	if i < n {
		return enumString(i)
	}
	return extras(tier)[i-n]
}

// settingsFor: integer literals meet every (MaxIdx, EnableNumKeys); strings
// that are no integer literal are names whatever the setting, they meet the
// most permissive setting plus one chosen by the string (thorough: all
// settings up to length 4).
func settingsFor(s, tier string) []setting {
	if isLiteral(s) || (tier == "thorough" && len(s) <= 4) {
		return allSettings
	}
	for _, part := range strings.FieldsFunc(s, func(c rune) bool { return c == '.' || c == '/' }) {
		if isLiteral(part) {
			return allSettings
		}
	}
	fixed := setting{65536, false}
	h := uint32(2166136261)
	for i := 0; i < len(s); i++ {
		h = (h ^ uint32(s[i])) * 16777619
	}
	rot := allSettings[int(h%uint32(len(allSettings)))]
	if rot == fixed {
		rot = setting{1024, false}
	}
	if rot.m == fixed.m {
		return []setting{fixed, rot}
	}
	return []setting{rot, fixed}
}

func (check) Cases(tier string) int { return chunkCases(tier) + len(allSettings) }

func (check) Exhaustive(string) bool { return true }

func (check) Rule() string {
	return "universe = every string of length <= 4 (thorough: <= 5) over the alphabet {- + 0 1 9 x b o _ a}, every integer literal (strconv.ParseInt base 0 accepts it) one character longer over the same alphabet, and a table of boundary spellings (m-1, m, m+1, 2m+2 for every MaxIdx m in decimal / sign / 0x / 0X / 0b / 0o / legacy-octal / leading-zero / underscore form, -0, +0, 0x, 1e3, 1.0, spaces, non-ASCII digits, -2^63, 2^16+1, 2^20 ...); a case = 8 universe strings (stride) + 2 seed-chosen longer spellings/one-edit look-alikes of small and boundary integers. Each string x position {whole key without PathSep, whole key with PathSep(\".\"), first, middle, last dotted segment; thorough also twice (s.s), deep-last, middle with PathSep(\"/\")} x usage {map key (NewFrom), setter name (SetInt), struct tag (reflect.StructOf + NewFrom), getter name Has/Int/Remove and struct tag on Unpack, both on a prepared config that holds list slot v AND the name s} x setting: integer literals meet all MaxIdx {-5,-1,0,1,7,1024,65536} x EnableNumKeys {false,true}; strings that are no integer literal (names under every setting) meet MaxIdx 65536/false plus one setting chosen by the string (thorough: all 14 up to length 4). The last 14 cases walk, for one (m, e) each, the over-limit ladder m+1, 2m+2, 2^16+1, 2^20 in ascending order and only if all of those were names 2^31, 2^40, 2^63-1, 2^63, 2^64-1 (decimal and 0x). Non-trivial = the string contains a digit (numeric or near-numeric); distinct = distinct (position, string). 'classifications' counts (segment under test, setting, position, usage) role observations. Round 3 (names.go): three more building usages - setter name TOGETHER WITH an idx argument 0..2 (SetInt(key, j, v): the key's segments keep their roles, below them a list of j+1 slots), -D key=value and -D key (auto-bool) through flag.NewFlagKeyValue(...).Set; on a second prepared config that holds list slot v AND the name s, each leading to a LIST (4 entries under the name, 5 in the slot, different contents): Has/Int/Uint/Float/String/Bool/Child(key, idx>=0), CountField(key), one of the six setters (key, idx) and Remove(key, idx) must reach the list the oracle's role of s selects; CountField(key) also on every config built from a map key (must be 1 like Has/Int with the same key). Every chunk case also takes one entry of a table of white-space padded literals (11 literals x 15 pads - all Unicode White_Space classes, zero-width space, BOM - leading / trailing / both / inner, all of it over the cases) and one seed-chosen padded spelling through all positions and usages. Round 4 (refs.go): per (string, position, setting) also (a) REFERENCE NAMES - {key: v, r: ref} built and read under one option set (+VarExp, EscapePath in the cases with an even value) with ref = ${key}, ${key:dflt}, ${key:+alt}, ${key:?msg}, ${${n}} (n = key): every form must read the setting the map key of the same spelling created; (b) FieldAppendValues(key) given last, PathSep(\".\") positions: NewFrom({key:[one], key2:[one]}) + Merge({key:[two], key2:[two]}) must leave 2 entries under key and 1 under key2, key2 = a key the oracle says is a different setting of the same kind (another spelling of the same number when both are names, the neighbouring index when both are indices); and once per (string, position with a prefix) (c) the prepared config holding list slots and the name s side by side unpacked from the top into map[string]interface{}: the name comes back with its own value also when it is spelled like the position of a list entry (or Unpack reports the clash). Round 5 (only.go), for every string with a numeric reading 0..1100: two more prepared configs whose holder has ONLY the name s (no list, or a list ending right before entry v) or ONLY the list entries v, v+1 (a pure list, no name); under every setting the key is used as Has/Int name, as struct tag on Unpack in four struct shapes (plain field, struct inlined by value / through a nil pointer / through an allocated pointer), the number as idx argument, and - when the key's role is the absent one - as SetInt name on a fresh copy: the present role is found, the absent role finds nothing (never the value of the other role) and the setter creates it next to the present one without touching it. Every case additionally drives 8 seed-chosen SEQUENCES of calls on one list (seq.go): setting = MaxIdx {-5,-1,0,1,2,3,4,7,16,100,1024} x EnableNumKeys x PathSep {none, '.', '/'}; the list is the config itself, a named setting, a nested setting or a list inside a list; it is brought to a start length L (0, 1..6, exactly MaxIdx+1, above MaxIdx+1) element by element, by one padded jump or from the caller's own slice; then 3..8 calls that carry an index drawn relative to (MaxIdx, L): inside the list, append (L), padded growth within MaxIdx, MaxIdx / MaxIdx+1, the band (max(MaxIdx,L), MaxIdx+L], just beyond it, huge (2^16+1 .. MaxInt64); the index arrives as idx argument of SetBool/SetInt/SetUint/SetFloat/SetString/SetChild, as idx argument of Has/Int/String/Child/Remove, or spelled (decimal, other integer syntaxes, look-alikes, negative) as last segment of a setter name, of a flat map key given to Merge, of a struct tag, of a -D style flag (flag.NewFlagKeyValue(...).Set), or as a key of its own in a nested map / nested struct given to Merge. Non-trivial distinct sequence steps = (list location, MaxIdx, L, entry point) of the steps inside the band. Round 6 (optlist.go): every case also draws 2 OPTION LISTS in which EnableNumKeys (1..3 times, true/false) and MaxIdx (1..3 times, limits around the numeric reading of the key and the usual ones) occur repeatedly, shuffled together with PathSep (once or twice, one separator) and 0..3 options that do not concern keys; two keys per list (small integers in every spelling, another spelling of a neighbouring number, near-numeric strings) at a random position, each through map key / setter name / struct tag / setter name + idx argument / flag and the getters of rounds 1 and 3 on the prepared configs - one list value for all of those calls; the oracle is the classifier under the arguments of the LAST MaxIdx and the LAST EnableNumKeys of the list. A third of the sequences (seq.go) get their setting as the end of such a list, used in every call of the sequence. Non-trivial distinct = (position, key, effective setting) of the keys whose role depends on which occurrence is taken."
}

func (check) Assumptions() []string {
	return []string{
		"the classifier is the statement verbatim: index <=> !(EnableNumKeys && single-segment key) && strconv.ParseInt(s, 0, 64) ok && 0 <= v <= MaxIdx",
		"a key is split into segments with strings.Split(key, sep) when PathSep is given, otherwise it is one segment; EscapePath is not used",
		"an index v in an empty config yields v nil slots followed by the value (slot count v+1)",
		"raw (unparsed) observers: GetFields, HasField, CountField(\"\"), IsArray, IsDict, Unpack into interface{}-typed containers; the idx argument of setters (SetInt(\"\", i, ..)) is used to prepare lists without going through key parsing",
		"a dictionary entry with an arbitrary name is prepared with EnableNumKeys(true) and no PathSep and verified with HasField before it is used",
		"the default MaxIdx (no option) is not pinned by the statement and not exercised; MaxIdx is always passed explicitly",
		"\"\" is used as a map key only (getter/setter name \"\" with idx -1 is outside the quantifier)",
		"cost: building a top-level list through Merge is quadratic in its length in this library (16 s at 65536), so map-key/struct-tag usages whose FIRST segment is a legitimate index above 1024 are skipped, and a legitimate index above 300 (thorough: 1024) that is not at a boundary (m-1, m) is only exercised as a whole-key setter/getter name; the same values are exercised through SetInt and nested positions",
		"the idx argument of a getter/setter does not change the role of the name's segments: a single-segment numeric name under EnableNumKeys(true) is a name also in (name, idx >= 0) calls; the setter-name+idx usage is skipped for negative MaxIdx (no idx argument within [0, MaxIdx], outcome not pinned)",
		"CountField(name, opts) is a getter name usage (quantifier: 'getter/setter names'): it must find the setting Has/Int/... find with the same name and options (a primitive counts 1, a list its entries); CountField(\"\") is the raw total and HasField the documented raw top-level lookup - both are used as raw observers and not judged",
		"flag route: the argument is cut at the first '=' (keys containing '=' are not sent through the flag); what is in front of it is the key byte for byte - white space included - and meets the same classifier; the auto-bool form is exercised under the first setting of a string only",
		"reference names: building and reading use the SAME options; which call's MaxIdx/EnableNumKeys/PathSep classify a reference name when they differ is not pinned (audit item 6) and not generated; keys containing $ { } : are not used in references",
		"field policies: only FieldAppendValues, given after PathSep/MaxIdx/EnableNumKeys (whether options may come in any order is not C20's), only with PathSep(\".\") (the option's own notation), no empty segments, no '*' in the key; judged: the policy named K governs the setting the data key K creates and no setting the oracle says is another one, and rendering the name allocates no list beyond what the oracle allows",
		"a name next to list entries unpacked as part of its parent: an error is accepted as answer when the name is spelled like a list position; how list entries are rendered next to names (decimal keys) is not judged, FlattenedKeys/CompareConfigs of such configs neither",
		"outside the property (audit, not generated): MaxIdx values whose MaxIdx+1 entries can not be allocated (MaxInt64, 1<<40: the caller switched the bound off); nil padding of an index key overwriting lower primitives on Merge (merge semantics); nesting depth produced by millions of key segments (robustness, C07); an inlined *Config losing its list part on Merge (inline handling); resolvers being asked for the decimal spelling of an index segment; wording of index-out-of-range errors; idx < -1 behaving like -1; YAML keys that are not strings",
		"exactly-when configs (only.go): a missing setting shows as Has = false / an error of Int / an untouched struct field or a pointer left nil; which error is returned is not compared. A nil-pointer inline struct that was allocated with F left 0 counts as not set",
		"sequences (seq.go): after ONE call that carries one index a list of L slots has at most max(L, MaxIdx+1) slots (L+1 if the call addressed slot L itself, L+k for the caller's own k-entry list during prefill); the same law is applied to every (old, new) pair at the grow hook: new <= max(old+1, MaxIdx+1). This is how 'no single key makes a list grow beyond MaxIdx+1 entries' is read for a list that exists already (element by element a list may pass MaxIdx+1, see known_findings 49b3c01)",
		"sequences: pinned and compared - idx argument or index segment v within [0, MaxIdx]: the call succeeds, the list has max(L, v+1) slots, slot v holds the value, the names next to the list are unchanged; a segment that is a name (also a literal above MaxIdx that is below L): the list keeps its length and the name is stored byte for byte next to it with the value; idx argument above MaxIdx and beyond slot L: the call fails and the list keeps its length; getters never grow a list. NOT pinned and only bounded: whether an idx argument above MaxIdx that addresses an existing slot or slot L is accepted (recorded in monitors seq_above_max_*), Remove's effect on the length (L or L-1), the content of the other slots after Merge/flag calls (Merge pads with nil and the padding overwrites lower slots - not a C20 matter)",
		"sequences: list merge policies (Append/Prepend/ReplaceValues) are not used - under them one index key legitimately adds its whole padded list; the default MaxIdx is not exercised (MaxIdx is always explicit); values are read back with Unpack into []interface{} / map[string]interface{} of the list holder reached with Child(name, -1) / Child(\"\", j) under default options (holder names are plain words)",
		"option lists (optlist.go): options are applied in the order given, a later MaxIdx / EnableNumKeys replaces the value of an earlier one ('the configured maximum index', 'numeric keys are not enabled' = what the list says at its end), and an option value may be used in any number of calls; PathSep is only repeated with the same separator, the other options in the list (VarExp, StructTag(\"config\"), ValidatorTag(\"validate\"), MetaData) do not concern keys; every list contains MaxIdx and EnableNumKeys at least once (defaults are not exercised); limits stay below 2300 and a key whose numeric reading is above 1100 is a name under every occurrence. A deviation is named after the occurrence that was taken instead of the last one only if the canonical list PathSep, MaxIdx, EnableNumKeys of the effective setting is silent on the same calls",
		"keys of expanded objects (expand.go): an object that a ${...} setting expands to at reading time (Resolve answer, or a splice whose pieces come from a setting, an Env setting or a default) is created by the READING call, so that call's MaxIdx / EnableNumKeys / PathSep classify its keys like map keys given to NewFrom with the same options (the options the config was built with and the defaults do not); precondition per scenario: parse.Value reads the text as the wrapper around an object with exactly the member key: value; a default can not hold '}' (expression syntax, not C20's), so a default only supplies the value; keys inside expressions are restricted to [0-9A-Za-z_+-.]; a legitimate index above 300 is not read",
		"safety: the grow hook aborts (panics inside harness.Safe) any list growth beyond what the oracle allows for the operation, so a wrongly accepted index never allocates",
	}
}

// ---------------------------------------------------------------------------
// oracle
// ---------------------------------------------------------------------------

type segment struct {
	s     string
	ok    bool // ParseInt(s, 0, 64) succeeded
	v     int64
	index bool // oracle role
	syn   bool // not part of the key: the idx argument of the call
}

func keySegs(segs []segment) int {
	n := 0
	for _, sg := range segs {
		if !sg.syn {
			n++
		}
	}
	return n
}

func classify(s string, st setting, single bool) segment {
	v, err := strconv.ParseInt(s, 0, 64)
	sg := segment{s: s, ok: err == nil, v: v}
	sg.index = !(st.e && single) && err == nil && v >= 0 && v <= st.m
	return sg
}

func splitKey(key, sep string) []string {
	if sep == "" {
		return []string{key}
	}
	return strings.Split(key, sep)
}

func expect(key, sep string, st setting) []segment {
	parts := splitKey(key, sep)
	segs := make([]segment, len(parts))
	for i, p := range parts {
		segs[i] = classify(p, st, len(parts) == 1)
	}
	return segs
}

func (sg segment) reason(st setting, single bool) string {
	switch {
	case sg.index:
		return "index"
	case !sg.ok:
		return "name:not-an-integer-literal"
	case sg.v < 0:
		return "name:negative"
	case sg.v > st.m:
		return "name:above-max"
	default:
		return "name:numeric-keys-enabled"
	}
}

func syntaxClass(s string) string {
	c := ""
	t := s
	if strings.HasPrefix(t, "+") || strings.HasPrefix(t, "-") {
		c = t[:1]
		t = t[1:]
	}
	switch {
	case len(t) > 1 && (t[1] == 'x' || t[1] == 'X'):
		c += "0" + t[1:2]
	case len(t) > 1 && (t[1] == 'b' || t[1] == 'B'):
		c += "0" + t[1:2]
	case len(t) > 1 && (t[1] == 'o' || t[1] == 'O'):
		c += "0" + t[1:2]
	case len(t) > 1 && t[0] == '0':
		c += "legacy-octal"
	default:
		c += "decimal"
	}
	if strings.Contains(t, "_") {
		c += "+underscore"
	}
	return c
}

// ---------------------------------------------------------------------------
// observation
// ---------------------------------------------------------------------------

// level is one level of an unpacked config.
type level struct {
	kind string // "index", "name", "hybrid", "empty", "leaf", "manykeys"
	n    int    // list length
	pos  int    // position of the only non-nil entry; -1 none; -2 several
	name string
	next interface{}
}

func levelOf(x interface{}) level {
	switch t := x.(type) {
	case []interface{}:
		if len(t) == 0 {
			return level{kind: "empty"}
		}
		lv := level{kind: "index", n: len(t), pos: -1}
		for i, e := range t {
			if e != nil {
				if lv.pos == -1 {
					lv.pos = i
					lv.next = e
				} else {
					lv.pos = -2
				}
			}
		}
		return lv
	case map[string]interface{}:
		switch len(t) {
		case 0:
			return level{kind: "empty"}
		case 1:
			for k, v := range t {
				return level{kind: "name", name: k, next: v}
			}
		}
		return level{kind: "manykeys", n: len(t)}
	case nil:
		return level{kind: "empty"}
	}
	return level{kind: "leaf", next: x}
}

func numEq(x interface{}, want int64) bool {
	switch t := x.(type) {
	case int64:
		return t == want
	case uint64:
		return want >= 0 && t == uint64(want)
	case int:
		return int64(t) == want
	}
	return false
}

// deviation describes how an observation differs from the oracle.
type deviation struct {
	at     int    // segment index (len(segs) = the leaf)
	obs    string // observed class
	obsPos int    // observed list position / slot count - 1, if known
	detail string
	pval   string
	where  string
	hint   bool // a sibling observation showed the segment treated as an index
}

type world struct {
	res         *harness.R
	r           *rand.Rand
	tier        string
	verbose     bool
	p, q        string
	val         int64
	capTop      int64
	capInterior int64
	sigSeen     map[string]int
	probeCache  map[[2]int64]bool
	poss        []position
	leafBool    bool // the value written by the current usage is the boolean true
	idxArg      int  // idx argument of the setter-name+idx usage (0..2)

	// grow hook state (per operation)
	allowed int
	grows   int
	maxGrow int
	tripped bool
	tripA   int
	tripB   int
	// law >= 0 (sequences on existing lists): every single growth event
	// (old, new) must satisfy new <= max(old+1, law), law = MaxIdx+1
	law int

	// the drawn option list while an option-list scenario runs (optlist.go)
	ol *optList
	// source of the option lists of the sequences (separate: the sequences' own stream is unchanged)
	olr *rand.Rand
}

type tripwire struct{ b int }

func (w *world) hook(kind, site, s string, a, b int) {
	if kind != "grow" {
		return
	}
	w.grows++
	if b > w.maxGrow {
		w.maxGrow = b
	}
	if b > w.allowed || b <= 0 || (w.law >= 0 && b > a+1 && b > w.law) {
		w.tripped = true
		w.tripA = a
		w.tripB = b
		// abort before the library allocates: a growth beyond what the
		// oracle allows is already the violation
		panic(tripwire{b})
	}
}

func (w *world) arm(allowed int) {
	w.allowed, w.grows, w.maxGrow, w.tripped, w.tripA, w.tripB = allowed, 0, 0, false, 0, 0
}

const (
	uMap = iota
	uSet
	uStruct
	uSetIdx   // setter name together with an idx argument >= 0
	uFlag     // -D key=value through flag.NewFlagKeyValue
	uFlagBool // -D key (auto-bool) through flag.NewFlagKeyValue
	nUsages
)

var useName = []string{"map-key", "setter-name", "struct-tag", "setter-name+idx-argument", "flag-key=value", "flag-key-auto-bool"}

// usageSuffix narrows the signature of deviations seen only through the
// entry points added later (a defect of the shared classifier also shows,
// with the bare signature, through the first three usages).
var usageSuffix = []string{"", "", "", ":with-idx-argument", ":flag", ":flag"}

func tagSafe(key string) bool {
	if key == "" {
		return false
	}
	for _, c := range key {
		if c == ',' || c == '"' || c == '`' || c == '\\' || c < 0x20 || c == 0x7f {
			return false
		}
	}
	return true
}

var tInt64 = reflect.TypeOf(int64(0))

func structType(key string) (t reflect.Type) {
	harness.Safe(func() {
		t = reflect.StructOf([]reflect.StructField{{Name: "F", Type: tInt64, Tag: reflect.StructTag(`config:"` + key + `"`)}})
	})
	return
}

func firstFrame(where string) string {
	for _, f := range strings.Split(where, "<") {
		if f == "" || strings.Contains(f, "verif") || strings.Contains(f, "Verif") {
			continue
		}
		return f
	}
	return "unknown"
}

// sigFor computes the classifier signature from the input predicate and the
// observed class of deviation.
func (w *world) sigFor(sg segment, st setting, single bool, d deviation, falseOK bool) string {
	oor := d.obs == "panic" && strings.Contains(d.pval, "out of range")
	if d.obs == "panic" && (!oor || sg.index) {
		return "panic:" + firstFrame(d.where)
	}
	if d.obs == "leaf-wrong" {
		return "value-lost"
	}
	if !sg.index {
		if d.obs == "name-differs" {
			return "name-not-roundtripped"
		}
		// observed as an index: a list appeared / started to grow, a list slot
		// was read or removed, an index expression panicked, or (hint) a sibling
		// observation of the same segment under the same setting showed that
		asIndex := d.obs == "index" || d.obs == "hybrid" || d.obs == "grow" || oor || d.hint
		switch {
		case !asIndex && d.obs == "error":
			return "name-key-rejected"
		case !asIndex:
			return "name-not-found"
		case sg.ok && sg.v < 0:
			return "negative-literal-treated-as-index"
		case sg.ok && sg.v > st.m:
			return "above-max-treated-as-index"
		case sg.ok:
			return "enablenumkeys-ignored"
		}
		return "non-integer-treated-as-index"
	}
	if d.obs == "error" {
		return "index-key-rejected"
	}
	v10, err10 := strconv.ParseInt(sg.s, 10, 64)
	plainDecimal := err10 == nil && v10 == sg.v && !strings.HasPrefix(sg.s, "+")
	switch d.obs {
	case "name", "name-differs", "manykeys":
		switch {
		case st.e && !single && falseOK:
			// the same key under the same MaxIdx is an index with EnableNumKeys(false)
			return "enablenumkeys-applied-to-multi-segment-key"
		case !plainDecimal && w.decimalIsIndex(sg.v, st.m):
			// the plain decimal spelling of the same value is accepted
			return "non-decimal-literal-treated-as-name"
		case sg.v == st.m:
			return "index-equal-max-treated-as-name"
		}
		return "in-range-index-treated-as-name"
	case "index-wrong-slot", "grow":
		if err10 == nil && v10 != sg.v && int64(d.obsPos) == v10 {
			return "literal-parsed-in-wrong-base"
		}
		return "index-wrong-slot"
	}
	if err10 == nil && v10 != sg.v {
		return "literal-parsed-in-wrong-base"
	}
	return "index-role-not-observed"
}

// decimalIsIndex probes (simplest usage: whole-key setter name, no PathSep,
// EnableNumKeys(false)) whether the plain decimal spelling of v is an index
// under MaxIdx m. Only used to tell "spelling not recognised" from "value
// refused" when naming a deviation.
func (w *world) decimalIsIndex(v, m int64) bool {
	k := [2]int64{v, m}
	if r, ok := w.probeCache[k]; ok {
		return r
	}
	sa, sg, sm, st, sb := w.allowed, w.grows, w.maxGrow, w.tripped, w.tripB
	w.arm(int(v) + 1)
	isA := false
	harness.Safe(func() {
		c := ucfg.New()
		if err := c.SetInt(strconv.FormatInt(v, 10), -1, 1, ucfg.MaxIdx(m), ucfg.EnableNumKeys(false)); err == nil {
			isA = c.IsArray() && !c.IsDict()
		}
	})
	w.res.Eval(1)
	w.allowed, w.grows, w.maxGrow, w.tripped, w.tripB = sa, sg, sm, st, sb
	w.probeCache[k] = isA
	return isA
}

// capped: harness.R keeps 3 violations per signature and case; beyond that
// only count (saves formatting the witness).
func (w *world) capped(sig string) bool {
	w.sigSeen[sig]++
	if w.sigSeen[sig] > 3 {
		w.res.Ev("violations_raw", 1)
		return true
	}
	return false
}

func treatedAsIndex(sg segment, d deviation) bool {
	if sg.index {
		return false
	}
	return d.obs == "index" || d.obs == "hybrid" || d.obs == "grow" || (d.obs == "panic" && strings.Contains(d.pval, "out of range"))
}

func describeSegs(segs []segment) string {
	var l []string
	for _, sg := range segs {
		if sg.index {
			l = append(l, fmt.Sprintf("%q=index %d", sg.s, sg.v))
		} else {
			l = append(l, fmt.Sprintf("%q=name", sg.s))
		}
	}
	return strings.Join(l, ", ")
}

func (w *world) report(usage string, pos position, key string, st setting, segs []segment, d deviation, falseOK bool) (wrongIndex bool) {
	i := d.at
	if i >= len(segs) {
		i = len(segs) - 1
	}
	// attribute to the first segment whose predicate can explain the class
	sg := segs[i]
	single := keySegs(segs) == 1
	sig := w.sigFor(sg, st, single, d, falseOK)
	for u, n := range useName {
		if n == usage && !strings.HasPrefix(sig, "panic:") {
			sig += usageSuffix[u]
		}
	}
	if w.capped(sig) {
		return treatedAsIndex(sg, d)
	}
	role := "name"
	if sg.index {
		role = fmt.Sprintf("list index %d", sg.v)
	}
	extra := ""
	if d.obs == "panic" {
		extra = fmt.Sprintf(" panic %q at %s", d.pval, d.where)
	}
	w.res.Violate(sig, "%s %q (%s, PathSep=%q, %s): segment %q must be %s [oracle: %s] but observed %s: %s%s",
		usage, key, pos.name, pos.sep, st, sg.s, role, describeSegs(segs), d.obs, d.detail, extra)
	return treatedAsIndex(sg, d)
}

// observeShape reads c back and compares it with the oracle's shape.
// It returns nil if everything agrees.
func (w *world) observeShape(c *ucfg.Config, segs []segment, val int64) (dev *deviation, maxList int) {
	var (
		isA, isD bool
		names    []string
		cnt      int
		mm       map[string]interface{}
		aa       []interface{}
		errM     error
		errA     error
		hasName  bool
	)
	panicked, pv, where := harness.Safe(func() {
		isA, isD = c.IsArray(), c.IsDict()
		names = c.GetFields()
		cnt, _ = c.CountField("")
		errM = c.Unpack(&mm)
		errA = c.Unpack(&aa)
		if !segs[0].index {
			hasName = c.HasField(segs[0].s)
		}
	})
	w.res.Eval(6)
	if panicked {
		return &deviation{at: 0, obs: "panic", pval: pv, where: where, detail: "while reading the config back"}, 0
	}
	if errM != nil || errA != nil {
		return &deviation{at: 0, obs: "unpack-error", detail: fmt.Sprintf("Unpack failed: map: %v, slice: %v", errM, errA)}, 0
	}
	var top level
	switch {
	case len(mm) > 0 && len(aa) > 0:
		top = level{kind: "hybrid", n: len(aa)}
	case len(aa) > 0:
		top = levelOf(aa)
	default:
		top = levelOf(mm)
	}
	// raw observers must tell the same story as Unpack
	apiKind := "empty"
	switch {
	case isA && isD:
		apiKind = "hybrid"
	case isA:
		apiKind = "index"
	case isD:
		apiKind = "name"
	}
	unpKind := top.kind
	if unpKind == "manykeys" {
		unpKind = "name"
	}
	if apiKind != unpKind || cnt != len(mm)+len(aa) || len(names) != len(mm) {
		w.res.Violate("role-observers-disagree", "IsArray=%v IsDict=%v GetFields=%q CountField=%d but Unpack gave a dictionary of %d and a list of %d entries; oracle: %s",
			isA, isD, names, cnt, len(mm), len(aa), describeSegs(segs))
	}
	if len(aa) > maxList {
		maxList = len(aa)
	}
	cur := top
	for i, sg := range segs {
		if cur.kind == "index" && cur.n > maxList {
			maxList = cur.n
		}
		if sg.index {
			if cur.kind != "index" {
				d := &deviation{at: i, obs: cur.kind, detail: fmt.Sprintf("level %d is %s", i, describeLevel(cur))}
				return d, maxList
			}
			if int64(cur.n) != sg.v+1 || int64(cur.pos) != sg.v {
				return &deviation{at: i, obs: "index-wrong-slot", obsPos: cur.pos, detail: fmt.Sprintf("level %d is %s, want %d slots with the value in slot %d", i, describeLevel(cur), sg.v+1, sg.v)}, maxList
			}
		} else {
			if cur.kind != "name" {
				return &deviation{at: i, obs: cur.kind, detail: fmt.Sprintf("level %d is %s", i, describeLevel(cur))}, maxList
			}
			if cur.name != sg.s {
				return &deviation{at: i, obs: "name-differs", detail: fmt.Sprintf("level %d has key %q, want %q unchanged", i, cur.name, sg.s)}, maxList
			}
			if i == 0 {
				if len(names) != 1 || names[0] != sg.s {
					return &deviation{at: 0, obs: "name-differs", detail: fmt.Sprintf("GetFields() = %q, want exactly [%q]", names, sg.s)}, maxList
				}
				if !hasName {
					return &deviation{at: 0, obs: "name-differs", detail: fmt.Sprintf("HasField(%q) = false", sg.s)}, maxList
				}
			}
		}
		cur = levelOf(cur.next)
	}
	leafOK := cur.kind == "leaf" && numEq(cur.next, val)
	if w.leafBool {
		b, isB := cur.next.(bool)
		leafOK = cur.kind == "leaf" && isB && b
	}
	if !leafOK {
		return &deviation{at: len(segs), obs: "leaf-wrong", detail: fmt.Sprintf("below the last segment: %s, want the value %d (auto-bool flag: true)", describeLevel(cur), val)}, maxList
	}
	return nil, maxList
}

func describeLevel(l level) string {
	switch l.kind {
	case "index":
		switch {
		case l.pos == -1:
			return fmt.Sprintf("a list of %d nil slots", l.n)
		case l.pos == -2:
			return fmt.Sprintf("a list of %d slots with several values", l.n)
		}
		return fmt.Sprintf("a list of %d slots with the value in slot %d", l.n, l.pos)
	case "name":
		return fmt.Sprintf("a dictionary with the single key %q", l.name)
	case "manykeys":
		return fmt.Sprintf("a dictionary with %d keys", l.n)
	case "hybrid":
		return fmt.Sprintf("both a dictionary and a list of %d slots", l.n)
	case "leaf":
		return fmt.Sprintf("the primitive %v", l.next)
	}
	return "empty"
}

// childCheck: for keys starting with the plain name p, the role of the next
// segment must also show as IsArray/IsDict of Child(p).
func (w *world) childCheck(c *ucfg.Config, segs []segment, usage, key string, pos position, st setting) {
	if len(segs) < 2 || segs[0].index || segs[0].s != w.p {
		return
	}
	var (
		ch       *ucfg.Config
		err      error
		isA, isD bool
		names    []string
		cnt      int
	)
	panicked, pv, where := harness.Safe(func() {
		ch, err = c.Child(w.p, -1)
		if err == nil {
			isA, isD = ch.IsArray(), ch.IsDict()
			names = ch.GetFields()
			cnt, _ = ch.CountField("")
		}
	})
	w.res.Eval(5)
	sg := segs[1]
	switch {
	case panicked:
		w.res.Violate("panic:"+firstFrame(where), "Child(%q) of config built from %s %q (%s): panic %q at %s", w.p, usage, key, st, pv, where)
	case err != nil:
		w.res.Violate("role-observers-disagree", "Child(%q) of config built from %s %q (%s) failed: %v", w.p, usage, key, st, err)
	case sg.index && !(isA && !isD && int64(cnt) == sg.v+1 && len(names) == 0):
		w.res.Violate("role-observers-disagree", "%s %q (%s, %s): Unpack shows segment %q as list index %d but Child(%q) has IsArray=%v IsDict=%v CountField=%d GetFields=%q",
			usage, key, pos.name, st, sg.s, sg.v, w.p, isA, isD, cnt, names)
	case !sg.index && !(isD && !isA && len(names) == 1 && names[0] == sg.s):
		w.res.Violate("role-observers-disagree", "%s %q (%s, %s): Unpack shows segment %q as name but Child(%q) has IsArray=%v IsDict=%v GetFields=%q",
			usage, key, pos.name, st, sg.s, w.p, isA, isD, names)
	default:
		w.res.Ev("child_role_confirmed", 1)
	}
}

// builder runs one building usage and classifies the outcome.
func (w *world) builder(u int, pos position, key string, st setting, segs []segment, T reflect.Type, falseOK bool) (deviated, wrongIndex bool) {
	usage := useName[u]
	allowed := 0
	for _, sg := range segs {
		if sg.index && int(sg.v)+1 > allowed {
			allowed = int(sg.v) + 1
		}
	}
	opts := w.optsFor(st, pos.sep)
	var (
		c   *ucfg.Config
		err error
	)
	shape := segs // what the config must look like: the key's segments (+ the idx argument)
	if u == uSetIdx {
		j := w.idxArg
		if int64(j) > st.m {
			j = int(st.m)
		}
		shape = append(append([]segment{}, segs...), segment{s: strconv.Itoa(j), ok: true, v: int64(j), index: true, syn: true})
		if j+1 > allowed {
			allowed = j + 1
		}
	}
	w.arm(allowed)
	panicked, pv, where := harness.Safe(func() {
		switch u {
		case uMap:
			c, err = ucfg.NewFrom(map[string]interface{}{key: w.val}, opts...)
		case uSet:
			c = ucfg.New()
			err = c.SetInt(key, -1, w.val, opts...)
		case uSetIdx:
			c = ucfg.New()
			err = c.SetInt(key, int(shape[len(shape)-1].v), w.val, opts...)
		case uFlag, uFlagBool:
			arg := key
			if u == uFlag {
				arg = key + "=" + strconv.FormatInt(w.val, 10)
			}
			fv := uflag.NewFlagKeyValue(ucfg.New(), u == uFlagBool, opts...)
			if err = fv.Set(arg); err == nil {
				err = fv.Error()
			}
			c = fv.Config()
		case uStruct:
			sv := reflect.New(T).Elem()
			sv.Field(0).SetInt(w.val)
			c, err = ucfg.NewFrom(sv.Interface(), opts...)
		}
	})
	w.res.Eval(1)
	w.res.Ev("classifications", int64(len(segs)-len(pos.prefix)-len(pos.suffix)))
	w.res.Ev("grow_events", int64(w.grows))
	slots := w.maxGrow
	limit := int(st.m) + 1
	if limit < 0 {
		limit = 0
	}
	var dev *deviation
	switch {
	case w.tripped:
		// which segment? the first expected name whose literal explains a
		// growth to tripB slots, else the largest expected index
		at := 0
		found := false
		for i, sg := range segs {
			if !sg.index && sg.ok && (sg.v+1 == int64(w.tripB) || sg.v < 0 || int64(w.tripB) <= 0) {
				at, found = i, true
				break
			}
		}
		if !found {
			for i, sg := range segs {
				if !sg.index && sg.ok {
					at, found = i, true
					break
				}
			}
		}
		if !found {
			for i, sg := range segs {
				if sg.index {
					at, found = i, true
					if v10, e10 := strconv.ParseInt(sg.s, 10, 64); e10 == nil && v10+1 == int64(w.tripB) {
						break
					}
				}
			}
		}
		dev = &deviation{at: at, obs: "grow", obsPos: w.tripB - 1, detail: fmt.Sprintf("the library started to grow a list to %d slots (oracle allows at most %d for this key; growth aborted by the monitor)", w.tripB, allowed)}
	case panicked:
		// attribute to the first segment with a negative literal if the panic is an index error
		at := 0
		for i, sg := range segs {
			if !sg.index && sg.ok && sg.v < 0 {
				at = i
				break
			}
		}
		dev = &deviation{at: at, obs: "panic", pval: pv, where: where}
	case err != nil:
		dev = &deviation{at: 0, obs: "error", detail: fmt.Sprintf("returned error %v", err)}
		for i, sg := range segs {
			if !sg.index && sg.ok {
				dev.at = i
				break
			}
		}
	default:
		var ml int
		w.leafBool = u == uFlagBool
		dev, ml = w.observeShape(c, shape, w.val)
		w.leafBool = false
		if ml > slots {
			slots = ml
		}
	}
	if slots > limit && !w.capped("list-longer-than-max+1") {
		how := "produced"
		if w.tripped {
			how = "made the library start growing (aborted by the monitor)"
		}
		w.res.Violate("list-longer-than-max+1", "%s %q (%s, PathSep=%q, %s): a single key %s a list of %d slots, more than MaxIdx+1 = %d", usage, key, pos.name, pos.sep, st, how, slots, limit)
	}
	if slots == limit && limit > 0 {
		w.res.SetAdd("list_reached_max_plus_1", fmt.Sprintf("m=%d", st.m))
	}
	if dev != nil {
		wrongIndex = w.report(usage, pos, key, st, shape, *dev, falseOK)
		return true, wrongIndex
	}
	for _, sg := range segs {
		if sg.index {
			w.res.Ev("index_roles_confirmed", 1)
		} else {
			w.res.Ev("name_roles_confirmed", 1)
		}
	}
	w.res.SetAdd("confirmed", usage+"/"+pos.name)
	if u == uMap {
		w.childCheck(c, segs, usage, key, pos, st)
		w.sameKey(c, pos, key, st, segs, opts)
	}
	return false, false
}

// sameKey: the key that built the config must find, read and remove the value
// again under the same options (whatever the role of its segments).
func (w *world) sameKey(c *ucfg.Config, pos position, key string, st setting, segs []segment, opts []ucfg.Option) {
	if key == "" {
		return
	}
	var (
		has, removed, hasAfter bool
		got                    int64
		cnt                    int
		e1, e2, e3, e4, e5     error
	)
	panicked, pv, where := harness.Safe(func() {
		has, e1 = c.Has(key, -1, opts...)
		got, e2 = c.Int(key, -1, opts...)
		cnt, e5 = c.CountField(key, opts...)
		removed, e3 = c.Remove(key, -1, opts...)
		hasAfter, e4 = c.Has(key, -1, opts...)
	})
	w.res.Eval(5)
	ctx := fmt.Sprintf("config built from map key %q (%s, PathSep=%q, %s; oracle: %s)", key, pos.name, pos.sep, st, describeSegs(segs))
	if !panicked && e1 == nil && has && e2 == nil && got == w.val {
		// CountField takes the same name as the getters: a primitive counts as 1
		if e5 != nil || cnt != 1 {
			if sig := countFieldSig(segs); !w.capped(sig) {
				w.res.Violate(sig, "CountField(%q) = %d, %v, want 1, nil like Has = true and Int = %d with the same name and options on %s", key, cnt, e5, got, ctx)
			}
		} else {
			w.res.Ev("countfield_same_key_confirmed", 1)
		}
	}
	switch {
	case panicked:
		w.res.Violate("panic:"+firstFrame(where), "getters with the same key on %s: panic %q at %s", ctx, pv, where)
	case e1 != nil || !has:
		w.res.Violate("same-key-roundtrip-fails:Has", "Has = %v, %v on %s", has, e1, ctx)
	case e2 != nil || got != w.val:
		w.res.Violate("same-key-roundtrip-fails:Int", "Int = %v, %v, want %d on %s", got, e2, w.val, ctx)
	case e3 != nil || !removed:
		w.res.Violate("same-key-roundtrip-fails:Remove", "Remove = %v, %v on %s", removed, e3, ctx)
	case e4 != nil || hasAfter:
		w.res.Violate("same-key-roundtrip-fails:Remove", "Has after Remove = %v, %v on %s", hasAfter, e4, ctx)
	default:
		w.res.Ev("same_key_roundtrips", 1)
	}
}

// ---------------------------------------------------------------------------
// getter names on prepared configs
// ---------------------------------------------------------------------------

const nameValue = 7 // value stored under the NAME s in the prepared config

type hybrid struct {
	top *ucfg.Config // what the getter is called on
	h   *ucfg.Config // the config holding the list part and the name s
	l   int          // list length
	hv  int64        // list position holding 100+hv (or -1)
}

func nest(names []string, x int64) interface{} {
	var v interface{} = x
	for i := len(names) - 1; i >= 0; i-- {
		v = map[string]interface{}{names[i]: v}
	}
	return v
}

// prepare builds, without going through key classification for the list part,
// a config that has BOTH list slots [.., 100+hv, 101+hv] and the dictionary
// entry s -> 7 (below the suffix names), wrapped in the prefix names.
func (w *world) prepare(s string, prefix, suffix []string) (hy hybrid, ok bool) {
	// the list part holds slot hv (and hv+1) where hv is the value of s as an
	// integer literal, or its base-10 reading if it is none ("09", "0029"), so
	// that a wrong reading as an index is visible as such
	hv := int64(-1)
	if v, err := strconv.ParseInt(s, 0, 64); err == nil {
		if v >= 0 && v <= 65536 {
			hv = v
		}
	} else if v, err := strconv.ParseInt(s, 10, 64); err == nil && v >= 0 && v <= 65536 {
		hv = v
	}
	hy.hv = hv
	w.arm(1 << 17)
	panicked, _, _ := harness.Safe(func() {
		h := ucfg.New()
		first := int64(0)
		n := int64(3)
		if hv >= 0 {
			first, n = hv, 2
		}
		for i := first; i < first+n; i++ {
			if len(suffix) == 0 {
				if err := h.SetInt("", int(i), 100+i); err != nil {
					return
				}
			} else {
				ch, err := ucfg.NewFrom(nest(suffix, 100+i))
				if err != nil {
					return
				}
				if err := h.SetChild("", int(i), ch); err != nil {
					return
				}
			}
		}
		hy.l = int(first + n)
		if err := h.Merge(map[string]interface{}{s: nest(suffix, nameValue)}, ucfg.EnableNumKeys(true)); err != nil {
			return
		}
		names := h.GetFields()
		cnt, _ := h.CountField("")
		if !h.HasField(s) || len(names) != 1 || names[0] != s || cnt != hy.l+1 || !h.IsArray() {
			return
		}
		hy.h = h
		cur := h
		for i := len(prefix) - 1; i >= 0; i-- {
			t := ucfg.New()
			if err := t.SetChild(prefix[i], -1, cur); err != nil {
				return
			}
			cur = t
		}
		hy.top = cur
		ok = true
	})
	w.res.Eval(6)
	if panicked {
		ok = false
	}
	return hy, ok
}

func (w *world) getterDeviation(op string, pos position, key string, st setting, sg segment, single bool, d deviation, falseOK bool) bool {
	sig := w.sigFor(sg, st, single, d, falseOK)
	if w.capped(sig) {
		return treatedAsIndex(sg, d)
	}
	role := "name"
	if sg.index {
		role = fmt.Sprintf("list index %d", sg.v)
	}
	extra := ""
	if d.obs == "panic" {
		extra = fmt.Sprintf(" panic %q at %s", d.pval, d.where)
	}
	w.res.Violate(sig, "getter-name %s(%q, -1) (%s, PathSep=%q, %s) on a config holding both list slots and the name %q: segment %q must be %s but observed %s: %s%s",
		op, key, pos.name, pos.sep, st, sg.s, sg.s, role, d.obs, d.detail, extra)
	return treatedAsIndex(sg, d)
}

func (w *world) getters(pos position, s, key string, sts []setting, T reflect.Type) (wrongIndex bool) {
	if pos.twice || key == "" || (pos.sep != "" && strings.Contains(s, pos.sep)) {
		return false
	}
	prefix, suffix := pos.names(w.p, w.q, pos.prefix), pos.names(w.p, w.q, pos.suffix)
	single := len(prefix)+len(suffix) == 0
	hy, ok := w.prepare(s, prefix, suffix)
	if !ok {
		// the name s cannot even be stored with EnableNumKeys(true): reported by the map-key usage
		w.res.Ev("prepared_config_unbuildable", 1)
		return false
	}
	w.hybridRendering(pos, s, hy, prefix, suffix)
	// per usage: 0 = EnableNumKeys(false) not run for this MaxIdx, 1 = agreed, 2 = deviated
	var fstate [3]int8
	for i, st := range sts {
		if i == 0 || sts[i-1].m != st.m {
			fstate = [3]int8{}
		}
		sg := classify(s, st, single)
		opts := w.optsFor(st, pos.sep)
		wantVal := int64(nameValue)
		if sg.index {
			wantVal = 100 + sg.v
		}
		classOf := func(got int64, err error) (string, string) {
			switch {
			case err != nil:
				return "missing", fmt.Sprintf("error %v", err)
			case got == nameValue:
				return "name", "read the value stored under the name"
			case hy.hv >= 0 && got == 100+hy.hv:
				return "index", fmt.Sprintf("read list slot %d", hy.hv)
			}
			return "wrong-value", fmt.Sprintf("read %d", got)
		}
		// Has + Int
		var (
			has    bool
			got    int64
			e1, e2 error
		)
		w.res.Ev("classifications", 1)
		panicked, pv, where := harness.Safe(func() {
			has, e1 = hy.top.Has(key, -1, opts...)
			got, e2 = hy.top.Int(key, -1, opts...)
		})
		w.res.Eval(2)
		var d *deviation
		switch {
		case panicked:
			d = &deviation{obs: "panic", pval: pv, where: where}
		case e1 != nil || !has:
			d = &deviation{obs: "missing", detail: fmt.Sprintf("Has = %v, %v", has, e1)}
		default:
			if cl, det := classOf(got, e2); got != wantVal || e2 != nil {
				d = &deviation{obs: cl, detail: "Int " + det}
			}
		}
		asIdxSeen := false
		if d != nil {
			if w.getterDeviation("Has/Int", pos, key, st, sg, single, *d, fstate[0] == 1) {
				wrongIndex = true
				asIdxSeen = true
			}
			if !st.e {
				fstate[0] = 2
			}
		} else {
			if !st.e {
				fstate[0] = 1
			}
			w.res.SetAdd("confirmed", "getter-name/"+pos.name)
			w.res.Ev("getter_roles_confirmed", 1)
		}
		// Unpack into a struct whose tag is the key
		if T != nil {
			var (
				f   int64
				err error
			)
			w.res.Ev("classifications", 1)
			panicked, pv, where := harness.Safe(func() {
				target := reflect.New(T)
				target.Elem().Field(0).SetInt(-3)
				err = hy.top.Unpack(target.Interface(), opts...)
				f = target.Elem().Field(0).Int()
			})
			w.res.Eval(1)
			var d *deviation
			switch {
			case panicked:
				d = &deviation{obs: "panic", pval: pv, where: where}
			case err != nil:
				d = &deviation{obs: "missing", detail: fmt.Sprintf("Unpack error %v", err)}
			case f == -3:
				d = &deviation{obs: "missing", detail: "the field was not set"}
			case f != wantVal:
				cl, det := classOf(f, nil)
				d = &deviation{obs: cl, detail: "field " + det}
			}
			if d != nil {
				d.hint = asIdxSeen && (d.obs == "missing" || d.obs == "not-removed")
				if w.getterDeviation("Unpack-into-struct-tag", pos, key, st, sg, single, *d, fstate[1] == 1) {
					wrongIndex = true
					asIdxSeen = true
				}
				if !st.e {
					fstate[1] = 2
				}
			} else {
				if !st.e {
					fstate[1] = 1
				}
				w.res.SetAdd("confirmed", "struct-tag-unpack/"+pos.name)
				w.res.Ev("unpack_tag_roles_confirmed", 1)
			}
		}
		// Remove (mutates: fresh config; only when cheap and s is the last segment)
		if len(suffix) == 0 && hy.l <= 66 {
			fresh, ok := w.prepare(s, prefix, suffix)
			if !ok {
				continue
			}
			var (
				removed bool
				err     error
				hasName bool
				cnt     int
			)
			w.res.Ev("classifications", 1)
			panicked, pv, where := harness.Safe(func() {
				removed, err = fresh.top.Remove(key, -1, opts...)
				hasName = fresh.h.HasField(s)
				cnt, _ = fresh.h.CountField("")
			})
			w.res.Eval(3)
			var d *deviation
			obs := ""
			switch {
			case panicked:
				d = &deviation{obs: "panic", pval: pv, where: where}
			case err != nil || !removed:
				d = &deviation{obs: "not-removed", detail: fmt.Sprintf("Remove = %v, %v", removed, err)}
			case cnt != fresh.l:
				d = &deviation{obs: "wrong-value", detail: fmt.Sprintf("after Remove the config has %d entries, want %d", cnt, fresh.l)}
			case hasName:
				obs = "index"
			default:
				obs = "name"
			}
			if d == nil && (obs == "index") != sg.index {
				det := "the name was removed, the list kept all slots"
				if obs == "index" {
					det = "a list slot was removed, the name is still there"
				}
				d = &deviation{obs: obs, detail: det}
			}
			if d != nil {
				d.hint = asIdxSeen && (d.obs == "missing" || d.obs == "not-removed")
				if w.getterDeviation("Remove", pos, key, st, sg, single, *d, fstate[2] == 1) {
					wrongIndex = true
				}
				if !st.e {
					fstate[2] = 2
				}
			} else {
				if !st.e {
					fstate[2] = 1
				}
				w.res.SetAdd("confirmed", "remove-name/"+pos.name)
				w.res.Ev("remove_roles_confirmed", 1)
			}
		}
	}
	return wrongIndex
}

// ---------------------------------------------------------------------------
// one string through every position, setting and usage
// ---------------------------------------------------------------------------

func hasDigit(s string) bool {
	for _, c := range s {
		if unicode.IsDigit(c) {
			return true
		}
	}
	return false
}

// interiorLarge: some segment is a legitimate index that is large but not at
// the boundary (m-1, m) of the setting.
func interiorLarge(segs []segment, st setting, limit int64) bool {
	for _, sg := range segs {
		if sg.index && sg.v > limit && sg.v < st.m-1 {
			return true
		}
	}
	return false
}

func (w *world) runString(s string, sts []setting) (wrongIndex bool) {
	nontrivial := hasDigit(s)
	if _, err := strconv.ParseInt(s, 0, 64); err == nil {
		w.res.SetAdd("literal_syntax", syntaxClass(s))
	}
	heavy := false
	if v, err := strconv.ParseInt(s, 0, 64); err == nil && v > w.capInterior && v <= 65536 {
		heavy = true
		for _, m := range maxIdxValues {
			if v == m || v == m-1 {
				heavy = false // boundary values get the full treatment
			}
		}
	}
	for pi, pos := range w.poss {
		key := pos.key(s, w.p, w.q)
		if nontrivial {
			w.res.Key(pos.name + "|" + s)
		}
		var T reflect.Type
		if tagSafe(key) {
			T = structType(key)
		}
		var fstate [nUsages]int8 // see getters
		for i, st := range sts {
			if i == 0 || sts[i-1].m != st.m {
				fstate = [nUsages]int8{}
			}
			segs := expect(key, pos.sep, st)
			for _, sg := range segs {
				if sg.s == s {
					w.res.SetAdd("expected_role", sg.reason(st, len(segs) == 1))
					break
				}
			}
			for u := uMap; u < nUsages; u++ {
				if u == uStruct && T == nil {
					continue
				}
				if u != uMap && u != uStruct && key == "" {
					continue
				}
				if (u == uFlag || u == uFlagBool) && strings.Contains(key, "=") {
					continue // the flag splits its argument at the first '='
				}
				if u == uFlagBool && i != 0 {
					continue // the auto-bool branch differs in how the key is cut out, not in the options
				}
				if u == uSetIdx && st.m < 0 {
					// no idx argument is within [0, MaxIdx]: what the call does is not pinned
					w.res.Ev("skipped_idx_argument_under_negative_max", 1)
					continue
				}
				if u != uSet && u != uSetIdx && segs[0].index && segs[0].v > w.capTop {
					// legitimate top-level index built through Merge: quadratic in v
					w.res.Ev("skipped_costly_top_level_index", 1)
					continue
				}
				if (u != uSet || pi != 0) && interiorLarge(segs, st, w.capInterior) {
					// a large index strictly inside the allowed range: same class as
					// the boundary values, only exercised as a whole-key setter name
					w.res.Ev("skipped_large_interior_index", 1)
					continue
				}
				dev, wi := w.builder(u, pos, key, st, segs, T, fstate[u] == 1)
				if !st.e {
					fstate[u] = 1
					if dev {
						fstate[u] = 2
					}
				}
				if wi {
					wrongIndex = true
				}
			}
			if key != "" && !(segs[0].index && segs[0].v > w.capTop) && !interiorLarge(segs, st, w.capInterior) {
				w.refsUsage(pos, key, st, segs)
				w.policyUsage(pos, s, key, st, segs)
			}
		}
		if heavy && pi != 0 {
			w.res.Ev("skipped_large_interior_index", 1)
		} else {
			if w.getters(pos, s, key, sts, T) {
				wrongIndex = true
			}
			if w.gettersIdx(pos, s, key, sts) {
				wrongIndex = true
			}
			w.onlyConfigs(pos, s, key, sts)
		}
	}
	if w.verbose {
		fmt.Printf("string %q: %d violations so far\n", s, len(w.res.Violations))
	}
	return wrongIndex
}

// ---------------------------------------------------------------------------
// seed-chosen longer near-numeric strings
// ---------------------------------------------------------------------------

var interesting = []int64{0, 1, 2, 3, 6, 7, 8, 9, 10, 15, 16, 17, 63, 64, -1, -2, -4, -5, -6, -1024}

// rare: every legitimate index above a few hundred costs that many slots
var interestingLarge = []int64{255, 256, 1023, 1024, 1025, 2050, 65535, 65536, 65537, 131074, 4095, 40000, -65536}

const mutAlphabet = "-+0123456789xXbBoO_aAfF. e"

func randomString(r *rand.Rand) string {
	var v int64
	switch k := r.Intn(40); {
	case k == 0:
		v = interestingLarge[r.Intn(len(interestingLarge))]
	case k < 16:
		v = int64(r.Intn(70))
		if r.Intn(6) == 0 {
			v = -v
		}
	case k < 20:
		v = 65537 + int64(r.Intn(1<<19)) // above every MaxIdx: always a name
	default:
		v = interesting[r.Intn(len(interesting))]
	}
	sp := spellings(v)
	s := sp[r.Intn(len(sp))]
	switch r.Intn(6) {
	case 0: // replace one byte
		if len(s) > 0 {
			i := r.Intn(len(s))
			s = s[:i] + string(mutAlphabet[r.Intn(len(mutAlphabet))]) + s[i+1:]
		}
	case 1: // insert one byte
		i := r.Intn(len(s) + 1)
		s = s[:i] + string(mutAlphabet[r.Intn(len(mutAlphabet))]) + s[i:]
	case 2: // zero padding after the prefix/sign
		i := 0
		for i < len(s) && strings.IndexByte("+-0xXbBoO", s[i]) >= 0 && i < 3 {
			i++
		}
		s = s[:i] + strings.Repeat("0", 1+r.Intn(4)) + s[i:]
	}
	// safety: never a value in (2^20, ..]
	if pv, err := strconv.ParseInt(s, 0, 64); err == nil && pv > 1<<20 {
		return strconv.FormatInt(v, 10)
	}
	return s
}

// ---------------------------------------------------------------------------
// cases
// ---------------------------------------------------------------------------

var pNames = []string{"p", "srv", "a", "_", "x"}
var qNames = []string{"q", "opt", "b", "o", "name"}

func (check) Run(seed int64, tier string, idx int, verbose bool) harness.Result {
	res := harness.NewR(idx)
	r := rand.New(rand.NewSource(harness.Mix(seed, "C20", idx)))
	w := &world{res: res, r: r, tier: tier, verbose: verbose, poss: tierPositions(tier)}
	w.p = pNames[r.Intn(len(pNames))]
	w.q = qNames[r.Intn(len(qNames))]
	w.val = int64(1 + r.Intn(5)) // never 7 (nameValue) and never >= 100
	w.idxArg = int(w.val % 3)
	w.capTop, w.capInterior = 1024, 300
	if tier == "thorough" {
		w.capTop, w.capInterior = 1024, 1024
	}
	w.sigSeen = map[string]int{}
	w.probeCache = map[[2]int64]bool{}
	w.law = -1
	w.arm(1 << 17)
	ucfg.VerifSetHook(w.hook)
	defer ucfg.VerifSetHook(nil)

	nChunks := chunkCases(tier)
	if idx < nChunks {
		w.runChunk(idx, nChunks)
	} else {
		w.runLadder(allSettings[idx-nChunks])
	}
	// every case also drives sequences of calls on one list (seq.go)
	w.arm(1 << 17)
	w.runSequences(seed, idx)
	// ... and option lists that repeat MaxIdx / EnableNumKeys (optlist.go)
	w.law = -1
	w.arm(1 << 17)
	w.runOptLists(seed, idx)
	// ... and keys of objects that come into being by expansion (expand.go)
	w.ol = nil
	w.law = -1
	w.arm(1 << 17)
	w.runExpansions(seed, idx)
	return res.Done()
}

func (w *world) runChunk(idx, nChunks int) {
	var strs []string
	total := universe(w.tier)
	for i := idx; i < total; i += nChunks {
		strs = append(strs, universeString(w.tier, i))
	}
	for i := 0; i < 2; i++ {
		strs = append(strs, randomString(w.r))
	}
	// white-space padded literals: one of the table (all of it over the cases) and one seed-chosen
	strs = append(strs, wsTable[idx%len(wsTable)], randomPadded(w.r))
	w.res.Ev("ws_padded_strings", 2)
	if idx < 2 {
		w.res.Sample = map[string]interface{}{"strings": strs, "p": w.p, "q": w.q, "value": w.val, "settings": len(allSettings), "positions": len(w.poss)}
	}
	for _, s := range strs {
		w.runString(s, settingsFor(s, w.tier))
	}
}

// runLadder walks the over-limit values of one (m, e) in ascending magnitude
// and stops at the first one the library wrongly accepts as an index.
func (w *world) runLadder(st setting) {
	var vals []int64
	seen := map[int64]bool{}
	for _, v := range []int64{st.m + 1, 2*st.m + 2, 1<<16 + 1, 1 << 20} {
		if v > st.m && v >= 0 && !seen[v] {
			seen[v] = true
			vals = append(vals, v)
		}
	}
	sort.Slice(vals, func(i, j int) bool { return vals[i] < vals[j] })
	var tried []string
	broken := false
	for _, v := range vals {
		for _, s := range []string{strconv.FormatInt(v, 10), "0x" + strconv.FormatInt(v, 16)} {
			tried = append(tried, s)
			if w.runString(s, []setting{st}) {
				broken = true
			}
		}
		if broken {
			break
		}
	}
	if !broken {
		for i := 0; i < len(largeTable) && !broken; i++ {
			tried = append(tried, largeTable[i])
			if w.runString(largeTable[i], []setting{st}) {
				broken = true
			}
		}
	}
	if broken {
		w.res.Ev("ladder_stopped_at_wrongly_accepted_index", 1)
	} else {
		w.res.Ev("ladder_completed", 1)
	}
	w.res.Sample = map[string]interface{}{"setting": st.String(), "ladder": tried, "stopped": broken}
}
