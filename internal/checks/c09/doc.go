// Package c09: see DESIGN.md section 3 C09.
package c09
