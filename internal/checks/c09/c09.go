// Package c09: results never depend on map iteration order.
package c09

import (
	"fmt"
	"math/rand"
	"reflect"
	"sort"
	"strconv"
	"strings"

	ucfg "github.com/elastic/go-ucfg"

	"verif/internal/gen"
	"verif/internal/harness"
	"verif/internal/model"
	"verif/internal/obs"
	"verif/internal/vx"
)

type check struct{}

func init() { harness.Register(check{}) }

func (check) ID() string { return "C09" }

func (check) Cases(tier string) int {
	if tier == "thorough" {
		return 20000
	}
	return 600
}

func (check) Rule() string {
	return "each case fixes one logical call and repeats it over permuted insertion orders of EVERY map in its input (all permutations up to 3 keys, else 8 random ones) x 12 repetitions each, rebuilding all inputs every time; the set of outcome classes (canonical data on success, root error reason on failure) must have size 1. Call kinds: NewFrom of partially flattened trees whose keys overlap after dotted expansion; NewFrom of inputs spelling one setting twice (dotted+nested, dotted below a primitive, dotted list position + list; random pairs of a short key holding primitive/nil/list/object and a dotted key 1-3 name or index segments below it holding a primitive or nil); chains of merges under all policies; one Merge (all policies, VarExp) onto a destination holding references to objects and lists, where the source brings values both for the settings holding the references and for the settings referenced; Unpack (map, struct of strings, per-setting String, FlattenedKeys) of worlds whose settings reference each other (chains, diamonds, repeated uses, cycles absorbed by resolvers, objects). The keyorder hook records the enumeration order the runtime actually used in every loop over a map; a case whose input has a map with >= 2 keys but showed fewer than 2 distinct enumeration schedules earns no credit (inconclusive). Non-trivial = at least 2 distinct schedules observed; distinct = distinct (kind, input). Round 4: every case has a SECOND part with a random stream of its own (so the first part is unchanged), one of five more call kinds: through-reference = NewFrom (PathSep, VarExp, a third with a resolver) of one input map in which a dotted key leads through - or, as control, beside - a setting holding a reference/splice (to nothing, an object, a list, a primitive, itself; held at top level, in an object, in a list); spellings-then-remove = NewFrom of two or three spellings of one namespace among them EMPTY lists/objects and nulls, observed, one spelling removed again, observed again; copy-with-env = a config with references is copied into a second one by Merge of the *Config (at the root or below a name), the copy gets other values for referenced settings, loses references and gains settings naming the lost ones, and is unpacked with the original as Env (original and copy of one reference are evaluated in the same call); failed-unpack-target = Unpack of a config with exactly ONE failing setting into maps the caller owns (typed, nil, pre-filled, nested, inline map of a struct, worlds of references): the outcome is the error class AND what the target holds afterwards. Round 5: merge-field-options = one Merge under 1-3 per-field options (Field{Merge,Replace,Append,Prepend}Values with direct paths, list positions, '*', '**' anywhere, one or two names per option, often a wildcard and a direct spelling for the same name with different policies) next to any global policy, onto operands repeating the configured names at several depths and below several sibling keys. Round 6: a THIRD part per case (stream of its own): merge-overlapping-operand = one Merge (all global policies; operand passed directly or below a name in a map) whose operand is a handle of the tree the target belongs to - the enclosing root, an ancestor, the target itself, a descendant, a sibling handle; control: an identical foreign config - with 1-5 more top-level settings, the root rebuilt in permuted insertion order every time, root and both handles observed raw afterwards; nested-reference-world = settings living in NESTED objects (one or two holders, one or two levels down) that reference each other in a ring of 3-5 settings absorbed by 1-3 defaults, with chords, chains of splices feeding in, 1-6 names per expression, readers inside and outside the ring, unpacked into two of five generic targets (map[string]interface{}, interface{}, struct fields of either type, the holder's own handle) and read setting by setting in permuted read order. Every successful creation is also observed through Child handles (IsDict/IsArray/number of settings of every namespace)."
}

func (check) Assumptions() []string {
	return []string{
		"with the default toolchain (go1.23 classic maps) a map of <= 8 keys is enumerated as a rotation of its insertion order, so insertion order is permuted by the workload and calls are repeated; the hook shows which orders were really taken",
		"outcome classes: success is reduced to canonical data (numbers by value, nil == {} == [] in dictionaries), failure to the innermost error reason; which of several keys an error names is not compared",
		"inputs with two or more independently failing settings are not judged on WHICH failure a whole-config read reports (first failure met wins), only inputs with at most one failing setting are",
		"what a map the caller passed to Unpack holds after a FAILED call is resulting data of that call (the target is one of the arguments the statement names, and the caller can read it whether or not an error came back as well): judged for configs with exactly one failing setting only, for the reason above; the check asks for the SAME content every time, not for a particular one (untouched, or filled up to the failing setting)",
		"a reference met by a dotted key while one input is normalized: the property only asks for one outcome per input; that this outcome is 'duplicate key' is not assumed by the check",
		"whether and how often resolvers are asked while a config is created is not part of the outcome (monitored only)",
		"operands that are part of the tree the target belongs to (the enclosing root, an ancestor, the target itself, a descendant, a sibling handle) are 'given configs' like any other: WHAT such a merge yields is C10's business (snapshot semantics), here only that the identical call on identically built arguments yields ONE outcome; what a refused merge leaves behind is not judged",
		"operations other than creating, merging and unpacking are not judged for order: the order of GetFields() and of the lists diff.CompareConfigs returns is unspecified (GetFields is sorted before it is compared); the text of an error (which spelling it names, whether it carries a source) is wording, the kind is compared",
	}
}

// permMap builds Go data from a tree inserting the keys of every map in a
// random order.
func permGo(r *rand.Rand, n *model.Node) interface{} {
	if n == nil || n.Kind == model.KNil {
		return nil
	}
	if n.Kind == model.KPrim {
		return n.Prim
	}
	if (n.HasA || len(n.A) > 0) && len(n.D) == 0 {
		l := make([]interface{}, 0, len(n.A))
		for _, v := range n.A {
			l = append(l, permGo(r, v))
		}
		return l
	}
	keys := n.SortedKeys()
	r.Shuffle(len(keys), func(i, j int) { keys[i], keys[j] = keys[j], keys[i] })
	m := make(map[string]interface{}, len(keys))
	for _, k := range keys {
		m[k] = permGo(r, n.D[k])
	}
	return m
}

// flatten folds some dictionary edges of t into dotted keys (same meaning
// under PathSep).
func flatten(r *rand.Rand, n *model.Node, depth int) *model.Node {
	if !n.IsSub() || len(n.D) == 0 {
		return n.Copy()
	}
	out := model.Dict()
	for _, k := range n.SortedKeys() {
		v := flatten(r, n.D[k], depth+1)
		if v.IsSub() && len(v.D) > 0 && len(v.A) == 0 && r.Intn(2) == 0 {
			// fold: k + "." + each child key; possibly keep some children nested
			var keep *model.Node
			for _, ck := range v.SortedKeys() {
				if r.Intn(3) == 0 {
					if keep == nil {
						keep = model.Dict()
					}
					keep.D[ck] = v.D[ck]
				} else {
					out.D[k+"."+ck] = v.D[ck]
				}
			}
			if keep != nil {
				out.D[k] = keep
			}
		} else {
			out.D[k] = v
		}
	}
	return out
}

type outcome struct {
	class    string
	schedule string
}

type runner func(r *rand.Rand) string // returns the outcome class

func maxKeys(n *model.Node) int {
	if !n.IsSub() {
		return 0
	}
	m := len(n.D)
	for _, v := range n.D {
		if k := maxKeys(v); k > m {
			m = k
		}
	}
	for _, v := range n.A {
		if k := maxKeys(v); k > m {
			m = k
		}
	}
	return m
}

func errClass(err error) string {
	if err == nil {
		return "ok"
	}
	rs := vx.RootReasons(err)
	if len(rs) == 0 {
		return "err:?"
	}
	last := rs[len(rs)-1]
	for i := len(rs) - 1; i >= 0; i-- {
		if rs[i] != nil {
			last = rs[i]
			break
		}
	}
	if _, ok := last.(ucfg.Error); ok {
		return "err:" + obs.ReasonName(last)
	}
	// sentinel or ad-hoc error
	for _, s := range []error{ucfg.ErrDuplicateKey, ucfg.ErrExpectedObject, ucfg.ErrMissing, ucfg.ErrCyclicReference, ucfg.ErrTypeMismatch} {
		if last == s {
			return "err:" + s.Error()
		}
	}
	// an error of another package (strconv, time, regexp, a decoder): classed by
	// its Go type and, where it has one, its own sentinel - never by wording
	// (which setting a message blames, and how, is not compared)
	class := fmt.Sprintf("err:%T", last)
	if ne, ok := last.(*strconv.NumError); ok {
		class += ":" + ne.Func + ":" + ne.Err.Error()
	}
	return class
}

func (check) Run(seed int64, tier string, idx int, verbose bool) harness.Result {
	res := harness.NewR(idx)
	r := rand.New(rand.NewSource(harness.Mix(seed, "C09", idx)))
	kinds := []string{"flattened-overlap", "duplicate", "merge-chain", "world", "world", "merge-onto-references"}
	kind := kinds[idx%len(kinds)]
	var desc string
	var runs map[string]runner
	needSchedules := true
	switch kind {
	case "flattened-overlap":
		t := gen.TopDict(r, gen.TreeOpts{NoEmpty: true, NoNil: true, Prims: []interface{}{"s", int64(-3), uint64(7), true, 2.5}}, 3)
		f := flatten(r, t, 0)
		desc = fmt.Sprintf("NewFrom(%s) [flattening of %s]", f, t)
		needSchedules = maxKeys(f) >= 2
		fpols := [][]ucfg.Option{nil, nil, {ucfg.ReplaceValues}, {ucfg.ReplaceArrValues}, {ucfg.AppendValues}, {ucfg.PrependValues}}
		fpol := fpols[r.Intn(len(fpols))]
		desc += fmt.Sprintf(" with %d policy option(s) #%d", len(fpol), r.Intn(1000))
		runs = map[string]runner{"NewFrom+Unpack": func(pr *rand.Rand) string {
			c, err := ucfg.NewFrom(permGo(pr, f), append([]ucfg.Option{ucfg.PathSep(".")}, fpol...)...)
			if err != nil {
				return errClass(err)
			}
			s, err := rawTop(c)
			if err != nil {
				return "unpack-" + errClass(err)
			}
			return s
		}}
	case "duplicate":
		leaf := []interface{}{"x", uint64(1), true}[r.Intn(3)]
		k1, k2 := gen.Keys[r.Intn(3)], gen.Keys[r.Intn(3)]
		var in *model.Node
		var shape string
		switch r.Intn(9) {
		case 6, 7, 8:
			// random pair of spellings: a short key holding a primitive, nil,
			// list or object and a dotted key leading 1-3 segments (names and
			// list positions) below it holding a primitive or nil
			shape = "random-two-spellings"
			var short *model.Node
			sk := r.Intn(8)
			switch sk {
			case 6:
				// an object holding explicit nulls (settings of their own) next to a value
				short = model.Dict().Set(k2+"n", model.Nil()).Set("l", model.List(model.Nil(), model.P(uint64(2)))).Set("w", model.P("other"))
			case 7:
				short = model.Dict().Set("z", model.Nil())
			case 0:
				short = model.P([]interface{}{uint64(5), "s", true}[r.Intn(3)])
			case 1:
				short = model.Nil()
			case 2:
				short = model.List(model.P("other"))
			case 3:
				short = model.Dict().Set(k2, model.P("other"))
			case 4:
				short = model.Dict().Set(k2, model.Dict().Set("z", model.P("other")))
			default:
				short = model.List(model.Dict().Set(k2, model.P("other")), model.P(uint64(2)))
			}
			segs := []string{k2, "z", "0", "1", "0"}
			path := k1
			n := 1 + r.Intn(3)
			for i := 0; i < n; i++ {
				path += "." + segs[r.Intn(len(segs))]
			}
			dv := model.P(leaf)
			if r.Intn(3) == 0 {
				dv = model.Nil()
			}
			shape += fmt.Sprintf(":short-kind-%d:depth-%d", sk, n)
			in = model.Dict().Set(path, dv).Set(k1, short)
		case 4:
			// not a duplicate: one spelling only says "nothing here" (nil)
			shape = "dotted-nil-and-nested-value"
			in = model.Dict().Set(k1+"."+k2, model.Dict().Set("z", model.Nil())).Set(k1, model.Dict().Set(k2, model.Dict().Set("z", model.P(leaf))))
		case 5:
			// not a duplicate: two spellings of one namespace with disjoint settings, under a global policy
			shape = "disjoint-spellings"
			in = model.Dict().Set(k1+"."+k2, model.P(leaf)).Set(k1, model.Dict().Set(k2+"2", model.P("other")).Set("l", model.List(model.P(uint64(1)))))
		case 0:
			shape = "dotted-and-nested"
			in = model.Dict().Set(k1+"."+k2, model.P(leaf)).Set(k1, model.Dict().Set(k2, model.P("other")))
		case 1:
			shape = "dotted-below-primitive"
			in = model.Dict().Set(k1+"."+k2, model.P(leaf)).Set(k1, model.P(uint64(5)))
		case 2:
			shape = "dotted-index-and-list"
			in = model.Dict().Set(k1+".0", model.P(leaf)).Set(k1, model.List(model.P("other")))
		default:
			shape = "dotted-and-nested-deeper"
			in = model.Dict().Set(k1+"."+k2+".z", model.P(leaf)).Set(k1, model.Dict().Set(k2, model.Dict().Set("z", model.P("other")).Set("y", model.P(1.5)))).Set("u", model.P("v"))
		}
		if r.Intn(2) == 0 {
			in.Set("pad", model.P("p"))
		}
		kind = "duplicate:" + strings.SplitN(shape, ":", 2)[0]
		res.SetAdd("duplicate_shape", shape)
		desc = fmt.Sprintf("NewFrom(%s)", in)
		dpols := [][]ucfg.Option{nil, {ucfg.ReplaceValues}, {ucfg.AppendValues}}
		dpol := dpols[r.Intn(len(dpols))]
		desc += fmt.Sprintf(" with %d policy option(s)", len(dpol))
		runs = map[string]runner{"NewFrom": func(pr *rand.Rand) string {
			c, err := ucfg.NewFrom(permGo(pr, in), append([]ucfg.Option{ucfg.PathSep(".")}, dpol...)...)
			if err != nil {
				return errClass(err)
			}
			s, err := rawTop(c)
			if err != nil {
				return "unpack-" + errClass(err)
			}
			return "accepted:" + s
		}}
	case "merge-chain":
		o := gen.TreeOpts{ListBias: true}
		chain := gen.Chain(r, o, 2+r.Intn(2), 3)
		pols := [][]ucfg.Option{nil, {ucfg.ReplaceValues}, {ucfg.ReplaceArrValues}, {ucfg.AppendValues}, {ucfg.PrependValues}}
		pol := pols[r.Intn(len(pols))]
		var ds []string
		mk := 0
		for _, t := range chain {
			ds = append(ds, t.String())
			if k := maxKeys(t); k > mk {
				mk = k
			}
		}
		needSchedules = mk >= 2
		desc = fmt.Sprintf("merge chain (policy #%d) %s", len(pol), strings.Join(ds, " ; "))
		runs = map[string]runner{"Merge+Unpack": func(pr *rand.Rand) string {
			c := ucfg.New()
			for _, t := range chain {
				if err := c.Merge(permGo(pr, t), pol...); err != nil {
					return errClass(err)
				}
			}
			s, err := rawTop(c)
			if err != nil {
				return "unpack-" + errClass(err)
			}
			return s
		}}
	case "merge-onto-references":
		// the destination holds references to objects and lists (top level,
		// nested, chained, in list elements); the source brings containers
		// and primitives for the settings holding the references AND for the
		// settings referenced, in one Merge call
		obj := r.Intn(3) != 0
		mkc := func(tag string) *model.Node {
			if obj {
				d := model.Dict().Set(tag, model.P(uint64(1+r.Intn(9))))
				if r.Intn(3) == 0 {
					d.Set("in", model.Dict().Set(tag, model.P("i")))
				}
				return d
			}
			return model.List(model.P(tag), model.P(uint64(r.Intn(9))))
		}
		a := model.Dict().Set("x", mkc("a")).Set("k", model.P("${x}"))
		refKeys := []string{"k"}
		if r.Intn(2) == 0 {
			a.Set("n", model.Dict().Set("k", model.P("${x}")).Set("o", model.P("v")))
			refKeys = append(refKeys, "n.k")
		}
		if r.Intn(2) == 0 {
			a.Set("y", model.P("${k}"))
			refKeys = append(refKeys, "y")
		}
		if r.Intn(3) == 0 {
			a.Set("l", model.List(model.P("${x}"), model.P(uint64(5))))
			refKeys = append(refKeys, "l.0")
		}
		if r.Intn(3) == 0 {
			a.Set("x2", mkc("e")).Set("k2", model.P("${x2}"))
			refKeys = append(refKeys, "k2")
		}
		b := model.Dict()
		put := func(path string, v *model.Node) {
			parts := strings.Split(path, ".")
			cur := b
			for i, p := range parts[:len(parts)-1] {
				nx, ok := cur.D[p]
				if !ok {
					if parts[i+1] == "0" {
						nx = model.List()
					} else {
						nx = model.Dict()
					}
					cur.Set(p, nx)
				}
				cur = nx
			}
			last := parts[len(parts)-1]
			if last == "0" {
				cur.A = append(cur.A, v)
				cur.HasA = true
			} else {
				cur.Set(last, v)
			}
		}
		n := 0
		for _, k := range refKeys {
			if r.Intn(3) != 0 {
				switch r.Intn(5) {
				case 0:
					put(k, model.P("prim"))
				case 1:
					put(k, model.Nil())
				default:
					put(k, mkc("b"+k[:1]))
				}
				n++
			}
		}
		if n == 0 {
			put("k", mkc("b"))
		}
		if r.Intn(4) != 0 {
			put("x", mkc("c"))
		}
		if _, ok := a.D["x2"]; ok && r.Intn(2) == 0 {
			put("x2", mkc("f"))
		}
		pols := [][]ucfg.Option{nil, nil, {ucfg.ReplaceValues}, {ucfg.ReplaceArrValues}, {ucfg.AppendValues}, {ucfg.PrependValues}}
		pi := r.Intn(len(pols))
		pol := append([]ucfg.Option{ucfg.PathSep("."), ucfg.VarExp}, pols[pi]...)
		desc = fmt.Sprintf("NewFrom(%s).Merge(%s) policy #%d, VarExp", a, b, pi)
		needSchedules = maxKeys(b) >= 2
		res.SetAdd("merge_onto_references", fmt.Sprintf("containers-are-objects=%v refs=%d source-keys=%d policy=%d", obj, len(refKeys), len(b.D), pi))
		runs = map[string]runner{"Merge+Unpack": func(pr *rand.Rand) string {
			c, err := ucfg.NewFrom(permGo(pr, a), ucfg.PathSep("."), ucfg.VarExp)
			if err != nil {
				return "newfrom-" + errClass(err)
			}
			if err := c.Merge(permGo(pr, b), pol...); err != nil {
				return errClass(err)
			}
			s, err := rawTop(c, ucfg.PathSep("."), ucfg.VarExp)
			if err != nil {
				return "unpack-" + errClass(err)
			}
			return s
		}}
	default:
		w := genWorld(r)
		desc = describeWorld(w)
		runs = worldRuns(res, w)
		needSchedules = len(w.Root) >= 2
	}
	if idx < 5 {
		res.Sample = map[string]string{"kind": kind, "input": desc}
	}
	execute(res, r, tier, verbose, part{kind: kind, desc: desc, runs: runs, needSchedules: needSchedules})

	// second part of the case (round 4): one of the wide call kinds of wide.go,
	// generated from a random stream of its own so that the first part is the
	// same logical call as before
	r2 := rand.New(rand.NewSource(harness.Mix(seed, "C09/wide", idx)))
	p2 := widePart(res, r2, idx)
	if idx < 5 {
		if m, ok := res.Sample.(map[string]string); ok {
			m["kind2"], m["input2"] = p2.kind, p2.desc
		}
	}
	execute(res, r2, tier, verbose, p2)

	// third part (round 6): the call kinds of deep.go, again from a stream of
	// their own
	r3 := rand.New(rand.NewSource(harness.Mix(seed, "C09/deep", idx)))
	p3 := deepPart(res, r3, idx)
	if idx < 5 {
		if m, ok := res.Sample.(map[string]string); ok {
			m["kind3"], m["input3"] = p3.kind, p3.desc
		}
	}
	execute(res, r3, tier, verbose, p3)
	return res.Done()
}

// part is one logical call of a case: the runners repeat it on rebuilt,
// permuted arguments and return the outcome class.
type part struct {
	kind          string
	desc          string
	runs          map[string]runner
	needSchedules bool
	// sig names the order-dependence from the observed outcome classes; nil or
	// "" = sigOf
	sig func(name string, classes map[string]int) string
}

// execute runs the permutation / repetition schedule of one part and judges
// the set of outcome classes.
func execute(res *harness.R, r *rand.Rand, tier string, verbose bool, p part) {
	kind, desc, runs, needSchedules := p.kind, p.desc, p.runs, p.needSchedules
	res.SetAdd("kind", kind)

	perms := 8
	reps := 12
	if tier == "thorough" {
		perms, reps = 12, 16
	}
	names := make([]string, 0, len(runs))
	for n := range runs {
		names = append(names, n)
	}
	sort.Strings(names)
	for _, name := range names {
		run := runs[name]
		classes := map[string]int{}
		schedules := map[string]struct{}{}
		var cur strings.Builder
		ucfg.VerifSetHook(func(k, site, s string, a, b int) {
			if k == "keyorder" {
				cur.WriteString(site[:1])
				cur.WriteString(s)
				cur.WriteByte(',')
			}
		})
		for pi := 0; pi < perms; pi++ {
			pseed := r.Int63()
			for rep := 0; rep < reps; rep++ {
				cur.Reset()
				var class string
				if pan, pv, where := harness.Safe(func() { class = run(rand.New(rand.NewSource(pseed))) }); pan {
					class = "panic:" + where + ":" + pv
				}
				classes[class]++
				schedules[cur.String()] = struct{}{}
				res.Eval(1)
			}
		}
		ucfg.VerifSetHook(nil)
		res.Ev("calls", int64(perms*reps))
		res.Ev("distinct_schedules_observed", int64(len(schedules)))
		if len(schedules) >= 2 {
			res.Key(kind + "|" + name + "|" + desc)
			res.Ev("cases_with_two_or_more_schedules_observed", 1)
		} else if needSchedules {
			// no credit in the evidence counters above, but the run is not made to
			// fail by a hook that is not reached: insertion orders were permuted
			// all the same (the monitor only cannot SHOW which orders were taken)
			res.Key(kind + "|" + name + "|" + desc)
			res.Inconc("%s of %s: only %d enumeration schedule observed at the keyorder hook in %d calls", name, kind, len(schedules), perms*reps)
		}
		if len(classes) > 1 {
			var cl []string
			for c, n := range classes {
				if len(c) > 160 {
					c = c[:160] + "..."
				}
				cl = append(cl, fmt.Sprintf("%dx %s", n, c))
			}
			sort.Strings(cl)
			sig := ""
			if p.sig != nil {
				sig = p.sig(name, classes)
			}
			if sig == "" {
				sig = sigOf(kind, name, classes)
			}
			res.Violate(sig, "%s on identical arguments gave %d different outcomes over %d calls (%d enumeration schedules): %s; input: %s", name, len(classes), perms*reps, len(schedules), strings.Join(cl, " | "), desc)
		}
		if verbose {
			fmt.Printf("%s %s: classes=%v schedules=%d\n  %s\n", kind, name, classes, len(schedules), desc)
		}
	}
}

// rawTop observes a config like obs.Top but renders the data RAW: a key holding
// nil is not the same as an absent key, nil, {} and [] differ, numbers carry
// their Go type. Whatever the right outcome is (other properties decide that),
// repeating the identical call must give the identical outcome, so nothing needs
// to be equated here. FlattenedKeys, the top-level names and the container kinds
// are part of the outcome.
func rawTop(c *ucfg.Config, opts ...ucfg.Option) (string, error) {
	var m map[string]interface{}
	var a []interface{}
	if err := c.Unpack(&m, opts...); err != nil {
		return "", fmt.Errorf("unpack into map: %w", err)
	}
	if err := c.Unpack(&a, opts...); err != nil {
		return "", fmt.Errorf("unpack into slice: %w", err)
	}
	var b strings.Builder
	rawRender(&b, m)
	b.WriteByte('|')
	rawRender(&b, a)
	keys := c.FlattenedKeys(opts...)
	sort.Strings(keys)
	fields := c.GetFields()
	sort.Strings(fields)
	fmt.Fprintf(&b, "|keys=%q|fields=%q|dict=%v|arr=%v", keys, fields, c.IsDict(), c.IsArray())
	// the container kinds of every namespace below the top, as the handles the
	// library hands out for them report them (round 4)
	b.WriteString("|shape=")
	shapeWalk(&b, c, "", 0, opts)
	return b.String(), nil
}

// shapeWalk renders IsDict/IsArray and the number of settings of every
// sub-configuration reachable through Child (names literally, then list
// positions), at most 6 levels deep (references to enclosing objects).
func shapeWalk(b *strings.Builder, c *ucfg.Config, path string, depth int, opts []ucfg.Option) {
	if depth >= 6 {
		return
	}
	ropts := opts // stored names never contain the separator: dotted keys are expanded at creation
	names := c.GetFields()
	sort.Strings(names)
	total, _ := c.CountField("")
	for _, n := range names {
		ch, err := c.Child(n, -1, ropts...)
		if err != nil || ch == nil {
			continue
		}
		p := path + "/" + n
		nn, _ := ch.CountField("")
		fmt.Fprintf(b, "%s:d=%v,a=%v,n=%d;", p, ch.IsDict(), ch.IsArray(), nn)
		shapeWalk(b, ch, p, depth+1, opts)
	}
	for i := 0; i < total-len(names) && i < 8; i++ {
		ch, err := c.Child("", i, ropts...)
		if err != nil || ch == nil {
			continue
		}
		p := fmt.Sprintf("%s/#%d", path, i)
		nn, _ := ch.CountField("")
		fmt.Fprintf(b, "%s:d=%v,a=%v,n=%d;", p, ch.IsDict(), ch.IsArray(), nn)
		shapeWalk(b, ch, p, depth+1, opts)
	}
}

func rawRender(b *strings.Builder, v interface{}) {
	switch x := v.(type) {
	case nil:
		b.WriteString("nil")
	case map[string]interface{}:
		if x == nil {
			b.WriteString("nilmap")
			return
		}
		ks := make([]string, 0, len(x))
		for k := range x {
			ks = append(ks, k)
		}
		sort.Strings(ks)
		b.WriteByte('{')
		for _, k := range ks {
			fmt.Fprintf(b, "%q:", k)
			rawRender(b, x[k])
			b.WriteByte(',')
		}
		b.WriteByte('}')
	case []interface{}:
		if x == nil {
			b.WriteString("nilslice")
			return
		}
		b.WriteByte('[')
		for _, e := range x {
			rawRender(b, e)
			b.WriteByte(',')
		}
		b.WriteByte(']')
	default:
		fmt.Fprintf(b, "%T(%v)", v, v)
	}
}

// sigOf names the order-dependence by call kind and by the kinds of outcomes.
func sigOf(kind, name string, classes map[string]int) string {
	set := map[string]bool{}
	for c := range classes {
		// what a caller's target holds after the call is no part of the name
		c = strings.SplitN(c, "|target=", 2)[0]
		switch {
		case strings.HasPrefix(c, "err:"), strings.HasPrefix(c, "unpack-err:"):
			set[strings.ReplaceAll(strings.TrimPrefix(c, "unpack-"), " ", "-")] = true
		case strings.HasPrefix(c, "panic:"):
			set["panic"] = true
		default:
			set["value"] = true
		}
	}
	var l []string
	for c := range set {
		l = append(l, c)
	}
	sort.Strings(l)
	if len(l) == 1 && l[0] == "value" {
		l = []string{"different-values"}
	}
	k := kind
	if strings.HasPrefix(kind, "world") {
		k = "world:" + name
	}
	return "order-dependent:" + k + ":" + strings.Join(l, "+")
}

// --- worlds with references ---

var wNames = []string{"a", "b", "c", "d", "o.x", "o.y"}
var wRefs = []string{"a", "b", "c", "d", "o.x", "o.y", "o", "zz"}

func genWorld(r *rand.Rand) *model.World {
	w := &model.World{Root: map[string]*model.Setting{}}
	g := model.ExGen{Names: wRefs, Lits: []string{"va", "vb", "w"}, NameExprs: true}
	n := 2 + r.Intn(5)
	for j := 0; j < n; j++ {
		k := wNames[r.Intn(len(wNames))]
		var e *model.Ex
		switch r.Intn(6) {
		case 0:
			x := wRefs[r.Intn(len(wRefs)-2)]
			e = &model.Ex{Kind: model.XCat, Kids: []*model.Ex{model.Ref(x), model.Lit("-"), model.Ref(x)}}
		case 1:
			e = model.Ref(wRefs[r.Intn(len(wRefs))])
		case 2:
			e = model.Lit("plain")
		default:
			e = g.Gen(r, 1+r.Intn(2))
		}
		w.Root[k] = &model.Setting{Ex: e}
	}
	if r.Intn(2) == 0 {
		res := map[string]string{}
		for _, nm := range wRefs {
			if r.Intn(3) == 0 {
				res[nm] = "res:" + nm
			}
		}
		w.Ress = append(w.Ress, res)
	}
	if r.Intn(3) == 0 {
		// seed the world with a small cycle that an operator or a resolver
		// absorbs, read from inside and from outside the cycle: the shapes in
		// which a value is only valid in the context it was computed in
		p := r.Perm(4)
		n := func(i int) string { return []string{"a", "b", "c", "d"}[p[i]] }
		ref := func(i int) *model.Ex { return model.Ref(n(i)) }
		cat := func(k ...*model.Ex) *model.Ex { return (&model.Ex{Kind: model.XCat, Kids: k}).Normalize() }
		alt := func(i int, rhs *model.Ex) *model.Ex {
			return &model.Ex{Kind: model.XAlt, Name: model.Lit(n(i)), Rhs: rhs}
		}
		def := func(i int, rhs *model.Ex) *model.Ex {
			return &model.Ex{Kind: model.XDef, Name: model.Lit(n(i)), Rhs: rhs}
		}
		switch r.Intn(4) {
		case 0:
			w.Root[n(0)] = &model.Setting{Ex: alt(0, model.Lit("vb"))}
			w.Root[n(1)] = &model.Setting{Ex: ref(0)}
		case 1:
			w.Root[n(0)] = &model.Setting{Ex: ref(1)}
			w.Root[n(1)] = &model.Setting{Ex: cat(ref(0), model.Lit("-"), ref(0))}
			if len(w.Ress) == 0 {
				w.Ress = append(w.Ress, map[string]string{})
			}
			w.Ress[0][n(0)] = "res:" + n(0)
		case 2:
			w.Root[n(0)] = &model.Setting{Ex: def(1, ref(2))}
			w.Root[n(1)] = &model.Setting{Ex: alt(1, model.Lit("vb"))}
		default:
			w.Root[n(0)] = &model.Setting{Ex: cat(model.Lit("w"), ref(1))}
			w.Root[n(1)] = &model.Setting{Ex: def(0, model.Lit("dflt"))}
			w.Root[n(2)] = &model.Setting{Ex: cat(ref(1), ref(0))}
		}
	}
	return w
}

func describeWorld(w *model.World) string {
	var ks []string
	for k := range w.Root {
		ks = append(ks, k)
	}
	sort.Strings(ks)
	var parts []string
	for _, k := range ks {
		parts = append(parts, fmt.Sprintf("%s=%q", k, w.Root[k].Ex.Render(false)))
	}
	return fmt.Sprintf("{%s} resolvers=%v", strings.Join(parts, ", "), w.Ress)
}

// buildPerm builds the world's config inserting map keys in permuted order.
func buildPerm(w *model.World, pr *rand.Rand) (*vx.Built, error) {
	b, err := vx.Build(&model.World{Root: map[string]*model.Setting{}, Ress: w.Ress}, nil)
	if err != nil {
		return nil, err
	}
	// tree of rendered strings
	t := model.Dict()
	for k, s := range w.Root {
		if strings.Contains(k, ".") {
			parts := strings.SplitN(k, ".", 2)
			sub, ok := t.D[parts[0]]
			if !ok {
				sub = model.Dict()
				t.D[parts[0]] = sub
			}
			sub.D[parts[1]] = model.P(s.Ex.Render(false))
		} else {
			t.D[k] = model.P(s.Ex.Render(false))
		}
	}
	c, err := ucfg.NewFrom(permGo(pr, t), vx.BaseOpts...)
	if err != nil {
		return nil, err
	}
	b.C = c
	return b, nil
}

func worldRuns(res *harness.R, w *model.World) map[string]runner {
	// how many settings fail on their own, by the model
	failing := 0
	var okTop []string
	for k := range w.Root {
		ev := model.NewEvaluator(w)
		ev.T.Enter[k] = 1
		mr := ev.EvalSetting(k, nil, true)
		if mr.IsErr {
			failing++
		} else if !strings.Contains(k, ".") && !mr.Container {
			okTop = append(okTop, k)
		}
	}
	sort.Strings(okTop)
	runs := map[string]runner{}
	keys := make([]string, 0, len(w.Root))
	for k := range w.Root {
		keys = append(keys, k)
	}
	sort.Strings(keys)
	runs["per-setting String"] = func(pr *rand.Rand) string {
		b, err := buildPerm(w, pr)
		if err != nil {
			return "build-" + errClass(err)
		}
		var out []string
		for _, k := range keys {
			s, err := b.C.String(k, -1, b.Opts...)
			if err != nil {
				out = append(out, k+"="+errClass(err))
			} else {
				out = append(out, k+"="+s)
			}
		}
		return strings.Join(out, ";")
	}
	runs["FlattenedKeys"] = func(pr *rand.Rand) string {
		b, err := buildPerm(w, pr)
		if err != nil {
			return "build-" + errClass(err)
		}
		return strings.Join(b.C.FlattenedKeys(b.Opts...), ",")
	}
	if failing <= 1 {
		runs["Unpack(map)"] = func(pr *rand.Rand) string {
			b, err := buildPerm(w, pr)
			if err != nil {
				return "build-" + errClass(err)
			}
			var m map[string]interface{}
			if err := b.C.Unpack(&m, b.Opts...); err != nil {
				return errClass(err)
			}
			return model.CanonIfc(m)
		}
		if len(okTop) >= 2 {
			var fields []reflect.StructField
			for _, k := range okTop {
				fields = append(fields, reflect.StructField{Name: "F" + strings.ToUpper(k), Type: reflect.TypeOf(""), Tag: reflect.StructTag(fmt.Sprintf(`config:"%s"`, k))})
			}
			st := reflect.StructOf(fields)
			runs["Unpack(struct of strings)"] = func(pr *rand.Rand) string {
				b, err := buildPerm(w, pr)
				if err != nil {
					return "build-" + errClass(err)
				}
				p := reflect.New(st)
				if err := b.C.Unpack(p.Interface(), b.Opts...); err != nil {
					return errClass(err)
				}
				return fmt.Sprintf("%q", p.Elem().Interface())
			}
		}
	} else {
		res.Ev("whole_config_reads_skipped_multiple_failing_settings", 1)
	}
	return runs
}
