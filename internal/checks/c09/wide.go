package c09

// Round 4: four more call kinds, run as the second part of every case.
//
//   through-reference      NewFrom (PathSep, VarExp) of one input map in which a
//                          dotted key leads THROUGH (or, as control, beside) a
//                          setting that holds a reference / splice
//   spellings-then-remove  NewFrom of two or three spellings of one namespace
//                          (empty and non-empty containers, nulls), observed,
//                          then one spelling removed again and observed again
//   copy-with-env          a configuration with references is copied into a
//                          second one (Merge of the *Config, at the root or
//                          below a name), the copy is changed (other values for
//                          referenced settings, references removed, settings
//                          added that name removed ones) and unpacked with the
//                          original as Env
//   merge-field-options    (round 5) one Merge under 1-3 per-field options
//                          (Field{Merge,Replace,Append,Prepend}Values; direct
//                          paths, list positions, '*', '**' anywhere, several
//                          names per option) next to any global policy, onto
//                          operands in which the configured names occur at
//                          several depths and below several sibling keys
//   failed-unpack-target   Unpack of a configuration with exactly ONE failing
//                          setting into map targets the caller owns (typed maps,
//                          nil and pre-filled, nested, inline map of a struct,
//                          worlds of references): error class AND what the
//                          target holds afterwards

import (
	"fmt"
	"math/rand"
	"sort"
	"strconv"
	"strings"

	ucfg "github.com/elastic/go-ucfg"
	"github.com/elastic/go-ucfg/parse"

	"verif/internal/gen"
	"verif/internal/harness"
	"verif/internal/model"
)

var wideKinds = []string{"through-reference", "spellings-then-remove", "copy-with-env", "failed-unpack-target", "merge-field-options"}

func widePart(res *harness.R, r *rand.Rand, idx int) part {
	switch wideKinds[idx%len(wideKinds)] {
	case "through-reference":
		return genThroughReference(res, r)
	case "spellings-then-remove":
		return genSpellingsThenRemove(res, r)
	case "copy-with-env":
		return genCopyWithEnv(res, r)
	case "merge-field-options":
		return genMergeFieldOptions(res, r)
	default:
		return genFailedUnpackTarget(res, r)
	}
}

// --- through-reference ---

func genThroughReference(res *harness.R, r *rand.Rand) part {
	k1 := gen.Keys[r.Intn(3)]
	k2 := []string{"b", "z", "k"}[r.Intn(3)]
	in := model.Dict()
	refName := "x"
	named := []string{"undefined", "object", "object-holding-empty-object", "list", "primitive", "itself"}
	tk := r.Intn(len(named))
	switch tk {
	case 1:
		in.Set("x", model.Dict().Set(k2, model.P(uint64(1))))
	case 2:
		in.Set("x", model.Dict().Set(k2, model.Dict()))
	case 3:
		in.Set("x", model.List(model.P(uint64(1))))
	case 4:
		in.Set("x", model.P("prim"))
	case 5:
		refName = k1
	}
	forms := []string{"${%s}", "${%s}", "${%s:dflt}", "p-${%s}"}
	fi := r.Intn(len(forms))
	text := fmt.Sprintf(forms[fi], refName)
	// where the reference is held
	holders := []string{"top-level", "in-object", "in-list"}
	hk := r.Intn(len(holders))
	var holderPath string
	switch hk {
	case 0:
		in.Set(k1, model.P(text))
		holderPath = k1
	case 1:
		in.Set(k1, model.Dict().Set("r", model.P(text)).Set("s", model.P("v")))
		holderPath = k1 + ".r"
	default:
		in.Set(k1, model.List(model.P(text), model.P(uint64(2))))
		holderPath = k1 + ".0"
	}
	// the dotted key: below the holder, or (control) beside it
	beside := hk != 0 && r.Intn(4) == 0
	segs := []string{k2, "c", "0", "1"}
	path := holderPath
	if beside {
		path = k1 + "." + []string{"t", "2"}[hk-1]
	}
	n := 1 + r.Intn(2)
	for i := 0; i < n; i++ {
		path += "." + segs[r.Intn(len(segs))]
	}
	var dv *model.Node
	switch r.Intn(4) {
	case 0:
		dv = model.Nil()
	case 1:
		dv = model.Dict().Set("q", model.P(uint64(3)))
	default:
		dv = model.P([]interface{}{"leaf", uint64(5), true}[r.Intn(3)])
	}
	in.Set(path, dv)
	if r.Intn(2) == 0 {
		in.Set("pad", model.P("p"))
	}
	withResolver := r.Intn(3) == 0
	shape := fmt.Sprintf("names-%s:form-%d:holder-%s:beside=%v:resolver=%v", named[tk], fi, holders[hk], beside, withResolver)
	res.SetAdd("through_reference_shape", shape)
	res.Ev("through_reference_cases", 1)
	if beside {
		res.Ev("through_reference_controls_beside_the_reference", 1)
	}
	desc := fmt.Sprintf("NewFrom(%s) PathSep, VarExp, resolver=%v", in, withResolver)
	run := func(pr *rand.Rand) string {
		opts := []ucfg.Option{ucfg.PathSep("."), ucfg.VarExp}
		calls := 0
		if withResolver {
			opts = append(opts, ucfg.Resolve(func(name string) (string, parse.Config, error) {
				calls++
				if name == "x" {
					return "from-resolver", parse.NoopConfig, nil
				}
				return "", parse.NoopConfig, ucfg.ErrMissing
			}))
		}
		c, err := ucfg.NewFrom(permGo(pr, in), opts...)
		if withResolver {
			// monitor only: whether a resolver is asked while a config is created is
			// no part of the outcome the property names
			res.SetAdd("through_reference_resolver_calls_during_creation", strconv.Itoa(calls))
		}
		if err != nil {
			return errClass(err)
		}
		s, err := rawTop(c, opts...)
		if err != nil {
			return "accepted:unpack-" + errClass(err)
		}
		return "accepted:" + s
	}
	p := part{kind: "through-reference", desc: desc, runs: map[string]runner{"NewFrom": run}, needSchedules: true}
	if !beside {
		p.sig = func(name string, classes map[string]int) string {
			var l []string
			for c := range classes {
				if strings.HasPrefix(c, "panic:") {
					return ""
				}
				if strings.HasPrefix(c, "accepted:") {
					c = "accepted"
				}
				l = append(l, c)
			}
			sort.Strings(l)
			res.SetAdd("through_reference_outcome_sets", strings.Join(l, " + "))
			return "order-dependent:creation:dotted-key-through-reference"
		}
	}
	return p
}

// --- spellings-then-remove ---

func genSpellingsThenRemove(res *harness.R, r *rand.Rand) part {
	k1 := gen.Keys[r.Intn(3)]
	k2 := gen.Keys[r.Intn(3)]
	shortNames := []string{"empty-list", "empty-object", "list-of-null", "object-of-null", "list", "object", "null"}
	sk := r.Intn(len(shortNames))
	if r.Intn(3) == 0 {
		sk = r.Intn(2) // the empty containers more often
	}
	var short *model.Node
	switch sk {
	case 0:
		short = model.List()
	case 1:
		short = model.Dict()
	case 2:
		short = model.List(model.Nil())
	case 3:
		short = model.Dict().Set("z", model.Nil())
	case 4:
		short = model.List(model.P("other"))
	case 5:
		short = model.Dict().Set(k2+"2", model.P("other"))
	default:
		short = model.Nil()
	}
	segs := []string{k2, "z", "0", "1"}
	mkPath := func() string {
		p := k1
		n := 1 + r.Intn(2)
		for i := 0; i < n; i++ {
			p += "." + segs[r.Intn(len(segs))]
		}
		return p
	}
	mkVal := func() (*model.Node, string) {
		switch r.Intn(6) {
		case 0:
			return model.Nil(), "null"
		case 1:
			return model.List(), "empty-list"
		case 2:
			return model.Dict(), "empty-object"
		default:
			return model.P([]interface{}{"x", uint64(1), true}[r.Intn(3)]), "primitive"
		}
	}
	in := model.Dict()
	path := mkPath()
	dv, dvName := mkVal()
	in.Set(path, dv)
	if r.Intn(3) == 0 {
		// a third spelling
		if p2 := mkPath(); p2 != path && !strings.HasPrefix(p2, path+".") && !strings.HasPrefix(path, p2+".") {
			v2, _ := mkVal()
			in.Set(p2, v2)
		}
	}
	in.Set(k1, short)
	prefix := ""
	if r.Intn(3) == 0 {
		// the same one level down: {"t": {k1: short}, "t.<path>": v}
		prefix = "t."
		wrapped := model.Dict().Set("t", model.Dict().Set(k1, short))
		for _, k := range in.SortedKeys() {
			if k != k1 {
				wrapped.Set(prefix+k, in.D[k])
			}
		}
		in = wrapped
	}
	if r.Intn(2) == 0 {
		in.Set("pad", model.P("p"))
	}
	dpols := [][]ucfg.Option{nil, nil, {ucfg.ReplaceValues}, {ucfg.AppendValues}}
	pi := r.Intn(len(dpols))
	class := "other"
	switch {
	case sk == 0 || dvName == "empty-list":
		class = "empty-list"
	case sk == 1 || dvName == "empty-object":
		class = "empty-object"
	}
	res.SetAdd("spellings_then_remove_shape", fmt.Sprintf("short-%s:dotted-%s:wrapped=%v:keys=%d:policy=%d", shortNames[sk], dvName, prefix != "", len(in.D), pi))
	res.Ev("spellings_then_remove_cases", 1)
	res.Ev("spellings_then_remove_cases_with_an_"+class, 1)
	rm := prefix + path
	desc := fmt.Sprintf("NewFrom(%s) policy #%d, observe, Remove(%q), observe", in, pi, rm)
	run := func(pr *rand.Rand) string {
		c, err := ucfg.NewFrom(permGo(pr, in), append([]ucfg.Option{ucfg.PathSep(".")}, dpols[pi]...)...)
		if err != nil {
			return errClass(err)
		}
		s1, err := rawTop(c)
		if err != nil {
			return "unpack-" + errClass(err)
		}
		removed, err := c.Remove(rm, -1, ucfg.PathSep("."))
		if err != nil {
			return "accepted:" + s1 + " || remove-" + errClass(err)
		}
		s2, err := rawTop(c)
		if err != nil {
			return "accepted:" + s1 + " || after-remove-unpack-" + errClass(err)
		}
		return fmt.Sprintf("accepted:%s || removed=%v: %s", s1, removed, s2)
	}
	return part{kind: "spellings-then-remove:" + class, desc: desc, runs: map[string]runner{"NewFrom+Remove": run}, needSchedules: true}
}

// --- copy-with-env ---

func genCopyWithEnv(res *harness.R, r *rand.Rand) part {
	// the original: primitives, and references / splices naming primitives and
	// earlier references (no cycles, everything resolves)
	primNames := []string{"v", "w", "u"}[:1+r.Intn(3)]
	refNames := []string{"a", "b", "c", "d", "zz"}
	r.Shuffle(len(refNames), func(i, j int) { refNames[i], refNames[j] = refNames[j], refNames[i] })
	refNames = refNames[:2+r.Intn(3)]
	orig := model.Dict()
	for i, p := range primNames {
		orig.Set(p, model.P(uint64(1+i)))
	}
	known := append([]string{}, primNames...)
	if r.Intn(3) == 0 {
		orig.Set("o", model.Dict().Set("x", model.P("${"+primNames[0]+"}")).Set("y", model.P("oy")))
		known = append(known, "o.x", "o.y")
	}
	for _, n := range refNames {
		t := known[r.Intn(len(known))]
		switch r.Intn(4) {
		case 0:
			orig.Set(n, model.P("${"+t+"}-s"))
		case 1:
			orig.Set(n, model.P("${"+t+":dflt}"))
		default:
			orig.Set(n, model.P("${"+t+"}"))
		}
		known = append(known, n)
	}
	// the copy sits below the name "sub" instead of at the root in half of the
	// cases: a nested object is read in the enumeration order of its own
	// dictionary whatever the target type is
	below := r.Intn(2) == 0
	// changes of the copy
	delta := model.Dict()
	overridden := 0
	for i, p := range primNames {
		if r.Intn(2) == 0 {
			delta.Set(p, model.P(uint64(11+i)))
			overridden++
		}
	}
	if overridden == 0 {
		delta.Set(primNames[0], model.P(uint64(11)))
		overridden = 1
	}
	var removed []string
	for _, n := range refNames {
		if r.Intn(3) == 0 {
			removed = append(removed, n)
		}
	}
	if len(removed) == 0 {
		removed = append(removed, refNames[len(refNames)-1])
	}
	adds := 1 + r.Intn(2)
	for i := 0; i < adds; i++ {
		t := removed[r.Intn(len(removed))]
		if r.Intn(4) == 0 {
			t = known[r.Intn(len(known))]
		}
		txt := "${" + t + "}"
		if r.Intn(4) == 0 {
			txt = "n-${" + t + "}"
		}
		if below && r.Intn(2) == 0 {
			// added next to the copied settings (names are looked up from the root)
			if delta.D["sub"] == nil {
				delta.Set("sub", model.Dict())
			}
			delta.D["sub"].Set(fmt.Sprintf("n%d", i), model.P(txt))
		} else {
			delta.Set(fmt.Sprintf("n%d", i), model.P(txt))
		}
	}
	res.Ev("copy_with_env_cases", 1)
	res.SetAdd("copy_with_env_shape", fmt.Sprintf("prims=%d refs=%d nested=%v below-name=%v overridden=%d removed=%d added=%d", len(primNames), len(refNames), orig.D["o"] != nil, below, overridden, len(removed), adds))
	desc := fmt.Sprintf("orig=NewFrom(%s); copy=New().Merge(orig%s); copy.Remove(%v); copy.Merge(%s); copy.Unpack(Env(orig), PathSep, VarExp)", orig, map[bool]string{false: "", true: " below \"sub\""}[below], removed, delta)
	run := func(pr *rand.Rand) string {
		opts := []ucfg.Option{ucfg.PathSep("."), ucfg.VarExp}
		o, err := ucfg.NewFrom(permGo(pr, orig), opts...)
		if err != nil {
			return "orig-" + errClass(err)
		}
		c := ucfg.New()
		if below {
			err = c.Merge(map[string]interface{}{"sub": o}, opts...)
		} else {
			err = c.Merge(o, opts...)
		}
		if err != nil {
			return "copy-" + errClass(err)
		}
		for _, n := range removed {
			name := n
			if below {
				name = "sub." + n
			}
			if _, err := c.Remove(name, -1, ucfg.PathSep(".")); err != nil {
				return "remove-" + errClass(err)
			}
		}
		if err := c.Merge(permGo(pr, delta), opts...); err != nil {
			return "delta-" + errClass(err)
		}
		var m map[string]interface{}
		if err := c.Unpack(&m, append([]ucfg.Option{ucfg.Env(o)}, opts...)...); err != nil {
			return errClass(err)
		}
		var b strings.Builder
		rawRender(&b, m)
		// the original read afterwards, on its own
		var mo map[string]interface{}
		if err := o.Unpack(&mo, opts...); err != nil {
			return b.String() + " || orig-" + errClass(err)
		}
		b.WriteString(" || orig=")
		rawRender(&b, mo)
		return b.String()
	}
	return part{kind: "copy-with-env", desc: desc, runs: map[string]runner{"Unpack(copy, Env(original))": run}, needSchedules: true}
}

// --- failed-unpack-target ---

type inlineRest struct {
	Rest map[string]uint `config:",inline"`
}

func genFailedUnpackTarget(res *harness.R, r *rand.Rand) part {
	variants := []string{"map-of-uint", "map-of-int64", "nil-map-of-interface-with-references", "inline-map-of-struct", "map-of-maps", "prefilled-map-of-uint", "world-of-references"}
	vi := r.Intn(len(variants))
	pool := []string{"a", "b", "c", "d", "e", "f", "g"}
	r.Shuffle(len(pool), func(i, j int) { pool[i], pool[j] = pool[j], pool[i] })
	keys := pool[:3+r.Intn(4)]
	bad := keys[r.Intn(len(keys))]
	in := model.Dict()
	var w *model.World
	switch vi {
	case 0, 3, 5:
		for _, k := range keys {
			in.Set(k, model.P(uint64(1+r.Intn(9))))
		}
		in.Set(bad, model.P(int64(-1-r.Intn(9))))
	case 1:
		for _, k := range keys {
			in.Set(k, model.P(int64(r.Intn(19)-9)))
		}
		in.Set(bad, model.P("xyz"))
	case 2:
		for i, k := range keys {
			switch {
			case i > 0 && r.Intn(3) == 0 && keys[i-1] != bad:
				in.Set(k, model.P("${"+keys[i-1]+"}"))
			case r.Intn(4) == 0:
				in.Set(k, model.Dict().Set("p", model.P(uint64(i))).Set("q", model.P("s")))
			default:
				in.Set(k, model.P([]interface{}{"s", uint64(4), true}[r.Intn(3)]))
			}
		}
		if r.Intn(3) == 0 {
			in.Set(bad, model.Dict().Set("p", model.P("${nowhere}")).Set("q", model.P("s")))
		} else {
			in.Set(bad, model.P("${nowhere}"))
		}
	case 4:
		inner := []string{"p", "q", "r"}
		for _, k := range keys {
			d := model.Dict()
			for _, ik := range inner[:2+r.Intn(2)] {
				d.Set(ik, model.P(uint64(1+r.Intn(9))))
			}
			in.Set(k, d)
		}
		in.D[bad].Set(inner[r.Intn(2)], model.P(int64(-3)))
	default:
		// a world of settings referencing each other in which exactly one
		// setting fails on its own (by the model)
		for try := 0; try < 12 && w == nil; try++ {
			cand := genWorld(r)
			failing := 0
			for k := range cand.Root {
				ev := model.NewEvaluator(cand)
				ev.T.Enter[k] = 1
				if ev.EvalSetting(k, nil, true).IsErr {
					failing++
				}
			}
			if failing == 1 && len(cand.Root) >= 3 {
				w = cand
			}
		}
		if w == nil {
			vi = 0
			for _, k := range keys {
				in.Set(k, model.P(uint64(1+r.Intn(9))))
			}
			in.Set(bad, model.P(int64(-2)))
		}
	}
	res.Ev("failed_unpack_target_cases", 1)
	res.SetAdd("failed_unpack_target_variant", variants[vi])
	prefill := map[string]uint{}
	if vi == 5 {
		prefill["zz"] = 99
		for _, k := range keys {
			if k != bad && r.Intn(3) == 0 {
				prefill[k] = 50
			}
		}
	}
	var desc string
	if w != nil {
		desc = "Unpack(nil map[string]interface{}) of " + describeWorld(w)
	} else {
		desc = fmt.Sprintf("NewFrom(%s).Unpack(%s, prefilled %v)", in, variants[vi], prefill)
	}
	run := func(pr *rand.Rand) string {
		var c *ucfg.Config
		opts := []ucfg.Option{ucfg.PathSep(".")}
		if w != nil {
			b, err := buildPerm(w, pr)
			if err != nil {
				return "build-" + errClass(err)
			}
			c, opts = b.C, b.Opts
		} else {
			if vi == 2 {
				opts = append(opts, ucfg.VarExp)
			}
			var err error
			if c, err = ucfg.NewFrom(permGo(pr, in), opts...); err != nil {
				return "newfrom-" + errClass(err)
			}
		}
		var err error
		var target string
		switch vi {
		case 0, 5:
			m := map[string]uint{}
			for k, v := range prefill {
				m[k] = v
			}
			err = c.Unpack(&m, opts...)
			target = fmt.Sprintf("%v", m)
		case 1:
			m := map[string]int64{}
			err = c.Unpack(&m, opts...)
			target = fmt.Sprintf("%v", m)
		case 3:
			s := inlineRest{Rest: map[string]uint{}}
			err = c.Unpack(&s, opts...)
			target = fmt.Sprintf("%v", s.Rest)
		case 4:
			m := map[string]map[string]uint{}
			err = c.Unpack(&m, opts...)
			target = fmt.Sprintf("%v", m)
		default:
			var m map[string]interface{}
			err = c.Unpack(&m, opts...)
			var b strings.Builder
			rawRender(&b, m)
			target = b.String()
		}
		if err == nil {
			res.Ev("failed_unpack_target_calls_that_succeeded", 1)
		}
		return errClass(err) + "|target=" + target
	}
	p := part{kind: "failed-unpack-target", desc: desc, runs: map[string]runner{"Unpack": run}, needSchedules: true}
	p.sig = func(name string, classes map[string]int) string {
		errs := map[string]bool{}
		for c := range classes {
			errs[strings.SplitN(c, "|target=", 2)[0]] = true
		}
		if len(errs) == 1 && !errs["ok"] {
			// always the same failure; what differs is what the caller's target holds
			return "order-dependent:target-content-after-failed-unpack"
		}
		return ""
	}
	return p
}

// --- merge-field-options (round 5) ---

var foPool = []string{"l", "x", "y", "m"}

// foTree: the same few names at every depth; "l" holds lists, "x"/"y" objects,
// "m" a primitive or an object; list elements carry the operand's tag so that
// the order of a combined list shows which policy was applied.
func foTree(r *rand.Rand, tag string, depth int) *model.Node {
	d := model.Dict()
	list := func() *model.Node {
		l := model.List()
		n := 1 + r.Intn(2)
		for i := 0; i < n; i++ {
			if depth < 2 && r.Intn(5) == 0 {
				l.A = append(l.A, model.Dict().Set("l", model.List(model.P(tag+"e"))).Set("m", model.P(tag)))
			} else {
				l.A = append(l.A, model.P(fmt.Sprintf("%s%d", tag, i)))
			}
		}
		return l
	}
	for _, k := range foPool {
		if r.Intn(4) == 0 {
			continue
		}
		switch {
		case k == "l":
			d.Set(k, list())
		case k == "m" && (depth >= 2 || r.Intn(2) == 0):
			d.Set(k, model.P(tag+"m"))
		case k == "m":
			d.Set(k, model.Dict().Set("l", list()).Set("m", model.P(tag)))
		case depth >= 2:
			d.Set(k, model.Dict().Set("l", list()))
		default:
			d.Set(k, foTree(r, tag, depth+1))
		}
	}
	if len(d.D) == 0 {
		d.Set("l", list())
	}
	return d
}

type foOpt struct {
	policy int // 0 merge, 1 replace, 2 append, 3 prepend
	names  []string
}

func (o foOpt) String() string {
	return fmt.Sprintf("%s(%q)", []string{"FieldMergeValues", "FieldReplaceValues", "FieldAppendValues", "FieldPrependValues"}[o.policy], o.names)
}

func (o foOpt) option() ucfg.Option {
	switch o.policy {
	case 0:
		return ucfg.FieldMergeValues(o.names...)
	case 1:
		return ucfg.FieldReplaceValues(o.names...)
	case 2:
		return ucfg.FieldAppendValues(o.names...)
	}
	return ucfg.FieldPrependValues(o.names...)
}

func genMergeFieldOptions(res *harness.R, r *rand.Rand) part {
	a, b := foTree(r, "a", 0), foTree(r, "b", 0)
	direct := func(n int) string {
		var parts []string
		for i := 0; i < n; i++ {
			parts = append(parts, foPool[r.Intn(len(foPool))])
		}
		return strings.Join(parts, ".")
	}
	// a field name in one of the spellings the options take; tail = its last name
	mkName := func(tail string) (string, bool) {
		switch r.Intn(8) {
		case 0:
			return "**." + tail, true
		case 1:
			return "*." + tail, true
		case 2:
			return direct(1) + ".**." + tail, true
		case 3:
			return "**." + direct(1) + "." + tail, true
		case 4:
			return direct(1+r.Intn(2)) + "." + tail, false
		case 5:
			if tail == "l" {
				return "l.0", false
			}
			return tail, false
		default:
			return tail, false
		}
	}
	nOpts := 1 + r.Intn(3)
	var fos []foOpt
	wild, plain := false, false
	tail := []string{"l", "l", "m", "x"}[r.Intn(4)]
	for i := 0; i < nOpts; i++ {
		if i > 0 && r.Intn(2) == 0 {
			// otherwise the same last name again, in another spelling, with another policy
			tail = foPool[r.Intn(len(foPool))]
		}
		fo := foOpt{policy: r.Intn(4)}
		nn := 1
		if r.Intn(4) == 0 {
			nn = 2
		}
		for j := 0; j < nn; j++ {
			n, w := mkName(tail)
			if w {
				wild = true
			} else {
				plain = true
			}
			fo.names = append(fo.names, n)
		}
		fos = append(fos, fo)
	}
	class := "direct-only"
	switch {
	case wild && plain:
		class = "wildcard+direct"
	case wild:
		class = "wildcard-only"
	}
	globals := [][]ucfg.Option{nil, {ucfg.ReplaceValues}, {ucfg.ReplaceArrValues}, {ucfg.AppendValues}, {ucfg.PrependValues}}
	gi := r.Intn(len(globals))
	atCreation := r.Intn(2) == 0 // the options are also given to NewFrom
	mkOpts := func(withField bool) []ucfg.Option {
		opts := append([]ucfg.Option{ucfg.PathSep(".")}, globals[gi]...)
		if withField {
			for _, fo := range fos {
				opts = append(opts, fo.option())
			}
		}
		return opts
	}
	call := func(pr *rand.Rand, withField bool) string {
		copts := []ucfg.Option{ucfg.PathSep(".")}
		if atCreation {
			copts = mkOpts(withField)
		}
		c, err := ucfg.NewFrom(permGo(pr, a), copts...)
		if err != nil {
			return "newfrom-" + errClass(err)
		}
		if err := c.Merge(permGo(pr, b), mkOpts(withField)...); err != nil {
			return errClass(err)
		}
		s, err := rawTop(c)
		if err != nil {
			return "unpack-" + errClass(err)
		}
		return s
	}
	var ds []string
	for _, fo := range fos {
		ds = append(ds, fo.String())
	}
	res.Ev("merge_field_options_cases", 1)
	res.Ev("merge_field_options_cases_"+class, 1)
	res.SetAdd("merge_field_options_shape", fmt.Sprintf("%s:options=%d:global=%d:at-creation=%v", class, len(fos), gi, atCreation))
	// monitor: the per-field options decide something in this case (the same
	// merge under the global policy alone gives other data)
	var with, without string
	harness.Safe(func() { with = call(rand.New(rand.NewSource(1)), true) })
	harness.Safe(func() { without = call(rand.New(rand.NewSource(1)), false) })
	if with != without {
		res.Ev("merge_field_options_cases_where_the_options_change_the_result", 1)
	}
	desc := fmt.Sprintf("NewFrom(%s).Merge(%s) global #%d, %s, options also at creation=%v", a, b, gi, strings.Join(ds, ", "), atCreation)
	run := func(pr *rand.Rand) string { return call(pr, true) }
	return part{kind: "merge-field-options:" + class, desc: desc, runs: map[string]runner{"Merge+Unpack": run}, needSchedules: true}
}
