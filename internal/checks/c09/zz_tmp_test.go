package c09

import (
	"fmt"
	"math/rand"
	"testing"

	"verif/internal/harness"
)

func TestTmpDesc(t *testing.T) {
	for idx := 2; idx < 120; idx += 4 {
		res := harness.NewR(idx)
		r2 := rand.New(rand.NewSource(harness.Mix(1, "C09/wide", idx)))
		p := widePart(res, r2, idx)
		fmt.Println(idx, p.desc)
	}
}
