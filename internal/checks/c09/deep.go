package c09

// Round 6: two more call kinds, run as the THIRD part of every case (random
// stream of its own, so the first two parts are the calls they were before).
//
//   merge-overlapping-operand  one Merge whose operand is a *Config of the SAME
//                              tree as the target: the enclosing root, an
//                              ancestor handle, the target itself, a descendant,
//                              a sibling handle (control: an identical foreign
//                              config); all global policies; the root is rebuilt
//                              with permuted insertion orders every time and
//                              observed raw afterwards
//   nested-reference-world     settings that live in NESTED objects (one or two
//                              holders, one or two levels down) and reference
//                              each other in a ring of 3-5 settings that 1-3
//                              default values absorb, with chords, with chains of
//                              splices feeding in, with several names per
//                              expression, read from inside and outside the ring,
//                              unpacked into generic targets (map[string]
//                              interface{}, interface{}, a struct field of either
//                              kind, the holder's own handle)

import (
	"fmt"
	"math/rand"
	"sort"
	"strings"

	ucfg "github.com/elastic/go-ucfg"

	"verif/internal/harness"
	"verif/internal/model"
)

var deepKinds = []string{"merge-overlapping-operand", "nested-reference-world"}

func deepPart(res *harness.R, r *rand.Rand, idx int) part {
	// the parts of a case are independent calls; which kinds share a case does
	// not matter
	if idx%len(deepKinds) == 0 {
		return genMergeOverlappingOperand(res, r)
	}
	return genNestedReferenceWorld(res, r)
}

// --- merge-overlapping-operand ---

var ovNames = []string{"a", "b", "c", "d", "e", "f", "g"}

// ovObject: an object of 1-4 settings (primitives, lists, objects); tag makes
// the primitives of different places distinguishable.
func ovObject(r *rand.Rand, tag string, depth int) *model.Node {
	d := model.Dict()
	n := 1 + r.Intn(4)
	for i := 0; i < n; i++ {
		k := ovNames[r.Intn(len(ovNames))]
		switch x := r.Intn(6); {
		case x == 0 && depth < 3:
			d.Set(k, ovObject(r, tag+k, depth+1))
		case x == 1:
			l := model.List()
			for j := 0; j <= r.Intn(3); j++ {
				l.A = append(l.A, model.P(fmt.Sprintf("%s%s%d", tag, k, j)))
			}
			d.Set(k, l)
		case x == 2:
			d.Set(k, model.P(uint64(1+r.Intn(9))))
		default:
			d.Set(k, model.P(tag+k))
		}
	}
	return d
}

// step of a handle path: a name, or a list position (name == "")
type ovStep struct {
	name string
	idx  int
}

func ovHandle(c *ucfg.Config, path []ovStep) (*ucfg.Config, error) {
	for _, s := range path {
		var err error
		if s.name != "" {
			c, err = c.Child(s.name, -1)
		} else {
			c, err = c.Child("", s.idx)
		}
		if err != nil {
			return nil, err
		}
	}
	return c, nil
}

func ovPathString(p []ovStep) string {
	if len(p) == 0 {
		return "<root>"
	}
	var parts []string
	for _, s := range p {
		if s.name != "" {
			parts = append(parts, s.name)
		} else {
			parts = append(parts, fmt.Sprintf("#%d", s.idx))
		}
	}
	return strings.Join(parts, "/")
}

func genMergeOverlappingOperand(res *harness.R, r *rand.Rand) part {
	// the tree: a spine of objects root -> s1 -> s2 -> s3 (the target and its
	// ancestors / descendants live on it; one spine element may be a list
	// element), a sibling object next to every spine element, and 1-5 more
	// top-level settings
	perm := r.Perm(len(ovNames))
	spineLen := 1 + r.Intn(3)
	root := model.Dict()
	var spine []ovStep // path of the deepest spine object
	cur := root
	var sibling [][]ovStep // sibling[i] = path of an object next to spine element i+1
	for i := 0; i < spineLen; i++ {
		name := ovNames[perm[i]]
		obj := ovObject(r, fmt.Sprintf("s%d", i+1), 2)
		prefix := append([]ovStep{}, spine...)
		if i > 0 && r.Intn(5) == 0 {
			// the spine goes through a list: name: [prim, {obj}]
			cur.Set(name, model.List(model.P("le"), obj))
			spine = append(spine, ovStep{name: name}, ovStep{idx: 1})
		} else {
			cur.Set(name, obj)
			spine = append(spine, ovStep{name: name})
		}
		sn := ovNames[perm[(i+3)%len(ovNames)]]
		if sn != name {
			cur.Set(sn, ovObject(r, fmt.Sprintf("y%d", i+1), 2))
			sibling = append(sibling, append(prefix, ovStep{name: sn}))
		} else {
			sibling = append(sibling, nil)
		}
		cur = obj
	}
	extra := 1 + r.Intn(5)
	for i := 0; i < extra; i++ {
		k := ovNames[r.Intn(len(ovNames))]
		if _, ok := root.D[k]; ok {
			continue
		}
		switch r.Intn(4) {
		case 0:
			root.Set(k, ovObject(r, "t"+k, 2))
		case 1:
			root.Set(k, model.List(model.P("t"+k), model.P(uint64(i))))
		default:
			root.Set(k, model.P(uint64(10+i)))
		}
	}
	// spine element i (0 = root) as a handle path
	elems := [][]ovStep{nil}
	for i := range spine {
		if spine[i].name != "" && i+1 < len(spine) && spine[i+1].name == "" {
			continue // the list itself is no spine object
		}
		elems = append(elems, append([]ovStep{}, spine[:i+1]...))
	}
	relations := []string{"operand-is-enclosing-root", "operand-is-enclosing-root", "operand-is-ancestor", "operand-is-target", "operand-is-descendant", "operand-is-sibling-handle", "control:foreign-identical-config"}
	rel := relations[r.Intn(len(relations))]
	ti := 1 + r.Intn(len(elems)-1) // target: a spine object below the root
	var target, operand []ovStep
	switch rel {
	case "operand-is-enclosing-root", "control:foreign-identical-config":
		target, operand = elems[ti], nil
	case "operand-is-ancestor":
		if ti < 2 {
			if len(elems) > 2 {
				ti = 2 + r.Intn(len(elems)-2)
			} else {
				rel = "operand-is-enclosing-root"
			}
		}
		target = elems[ti]
		if rel == "operand-is-ancestor" {
			operand = elems[1+r.Intn(ti-1)]
		}
	case "operand-is-target":
		if r.Intn(4) == 0 {
			ti = 0
		}
		target, operand = elems[ti], elems[ti]
	case "operand-is-descendant":
		ti = r.Intn(len(elems) - 1)
		target = elems[ti]
		operand = elems[ti+1+r.Intn(len(elems)-ti-1)]
	default:
		// a handle next to the target, or next to one of its ancestors
		target = elems[ti]
		var cands [][]ovStep
		for _, s := range sibling[:ti] {
			if s != nil {
				cands = append(cands, s)
			}
		}
		if len(cands) == 0 {
			rel = "operand-is-enclosing-root"
			operand = nil
		} else {
			operand = cands[r.Intn(len(cands))]
		}
	}
	pols := [][]ucfg.Option{nil, nil, {ucfg.ReplaceValues}, {ucfg.ReplaceArrValues}, {ucfg.AppendValues}, {ucfg.PrependValues}}
	pi := r.Intn(len(pols))
	// how the operand is handed over: directly, or (a quarter) as the value of
	// a name in a map
	below := ""
	if r.Intn(4) == 0 {
		below = ovNames[r.Intn(len(ovNames))]
	}
	others := len(root.D) - 1
	res.Ev("overlapping_operand_cases", 1)
	res.Ev("overlapping_operand_cases:"+rel, 1)
	if others >= 2 {
		res.Ev("overlapping_operand_cases_root_with_2_or_more_other_top_level_settings", 1)
	}
	res.SetAdd("overlapping_operand_shape", fmt.Sprintf("%s:target-depth=%d:operand-depth=%d:top-level=%d:policy=%d:below-name=%v", rel, len(target), len(operand), len(root.D), pi, below != ""))
	desc := fmt.Sprintf("root=NewFrom(%s); handle(%s).Merge(handle(%s)%s) policy #%d [%s]", root, ovPathString(target), ovPathString(operand), map[bool]string{false: "", true: " below " + below}[below != ""], pi, rel)
	run := func(pr *rand.Rand) string {
		c, err := ucfg.NewFrom(permGo(pr, root), ucfg.PathSep("."))
		if err != nil {
			return "newfrom-" + errClass(err)
		}
		t, err := ovHandle(c, target)
		if err != nil {
			return "target-handle-" + errClass(err)
		}
		src := c
		if rel == "control:foreign-identical-config" {
			if src, err = ucfg.NewFrom(permGo(pr, root), ucfg.PathSep(".")); err != nil {
				return "newfrom-" + errClass(err)
			}
		}
		o, err := ovHandle(src, operand)
		if err != nil {
			return "operand-handle-" + errClass(err)
		}
		var from interface{} = o
		if below != "" {
			from = map[string]interface{}{below: o}
		}
		if err := t.Merge(from, append([]ucfg.Option{ucfg.PathSep(".")}, pols[pi]...)...); err != nil {
			// what a refused merge leaves behind is not judged
			return errClass(err)
		}
		s, err := rawTop(c)
		if err != nil {
			return "unpack-" + errClass(err)
		}
		// the handles, read on their own after the call
		s += "|target=" + ovSelf(t) + "|operand=" + ovSelf(o)
		return s
	}
	p := part{kind: "merge-overlapping-operand", desc: desc, runs: map[string]runner{"Merge+Unpack": run}, needSchedules: true}
	p.sig = func(name string, classes map[string]int) string {
		for c := range classes {
			if strings.HasPrefix(c, "panic:") {
				return "order-dependent:merge-overlapping-operand:" + rel + ":panic"
			}
		}
		return "order-dependent:merge-overlapping-operand:" + rel
	}
	return p
}

func ovSelf(c *ucfg.Config) string {
	var m map[string]interface{}
	if err := c.Unpack(&m); err != nil {
		return "unpack-" + errClass(err)
	}
	var b strings.Builder
	rawRender(&b, m)
	return b.String()
}

// --- nested-reference-world ---

type nwTarget struct {
	name string
	read func(c *ucfg.Config, holder string, opts []ucfg.Option) (interface{}, error)
}

type nwStructI struct {
	X interface{} `config:"x"`
	O interface{} `config:"o"`
	T interface{} `config:"t0"`
}

type nwStructM struct {
	X map[string]interface{} `config:"x"`
	O map[string]interface{} `config:"o"`
}

var nwTargets = []nwTarget{
	{"Unpack(map[string]interface{})", func(c *ucfg.Config, _ string, opts []ucfg.Option) (interface{}, error) {
		var m map[string]interface{}
		err := c.Unpack(&m, opts...)
		return m, err
	}},
	{"Unpack(interface{})", func(c *ucfg.Config, _ string, opts []ucfg.Option) (interface{}, error) {
		var v interface{}
		err := c.Unpack(&v, opts...)
		return v, err
	}},
	{"Unpack(struct of interface{} fields)", func(c *ucfg.Config, _ string, opts []ucfg.Option) (interface{}, error) {
		var s nwStructI
		err := c.Unpack(&s, opts...)
		return map[string]interface{}{"x": s.X, "o": s.O, "t0": s.T}, err
	}},
	{"Unpack(struct of map[string]interface{} fields)", func(c *ucfg.Config, _ string, opts []ucfg.Option) (interface{}, error) {
		var s nwStructM
		err := c.Unpack(&s, opts...)
		return map[string]interface{}{"x": s.X, "o": s.O}, err
	}},
	{"Child(holder).Unpack(map[string]interface{})", func(c *ucfg.Config, holder string, opts []ucfg.Option) (interface{}, error) {
		h, err := c.Child(holder, -1, opts...)
		if err != nil {
			return nil, err
		}
		var m map[string]interface{}
		err = h.Unpack(&m, opts...)
		return m, err
	}},
}

// nwReach: the distinct setting names an expression names directly or through
// the settings it names (size of what its value depends on), and the longest
// chain of settings below it (ring members count once).
func nwReach(w *model.World, start string) (names int, depth int) {
	seen := map[string]bool{}
	var direct func(e *model.Ex, out *[]string)
	direct = func(e *model.Ex, out *[]string) {
		if e == nil {
			return
		}
		switch e.Kind {
		case model.XLit:
			return
		case model.XCat:
			for _, k := range e.Kids {
				direct(k, out)
			}
			return
		}
		if e.Name != nil && e.Name.Kind == model.XLit {
			*out = append(*out, e.Name.Text)
		}
		direct(e.Rhs, out)
	}
	var walk func(n string, onPath map[string]bool) int
	walk = func(n string, onPath map[string]bool) int {
		s, ok := w.Root[n]
		if !ok || s.Ex == nil {
			return 0
		}
		var ds []string
		direct(s.Ex, &ds)
		best := 0
		onPath[n] = true
		for _, d := range ds {
			seen[d] = true
			if onPath[d] {
				continue
			}
			if v := 1 + walk(d, onPath); v > best {
				best = v
			}
		}
		delete(onPath, n)
		return best
	}
	depth = walk(start, map[string]bool{})
	return len(seen), depth
}

func genNestedReferenceWorld(res *harness.R, r *rand.Rand) part {
	holders := [][]string{{"x"}, {"x"}, {"x.y"}, {"x", "o"}, {"x.y", "o"}, {"x", "x.y"}}[r.Intn(6)]
	place := func() string { return holders[r.Intn(len(holders))] }
	w := &model.World{Root: map[string]*model.Setting{}}
	// leaves
	nLeaves := 2 + r.Intn(4)
	var leaves []string
	for i := 0; i < nLeaves; i++ {
		n := fmt.Sprintf("%s.n%d", place(), i)
		w.Root[n] = &model.Setting{Ex: model.Lit(string(rune('J' + i)))}
		leaves = append(leaves, n)
	}
	leafRef := func() *model.Ex {
		if r.Intn(6) == 0 {
			// a name nothing defines, with a default
			return &model.Ex{Kind: model.XDef, Name: model.Lit("x.undefined"), Rhs: model.Lit("u")}
		}
		return model.Ref(leaves[r.Intn(len(leaves))])
	}
	// a chain of splices without a cycle, feeding the ring: s0 names leaves,
	// s(i) names s(i-1) and leaves
	var chain []string
	for i, n := 0, r.Intn(4); i < n; i++ {
		name := fmt.Sprintf("%s.s%d", place(), i)
		kids := []*model.Ex{leafRef()}
		if i > 0 {
			kids = append(kids, model.Ref(chain[i-1]))
		}
		for j := r.Intn(3); j > 0; j-- {
			kids = append(kids, leafRef())
		}
		kids = append(kids, model.Lit("."))
		w.Root[name] = &model.Setting{Ex: (&model.Ex{Kind: model.XCat, Kids: kids}).Normalize()}
		chain = append(chain, name)
	}
	// the ring
	k := 3 + r.Intn(3)
	if r.Intn(3) == 0 {
		k = 4
	}
	ringNames := []string{"a", "p", "q", "r", "v"}
	var ring []string
	for i := 0; i < k; i++ {
		ring = append(ring, place()+"."+ringNames[i])
	}
	nDef := 1 + r.Intn(3)
	if nDef > k {
		nDef = k
	}
	defAt := map[int]bool{}
	for _, i := range r.Perm(k)[:nDef] {
		defAt[i] = true
	}
	marks := []string{"+", "-", "~", "=", "!"}
	chords := 0
	for i := 0; i < k; i++ {
		next := ring[(i+1)%k]
		var link *model.Ex
		if defAt[i] {
			var rhs *model.Ex = model.Lit("d" + ringNames[i])
			if r.Intn(5) == 0 {
				rhs = leafRef()
			}
			link = &model.Ex{Kind: model.XDef, Name: model.Lit(next), Rhs: rhs}
		} else {
			link = model.Ref(next)
		}
		var kids []*model.Ex
		for j := r.Intn(2); j > 0; j-- {
			kids = append(kids, leafRef())
		}
		kids = append(kids, link)
		for j := r.Intn(3); j > 0; j-- {
			kids = append(kids, leafRef())
		}
		if len(chain) > 0 && r.Intn(3) == 0 {
			kids = append(kids, model.Ref(chain[r.Intn(len(chain))]))
		}
		if r.Intn(5) == 0 {
			// a chord: another ring member, behind a default of its own
			kids = append(kids, &model.Ex{Kind: model.XDef, Name: model.Lit(ring[r.Intn(k)]), Rhs: model.Lit("c" + ringNames[i])})
			chords++
		}
		kids = append(kids, model.Lit(marks[i]))
		w.Root[ring[i]] = &model.Setting{Ex: (&model.Ex{Kind: model.XCat, Kids: kids}).Normalize()}
	}
	// readers outside the ring: at top level, and in the holders
	nReaders := r.Intn(4)
	for i := 0; i < nReaders; i++ {
		name := fmt.Sprintf("t%d", i)
		if r.Intn(2) == 0 {
			name = fmt.Sprintf("%s.t%d", place(), i)
		}
		kids := []*model.Ex{model.Ref(ring[r.Intn(k)])}
		if r.Intn(2) == 0 {
			kids = append(kids, model.Lit("|"), &model.Ex{Kind: model.XDef, Name: model.Lit(ring[r.Intn(k)]), Rhs: model.Lit("dt")})
		}
		if r.Intn(3) == 0 {
			kids = append(kids, leafRef())
		}
		w.Root[name] = &model.Setting{Ex: (&model.Ex{Kind: model.XCat, Kids: kids}).Normalize()}
	}
	// settings failing on their own, by the model
	failing := 0
	for key := range w.Root {
		ev := model.NewEvaluator(w)
		ev.T.Enter[key] = 1
		if ev.EvalSetting(key, nil, true).IsErr {
			failing++
		}
	}
	maxNames, maxDepth := 0, 0
	for _, n := range ring {
		nn, dd := nwReach(w, n)
		if nn > maxNames {
			maxNames = nn
		}
		if dd > maxDepth {
			maxDepth = dd
		}
	}
	holderDepth := 1
	for _, h := range holders {
		if strings.Contains(h, ".") {
			holderDepth = 2
		}
	}
	res.Ev("nested_world_cases", 1)
	res.SetAdd("nested_world_shape", fmt.Sprintf("ring=%d defaults=%d chords=%d chain=%d readers=%d holders=%d holder-depth=%d", k, nDef, chords, len(chain), nReaders, len(holders), holderDepth))
	res.SetAdd("nested_world_names_reached_from_a_ring_member", fmt.Sprintf("%02d", maxNames))
	res.SetAdd("nested_world_splice_nesting_depth", fmt.Sprintf("%02d", maxDepth))
	if k >= 4 && nDef >= 2 && maxNames > 4 {
		res.Ev("nested_world_cases_ring_of_4_or_more_two_or_more_defaults_over_4_names", 1)
	}
	if maxDepth >= 3 {
		res.Ev("nested_world_cases_3_or_more_levels_of_nested_splices", 1)
	}
	if failing > 0 {
		res.Ev("nested_world_cases_with_a_failing_setting", 1)
	}
	// the input tree of rendered texts
	t := model.Dict()
	var names []string
	for key := range w.Root {
		names = append(names, key)
	}
	sort.Strings(names)
	for _, key := range names {
		parts := strings.Split(key, ".")
		cur := t
		for _, p := range parts[:len(parts)-1] {
			nx, ok := cur.D[p]
			if !ok {
				nx = model.Dict()
				cur.Set(p, nx)
			}
			cur = nx
		}
		cur.Set(parts[len(parts)-1], model.P(w.Root[key].Ex.Render(false)))
	}
	opts := []ucfg.Option{ucfg.PathSep("."), ucfg.VarExp}
	desc := fmt.Sprintf("NewFrom(%s) PathSep, VarExp", t)
	runs := map[string]runner{}
	// two of the generic targets per case, and the per-setting reads
	ti := r.Perm(len(nwTargets))[:2]
	if failing > 1 {
		// which of several failing settings a whole read reports is not judged
		res.Ev("whole_config_reads_skipped_multiple_failing_settings", 1)
		ti = nil
	}
	for _, i := range ti {
		tg := nwTargets[i]
		res.SetAdd("nested_world_target", tg.name)
		runs[tg.name] = func(pr *rand.Rand) string {
			c, err := ucfg.NewFrom(permGo(pr, t), opts...)
			if err != nil {
				return "newfrom-" + errClass(err)
			}
			v, err := tg.read(c, holders[0], opts)
			if err != nil {
				return errClass(err)
			}
			var b strings.Builder
			rawRender(&b, v)
			return b.String()
		}
	}
	// every setting read by name, in a permuted order of reads on ONE config:
	// each call is a function of the config, whatever was read before
	runs["per-setting String in permuted read order"] = func(pr *rand.Rand) string {
		c, err := ucfg.NewFrom(permGo(pr, t), opts...)
		if err != nil {
			return "newfrom-" + errClass(err)
		}
		order := pr.Perm(len(names))
		out := make([]string, len(names))
		for _, i := range order {
			s, err := c.String(names[i], -1, opts...)
			if err != nil {
				out[i] = names[i] + "=" + errClass(err)
			} else {
				out[i] = names[i] + "=" + s
			}
		}
		return strings.Join(out, ";")
	}
	p := part{kind: "nested-reference-world", desc: desc, runs: runs, needSchedules: true}
	p.sig = func(name string, classes map[string]int) string {
		what := "generic-target"
		if strings.HasPrefix(name, "per-setting") {
			what = "per-setting-read"
		}
		vals, errs, pan := 0, 0, false
		for c := range classes {
			switch {
			case strings.HasPrefix(c, "panic:"):
				pan = true
			case strings.HasPrefix(c, "err:"), strings.HasPrefix(c, "newfrom-"):
				errs++
			default:
				vals++
			}
		}
		switch {
		case pan:
			return "order-dependent:nested-reference-world:" + what + ":panic"
		case errs > 0 && vals > 0:
			return "order-dependent:nested-reference-world:" + what + ":value+error"
		case errs > 0:
			return "order-dependent:nested-reference-world:" + what + ":different-errors"
		}
		return "order-dependent:nested-reference-world:" + what + ":different-values"
	}
	return p
}
