//go:build !only || only_c16

package checks

import _ "verif/internal/checks/c16"
