//go:build !only || only_c15

package checks

import _ "verif/internal/checks/c15"
