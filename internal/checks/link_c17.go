//go:build !only || only_c17

package checks

import _ "verif/internal/checks/c17"
