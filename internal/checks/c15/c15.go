// Package c15: Path, Parent, FlattenedKeys and diff describe the actual structure.
package c15

import (
	"fmt"
	"math/rand"
	"sort"
	"strconv"
	"strings"

	ucfg "github.com/elastic/go-ucfg"
	"github.com/elastic/go-ucfg/diff"

	"verif/internal/gen"
	"verif/internal/harness"
	"verif/internal/model"
)

type check struct{}

func init() { harness.Register(check{}) }

func (check) ID() string { return "C15" }

func (check) Cases(tier string) int {
	if tier == "thorough" {
		return 200000
	}
	return 3000
}

func (check) Rule() string {
	return "a config is built from a generated tree (every node a dictionary or a list, no references) (root a dictionary, in 1 of 5 cases a list) and then driven through a history of 3-20 shape-aware operations, each issued either on the root or on a handle obtained with Child for a randomly chosen non-empty dictionary or list of the tree (addresses relative to that receiver, spelled with a per-case path separator drawn from a pool): writes of primitives and fresh sub-configs at existing/new keys and list positions, removals (biased to the middle of lists), merges of a shape-compatible mutation of the receiver's subtree (a map for a dictionary receiver, a list for a list receiver; passed as Go data, as a parentless *Config or as a child handle of another config) under default/append/prepend/replace/arr-replace, and as an optional last step re-attachment of an already parented child (SetChild of a handle obtained with Child). After EVERY step: (1) hook walk: every stored field name equals the key/index actually leading to the node and every stored parent is the config actually holding it; (2) API walk: Child(...).Path(sep) and PathOf(field, sep) equal the address sequence and Parent() is the config it was reached from, FlattenedKeys of sampled child handles lists the root-relative paths below them; (3) FlattenedKeys equals the model's set of non-nil primitive leaf paths; (4) CompareConfigs(previous state, current) equals the (kept, added, removed) partition of the two model key sets and a config compared with an equal copy reports no change. Every observer call draws its own option list: no option at all (paths spelled with \".\") or PathSep with a separator from the pool (paths spelled with it). Non-trivial = history with >= 2 successful structural mutations; distinct = distinct (initial tree, history)."
}

func (check) Assumptions() []string {
	return []string{
		"tree-store and merge models as in C12/C01 predict the structure after each step",
		"FlattenedKeys lists non-nil primitive leaves only (empty containers and nils are not settings), as the statement says",
		"Path/PathOf/FlattenedKeys/CompareConfigs spell paths with the separator they are given (\".\" when FlattenedKeys/CompareConfigs get no option), whatever separator the config was built or written with; key names never contain a separator of the pool",
		"FlattenedKeys called on a child handle lists the settings below that child with root-relative paths (the statement says root-relative)",
		"a re-attached child is expected at its new place (and, the old handle still being stored there, at the old one); histories end after a re-attachment",
	}
}

// event records where one step of the history changed the structure and which
// narrow signature a deviation found at or below that place gets ("" = the
// generic signature of the observation that failed).
type event struct {
	path string // "."-joined absolute path of the container the step worked on
	sig  string
}

type state struct {
	res        *harness.R
	r          *rand.Rand
	c          *ucfg.Config
	m          *model.Node
	sep        string // separator of all addressed operations of the case
	log        []string
	muts       int
	failed     bool
	events     []event // bookkeeping for the classifier, one or two per step
	reattached bool
}

// sepPool: separators for addressed operations and for the observers. Key
// names (gen.Keys, "r", "w", decimal indices) contain none of them.
var sepPool = []string{".", "/", ":", "::", "|", "->"}

var treeOpts = gen.TreeOpts{NoEmpty: false, Prims: []interface{}{"s", "t", int64(-3), uint64(7), true, 2.5, ""}}

// join is the canonical (model side) spelling of a path.
func join(q []string) string { return strings.Join(q, ".") }

// o is the option list of the addressed operations of the case.
func (s *state) o() []ucfg.Option { return []ucfg.Option{ucfg.PathSep(s.sep)} }

// nm spells a path for the API with the separator of the case.
func (s *state) nm(q []string) string { return strings.Join(q, s.sep) }

// observer draws the option list of one observer call together with the
// separator the reported paths must then be spelled with.
func (s *state) observer() ([]ucfg.Option, string) {
	i := s.r.Intn(len(sepPool) + 2)
	if i >= len(sepPool) {
		s.res.SetAdd("observer_options", "<none>")
		return nil, "."
	}
	s.res.SetAdd("observer_options", "PathSep("+sepPool[i]+")")
	return []ucfg.Option{ucfg.PathSep(sepPool[i])}, sepPool[i]
}

// respell turns canonical paths into the spelling with sep, sorted.
func respell(keys []string, sep string) []string {
	out := make([]string, len(keys))
	for i, k := range keys {
		out[i] = strings.ReplaceAll(k, ".", sep)
	}
	sort.Strings(out)
	return out
}

// foreign reports whether some key is no path of the universe in the
// requested spelling but is one in the spelling of another separator.
func foreign(keys, universe []string, sep string) bool {
	in := map[string]bool{}
	for _, k := range respell(universe, sep) {
		in[k] = true
	}
	for _, sp := range sepPool {
		if sp == sep {
			continue
		}
		alt := map[string]bool{}
		for _, k := range respell(universe, sp) {
			alt[k] = true
		}
		for _, k := range keys {
			if !in[k] && alt[k] {
				return true
			}
		}
	}
	return false
}

func nested(keys []string) bool {
	for _, k := range keys {
		if strings.Contains(k, ".") {
			return true
		}
	}
	return false
}

// nodesOf lists the paths of all nodes of the wanted kind.
func nodesOf(n *model.Node, q []string, want func(*model.Node) bool, out *[][]string) {
	if want(n) {
		*out = append(*out, append([]string{}, q...))
	}
	if !n.IsSub() {
		return
	}
	for _, k := range n.SortedKeys() {
		nodesOf(n.D[k], append(q, k), want, out)
	}
	for i, v := range n.A {
		nodesOf(v, append(q, strconv.Itoa(i)), want, out)
	}
}

func at(n *model.Node, q []string) *model.Node {
	for _, s := range q {
		if n == nil || !n.IsSub() {
			return nil
		}
		if i, err := strconv.Atoi(s); err == nil {
			if i >= len(n.A) {
				return nil
			}
			n = n.A[i]
		} else {
			n = n.D[s]
		}
	}
	return n
}

func isList(n *model.Node) bool { return n.IsSub() && (n.HasA || len(n.A) > 0) && len(n.D) == 0 }
func isDict(n *model.Node) bool { return n.IsSub() && !isList(n) }

func cat(a, b []string) []string { return append(append([]string{}, a...), b...) }

// compat makes b shape-compatible with cur: where one holds a dictionary and
// the other a list, b's node is replaced by a primitive (the quantifier of C15
// excludes nodes that are both).
func compat(cur, b *model.Node) *model.Node {
	eitherOr(b)
	return compat1(cur, b)
}

// eitherOr makes every node of b a dictionary or a list: a mutation of a
// blank node that received a list part may add keys to it; such a node keeps
// its dictionary part only (which is also all that ToGo would render).
func eitherOr(b *model.Node) {
	if !b.IsSub() {
		return
	}
	if len(b.D) > 0 && (len(b.A) > 0 || b.HasA) {
		b.A, b.HasA = nil, false
	}
	for _, v := range b.D {
		eitherOr(v)
	}
	for _, v := range b.A {
		eitherOr(v)
	}
}

func compat1(cur, b *model.Node) *model.Node {
	if cur == nil || !cur.IsSub() || !b.IsSub() {
		return b
	}
	curBlank := len(cur.D) == 0 && len(cur.A) == 0 && !cur.HasA
	bBlank := len(b.D) == 0 && len(b.A) == 0 && !b.HasA
	if !curBlank && !bBlank && isList(cur) != isList(b) {
		return model.P("shape")
	}
	for k, v := range b.D {
		b.D[k] = compat1(cur.D[k], v)
	}
	for i, v := range b.A {
		if i < len(cur.A) {
			b.A[i] = compat1(cur.A[i], v)
		}
	}
	return b
}

func leafPaths(n *model.Node, q []string, out *[]string) {
	switch {
	case n == nil || n.Kind == model.KNil:
	case n.Kind == model.KPrim:
		*out = append(*out, join(q))
	default:
		for k, v := range n.D {
			leafPaths(v, append(q, k), out)
		}
		for i, v := range n.A {
			leafPaths(v, append(q, strconv.Itoa(i)), out)
		}
	}
}

func (s *state) fail(sig, format string, a ...interface{}) {
	s.failed = true
	s.res.Violate(sig, "%s; history=[%s]", fmt.Sprintf(format, a...), strings.Join(s.log, "; "))
}

// classify narrows a structural deviation at walk path w (canonical spelling)
// to the most recent step of the history that worked at or above w.
func (s *state) classify(w string, generic string) string {
	for i := len(s.events) - 1; i >= 0; i-- {
		e := s.events[i]
		if e.path == "" || w == e.path || strings.HasPrefix(w, e.path+".") {
			if e.sig != "" {
				return e.sig
			}
			return generic
		}
	}
	return generic
}

// address renders a path as (name, idx), choosing a spelling.
func (s *state) address(q []string) (string, int) {
	if len(q) == 0 {
		return "", -1
	}
	last := q[len(q)-1]
	if i, err := strconv.Atoi(last); err == nil && (len(q) == 1 || s.r.Intn(2) == 0) {
		return s.nm(q[:len(q)-1]), i
	}
	return s.nm(q), -1
}

// rootList generates a non-empty top-level list.
func rootList(r *rand.Rand) *model.Node {
	for {
		n := gen.Top(r, treeOpts, 3)
		if isList(n) && len(n.A) > 0 {
			return n
		}
	}
}

func (check) Run(seed int64, tier string, idx int, verbose bool) harness.Result {
	res := harness.NewR(idx)
	r := rand.New(rand.NewSource(harness.Mix(seed, "C15", idx)))
	s := &state{res: res, r: r, sep: "."}
	if r.Intn(2) == 0 {
		s.sep = sepPool[r.Intn(len(sepPool))]
	}
	res.SetAdd("operation_sep", s.sep)
	if r.Intn(5) == 0 {
		s.m = rootList(r)
		res.Ev("cases_with_list_root", 1)
	} else {
		s.m = gen.TopDict(r, treeOpts, 3)
	}
	init := s.m.String()
	panicked, pv, where := harness.Safe(func() {
		c, err := ucfg.NewFrom(s.m.ToGo(), s.o()...)
		res.Eval(1)
		if err != nil {
			s.fail("newfrom-error", "NewFrom(%s): %v", s.m, err)
			return
		}
		s.c = c
		s.log = append(s.log, fmt.Sprintf("sep=%q NewFrom(%s)", s.sep, init))
		s.verify(nil)
		n := 3 + r.Intn(18)
		for i := 0; i < n && !s.failed; i++ {
			if s.step(i == n-1) {
				break
			}
		}
	})
	if panicked {
		s.fail("panic", "panic %q at %s", pv, where)
	}
	if s.muts >= 2 {
		res.Key(strings.Join(s.log, ";"))
	}
	if idx < 2 {
		res.Sample = s.log
	}
	if verbose {
		fmt.Println(strings.Join(s.log, "\n"))
		fmt.Println("final model:", s.m)
	}
	return res.Done()
}

// receiver chooses the config the next operation is issued on: the root or a
// handle (obtained with Child) of a non-empty container somewhere in the tree.
// rq is its absolute path, rm its model node, kind names what it is.
func (s *state) receiver() (recv *ucfg.Config, rq []string, rm *model.Node, kind, pfx string, ok bool) {
	if s.r.Intn(2) == 0 {
		var cand [][]string
		nodesOf(s.m, nil, func(n *model.Node) bool { return n.IsSub() && (len(n.D) > 0 || len(n.A) > 0) }, &cand)
		if len(cand) > 0 && len(cand[0]) == 0 {
			cand = cand[1:] // the root itself
		}
		if len(cand) > 0 {
			rq = cand[s.r.Intn(len(cand))]
		}
	}
	rm, recv = at(s.m, rq), s.c
	where := "root"
	if len(rq) > 0 {
		name, idx := s.address(rq)
		h, err := s.c.Child(name, idx, s.o()...)
		s.res.Eval(1)
		if err != nil {
			s.fail("child-error", "Child(%q,%d) of the non-empty container at %v failed: %v", name, idx, rq, err)
			return nil, nil, nil, "", "", false
		}
		recv, where = h, "handle"
		pfx = fmt.Sprintf("Child(%q,%d).", name, idx)
	}
	kind = where + "-dict"
	if isList(rm) {
		kind = where + "-list"
	}
	s.res.SetAdd("receiver", kind)
	return recv, rq, rm, kind, pfx, true
}

// step performs one operation; returns true if the history must end.
func (s *state) step(last bool) bool {
	r := s.r
	prev := s.m.Copy()
	op := r.Intn(20)
	if last && r.Intn(3) == 0 {
		op = 100 // re-attachment, only ever as the last step
	}
	var recv *ucfg.Config
	var rq []string
	var rm *model.Node
	var kind, pfx string
	if op < 20 {
		var ok bool
		if recv, rq, rm, kind, pfx, ok = s.receiver(); !ok {
			return true
		}
	}
	switch {
	case op < 7: // write into a dictionary or a list
		var cont [][]string
		nodesOf(rm, nil, func(n *model.Node) bool { return n.IsSub() }, &cont)
		q := cont[r.Intn(len(cont))]
		n := at(rm, q)
		var seg string
		if isList(n) && (len(n.A) > 0 || n.HasA) {
			seg = strconv.Itoa(r.Intn(len(n.A) + 1)) // overwrite or append; no padding (nil elements are fine too but keep lists dense)
		} else {
			seg = gen.Keys[r.Intn(len(gen.Keys))]
		}
		full := cat(q, []string{seg})
		name, idx := s.address(full)
		var val *model.Node
		var err error
		if r.Intn(3) == 0 {
			val = gen.Tree(r, treeOpts, 2)
			for !val.IsSub() {
				val = gen.Tree(r, treeOpts, 2)
			}
			sc, e := ucfg.NewFrom(map[string]interface{}{"w": val.ToGo()})
			if e != nil {
				return false
			}
			ch, e := sc.Child("w", -1)
			if e != nil {
				return false
			}
			// a fresh, parentless config with the same contents
			fresh := ucfg.New()
			if e := fresh.Merge(ch); e != nil {
				s.fail("merge-error", "Merge into fresh config failed: %v", e)
				return true
			}
			err = recv.SetChild(name, idx, fresh, s.o()...)
			s.log = append(s.log, fmt.Sprintf("%sSetChild(%q,%d,%s)", pfx, name, idx, val))
			s.res.SetAdd("op", "setchild-fresh@"+kind)
		} else {
			x := []interface{}{"w", int64(-9), uint64(4), true, 1.5}[r.Intn(5)]
			val = model.P(x)
			switch v := x.(type) {
			case string:
				err = recv.SetString(name, idx, v, s.o()...)
			case int64:
				err = recv.SetInt(name, idx, v, s.o()...)
			case uint64:
				err = recv.SetUint(name, idx, v, s.o()...)
			case bool:
				err = recv.SetBool(name, idx, v, s.o()...)
			case float64:
				err = recv.SetFloat(name, idx, v, s.o()...)
			}
			s.log = append(s.log, fmt.Sprintf("%sSet(%q,%d,%v)", pfx, name, idx, x))
			s.res.SetAdd("op", "set-primitive@"+kind)
		}
		s.res.Eval(1)
		if err != nil {
			s.fail("set-error", "write at %v below %v failed: %v", full, rq, err)
			return true
		}
		var fs []model.Fld
		for _, sg := range full {
			fs = append(fs, model.ParseField(sg, 1024))
		}
		if !model.Set(rm, fs, val.Copy()) {
			s.fail("model-error", "model rejected write at %v below %v", full, rq)
			return true
		}
		s.events = append(s.events, event{join(cat(rq, q)), ""})
		s.muts++
		if len(rq) > 0 {
			s.res.Ev("writes_and_removals_through_handle", 1)
		}
	case op < 12: // removal, biased to the middle of lists
		var cand [][]string
		nodesOf(rm, nil, func(n *model.Node) bool { return isList(n) && len(n.A) >= 2 }, &cand)
		var full []string
		if len(cand) > 0 && r.Intn(4) > 0 {
			q := cand[r.Intn(len(cand))]
			n := at(rm, q)
			i := r.Intn(len(n.A) - 1) // never the last element: later ones must shift
			full = cat(q, []string{strconv.Itoa(i)})
			s.events = append(s.events, event{join(cat(rq, q)), "stale-index-after-list-remove"})
			s.res.Ev("removals_from_middle_of_list", 1)
		} else {
			var dicts [][]string
			nodesOf(rm, nil, func(n *model.Node) bool { return isDict(n) && len(n.D) > 0 }, &dicts)
			if len(dicts) == 0 {
				return false
			}
			q := dicts[r.Intn(len(dicts))]
			ks := at(rm, q).SortedKeys()
			full = cat(q, []string{ks[r.Intn(len(ks))]})
			s.events = append(s.events, event{join(cat(rq, q)), ""})
		}
		name, idx := s.address(full)
		ok, err := recv.Remove(name, idx, s.o()...)
		s.res.Eval(1)
		s.log = append(s.log, fmt.Sprintf("%sRemove(%q,%d)", pfx, name, idx))
		if err != nil || !ok {
			s.fail("remove-outcome", "Remove(%v) below %v returned (%v,%v), expected removal", full, rq, ok, err)
			return true
		}
		var fs []model.Fld
		for _, sg := range full {
			fs = append(fs, model.ParseField(sg, 1024))
		}
		model.Remove(rm, fs)
		s.muts++
		s.res.SetAdd("op", "remove@"+kind)
		if len(rq) > 0 {
			s.res.Ev("writes_and_removals_through_handle", 1)
		}
	case op < 20: // merge a shape-compatible mutation of the receiver's subtree into the receiver
		pols := []struct {
			p model.Policy
			o ucfg.Option
		}{{model.PDefault, nil}, {model.PAppend, ucfg.AppendValues}, {model.PPrepend, ucfg.PrependValues}, {model.PReplace, ucfg.ReplaceValues}, {model.PArrReplace, ucfg.ReplaceArrValues}}
		pol := pols[r.Intn(len(pols))]
		form := r.Intn(4)
		b := compat(rm, gen.MutateTop(r, treeOpts, rm, 3))
		if !b.IsSub() || isList(b) != isList(rm) {
			return false // a dictionary receiver gets a map, a list receiver a list
		}
		mo := s.o()
		if pol.o != nil {
			mo = append(mo, pol.o)
		}
		// operand form: Go data, a parentless *Config, a child handle of another config
		var operand interface{} = b.ToGo()
		fname := "go-data"
		switch form {
		case 2:
			if oc, e := ucfg.NewFrom(b.ToGo(), s.o()...); e == nil {
				operand, fname = oc, "config"
			}
		case 3:
			if wc, e := ucfg.NewFrom(map[string]interface{}{"w": b.ToGo()}, s.o()...); e == nil {
				if ch, e := wc.Child("w", -1); e == nil {
					operand, fname = ch, "child-of-other-config"
				}
			}
		}
		moving := isList(rm) && len(rm.A) > 0 && len(b.A) > 0 && pol.p == model.PPrepend
		err := recv.Merge(operand, mo...)
		s.res.Eval(1)
		s.log = append(s.log, fmt.Sprintf("%sMerge[%v,%s](%s)", pfx, pol.p, fname, b))
		if err != nil {
			s.fail("merge-error", "Merge into %s at %v failed: %v", kind, rq, err)
			return true
		}
		model.Merge(rm, b.Copy(), nil, model.Global(pol.p))
		sig := ""
		if kind != "root-dict" {
			sig = "wrong-context-after-" + pol.p.String() + "-merge-into-" + kind
		}
		s.events = append(s.events, event{join(rq), sig})
		s.muts++
		s.res.SetAdd("op", "merge-"+pol.p.String()+"@"+kind)
		s.res.SetAdd("merge_operand_form", fname)
		if len(rq) > 0 {
			s.res.Ev("merges_into_handle", 1)
		}
		if isList(rm) {
			s.res.Ev("merges_into_list_receiver", 1)
		}
		if moving {
			s.res.Ev("prepend_merges_moving_elements_of_list_receiver", 1)
		}
	default: // re-attach an already parented child somewhere else
		var subs, dicts [][]string
		nodesOf(s.m, nil, func(n *model.Node) bool { return n.IsSub() }, &subs)
		nodesOf(s.m, nil, func(n *model.Node) bool { return isDict(n) }, &dicts)
		var src, dst []string
		for try := 0; try < 20 && len(dicts) > 0; try++ {
			a, b := subs[r.Intn(len(subs))], dicts[r.Intn(len(dicts))]
			if len(a) == 0 {
				continue
			}
			ja, jb := join(a), join(b)
			if jb == ja || strings.HasPrefix(jb+".", ja+".") {
				continue // never make a config its own ancestor
			}
			src, dst = a, b
			break
		}
		if src == nil {
			return false
		}
		name, idx := s.address(src)
		h, err := s.c.Child(name, idx, s.o()...)
		if err != nil {
			return false // e.g. an empty container that reads as nil
		}
		key := "r"
		full := cat(dst, []string{key})
		err = s.c.SetChild(s.nm(full), -1, h, s.o()...)
		s.res.Eval(2)
		s.log = append(s.log, fmt.Sprintf("SetChild(%q,-1, Child(%q,%d))", s.nm(full), name, idx))
		if err != nil {
			s.fail("set-error", "re-attachment failed: %v", err)
			return true
		}
		sub := at(s.m, src)
		at(s.m, dst).Set(key, sub) // the same node now sits in both places
		s.events = append(s.events, event{join(full), "reattached-child-keeps-old-path"}, event{join(src), "reattached-child-keeps-old-path"})
		s.reattached = true
		s.muts++
		s.res.SetAdd("op", "reattach")
		s.verify(prev)
		return true
	}
	s.verify(prev)
	return false
}

func (s *state) verify(prev *model.Node) {
	if s.failed {
		return
	}
	// (1) hook walk: stored field names and parent links
	walk := ucfg.VerifWalk(s.c)
	s.res.Ev("hook_nodes_walked", int64(len(walk)))
	if len(walk) == 0 {
		s.res.Inconc("VerifWalk returned nothing")
	}
	for _, n := range walk {
		if n.Walk == "" {
			if n.Field != "" || n.Parent != 0 {
				s.fail("root-has-context", "root stores field %q parent %#x", n.Field, n.Parent)
				return
			}
			continue
		}
		lastSeg := n.Walk[strings.LastIndex(n.Walk, ".")+1:]
		if n.Field != lastSeg {
			s.fail(s.classify(n.Walk, "stored-field-name-wrong"), "node reached at %q stores field name %q", n.Walk, n.Field)
			return
		}
		if n.Parent != n.Holder {
			s.fail(s.classify(n.Walk, "stored-parent-wrong"), "node reached at %q is held by config %#x but stores parent %#x", n.Walk, n.Holder, n.Parent)
			return
		}
	}
	// (2) API walk
	_, wsep := s.observer()
	s.apiWalk(s.c, s.m, nil, wsep)
	if s.failed {
		return
	}
	// (3) FlattenedKeys
	var want []string
	leafPaths(s.m, nil, &want)
	sort.Strings(want)
	fo, fsep := s.observer()
	got := s.c.FlattenedKeys(fo...)
	s.res.Eval(1)
	if wantS := respell(want, fsep); !eq(got, wantS) {
		sig := "flattenedkeys-mismatch"
		if foreign(got, want, fsep) {
			sig = "flattenedkeys-spelled-with-other-separator"
		} else {
			// attribute to a known shape if every differing key lies under one
			diffKeys := symdiff(got, wantS)
			all := len(diffKeys) > 0
			cls := ""
			for _, k := range diffKeys {
				c := s.classify(strings.ReplaceAll(k, fsep, "."), "")
				if c == "" || (cls != "" && c != cls) {
					all = false
					break
				}
				cls = c
			}
			if all {
				sig = cls
			}
		}
		s.fail(sig, "FlattenedKeys(%s)=%v want %v", optName(fo, fsep), got, wantS)
		return
	}
	s.res.Ev("flattened_keys_compared", int64(len(want)))
	if fsep != "." && nested(want) {
		s.res.Ev("flattenedkeys_calls_other_sep_with_nested_keys", 1)
	}
	// (4) CompareConfigs
	cp, err := ucfg.NewFrom(s.m.ToGo(), s.o()...)
	if err == nil && !s.reattached {
		do, dsep := s.observer()
		d := diff.CompareConfigs(s.c, cp, do...)
		s.res.Eval(1)
		if d.HasChanged() || !eq(sorted(d[diff.Keep]), respell(want, dsep)) {
			sig := "diff-equal-configs-changed"
			if foreign(cat(cat(d[diff.Keep], d[diff.Add]), d[diff.Remove]), want, dsep) {
				sig = "diff-keys-spelled-with-other-separator"
			}
			s.fail(sig, "CompareConfigs(x, equal copy, %s) = %v, expected no change and kept keys %v", optName(do, dsep), d, respell(want, dsep))
			return
		}
		if dsep != "." && nested(want) {
			s.res.Ev("diffs_other_sep_with_nested_keys", 1)
		}
		if prev != nil {
			pc, err := ucfg.NewFrom(prev.ToGo(), s.o()...)
			if err == nil {
				var old []string
				leafPaths(prev, nil, &old)
				do, dsep := s.observer()
				var d diff.Diff
				rev := s.r.Intn(4) == 0 // the step undone: added and removed change places
				if rev {
					d = diff.CompareConfigs(s.c, pc, do...)
					old, want = want, old
				} else {
					d = diff.CompareConfigs(pc, s.c, do...)
				}
				s.res.Eval(1)
				wk, wa, wr := partition(old, want)
				wk, wa, wr = respell(wk, dsep), respell(wa, dsep), respell(wr, dsep)
				gk, ga, gr := sorted(d[diff.Keep]), sorted(d[diff.Add]), sorted(d[diff.Remove])
				if !eq(gk, wk) || !eq(ga, wa) || !eq(gr, wr) {
					sig := "diff-partition-mismatch"
					if foreign(cat(cat(gk, ga), gr), cat(old, want), dsep) {
						sig = "diff-keys-spelled-with-other-separator"
					}
					s.fail(sig, "CompareConfigs(old, new, %s) reversed=%v: keep=%v add=%v remove=%v; want keep=%v add=%v remove=%v", optName(do, dsep), rev, gk, ga, gr, wk, wa, wr)
					return
				}
				s.res.Ev("diffs_compared", 1)
				if len(wa) > 0 && len(wr) > 0 {
					s.res.Ev("diffs_with_added_and_removed", 1)
				}
				if dsep != "." && (nested(old) || nested(want)) {
					s.res.Ev("diffs_other_sep_with_nested_keys", 1)
				}
			}
		}
	}
}

func optName(o []ucfg.Option, sep string) string {
	if o == nil {
		return "no options"
	}
	return fmt.Sprintf("PathSep(%q)", sep)
}

func (s *state) apiWalk(c *ucfg.Config, n *model.Node, q []string, sep string) {
	if s.failed {
		return
	}
	if p := c.Path(sep); p != strings.Join(q, sep) {
		sig := s.classify(join(q), "path-wrong")
		for _, sp := range sepPool {
			if sp != sep && p == strings.Join(q, sp) {
				sig = "path-spelled-with-other-separator"
			}
		}
		s.fail(sig, "config reached via %v reports Path(%q)=%q", q, sep, p)
		return
	}
	s.res.Eval(1)
	if len(q) > 0 && s.r.Intn(4) == 0 {
		// FlattenedKeys of a child handle: the settings below it, root-relative
		var want []string
		leafPaths(n, q, &want)
		fo, fsep := s.observer()
		got := c.FlattenedKeys(fo...)
		s.res.Eval(1)
		if wantS := respell(want, fsep); !eq(got, wantS) {
			sig := s.classify(join(q), "flattenedkeys-of-child-handle-mismatch")
			if foreign(got, want, fsep) {
				sig = "flattenedkeys-spelled-with-other-separator"
			}
			s.fail(sig, "FlattenedKeys(%s) of the handle for %v = %v want %v", optName(fo, fsep), q, got, wantS)
			return
		}
		s.res.Ev("flattenedkeys_of_child_handles_compared", 1)
	}
	visit := func(seg string, v *model.Node, name string, idx int) {
		if s.failed {
			return
		}
		w := cat(q, []string{seg})
		if p := c.PathOf(seg, sep); p != strings.Join(w, sep) {
			s.fail(s.classify(join(q), "pathof-wrong"), "config reached via %v reports PathOf(%q,%q)=%q", q, seg, sep, p)
			return
		}
		s.res.Eval(1)
		if !v.IsSub() || (len(v.D) == 0 && len(v.A) == 0) {
			return
		}
		ch, err := c.Child(name, idx, s.o()...)
		s.res.Eval(1)
		if err != nil {
			s.fail("child-error", "Child(%q,%d) below %v failed: %v", name, idx, q, err)
			return
		}
		if ch.Parent() != c {
			s.fail(s.classify(join(w), "parent-wrong"), "config reached at %q: Parent() is not the config it was reached from (Parent path %q)", join(w), pathOf(ch.Parent()))
			return
		}
		s.apiWalk(ch, v, w, sep)
	}
	for _, k := range n.SortedKeys() {
		visit(k, n.D[k], k, -1)
	}
	for i, v := range n.A {
		visit(strconv.Itoa(i), v, "", i)
	}
}

func pathOf(c *ucfg.Config) string {
	if c == nil {
		return "<nil>"
	}
	return c.Path(".")
}

func sorted(l []string) []string {
	o := append([]string{}, l...)
	sort.Strings(o)
	return o
}

func eq(a, b []string) bool { return strings.Join(a, "\n") == strings.Join(b, "\n") }

func partition(old, cur []string) (keep, add, remove []string) {
	o := map[string]bool{}
	for _, k := range old {
		o[k] = true
	}
	c := map[string]bool{}
	for _, k := range cur {
		c[k] = true
		if o[k] {
			keep = append(keep, k)
		} else {
			add = append(add, k)
		}
	}
	for _, k := range old {
		if !c[k] {
			remove = append(remove, k)
		}
	}
	return sorted(keep), sorted(add), sorted(remove)
}

func symdiff(a, b []string) []string {
	ca, cb := map[string]int{}, map[string]int{}
	for _, k := range a {
		ca[k]++
	}
	for _, k := range b {
		cb[k]++
	}
	var out []string
	for k, n := range ca {
		if cb[k] != n {
			out = append(out, k)
		}
	}
	for k := range cb {
		if _, ok := ca[k]; !ok {
			out = append(out, k)
		}
	}
	sort.Strings(out)
	return out
}
