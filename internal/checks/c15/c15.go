// Package c15: Path, Parent, FlattenedKeys and diff describe the actual structure.
package c15

import (
	"fmt"
	"math/rand"
	"sort"
	"strconv"
	"strings"

	ucfg "github.com/elastic/go-ucfg"
	"github.com/elastic/go-ucfg/diff"

	"verif/internal/gen"
	"verif/internal/harness"
	"verif/internal/model"
)

type check struct{}

func init() { harness.Register(check{}) }

func (check) ID() string { return "C15" }

func (check) Cases(tier string) int {
	if tier == "thorough" {
		return 200000
	}
	return 3000
}

func (check) Rule() string {
	return "a forest of up to 3 live configs: the first is built from a generated tree (every node a dictionary or a list, no references; root a dictionary, in 1 of 5 cases a list; in 1 of 8 cases below a spine of 5-259 further levels of dictionaries and lists, depths drawn around the powers of two), further ones come into being as merge operands that stay in use (a *Config, a wrapper whose child is merged) or as clones (NewFrom of a live root or child handle). Names come from a small pool that in 1 of 6 cases also holds the empty name and in 1 of 6 cases a name containing a separator of the pool other than the one the case splits names at. Go data (initial tree, merge operands, fresh children) is rendered as nested maps, interface-keyed maps or run-time built structs, in 1 of 3 renderings with dotted names: settings of nested dictionaries moved up under a name joined with the separator ({\"a.b\": X, a: {c: Y}}), X a primitive, an object or a list. History of 3-20 shape-aware operations, each issued on the root of one tree or on a handle obtained with Child for a randomly chosen container of it (addresses relative to that receiver, spelled with a per-case path separator from a pool): writes of primitives and fresh sub-configs at existing/new keys and list positions, also several (up to 80) levels below anything that exists (a container without named settings and without elements is written by name or by index, so emptied dictionaries become lists and emptied lists dictionaries), removals (biased to the middle of lists and to the last setting of a container), merges under default/append/prepend/replace/arr-replace of either a shape-compatible mutation of the receiver's subtree or a LIVE node (root or child of another tree, or a node of the same tree beside the receiver), re-attachment of an already parented child anywhere in any tree, also below itself (SetChild of a handle obtained with Child: a copy), SetChild of the root of the tree written to (must be refused or attach a copy), clones. Sixth wave: a merge step draws next to its global policy 0-2 per-field options (Field{Merge,Replace,Append,Prepend}Values, anywhere in the option list) on paths of 1-3 names/indices that exist below the receiver or in the operand (preferably in both) - the structure such a merge leaves is read back with the non-evaluating walk and all observers must describe it; 1 write in 9 is one that must be refused (position given by the idx argument beyond MaxIdx - default or given with the call - and beyond the end of an existing container or of one the write would have created 1-3 levels down; SetChild of a parentless config or a primitive): the child handed in stays parentless with an empty path and its own keys, the tree is as before. After EVERY step and for EVERY live tree: (1) hook walk: every stored field name equals the key/index actually leading to the node and every stored parent is the config actually holding it; (2) API walk: Child(...).Path(sep) and PathOf(field, sep) equal the address sequence and Parent() is the config it was reached from, FlattenedKeys of sampled child handles lists the root-relative paths below them; (3) FlattenedKeys equals the model's list of non-nil primitive leaf paths, each the names joined with the separator; (4) CompareConfigs equals the (kept, added, removed) partition of the two sets of path strings for (tree, equal copy: no change), (state before the step, tree) and (another live tree or an empty config, tree), in either order. Every observer call draws its own option list: no option at all (paths spelled with \".\") or PathSep with a separator from the pool (paths spelled with it). Non-trivial = history with >= 2 successful structural mutations; distinct = distinct (initial tree, history)."
}

func (check) Assumptions() []string {
	return []string{
		"tree-store and merge models as in C12/C01 predict the structure after each step",
		"FlattenedKeys lists non-nil primitive leaves only (empty containers and nils are not settings), as the statement says",
		"Path/PathOf/FlattenedKeys/CompareConfigs spell a path as its names and indices joined with the separator they are given (\".\" when FlattenedKeys/CompareConfigs get no option), whatever separator the config was built or written with. The statement demands no escaping: a name containing the separator makes two different paths one string (audit item 3) - then FlattenedKeys lists that string once per setting and CompareConfigs partitions the strings; names never contain \".\" (the hook spells walk paths with it)",
		"the empty string is a name like any other: a setting named \"\" below a has the path \"a.\" (audit item 1); the API cannot address the one-name path \"\", such nodes are reached through longer addresses or observed through FlattenedKeys only",
		"FlattenedKeys called on a child handle lists the settings below that child with root-relative paths (the statement says root-relative)",
		"Merge/NewFrom with a live *Config as source and SetChild of an already parented child copy: source and destination are independent configs afterwards, each describing its own structure",
		"SetChild of the root of the tree written to (the receiver itself or an ancestor) either fails and changes nothing or attaches a copy; a config that contains itself has no paths (audit item 4)",
		"a node with zero named settings that holds elements is a list (and one with named settings and no elements a dictionary) whatever it held earlier; merges never let named settings meet elements in one node",
		"a live node is merged only into a receiver outside its own subtree and not above it",
		"not generated: handles kept across the removal/replacement of their node (nodes no longer reachable in a config, audit item 6); Unpack and by-value copies of Config (Unpack is none of the merges, writes and removals of the statement, audit item 5)",
		"which settings and values a merge with per-field options yields is C16's subject: after such a merge the model is the structure found by the non-evaluating walk (names/indices followed, kinds, primitive values), and C15 demands that stored names, parents, Path, Parent, FlattenedKeys and the diffs describe that structure; drawn only for trees of at most 48 levels, paths without the empty name, two options never one inside the other",
		"a write whose idx argument lies beyond MaxIdx and beyond the end of the list is expected to be refused; if it is accepted the history ends unjudged (monitor writes_beyond_maxidx_that_were_accepted) - a refused write must change neither the tree nor the config handed in",
		"the verif hook walks 64 levels; stored names and parents further down are observed through Path/Parent/FlattenedKeys only",
	}
}

// sepPool: separators for addressed operations and for the observers. No name
// contains the separator its case addresses with, and none contains ".".
var sepPool = []string{".", "/", ":", "::", "|", "->"}

var treeOpts = gen.TreeOpts{NoEmpty: false, Prims: []interface{}{"s", "t", int64(-3), uint64(7), true, 2.5, ""}}

// join is the canonical (model side) spelling of a path.
func join(q []string) string { return strings.Join(q, ".") }

// o is the option list of the addressed operations of the case.
func (s *state) o() []ucfg.Option { return []ucfg.Option{ucfg.PathSep(s.sep)} }

// nm spells a path for the API with the separator of the case.
func (s *state) nm(q []string) string { return strings.Join(q, s.sep) }

// observer draws the option list of one observer call together with the
// separator the reported paths must then be spelled with.
func (s *state) observer() ([]ucfg.Option, string) {
	if s.fsep != "" && s.r.Intn(3) == 0 {
		// the separator that one of the names of the case contains
		s.res.SetAdd("observer_options", "PathSep("+s.fsep+")")
		s.res.Ev("observer_calls_with_separator_contained_in_a_name", 1)
		return []ucfg.Option{ucfg.PathSep(s.fsep)}, s.fsep
	}
	i := s.r.Intn(len(sepPool) + 2)
	if i >= len(sepPool) {
		s.res.SetAdd("observer_options", "<none>")
		return nil, "."
	}
	s.res.SetAdd("observer_options", "PathSep("+sepPool[i]+")")
	return []ucfg.Option{ucfg.PathSep(sepPool[i])}, sepPool[i]
}

// respell turns canonical paths into the spelling with sep, sorted.
func respell(keys []string, sep string) []string {
	out := make([]string, len(keys))
	for i, k := range keys {
		out[i] = strings.ReplaceAll(k, ".", sep)
	}
	sort.Strings(out)
	return out
}

// foreign reports whether some key is no path of the universe in the
// requested spelling but is one in the spelling of another separator.
func foreign(keys, universe []string, sep string) bool {
	in := map[string]bool{}
	for _, k := range respell(universe, sep) {
		in[k] = true
	}
	for _, sp := range sepPool {
		if sp == sep {
			continue
		}
		alt := map[string]bool{}
		for _, k := range respell(universe, sp) {
			alt[k] = true
		}
		for _, k := range keys {
			if !in[k] && alt[k] {
				return true
			}
		}
	}
	return false
}

func nested(keys []string) bool {
	for _, k := range keys {
		if strings.Contains(k, ".") {
			return true
		}
	}
	return false
}

// nodesOf lists the paths of all nodes of the wanted kind.
func nodesOf(n *model.Node, q []string, want func(*model.Node) bool, out *[][]string) {
	if want(n) {
		*out = append(*out, append([]string{}, q...))
	}
	if !n.IsSub() {
		return
	}
	for _, k := range n.SortedKeys() {
		nodesOf(n.D[k], append(q, k), want, out)
	}
	for i, v := range n.A {
		nodesOf(v, append(q, strconv.Itoa(i)), want, out)
	}
}

func at(n *model.Node, q []string) *model.Node {
	for _, s := range q {
		if n == nil || !n.IsSub() {
			return nil
		}
		if i, err := strconv.Atoi(s); err == nil {
			if i >= len(n.A) {
				return nil
			}
			n = n.A[i]
		} else {
			n = n.D[s]
		}
	}
	return n
}

func isList(n *model.Node) bool { return n.IsSub() && (n.HasA || len(n.A) > 0) && len(n.D) == 0 }
func isDict(n *model.Node) bool { return n.IsSub() && !isList(n) }

func cat(a, b []string) []string { return append(append([]string{}, a...), b...) }

// compat makes b shape-compatible with cur: where one holds a dictionary and
// the other a list, b's node is replaced by a primitive (the quantifier of C15
// excludes nodes that are both).
func compat(cur, b *model.Node) *model.Node {
	eitherOr(b)
	return compat1(cur, b)
}

// eitherOr makes every node of b a dictionary or a list: a mutation of a
// blank node that received a list part may add keys to it; such a node keeps
// its dictionary part only (which is also all that ToGo would render).
func eitherOr(b *model.Node) {
	if !b.IsSub() {
		return
	}
	if len(b.D) > 0 && (len(b.A) > 0 || b.HasA) {
		b.A, b.HasA = nil, false
	}
	for _, v := range b.D {
		eitherOr(v)
	}
	for _, v := range b.A {
		eitherOr(v)
	}
}

func compat1(cur, b *model.Node) *model.Node {
	if cur == nil || !cur.IsSub() || !b.IsSub() {
		return b
	}
	curBlank := len(cur.D) == 0 && len(cur.A) == 0 && !cur.HasA
	bBlank := len(b.D) == 0 && len(b.A) == 0 && !b.HasA
	if !curBlank && !bBlank && isList(cur) != isList(b) {
		return model.P("shape")
	}
	for k, v := range b.D {
		b.D[k] = compat1(cur.D[k], v)
	}
	for i, v := range b.A {
		if i < len(cur.A) {
			b.A[i] = compat1(cur.A[i], v)
		}
	}
	return b
}

func leafPaths(n *model.Node, q []string, out *[]string) {
	switch {
	case n == nil || n.Kind == model.KNil:
	case n.Kind == model.KPrim:
		*out = append(*out, join(q))
	default:
		for k, v := range n.D {
			leafPaths(v, append(q, k), out)
		}
		for i, v := range n.A {
			leafPaths(v, append(q, strconv.Itoa(i)), out)
		}
	}
}

// tree is one live configuration of the forest together with its model.
type tree struct {
	c *ucfg.Config
	m *model.Node
}

// maxTrees bounds the forest: the initial config plus configs that came into
// being as merge operands or clones and stay in use afterwards.
const maxTrees = 3

// event records where one step of the history changed the structure and which
// narrow signature a deviation found at or below that place gets ("" = the
// generic signature of the observation that failed).
type event struct {
	t    int    // index of the tree
	path string // "."-joined absolute path of the container the step worked on
	sig  string
}

type state struct {
	res    *harness.R
	r      *rand.Rand
	trees  []*tree
	sep    string // separator of all addressed operations of the case
	log    []string
	muts   int
	failed bool
	events []event      // bookkeeping for the classifier, one or two per step
	keys   []string     // names of the case
	topts  gen.TreeOpts // tree generator options with those names
	fsep   string       // separator contained in one name of the case ("" = none)
	// FlattenedKeys calls on child handles left for the API walk in progress
	handleKeysLeft int
	// nodes of the Go value about to be rendered that are given as a *Config
	embed map[*model.Node]*ucfg.Config
	// names that configs embedded by the step in progress have at home
	lastHomes map[string]bool
	// configs whose children were embedded in a merged value: they are only read
	pending []lent
	// containers that lost their last named setting / last element by a removal
	emptiedDict, emptiedList map[*model.Node]bool
}

// maxDepth bounds what a step may build: every look at a tree costs
// (settings) x (depth)^2 in the library's path builder.
const maxDepth = 280

func height(n *model.Node) int {
	h := 0
	if n.IsSub() {
		for _, v := range n.D {
			if x := 1 + height(v); x > h {
				h = x
			}
		}
		for _, v := range n.A {
			if x := 1 + height(v); x > h {
				h = x
			}
		}
	}
	return h
}

func blank(n *model.Node) bool { return n.IsSub() && len(n.D) == 0 && len(n.A) == 0 }

// shapesAgree: merging b into cur never lets a dictionary meet a list.
func shapesAgree(cur, b *model.Node) bool {
	if cur == nil || !cur.IsSub() || !b.IsSub() {
		return true
	}
	if !blank(cur) && !blank(b) && isList(cur) != isList(b) {
		return false
	}
	for k, v := range b.D {
		if !shapesAgree(cur.D[k], v) {
			return false
		}
	}
	for i, v := range b.A {
		if i < len(cur.A) && !shapesAgree(cur.A[i], v) {
			return false
		}
	}
	return true
}

func disjoint(a, b []string) bool {
	ja, jb := join(a)+".", join(b)+"."
	return len(a) > 0 && len(b) > 0 && !strings.HasPrefix(ja, jb) && !strings.HasPrefix(jb, ja)
}

func (s *state) fail(sig, format string, a ...interface{}) {
	s.failed = true
	s.res.Violate(sig, "%s; history=[%s]", fmt.Sprintf(format, a...), strings.Join(s.log, "; "))
}

// classify narrows a structural deviation at walk path w (canonical spelling)
// of tree t to the most recent step of the history that worked at or above w.
func (s *state) classify(t int, w string, generic string) string {
	for i := len(s.events) - 1; i >= 0; i-- {
		e := s.events[i]
		if e.t == t && (e.path == "" || w == e.path || strings.HasPrefix(w, e.path+".")) {
			if e.sig != "" {
				return e.sig
			}
			return generic
		}
	}
	return generic
}

// address renders a path as (name, idx), choosing a spelling.
func (s *state) address(q []string) (string, int) {
	if len(q) == 0 {
		return "", -1
	}
	last := q[len(q)-1]
	if i, err := strconv.Atoi(last); err == nil && (len(q) == 1 || (s.r.Intn(2) == 0 && s.nm(q[:len(q)-1]) != "")) {
		return s.nm(q[:len(q)-1]), i
	}
	return s.nm(q), -1
}

// addressable: the API cannot name the one-segment path made of the empty
// name (an empty name argument means "by index"); every other path it can.
func addressable(q []string) bool { return !(len(q) == 1 && q[0] == "") }

// handle returns the config stored at path q of tree t (the root for q = nil).
func (s *state) handle(t int, q []string) (*ucfg.Config, string, error) {
	if len(q) == 0 {
		return s.trees[t].c, fmt.Sprintf("T%d", t), nil
	}
	if !addressable(q) {
		return nil, "", fmt.Errorf("the setting named \"\" of a root has no address")
	}
	name, idx := s.address(q)
	h, err := s.trees[t].c.Child(name, idx, s.o()...)
	s.res.Eval(1)
	return h, fmt.Sprintf("T%d.Child(%q,%d)", t, name, idx), err
}

// key draws a name of the case; first = it would be the whole address (the
// empty name alone cannot be passed to the API).
func (s *state) key(first bool) string {
	k := s.keys[s.r.Intn(len(s.keys))]
	if k == "" && first {
		k = gen.Keys[s.r.Intn(len(gen.Keys))]
	}
	return k
}

// drawDepth draws a nesting depth: small ones, and the neighbourhood of the
// powers of two up to 256.
func drawDepth(r *rand.Rand) int {
	if r.Intn(3) == 0 {
		return 5 + r.Intn(36)
	}
	return (16 << uint([]int{0, 0, 1, 1, 1, 2, 2, 3, 4}[r.Intn(9)])) - 1 + r.Intn(5)
}

// spine puts inner below d levels of dictionaries and lists (some with
// further settings beside the way down); the root keeps the kind of inner's root.
func (s *state) spine(d int, inner *model.Node) *model.Node {
	r := s.r
	wantList := isList(inner)
	cur := inner
	for i := 0; i < d; i++ {
		asList := r.Intn(4) == 0
		if i == d-1 {
			asList = wantList
		}
		if asList {
			els := make([]*model.Node, 1+r.Intn(3))
			for j := range els {
				els[j] = model.P(int64(j))
			}
			els[r.Intn(len(els))] = cur
			cur = model.List(els...)
		} else {
			n := model.Dict()
			n.D[s.key(false)] = cur
			if r.Intn(4) == 0 {
				if k := s.key(false); n.D[k] == nil {
					n.D[k] = model.P("side")
				}
			}
			cur = n
		}
	}
	return cur
}

// lent is a config made for one operand: its setting at home was placed
// inside the Go value given to Merge/NewFrom. Afterwards it must be as before.
type lent struct {
	w, h *ucfg.Config
	home []string
	m    *model.Node
}

// toGo renders nested maps (string or interface keys) and slices; a node
// listed in s.embed is given as the *Config that holds the same settings.
func (s *state) toGo(n *model.Node, ikeys bool) interface{} {
	if c := s.embed[n]; c != nil {
		return c
	}
	switch {
	case n == nil || n.Kind == model.KNil:
		return nil
	case n.Kind == model.KPrim:
		return n.Prim
	case (n.HasA || len(n.A) > 0) && len(n.D) == 0:
		l := make([]interface{}, 0, len(n.A))
		for _, v := range n.A {
			l = append(l, s.toGo(v, ikeys))
		}
		return l
	case ikeys:
		m := make(map[interface{}]interface{}, len(n.D))
		for k, v := range n.D {
			m[k] = s.toGo(v, ikeys)
		}
		return m
	}
	m := make(map[string]interface{}, len(n.D))
	for k, v := range n.D {
		m[k] = s.toGo(v, ikeys)
	}
	return m
}

// embedSome picks containers inside n (not n itself) that the rendering will
// hand over as a *Config instead of as Go data: a fresh root, or the child
// handle of a config made for the purpose, stored there under another name
// (or as a list element) than the place in n has.
func (s *state) embedSome(n *model.Node) {
	r := s.r
	if !n.IsSub() || r.Intn(3) > 0 {
		return
	}
	var qs [][]string
	nodesOf(n, nil, func(x *model.Node) bool { return x.IsSub() && !blank(x) }, &qs)
	if len(qs) > 0 && len(qs[0]) == 0 {
		qs = qs[1:]
	}
	for i := 1 + r.Intn(2); i > 0 && len(qs) > 0; i-- {
		q := qs[r.Intn(len(qs))]
		x := at(n, q)
		if s.embed[x] != nil {
			continue
		}
		var c *ucfg.Config
		kind := ""
		switch r.Intn(3) {
		case 0:
			if fc, err := ucfg.NewFrom(x.ToGo(), s.o()...); err == nil {
				c, kind = fc, "fresh_root"
			}
		case 1:
			home := s.key(true)
			wm := model.Dict().Set(home, x.Copy())
			if w, err := ucfg.NewFrom(wm.ToGo(), s.o()...); err == nil {
				if h, err := w.Child(home, -1, s.o()...); err == nil {
					c, kind = h, "child_of_other_config"
					s.pending = append(s.pending, lent{w, h, []string{home}, wm})
					s.lastHomes[home] = true
				}
			}
		default:
			els := []*model.Node{model.P("x"), model.P("y"), model.P("z")}
			i := r.Intn(len(els))
			els[i] = x.Copy()
			wm := model.Dict().Set("l", model.List(els...))
			if w, err := ucfg.NewFrom(wm.ToGo(), s.o()...); err == nil {
				if h, err := w.Child("l", i, s.o()...); err == nil {
					c, kind = h, "element_of_other_configs_list"
					s.pending = append(s.pending, lent{w, h, []string{"l", strconv.Itoa(i)}, wm})
					s.lastHomes[strconv.Itoa(i)] = true
				}
			}
		}
		if c == nil {
			continue
		}
		s.embed[x] = c
		s.res.Ev("configs_inside_go_data_"+kind, 1)
		s.noteEmbed(n, q)
	}
}

// noteEmbed counts where in the value a config sits.
func (s *state) noteEmbed(n *model.Node, q []string) {
	if isList(at(n, q[:len(q)-1])) {
		s.res.Ev("configs_inside_go_data_as_list_element", 1)
	} else if len(q) >= 2 {
		s.res.Ev("configs_inside_go_data_two_or_more_maps_down", 1)
	} else {
		s.res.Ev("configs_inside_go_data_as_top_level_map_value", 1)
	}
}

// dotted re-spells a tree for input with PathSep: some settings of nested
// dictionaries move up under a name joined with the separator of the case
// ({a:{b:X,c:Y}} becomes {"a.b":X, a:{c:Y}} or {"a.b":X, "a.c":Y}), whatever
// X is - a primitive, an object or a list. The tree described stays the same.
func (s *state) dotted(n *model.Node, st *[3]int64) *model.Node {
	if s.embed[n] != nil {
		return n // given as a *Config: the node itself stands for it
	}
	if !n.IsSub() {
		return n.Copy()
	}
	out := &model.Node{Kind: model.KSub, HasA: n.HasA}
	for _, e := range n.A {
		out.A = append(out.A, s.dotted(e, st))
	}
	if n.D != nil {
		out.D = map[string]*model.Node{}
	}
	for _, k := range n.SortedKeys() {
		c := s.dotted(n.D[k], st)
		if !c.IsSub() || len(c.D) == 0 || len(c.A) > 0 || s.embed[c] != nil || s.r.Intn(2) == 0 {
			out.D[k] = c
			continue
		}
		rest := model.Dict()
		for _, ck := range c.SortedKeys() {
			if s.r.Intn(3) == 0 {
				rest.D[ck] = c.D[ck]
				continue
			}
			out.D[k+s.sep+ck] = c.D[ck]
			if c.D[ck].IsSub() {
				st[0]++
			} else {
				st[1]++
			}
		}
		if len(rest.D) > 0 {
			out.D[k] = rest
			if len(rest.D) < len(c.D) {
				st[2]++
			}
		}
	}
	return out
}

// render chooses a Go representation of a tree: nested maps, maps with
// interface keys, run-time built structs (names as tags), each of them either
// spelled as it is or with dotted names.
func (s *state) render(n *model.Node) (interface{}, string) {
	if s.embed == nil {
		s.embed = map[*model.Node]*ucfg.Config{}
	}
	if s.lastHomes == nil {
		s.lastHomes = map[string]bool{}
	}
	s.embedSome(n)
	defer func() { s.embed = nil }()
	how := ""
	if len(s.embed) > 0 {
		how = "with-configs-inside-"
	}
	if s.r.Intn(3) == 0 {
		var st [3]int64
		if d := s.dotted(n, &st); st[0]+st[1] > 0 {
			n, how = d, "dotted-"
			s.res.Ev("dotted_input_names_with_object_or_list_value", st[0])
			s.res.Ev("dotted_input_names_with_primitive_value", st[1])
			s.res.Ev("namespaces_spelled_twice_in_one_input", st[2])
		}
	}
	var data interface{}
	switch x := s.r.Intn(6); {
	case x == 0:
		data, how = s.toGo(n, true), how+"mapi"
	case x == 1 && n.IsSub() && !n.HasA && len(n.A) == 0 && len(s.embed) == 0:
		if v, ok := gen.ToStruct(s.r, n); ok && v != nil {
			data, how = v, how+"struct"
			break
		}
		fallthrough
	default:
		data, how = s.toGo(n, false), how+"maps"
	}
	s.res.SetAdd("go_data_rendering", how)
	return data, how
}

// rootList generates a non-empty top-level list.
func rootList(r *rand.Rand, o gen.TreeOpts) *model.Node {
	for {
		n := gen.Top(r, o, 3)
		if isList(n) && len(n.A) > 0 {
			return n
		}
	}
}

func (check) Run(seed int64, tier string, idx int, verbose bool) harness.Result {
	res := harness.NewR(idx)
	r := rand.New(rand.NewSource(harness.Mix(seed, "C15", idx)))
	s := &state{res: res, r: r, sep: ".", emptiedDict: map[*model.Node]bool{}, emptiedList: map[*model.Node]bool{}}
	if r.Intn(2) == 0 {
		s.sep = sepPool[r.Intn(len(sepPool))]
	}
	res.SetAdd("operation_sep", s.sep)
	// names of the case: the small pool, in some cases also the empty name and
	// a name that contains a separator of the pool other than the one the
	// operations of the case split names at (and never ".", see Assumptions)
	s.keys = append([]string{}, gen.Keys...)
	if r.Intn(6) == 0 {
		s.keys = append(s.keys, "")
		res.Ev("cases_with_empty_name_in_pool", 1)
	}
	if r.Intn(6) == 0 {
		var fs []string
		for _, f := range sepPool {
			if f != "." && !strings.Contains(f, s.sep) && !strings.Contains(s.sep, f) {
				fs = append(fs, f)
			}
		}
		s.fsep = fs[r.Intn(len(fs))]
		s.keys = append(s.keys, gen.Keys[r.Intn(len(gen.Keys))]+s.fsep+gen.Keys[r.Intn(len(gen.Keys))])
		res.Ev("cases_with_name_containing_other_separator", 1)
	}
	s.topts = treeOpts
	s.topts.Keys = s.keys
	var m *model.Node
	if r.Intn(5) == 0 {
		m = rootList(r, s.topts)
		res.Ev("cases_with_list_root", 1)
	} else {
		m = gen.TopDict(r, s.topts, 3)
	}
	deep := 0
	if r.Intn(8) == 0 {
		d := drawDepth(r)
		deep = d
		m = s.spine(d, m)
		res.Ev("cases_with_deep_initial_tree", 1)
		res.SetAdd("initial_spine_depth", strconv.Itoa(d))
	}
	panicked, pv, where := harness.Safe(func() {
		data, how := s.render(m)
		c, err := ucfg.NewFrom(data, s.o()...)
		res.Eval(1)
		if err != nil {
			s.fail("newfrom-error", "NewFrom(%s as %s): %v", m, how, err)
			return
		}
		s.trees = []*tree{{c, m}}
		s.log = append(s.log, fmt.Sprintf("sep=%q T0=NewFrom[%s](%s)", s.sep, how, m))
		s.verify(-1, nil)
		n := 3 + r.Intn(18)
		if deep > 70 {
			n = 3 + r.Intn(5) // every look at such a tree costs (settings) x (depth)^2
		}
		for i := 0; i < n && !s.failed; i++ {
			if s.step() {
				break
			}
		}
	})
	if panicked {
		s.fail("panic", "panic %q at %s", pv, where)
	}
	if s.muts >= 2 {
		res.Key(strings.Join(s.log, ";"))
	}
	if idx < 2 {
		res.Sample = s.log
	}
	if verbose {
		fmt.Println(strings.Join(s.log, "\n"))
		for i, t := range s.trees {
			fmt.Printf("final model T%d: %s\n", i, t.m)
		}
	}
	res.Ev("live_configs_at_end_of_history", int64(len(s.trees)))
	return res.Done()
}

// receiver chooses the config the next operation is issued on: the root of
// tree t or a handle (obtained with Child) of a container somewhere in it.
// rq is its absolute path, rm its model node, kind names what it is.
func (s *state) receiver(t int) (recv *ucfg.Config, rq []string, rm *model.Node, kind, pfx string) {
	tr := s.trees[t]
	if s.r.Intn(2) == 0 {
		var cand [][]string
		nodesOf(tr.m, nil, func(n *model.Node) bool { return n.IsSub() }, &cand)
		cand = cand[1:] // the root itself
		if len(cand) > 0 && !addressable(cand[0]) {
			cand = cand[1:] // sorts first: the node named "" of the root cannot be asked for
		}
		if len(cand) > 0 {
			rq = cand[s.r.Intn(len(cand))]
		}
	}
	recv, pfx, err := s.handle(t, rq)
	if err != nil {
		if n := at(tr.m, rq); !blank(n) {
			s.fail("child-error", "%s of the non-empty container at %v failed: %v", pfx, rq, err)
			return nil, nil, nil, "", ""
		}
		// a container without settings may read as nil: work on the root instead
		s.res.Ev("blank_container_without_handle", 1)
		rq = nil
		recv, pfx, _ = s.handle(t, nil)
	}
	rm = at(tr.m, rq)
	where := "root"
	if len(rq) > 0 {
		where = "handle"
	}
	switch {
	case blank(rm):
		kind = where + "-blank"
	case isList(rm):
		kind = where + "-list"
	default:
		kind = where + "-dict"
	}
	s.res.SetAdd("receiver", kind)
	return recv, rq, rm, kind, pfx + "."
}

func flds(full []string) []model.Fld {
	var fs []model.Fld
	for _, sg := range full {
		fs = append(fs, model.ParseField(sg, 1024))
	}
	return fs
}

// step performs one operation; returns true if the history must end.
func (s *state) step() bool {
	r := s.r
	s.lastHomes = map[string]bool{}
	op := r.Intn(25)
	t := r.Intn(len(s.trees))
	tr := s.trees[t]
	prev := tr.m.Copy()
	switch {
	case op < 7: // write into a dictionary or a list
		recv, rq, rm, kind, pfx := s.receiver(t)
		if recv == nil {
			return true
		}
		var cont, blanks [][]string
		nodesOf(rm, nil, func(n *model.Node) bool { return n.IsSub() }, &cont)
		nodesOf(rm, nil, blank, &blanks)
		q := cont[r.Intn(len(cont))]
		if len(blanks) > 0 && r.Intn(3) == 0 {
			q = blanks[r.Intn(len(blanks))]
		}
		n := at(rm, q)
		if r.Intn(9) == 0 {
			return s.refusedWrite(t, prev, recv, rq, q, n, kind, pfx)
		}
		var seg string
		switch {
		case blank(n):
			// no named setting and no element: both a dictionary and a list to be
			if r.Intn(2) == 0 {
				seg = "0"
			} else {
				seg = s.key(len(q) == 0)
			}
			switch {
			case seg == "0" && s.emptiedDict[n]:
				s.res.Ev("emptied_dictionary_then_filled_by_index", 1)
			case seg != "0" && s.emptiedList[n]:
				s.res.Ev("emptied_list_then_given_names", 1)
			}
			s.res.Ev("writes_into_blank_container", 1)
		case isList(n):
			seg = strconv.Itoa(r.Intn(len(n.A) + 1)) // overwrite or append; no padding (nil elements are fine too but keep lists dense)
		default:
			seg = s.key(len(q) == 0)
		}
		full := cat(q, []string{seg})
		if i, e := strconv.Atoi(seg); (e == nil && i >= len(n.A) || e != nil && n.D[seg] == nil) && r.Intn(6) == 0 {
			// nothing is stored there yet: continue the address, the levels in
			// between come into being with the write (a few, sometimes many)
			k := 1 + r.Intn(3)
			if r.Intn(5) == 0 {
				if k = drawDepth(r); k > 80 {
					k = 80
				}
			}
			for i := 0; i < k; i++ {
				if r.Intn(4) == 0 {
					full = append(full, "0")
				} else {
					full = append(full, s.key(false))
				}
			}
			s.res.Ev("writes_creating_intermediate_levels", 1)
			if k > 32 {
				s.res.Ev("writes_creating_more_than_32_levels", 1)
			}
		}
		if len(rq)+len(full) > maxDepth {
			return false
		}
		name, idx := s.address(full)
		var val *model.Node
		var err error
		if r.Intn(3) == 0 {
			val = gen.Tree(r, s.topts, 2)
			for !val.IsSub() {
				val = gen.Tree(r, s.topts, 2)
			}
			data, _ := s.render(val)
			sc, e := ucfg.NewFrom(map[string]interface{}{"w": data}, s.o()...)
			if e != nil {
				return false
			}
			ch, e := sc.Child("w", -1)
			if e != nil {
				return false
			}
			// a fresh, parentless config with the same contents
			fresh := ucfg.New()
			if e := fresh.Merge(ch); e != nil {
				s.fail("merge-error", "Merge into fresh config failed: %v", e)
				return true
			}
			err = recv.SetChild(name, idx, fresh, s.o()...)
			s.log = append(s.log, fmt.Sprintf("%sSetChild(%q,%d,%s)", pfx, name, idx, val))
			s.res.SetAdd("op", "setchild-fresh@"+kind)
		} else {
			x := []interface{}{"w", int64(-9), uint64(4), true, 1.5}[r.Intn(5)]
			val = model.P(x)
			switch v := x.(type) {
			case string:
				err = recv.SetString(name, idx, v, s.o()...)
			case int64:
				err = recv.SetInt(name, idx, v, s.o()...)
			case uint64:
				err = recv.SetUint(name, idx, v, s.o()...)
			case bool:
				err = recv.SetBool(name, idx, v, s.o()...)
			case float64:
				err = recv.SetFloat(name, idx, v, s.o()...)
			}
			s.log = append(s.log, fmt.Sprintf("%sSet(%q,%d,%v)", pfx, name, idx, x))
			s.res.SetAdd("op", "set-primitive@"+kind)
		}
		s.res.Eval(1)
		if err != nil {
			s.fail("set-error", "write at %v below %v failed: %v", full, rq, err)
			return true
		}
		if !model.Set(rm, flds(full), val.Copy()) {
			s.fail("model-error", "model rejected write at %v below %v", full, rq)
			return true
		}
		s.events = append(s.events, event{t, join(cat(rq, q)), ""})
		s.muts++
		if len(rq) > 0 {
			s.res.Ev("writes_and_removals_through_handle", 1)
		}
	case op < 12: // removal, biased to the middle of lists and to last settings
		recv, rq, rm, kind, pfx := s.receiver(t)
		if recv == nil {
			return true
		}
		var cand, single [][]string
		nodesOf(rm, nil, func(n *model.Node) bool { return isList(n) && len(n.A) >= 2 }, &cand)
		nodesOf(rm, nil, func(n *model.Node) bool { return n.IsSub() && len(n.D)+len(n.A) == 1 }, &single)
		var full []string
		switch x := r.Intn(8); {
		case len(single) > 0 && x < 2: // the last named setting / the last element goes
			q := single[r.Intn(len(single))]
			n := at(rm, q)
			if len(n.A) == 1 {
				full = cat(q, []string{"0"})
				s.emptiedList[n] = true
			} else {
				full = cat(q, n.SortedKeys())
				s.emptiedDict[n] = true
			}
			s.events = append(s.events, event{t, join(cat(rq, q)), ""})
			s.res.Ev("removals_emptying_a_container", 1)
		case len(cand) > 0 && x < 7:
			q := cand[r.Intn(len(cand))]
			n := at(rm, q)
			i := r.Intn(len(n.A) - 1) // never the last element: later ones must shift
			full = cat(q, []string{strconv.Itoa(i)})
			s.events = append(s.events, event{t, join(cat(rq, q)), "stale-index-after-list-remove"})
			s.res.Ev("removals_from_middle_of_list", 1)
		default:
			var dicts [][]string
			nodesOf(rm, nil, func(n *model.Node) bool { return isDict(n) && len(n.D) > 0 }, &dicts)
			if len(dicts) == 0 {
				return false
			}
			q := dicts[r.Intn(len(dicts))]
			n := at(rm, q)
			ks := n.SortedKeys()
			full = cat(q, []string{ks[r.Intn(len(ks))]})
			if len(ks) == 1 {
				s.emptiedDict[n] = true
			}
			s.events = append(s.events, event{t, join(cat(rq, q)), ""})
		}
		if !addressable(full) {
			// the setting named "" of the receiver itself cannot be named in a call
			s.events = s.events[:len(s.events)-1]
			delete(s.emptiedDict, rm)
			return false
		}
		name, idx := s.address(full)
		ok, err := recv.Remove(name, idx, s.o()...)
		s.res.Eval(1)
		s.log = append(s.log, fmt.Sprintf("%sRemove(%q,%d)", pfx, name, idx))
		if err != nil || !ok {
			s.fail("remove-outcome", "Remove(%v) below %v returned (%v,%v), expected removal", full, rq, ok, err)
			return true
		}
		model.Remove(rm, flds(full))
		s.muts++
		s.res.SetAdd("op", "remove@"+kind)
		if len(rq) > 0 {
			s.res.Ev("writes_and_removals_through_handle", 1)
		}
	case op < 19: // merge into the receiver: a mutation of its subtree or a live node
		recv, rq, rm, kind, pfx := s.receiver(t)
		if recv == nil {
			return true
		}
		pols := []struct {
			p model.Policy
			o ucfg.Option
		}{{model.PDefault, nil}, {model.PAppend, ucfg.AppendValues}, {model.PPrepend, ucfg.PrependValues}, {model.PReplace, ucfg.ReplaceValues}, {model.PArrReplace, ucfg.ReplaceArrValues}}
		pol := pols[r.Intn(len(pols))]
		form := r.Intn(6)
		mo := s.o()
		if pol.o != nil {
			mo = append(mo, pol.o)
		}
		var b *model.Node
		var operand interface{}
		fname, liveInside := "", ""
		srcT, srcPath := -1, ""
		if form >= 4 {
			// a live node: the root or a child handle of another tree, or a node
			// of the same tree that lies beside the receiver
			type cnd struct {
				t int
				q []string
			}
			var cands []cnd
			for j, o := range s.trees {
				var qs [][]string
				nodesOf(o.m, nil, func(n *model.Node) bool { return n.IsSub() && !blank(n) }, &qs)
				for _, q := range qs {
					if j == t && !disjoint(q, rq) {
						continue
					}
					if n := at(o.m, q); (blank(rm) || isList(n) == isList(rm)) && shapesAgree(rm, n) {
						cands = append(cands, cnd{j, q})
					}
				}
			}
			if len(cands) > 0 {
				c := cands[r.Intn(len(cands))]
				if h, desc, err := s.handle(c.t, c.q); err == nil {
					b, operand = at(s.trees[c.t].m, c.q).Copy(), h
					srcT, srcPath = c.t, join(c.q)
					fname = "live:" + desc
					switch {
					case c.t == t:
						s.res.Ev("merges_of_live_node_of_same_tree", 1)
					case len(c.q) == 0:
						s.res.Ev("merges_of_live_root_of_other_tree", 1)
					default:
						s.res.Ev("merges_of_live_child_of_other_tree", 1)
					}
				}
			}
		}
		if operand == nil {
			if blank(rm) && r.Intn(2) == 0 {
				b = compat(rm, gen.Top(r, s.topts, 2))
			} else {
				b = compat(rm, gen.MutateTop(r, s.topts, rm, 3))
			}
			if !b.IsSub() || (!blank(rm) && isList(b) != isList(rm)) {
				return false // a dictionary receiver gets a map, a list receiver a list
			}
			if form < 2 && r.Intn(4) == 0 {
				// somewhere inside the Go value sits a LIVE node (root or child
				// handle of a tree of the forest), under a name or index of its own
				type cnd struct {
					t int
					q []string
				}
				var cands []cnd
				for j, o := range s.trees {
					var qs [][]string
					nodesOf(o.m, nil, func(n *model.Node) bool { return n.IsSub() && !blank(n) }, &qs)
					for _, q := range qs {
						if (j != t || disjoint(q, rq)) && addressable(q) {
							cands = append(cands, cnd{j, q})
						}
					}
				}
				var ps [][]string
				nodesOf(b, nil, func(n *model.Node) bool { return n.IsSub() }, &ps)
				if len(cands) > 0 {
					L, pq := cands[r.Intn(len(cands))], ps[r.Intn(len(ps))]
					P, lm := at(b, pq), at(s.trees[L.t].m, L.q).Copy()
					seg, undo := "", func() {}
					if isList(P) {
						seg = strconv.Itoa(len(P.A))
						P.A = append(P.A, lm)
						undo = func() { P.A = P.A[:len(P.A)-1] }
					} else if seg = s.key(false); P.D[seg] == nil {
						P.Set(seg, lm)
						undo = func() { delete(P.D, seg) }
					} else {
						lm = nil
					}
					if lm != nil {
						h, desc, err := s.handle(L.t, L.q)
						if err != nil || !shapesAgree(rm, b) || len(rq)+height(b) > maxDepth {
							undo()
						} else {
							s.embed = map[*model.Node]*ucfg.Config{lm: h}
							if s.lastHomes == nil {
								s.lastHomes = map[string]bool{}
							}
							if len(L.q) > 0 {
								s.lastHomes[L.q[len(L.q)-1]] = true
							}
							srcT, srcPath = L.t, join(L.q)
							liveInside = fmt.Sprintf(" %s=%s", s.nm(cat(pq, []string{seg})), desc)
							s.res.Ev("configs_inside_go_data_live_node", 1)
							s.noteEmbed(b, cat(pq, []string{seg}))
						}
					}
				}
			}
			// operand form: Go data, a parentless *Config, a child handle of another
			// config; the configs stay in use as further trees while there is room
			data, how := s.render(b)
			how += liveInside
			operand, fname = data, "go-data:"+how
			switch form {
			case 2:
				if oc, e := ucfg.NewFrom(data, s.o()...); e == nil {
					operand, fname = oc, "config"
					if len(s.trees) < maxTrees {
						s.trees = append(s.trees, &tree{oc, b.Copy()})
						srcT, srcPath = len(s.trees)-1, ""
						fname = fmt.Sprintf("config kept as T%d", srcT)
					}
				}
			case 3:
				if wc, e := ucfg.NewFrom(map[string]interface{}{"w": data}, s.o()...); e == nil {
					if ch, e := wc.Child("w", -1); e == nil {
						operand, fname = ch, "child-of-other-config"
						if len(s.trees) < maxTrees {
							s.trees = append(s.trees, &tree{wc, model.Dict().Set("w", b.Copy())})
							srcT, srcPath = len(s.trees)-1, "w"
							fname = fmt.Sprintf("Child(\"w\") of {w:...} kept as T%d", srcT)
						}
					}
				}
			}
		}
		if len(rq)+height(b) > maxDepth {
			return false
		}
		moving := isList(rm) && len(rm.A) > 0 && len(b.A) > 0 && pol.p == model.PPrepend
		if blank(rm) && len(b.A) > 0 && s.emptiedDict[rm] {
			s.res.Ev("emptied_dictionary_then_list_merged_in", 1)
		}
		if blank(rm) && len(b.D) > 0 && s.emptiedList[rm] {
			s.res.Ev("emptied_list_then_map_merged_in", 1)
		}
		// 0-2 per-field options next to the global policy, on paths (relative
		// to the receiver, dot notation) that exist in the receiver or the operand
		fos := s.fieldOptions(t, rq, rm, b, pol.p)
		for _, f := range fos {
			pos := s.r.Intn(len(mo) + 1) // anywhere in the option list
			mo = append(mo[:pos:pos], append([]ucfg.Option{f.o}, mo[pos:]...)...)
		}
		err := recv.Merge(operand, mo...)
		s.res.Eval(1)
		s.log = append(s.log, fmt.Sprintf("%sMerge[%v%s,%s](%s)", pfx, pol.p, describe(fos), fname, b))
		if err != nil {
			s.fail("merge-error", "Merge into %s at %v failed: %v", kind, rq, err)
			return true
		}
		model.Merge(rm, b.Copy(), nil, model.Global(pol.p))
		sig := ""
		if kind != "root-dict" {
			sig = "wrong-context-after-" + pol.p.String() + "-merge-into-" + kind
		}
		if len(fos) > 0 {
			// which values such a merge yields is C16's subject: the structure
			// that is there now is read with the non-evaluating walk, and all
			// positional metadata must describe THAT structure
			sig = "wrong-context-after-" + pol.p.String() + "-merge-with-field-options"
			asGlobal := shape(at(tr.m, rq))
			m2, ok := readBack(ucfg.VerifWalk(tr.c))
			if !ok {
				s.res.Inconc("structure after a merge with field options could not be read back")
				return true
			}
			tr.m = m2
			if shape(at(m2, rq)) != asGlobal {
				s.res.Ev("merges_with_field_options_where_the_options_changed_the_outcome", 1)
			}
		}
		s.events = append(s.events, event{t, join(rq), sig})
		if srcT >= 0 {
			s.events = append(s.events, event{srcT, srcPath, "live-merge-source-disturbed"})
			s.res.Ev("merges_whose_source_stays_in_use", 1)
		}
		s.muts++
		s.res.SetAdd("op", "merge-"+pol.p.String()+"@"+kind)
		s.res.SetAdd("merge_operand_form", strings.SplitN(strings.SplitN(fname, ":", 2)[0], " kept", 2)[0])
		if len(rq) > 0 {
			s.res.Ev("merges_into_handle", 1)
		}
		if isList(rm) {
			s.res.Ev("merges_into_list_receiver", 1)
		}
		if moving {
			s.res.Ev("prepend_merges_moving_elements_of_list_receiver", 1)
		}
	case op < 23: // re-attach an already parented child somewhere else (SetChild adds a copy)
		type cnd struct {
			t int
			q []string
		}
		var srcs, dsts []cnd
		for j, o := range s.trees {
			var qs [][]string
			nodesOf(o.m, nil, func(n *model.Node) bool { return n.IsSub() }, &qs)
			for _, q := range qs {
				if len(q) > 0 {
					srcs = append(srcs, cnd{j, q})
				}
			}
		}
		if len(srcs) == 0 {
			return false
		}
		src := srcs[r.Intn(len(srcs))]
		dt := src.t
		if r.Intn(2) == 0 {
			dt = r.Intn(len(s.trees))
		}
		ownRoot := r.Intn(12) == 0
		if ownRoot {
			// the value is the root of the tree written to: the receiver itself or
			// one of its ancestors; it has no parent yet
			src = cnd{dt, nil}
		}
		var qs [][]string
		nodesOf(s.trees[dt].m, nil, func(n *model.Node) bool { return n.IsSub() }, &qs)
		for _, q := range qs {
			// also into itself: what is attached is a copy taken before the write
			dsts = append(dsts, cnd{dt, q})
		}
		if len(dsts) == 0 {
			return false
		}
		dst := dsts[r.Intn(len(dsts))]
		if dt != t {
			prev = s.trees[dt].m.Copy()
		}
		t = dt
		h, desc, err := s.handle(src.t, src.q)
		if err != nil {
			return false // e.g. an empty container that reads as nil
		}
		dn := at(s.trees[dt].m, dst.q)
		seg := "r"
		switch {
		case isList(dn) && !blank(dn):
			seg = strconv.Itoa(r.Intn(len(dn.A) + 1))
		case r.Intn(2) == 0:
			seg = s.key(len(dst.q) == 0)
		}
		full := cat(dst.q, []string{seg})
		name, idx := s.address(full)
		sub := at(s.trees[src.t].m, src.q).Copy()
		if len(full)+height(sub) > maxDepth {
			return false
		}
		if dt == src.t && strings.HasPrefix(join(dst.q)+".", join(src.q)+".") {
			s.res.Ev("reattachments_below_the_reattached_node_itself", 1)
		}
		err = s.trees[dt].c.SetChild(name, idx, h, s.o()...)
		s.res.Eval(1)
		s.log = append(s.log, fmt.Sprintf("T%d.SetChild(%q,%d, %s)", dt, name, idx, desc))
		if ownRoot {
			s.res.Ev("setchild_of_the_own_root", 1)
			if err != nil {
				// refused: nothing may have changed
				s.res.SetAdd("setchild_of_the_own_root_outcome", "refused")
				s.verify(t, prev)
				return false
			}
			if s.trees[dt].c.Parent() != nil {
				// do not look any further: Path and FlattenedKeys would not return
				s.fail("setchild-of-own-root-links-config-into-itself", "T%d.SetChild(%q,%d, T%d) succeeded and T%d, the root, now has a parent: the config contains itself", dt, name, idx, dt, dt)
				return true
			}
			s.res.SetAdd("setchild_of_the_own_root_outcome", "copy attached")
		}
		if err != nil {
			s.fail("set-error", "re-attachment failed: %v", err)
			return true
		}
		if !model.Set(s.trees[dt].m, flds(full), sub) {
			s.fail("model-error", "model rejected re-attachment at %v", full)
			return true
		}
		s.events = append(s.events, event{src.t, join(src.q), "reattached-child-keeps-old-path"}, event{dt, join(full), "reattached-child-keeps-old-path"})
		s.muts++
		s.res.SetAdd("op", "reattach")
		s.res.Ev("reattachments", 1)
		if dt != src.t {
			s.res.Ev("reattachments_into_other_tree", 1)
		}
		var bl [][]string
		if nodesOf(sub, nil, blank, &bl); len(bl) > 0 {
			s.res.Ev("copies_containing_a_blank_container", 1)
		}
	default: // clone: a new config made from a live node, both stay in use
		if len(s.trees) >= maxTrees {
			return false
		}
		var qs [][]string
		nodesOf(tr.m, nil, func(n *model.Node) bool { return n.IsSub() }, &qs)
		q := qs[r.Intn(len(qs))]
		h, desc, err := s.handle(t, q)
		if err != nil {
			return false
		}
		nc, err := ucfg.NewFrom(h, s.o()...)
		s.res.Eval(1)
		s.log = append(s.log, fmt.Sprintf("T%d=NewFrom(%s)", len(s.trees), desc))
		if err != nil {
			s.fail("newfrom-error", "NewFrom(live config at %v) failed: %v", q, err)
			return true
		}
		cm := at(tr.m, q).Copy()
		s.trees = append(s.trees, &tree{nc, cm})
		s.events = append(s.events, event{t, join(q), "live-merge-source-disturbed"}, event{len(s.trees) - 1, "", ""})
		s.muts++
		s.res.SetAdd("op", "clone")
		s.res.Ev("clones_of_live_nodes", 1)
		var bl [][]string
		if nodesOf(cm, nil, blank, &bl); len(bl) > 0 {
			s.res.Ev("copies_containing_a_blank_container", 1)
		}
		prev = nil
	}
	s.verify(t, prev)
	return false
}

// verify checks every live tree; changed is the tree the last step wrote to
// (prev its model before the step), -1 for none.
func (s *state) verify(changed int, prev *model.Node) {
	if s.failed {
		return
	}
	// (0) configs whose settings were handed over inside a Go value were only read
	for _, l := range s.pending {
		var want []string
		leafPaths(l.m, nil, &want)
		sort.Strings(want)
		if p, k := l.h.Path("."), l.w.FlattenedKeys(); p != join(l.home) || !eq(k, want) || (len(l.home) == 1 && l.h.Parent() != l.w) {
			s.fail("config-inside-merged-value-disturbed", "a config stored at %v of another one was placed inside a merged Go value; afterwards its Path()=%q and the keys of its home are %v, want %v", l.home, p, k, want)
			return
		}
		s.res.Ev("lent_configs_found_untouched", 1)
	}
	s.pending = nil
	// (1) hook walks: stored field names and parent links, all trees
	walks := make([][]ucfg.VerifNode, len(s.trees))
	owners := map[uintptr]map[uintptr]bool{} // fields table -> configs using it
	fieldsOf := map[uintptr]uintptr{}
	for t, tr := range s.trees {
		walks[t] = ucfg.VerifWalk(tr.c)
		s.res.Ev("hook_nodes_walked", int64(len(walks[t])))
		if len(walks[t]) == 0 {
			s.res.Inconc("VerifWalk returned nothing")
		}
		for _, n := range walks[t] {
			if n.Kind == "sub" && n.Fields != 0 {
				if owners[n.Fields] == nil {
					owners[n.Fields] = map[uintptr]bool{}
				}
				owners[n.Fields][n.Addr] = true
				fieldsOf[n.Addr] = n.Fields
			}
		}
	}
	// a deviation below a config whose storage is also the storage of another
	// config (a copy that is no copy) gets its own signature
	narrow := func(t int, n ucfg.VerifNode, generic string) string {
		if f := fieldsOf[n.Holder]; f != 0 && len(owners[f]) > 1 {
			return "write-shows-up-in-copy-and-original"
		}
		if generic == "stored-field-name-wrong" && s.lastHomes[n.Field] {
			// the name a config handed over inside a Go value has where it came from
			return "config-inside-merged-value-keeps-the-name-it-has-at-home"
		}
		return s.classify(t, n.Walk, generic)
	}
	for t := range s.trees {
		for i, n := range walks[t] {
			if i == 0 { // the root (a setting named "" of the root also walks as "")
				if n.Field != "" || n.Parent != 0 {
					s.fail(s.classify(t, "", "root-has-context"), "root of T%d stores field %q parent %#x", t, n.Field, n.Parent)
					return
				}
				continue
			}
			lastSeg := n.Walk[strings.LastIndex(n.Walk, ".")+1:]
			if n.Field != lastSeg {
				sig := narrow(t, n, "stored-field-name-wrong")
				// the name as it was spelled in the input, separators and all?
				for segs, k := strings.Split(n.Walk, "."), 2; k <= len(segs); k++ {
					if strings.Join(segs[len(segs)-k:], s.sep) == n.Field {
						sig = "stored-field-name-is-the-unsplit-input-name"
					}
				}
				s.fail(sig, "T%d: node reached at %q stores field name %q", t, n.Walk, n.Field)
				return
			}
			if n.Parent != n.Holder {
				s.fail(narrow(t, n, "stored-parent-wrong"), "T%d: node reached at %q is held by config %#x but stores parent %#x", t, n.Walk, n.Holder, n.Parent)
				return
			}
		}
	}
	for t := range s.trees {
		var p *model.Node
		if t == changed {
			p = prev
		}
		if s.verifyTree(t, p); s.failed {
			return
		}
	}
}

// listReportsIsDict: on the way to the setting with canonical path key there
// is a container that has elements and no named setting (a list by the
// property's terms) for which the library still answers IsDict().
func (s *state) listReportsIsDict(t int, key string) bool {
	segs := strings.Split(key, ".")
	h, n := s.trees[t].c, s.trees[t].m
	for i := 0; ; i++ {
		if isList(n) && len(n.A) > 0 && h.IsDict() {
			return true
		}
		if i >= len(segs)-1 {
			return false
		}
		var err error
		if idx, e := strconv.Atoi(segs[i]); e == nil && isList(n) && idx < len(n.A) {
			h, err = h.Child("", idx)
			n = n.A[idx]
		} else {
			h, err = h.Child(segs[i], -1)
			n = n.D[segs[i]]
		}
		if err != nil || !n.IsSub() {
			return false
		}
	}
}

// keysSig classifies a FlattenedKeys deviation (want in canonical spelling).
func (s *state) keysSig(t int, got, want []string, sep, generic string) string {
	if foreign(got, want, sep) {
		return "flattenedkeys-spelled-with-other-separator"
	}
	wantS := respell(want, sep)
	gs, ws := map[string]bool{}, map[string]bool{}
	for _, k := range got {
		gs[k] = true
	}
	for _, k := range wantS {
		ws[k] = true
	}
	extra, extraNull := false, true
	for _, k := range got {
		if !ws[k] {
			extra = true
			if n := at(s.trees[t].m, strings.Split(strings.ReplaceAll(k, sep, "."), ".")); n == nil || n.Kind != model.KNil {
				extraNull = false
			}
		}
	}
	var missing []string
	for _, k := range want {
		if !gs[strings.ReplaceAll(k, ".", sep)] {
			missing = append(missing, k)
		}
	}
	if extra && extraNull && len(missing) == 0 {
		return "flattenedkeys-lists-null-setting"
	}
	if len(missing) > 0 {
		// every missing path turns up without its leading names?
		cls, shortest := "", 0
		for _, k := range missing {
			E, c := strings.Split(k, "."), ""
			for _, g := range got {
				if x := cutClass(E, g, sep); x != "" {
					if c = x; c == "cut-at-empty-name" {
						break
					}
				}
			}
			empty := c == "cut-at-empty-name"
			if c == "" || (cls != "" && empty != (cls == "cut-at-empty-name")) {
				cls = ""
				break
			}
			if cls == "" || (!empty && len(E) < shortest) {
				cls, shortest = c, len(E) // the shortest path decides the length class
			}
		}
		if cls != "" {
			return "flattenedkeys-" + cls
		}
	}
	if !extra && len(missing) > 0 && len(got)+len(missing) == len(want) {
		all := true
		for _, k := range missing {
			if !s.listReportsIsDict(t, k) {
				all = false
				break
			}
		}
		if all {
			return "flattenedkeys-skips-elements-of-list-still-reporting-isdict"
		}
	}
	// attribute to a known shape if every differing key lies under one
	diffKeys := symdiff(got, wantS)
	cls := ""
	for _, k := range diffKeys {
		c := s.classify(t, strings.ReplaceAll(k, sep, "."), "")
		if c == "" || (cls != "" && c != cls) {
			return generic
		}
		cls = c
	}
	if cls != "" {
		return cls
	}
	return generic
}

func (s *state) verifyTree(t int, prev *model.Node) {
	tr := s.trees[t]
	// (2) API walk
	_, wsep := s.observer()
	s.handleKeysLeft = 8
	if height(tr.m) > 64 {
		s.handleKeysLeft = 2
	}
	s.apiWalk(t, tr.c, tr.m, nil, wsep)
	if s.failed {
		return
	}
	// (3) FlattenedKeys
	var want []string
	leafPaths(tr.m, nil, &want)
	sort.Strings(want)
	fo, fsep := s.observer()
	got := tr.c.FlattenedKeys(fo...)
	s.res.Eval(1)
	if wantS := respell(want, fsep); !eq(got, wantS) {
		s.fail(s.keysSig(t, got, want, fsep, "flattenedkeys-mismatch"), "T%d.FlattenedKeys(%s)=%v want %v", t, optName(fo, fsep), got, wantS)
		return
	}
	s.res.Ev("flattened_keys_compared", int64(len(want)))
	if fsep != "." && nested(want) {
		s.res.Ev("flattenedkeys_calls_other_sep_with_nested_keys", 1)
	}
	for _, k := range want {
		switch n := strings.Count(k, ".") + 1; {
		case n > 128:
			s.res.Ev("settings_compared_with_more_than_128_names", 1)
		case n > 64:
			s.res.Ev("settings_compared_with_65_to_128_names", 1)
		case n > 32:
			s.res.Ev("settings_compared_with_33_to_64_names", 1)
		}
		if strings.HasSuffix(k, ".") || strings.HasPrefix(k, ".") || strings.Contains(k, "..") || k == "" {
			s.res.Ev("settings_compared_with_an_empty_name_on_the_way", 1)
		}
	}
	if hasDup(respell(want, fsep)) {
		s.res.Ev("flattenedkeys_calls_listing_a_path_string_twice", 1)
	}
	// (4) CompareConfigs
	cp, err := ucfg.NewFrom(tr.m.ToGo(), s.o()...)
	if err != nil {
		return
	}
	do, dsep := s.observer()
	d := diff.CompareConfigs(tr.c, cp, do...)
	s.res.Eval(1)
	if ws := respell(want, dsep); d.HasChanged() || !eq(sorted(d[diff.Keep]), uniq(ws)) {
		s.fail(diffSig(d, ws, ws, want, dsep, "diff-equal-configs-changed"), "CompareConfigs(T%d, equal copy, %s) = %v, expected no change and kept keys %v", t, optName(do, dsep), d, uniq(ws))
		return
	}
	if dsep != "." && nested(want) {
		s.res.Ev("diffs_other_sep_with_nested_keys", 1)
	}
	// pairs: the state before the step (if this tree was written to), and an
	// unrelated configuration - another live tree or an empty one
	type side struct {
		c    *ucfg.Config
		keys []string
		what string
	}
	var others []side
	if prev != nil {
		if pc, err := ucfg.NewFrom(prev.ToGo(), s.o()...); err == nil {
			var old []string
			leafPaths(prev, nil, &old)
			others = append(others, side{pc, old, "state before the step"})
		}
	}
	if j := s.r.Intn(len(s.trees) + 1); j < len(s.trees) && j != t {
		var ok []string
		leafPaths(s.trees[j].m, nil, &ok)
		others = append(others, side{s.trees[j].c, ok, fmt.Sprintf("T%d", j)})
	} else {
		others = append(others, side{ucfg.New(), nil, "New()"})
	}
	for _, o := range others {
		do, dsep = s.observer()
		oldK, newK := respell(o.keys, dsep), respell(want, dsep)
		rev := s.r.Intn(4) == 0 // the other way round: added and removed change places
		if rev {
			d = diff.CompareConfigs(tr.c, o.c, do...)
			oldK, newK = newK, oldK
		} else {
			d = diff.CompareConfigs(o.c, tr.c, do...)
		}
		s.res.Eval(1)
		wk, wa, wr := partition(oldK, newK)
		gk, ga, gr := sorted(d[diff.Keep]), sorted(d[diff.Add]), sorted(d[diff.Remove])
		if !eq(gk, wk) || !eq(ga, wa) || !eq(gr, wr) {
			s.fail(diffSig(d, oldK, newK, cat(o.keys, want), dsep, "diff-partition-mismatch"), "CompareConfigs(%s, T%d, %s) reversed=%v: keep=%v add=%v remove=%v; want keep=%v add=%v remove=%v", o.what, t, optName(do, dsep), rev, gk, ga, gr, wk, wa, wr)
			return
		}
		s.res.Ev("diffs_compared", 1)
		if o.what != "state before the step" {
			s.res.Ev("diffs_against_unrelated_config", 1)
		}
		if len(wa) > 0 && len(wr) > 0 {
			s.res.Ev("diffs_with_added_and_removed", 1)
		}
		if dsep != "." && (nested(o.keys) || nested(want)) {
			s.res.Ev("diffs_other_sep_with_nested_keys", 1)
		}
		if hasDup(newK) || hasDup(oldK) {
			s.res.Ev("diffs_where_one_side_lists_a_path_string_twice", 1)
		}
	}
}

func optName(o []ucfg.Option, sep string) string {
	if o == nil {
		return "no options"
	}
	return fmt.Sprintf("PathSep(%q)", sep)
}

func (s *state) apiWalk(t int, c *ucfg.Config, n *model.Node, q []string, sep string) {
	if s.failed {
		return
	}
	root := s.trees[t].c
	if c == nil {
		// the node named "" of the root: no handle to be had, its children have addresses again
		s.res.Ev("nodes_without_address_skipped_in_api_walk", 1)
	} else if p := c.Path(sep); p != strings.Join(q, sep) {
		sig := s.classify(t, join(q), "path-wrong")
		for _, sp := range sepPool {
			if sp != sep && len(q) > 1 && p == strings.Join(q, sp) {
				sig = "path-spelled-with-other-separator"
			}
		}
		if cc := cutClass(q, p, sep); cc != "" {
			sig = "path-" + cc
		}
		s.fail(sig, "T%d: config reached via %v reports Path(%q)=%q", t, q, sep, p)
		return
	}
	s.res.Eval(1)
	if c != nil && len(q) > 0 && s.r.Intn(4) == 0 && s.handleKeysLeft > 0 {
		s.handleKeysLeft-- // each call costs (settings below) x (depth)^2
		// FlattenedKeys of a child handle: the settings below it, root-relative
		var want []string
		leafPaths(n, q, &want)
		fo, fsep := s.observer()
		got := c.FlattenedKeys(fo...)
		s.res.Eval(1)
		if wantS := respell(want, fsep); !eq(got, wantS) {
			s.fail(s.keysSig(t, got, want, fsep, "flattenedkeys-of-child-handle-mismatch"), "T%d: FlattenedKeys(%s) of the handle for %v = %v want %v", t, optName(fo, fsep), q, got, wantS)
			return
		}
		s.res.Ev("flattenedkeys_of_child_handles_compared", 1)
	}
	visit := func(seg string, v *model.Node, name string, idx int) {
		if s.failed {
			return
		}
		w := cat(q, []string{seg})
		if c != nil {
			if p := c.PathOf(seg, sep); p != strings.Join(w, sep) {
				sig := s.classify(t, join(q), "pathof-wrong")
				if cc := cutClass(w, p, sep); cc != "" {
					sig = "pathof-" + cc
				}
				s.fail(sig, "T%d: config reached via %v reports PathOf(%q,%q)=%q", t, q, seg, sep, p)
				return
			}
			s.res.Eval(1)
		}
		if !v.IsSub() || (len(v.D) == 0 && len(v.A) == 0) {
			return
		}
		var ch *ucfg.Config
		var err error
		switch {
		case !addressable(w):
			s.apiWalk(t, nil, v, w, sep)
			return
		case c == nil || (seg == "" && idx < 0):
			// no one-name address from the holder: ask the root with the whole path
			name, idx = s.nm(w), -1
			ch, err = root.Child(name, idx, s.o()...)
			s.res.Ev("nodes_named_empty_reached_from_the_root", 1)
		default:
			ch, err = c.Child(name, idx, s.o()...)
		}
		s.res.Eval(1)
		if err != nil {
			s.fail("child-error", "T%d: Child(%q,%d) below %v failed: %v", t, name, idx, q, err)
			return
		}
		if c != nil && ch.Parent() != c {
			s.fail(s.classify(t, join(w), "parent-wrong"), "T%d: config reached at %q: Parent() is not the config it was reached from (Parent path %q)", t, join(w), pathOf(ch.Parent()))
			return
		}
		s.apiWalk(t, ch, v, w, sep)
	}
	for _, k := range n.SortedKeys() {
		visit(k, n.D[k], k, -1)
	}
	for i, v := range n.A {
		visit(strconv.Itoa(i), v, "", i)
	}
}

func pathOf(c *ucfg.Config) string {
	if c == nil {
		return "<nil>"
	}
	return c.Path(".")
}

func sorted(l []string) []string {
	o := append([]string{}, l...)
	sort.Strings(o)
	return o
}

func eq(a, b []string) bool { return strings.Join(a, "\n") == strings.Join(b, "\n") }

// partition: every path string of old and cur in exactly one class, once.
func partition(old, cur []string) (keep, add, remove []string) {
	o := map[string]bool{}
	for _, k := range old {
		o[k] = true
	}
	c := map[string]bool{}
	for _, k := range cur {
		if c[k] {
			continue
		}
		c[k] = true
		if o[k] {
			keep = append(keep, k)
		} else {
			add = append(add, k)
		}
	}
	for k := range o {
		if !c[k] {
			remove = append(remove, k)
		}
	}
	return sorted(keep), sorted(add), sorted(remove)
}

func uniq(l []string) []string {
	var out []string
	for i, k := range l {
		if i == 0 || k != l[i-1] {
			out = append(out, k)
		}
	}
	return out
}

func hasDup(l []string) bool { return len(uniq(sorted(l))) != len(l) }

// cutClass: got is not the path E but the path of a proper tail of E - the
// names in front are lost. The class says where the cut is: right behind an
// empty name, or (else) how long the path was.
func cutClass(E []string, got, sep string) string {
	for k := 1; k <= len(E); k++ {
		if E[k-1] == "" && got == strings.Join(E[k:], sep) {
			return "cut-at-empty-name"
		}
	}
	for k := 1; k < len(E); k++ {
		if got != strings.Join(E[k:], sep) {
			continue
		}
		n := 1
		for n*2 < len(E) {
			n *= 2
		}
		return fmt.Sprintf("loses-leading-names-of-path-longer-than-%d", n)
	}
	return ""
}

// diffSig classifies a CompareConfigs deviation; old and cur are the path
// strings of the two sides as they have to be spelled.
func diffSig(d diff.Diff, old, cur, universe []string, sep, generic string) string {
	if foreign(cat(cat(d[diff.Keep], d[diff.Add]), d[diff.Remove]), universe, sep) {
		return "diff-keys-spelled-with-other-separator"
	}
	o, n := map[string]bool{}, map[string]int{}
	for _, k := range old {
		o[k] = true
	}
	for _, k := range cur {
		n[k]++
	}
	for _, k := range d[diff.Keep] {
		if !o[k] && n[k] > 1 {
			return "diff-keeps-path-only-the-new-config-has-and-lists-twice"
		}
	}
	// a reported key that is no path of either side but a path without its leading names
	for _, k := range cat(cat(d[diff.Keep], d[diff.Add]), d[diff.Remove]) {
		if !o[k] && n[k] == 0 {
			for _, u := range universe {
				if c := cutClass(strings.Split(u, "."), k, sep); c != "" {
					return "diff-keys-" + c
				}
			}
		}
	}
	return generic
}

func symdiff(a, b []string) []string {
	ca, cb := map[string]int{}, map[string]int{}
	for _, k := range a {
		ca[k]++
	}
	for _, k := range b {
		cb[k]++
	}
	var out []string
	for k, n := range ca {
		if cb[k] != n {
			out = append(out, k)
		}
	}
	for k := range cb {
		if _, ok := ca[k]; !ok {
			out = append(out, k)
		}
	}
	sort.Strings(out)
	return out
}
