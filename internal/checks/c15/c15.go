// Package c15: Path, Parent, FlattenedKeys and diff describe the actual structure.
package c15

import (
	"fmt"
	"math/rand"
	"sort"
	"strconv"
	"strings"

	ucfg "github.com/elastic/go-ucfg"
	"github.com/elastic/go-ucfg/diff"

	"verif/internal/gen"
	"verif/internal/harness"
	"verif/internal/model"
)

type check struct{}

func init() { harness.Register(check{}) }

func (check) ID() string { return "C15" }

func (check) Cases(tier string) int {
	if tier == "thorough" {
		return 200000
	}
	return 3000
}

func (check) Rule() string {
	return "a config is built from a generated tree (every node a dictionary or a list, no references) and then driven through a history of 3-20 shape-aware operations: writes of primitives and fresh sub-configs at existing/new keys and list positions, removals (biased to the middle of lists), merges of a shape-compatible mutation of the current tree under default/append/prepend/replace/arr-replace, and as an optional last step re-attachment of an already parented child (SetChild of a handle obtained with Child). After EVERY step: (1) hook walk: every stored field name equals the key/index actually leading to the node and every stored parent is the config actually holding it; (2) API walk: Child(...).Path(\".\") equals the address sequence and Parent() is the config it was reached from; (3) FlattenedKeys equals the model's set of non-nil primitive leaf paths; (4) CompareConfigs(previous state, current) equals the (kept, added, removed) partition of the two model key sets and a config compared with an equal copy reports no change. Non-trivial = history with >= 2 successful structural mutations; distinct = distinct (initial tree, history)."
}

func (check) Assumptions() []string {
	return []string{
		"tree-store and merge models as in C12/C01 predict the structure after each step",
		"FlattenedKeys lists non-nil primitive leaves only (empty containers and nils are not settings), as the statement says",
		"a re-attached child is expected at its new place (and, the old handle still being stored there, at the old one); histories end after a re-attachment",
	}
}

type state struct {
	res    *harness.R
	r      *rand.Rand
	c      *ucfg.Config
	m      *model.Node
	log    []string
	muts   int
	failed bool
	// bookkeeping for the classifier
	listRemovals map[string]bool // paths of lists from which an element was removed
	reattached   []string        // destination paths of re-attached children
	reattachSrc  []string
}

var opts = []ucfg.Option{ucfg.PathSep(".")}

var treeOpts = gen.TreeOpts{NoEmpty: false, Prims: []interface{}{"s", "t", int64(-3), uint64(7), true, 2.5, ""}}

func join(q []string) string { return strings.Join(q, ".") }

// nodesOf lists the paths of all nodes of the wanted kind.
func nodesOf(n *model.Node, q []string, want func(*model.Node) bool, out *[][]string) {
	if want(n) {
		*out = append(*out, append([]string{}, q...))
	}
	if !n.IsSub() {
		return
	}
	for _, k := range n.SortedKeys() {
		nodesOf(n.D[k], append(q, k), want, out)
	}
	for i, v := range n.A {
		nodesOf(v, append(q, strconv.Itoa(i)), want, out)
	}
}

func at(n *model.Node, q []string) *model.Node {
	for _, s := range q {
		if n == nil || !n.IsSub() {
			return nil
		}
		if i, err := strconv.Atoi(s); err == nil {
			if i >= len(n.A) {
				return nil
			}
			n = n.A[i]
		} else {
			n = n.D[s]
		}
	}
	return n
}

func isList(n *model.Node) bool { return n.IsSub() && (n.HasA || len(n.A) > 0) && len(n.D) == 0 }
func isDict(n *model.Node) bool { return n.IsSub() && !isList(n) }

// compat makes b shape-compatible with cur: where one holds a dictionary and
// the other a list, b's node is replaced by a primitive (the quantifier of C15
// excludes nodes that are both).
func compat(cur, b *model.Node) *model.Node {
	if b.IsSub() && len(b.D) > 0 && (len(b.A) > 0 || b.HasA) {
		b.A, b.HasA = nil, false // never generate a node that is both
	}
	if cur == nil || !cur.IsSub() || !b.IsSub() {
		return b
	}
	curBlank := len(cur.D) == 0 && len(cur.A) == 0 && !cur.HasA
	bBlank := len(b.D) == 0 && len(b.A) == 0 && !b.HasA
	if !curBlank && !bBlank && isList(cur) != isList(b) {
		return model.P("shape")
	}
	for k, v := range b.D {
		b.D[k] = compat(cur.D[k], v)
	}
	for i, v := range b.A {
		if i < len(cur.A) {
			b.A[i] = compat(cur.A[i], v)
		}
	}
	return b
}

func leafPaths(n *model.Node, q []string, out *[]string) {
	switch {
	case n == nil || n.Kind == model.KNil:
	case n.Kind == model.KPrim:
		*out = append(*out, join(q))
	default:
		for k, v := range n.D {
			leafPaths(v, append(q, k), out)
		}
		for i, v := range n.A {
			leafPaths(v, append(q, strconv.Itoa(i)), out)
		}
	}
}

func (s *state) fail(sig, format string, a ...interface{}) {
	s.failed = true
	s.res.Violate(sig, "%s; history=[%s]", fmt.Sprintf(format, a...), strings.Join(s.log, "; "))
}

// classify narrows a structural deviation at walk path w to a known shape.
func (s *state) classify(w string, generic string) string {
	for _, d := range s.reattached {
		if w == d || strings.HasPrefix(w, d+".") {
			return "reattached-child-keeps-old-path"
		}
	}
	for _, d := range s.reattachSrc {
		if w == d || strings.HasPrefix(w, d+".") {
			return "reattached-child-keeps-old-path"
		}
	}
	for l := range s.listRemovals {
		if l == "" || w == l || strings.HasPrefix(w, l+".") {
			return "stale-index-after-list-remove"
		}
	}
	return generic
}

// address renders a path as (name, idx), choosing a spelling.
func (s *state) address(q []string) (string, int) {
	if len(q) == 0 {
		return "", -1
	}
	last := q[len(q)-1]
	if i, err := strconv.Atoi(last); err == nil && (len(q) == 1 || s.r.Intn(2) == 0) {
		return join(q[:len(q)-1]), i
	}
	return join(q), -1
}

func (check) Run(seed int64, tier string, idx int, verbose bool) harness.Result {
	res := harness.NewR(idx)
	r := rand.New(rand.NewSource(harness.Mix(seed, "C15", idx)))
	s := &state{res: res, r: r, listRemovals: map[string]bool{}}
	s.m = gen.TopDict(r, treeOpts, 3)
	init := s.m.String()
	panicked, pv, where := harness.Safe(func() {
		c, err := ucfg.NewFrom(s.m.ToGo(), opts...)
		res.Eval(1)
		if err != nil {
			s.fail("newfrom-error", "NewFrom(%s): %v", s.m, err)
			return
		}
		s.c = c
		s.log = append(s.log, "NewFrom("+init+")")
		s.verify(nil)
		n := 3 + r.Intn(18)
		for i := 0; i < n && !s.failed; i++ {
			if s.step(i == n-1) {
				break
			}
		}
	})
	if panicked {
		s.fail("panic", "panic %q at %s", pv, where)
	}
	if s.muts >= 2 {
		res.Key(strings.Join(s.log, ";"))
	}
	if idx < 2 {
		res.Sample = s.log
	}
	if verbose {
		fmt.Println(strings.Join(s.log, "\n"))
		fmt.Println("final model:", s.m)
	}
	return res.Done()
}

// step performs one operation; returns true if the history must end.
func (s *state) step(last bool) bool {
	r := s.r
	prev := s.m.Copy()
	op := r.Intn(20)
	if last && r.Intn(3) == 0 {
		op = 100 // re-attachment, only ever as the last step
	}
	switch {
	case op < 7: // write into a dictionary or a list
		var cont [][]string
		nodesOf(s.m, nil, func(n *model.Node) bool { return n.IsSub() }, &cont)
		q := cont[r.Intn(len(cont))]
		n := at(s.m, q)
		var seg string
		if isList(n) && (len(n.A) > 0 || n.HasA) {
			seg = strconv.Itoa(r.Intn(len(n.A) + 1)) // overwrite or append; no padding (nil elements are fine too but keep lists dense)
		} else {
			seg = gen.Keys[r.Intn(len(gen.Keys))]
		}
		full := append(append([]string{}, q...), seg)
		name, idx := s.address(full)
		var val *model.Node
		var err error
		if r.Intn(3) == 0 {
			val = gen.Tree(r, treeOpts, 2)
			for !val.IsSub() {
				val = gen.Tree(r, treeOpts, 2)
			}
			sc, e := ucfg.NewFrom(map[string]interface{}{"w": val.ToGo()})
			if e != nil {
				return false
			}
			ch, e := sc.Child("w", -1)
			if e != nil {
				return false
			}
			// a fresh, parentless config with the same contents
			fresh := ucfg.New()
			if e := fresh.Merge(ch); e != nil {
				s.fail("merge-error", "Merge into fresh config failed: %v", e)
				return true
			}
			err = s.c.SetChild(name, idx, fresh, opts...)
			s.log = append(s.log, fmt.Sprintf("SetChild(%q,%d,%s)", name, idx, val))
			s.res.SetAdd("op", "setchild-fresh")
		} else {
			x := []interface{}{"w", int64(-9), uint64(4), true, 1.5}[r.Intn(5)]
			val = model.P(x)
			switch v := x.(type) {
			case string:
				err = s.c.SetString(name, idx, v, opts...)
			case int64:
				err = s.c.SetInt(name, idx, v, opts...)
			case uint64:
				err = s.c.SetUint(name, idx, v, opts...)
			case bool:
				err = s.c.SetBool(name, idx, v, opts...)
			case float64:
				err = s.c.SetFloat(name, idx, v, opts...)
			}
			s.log = append(s.log, fmt.Sprintf("Set(%q,%d,%v)", name, idx, x))
			s.res.SetAdd("op", "set-primitive")
		}
		s.res.Eval(1)
		if err != nil {
			s.fail("set-error", "write at %v failed: %v", full, err)
			return true
		}
		var fs []model.Fld
		for _, sg := range full {
			fs = append(fs, model.ParseField(sg, 1024))
		}
		if !model.Set(s.m, fs, val.Copy()) {
			s.fail("model-error", "model rejected write at %v", full)
			return true
		}
		s.muts++
	case op < 12: // removal, biased to the middle of lists
		var cand [][]string
		nodesOf(s.m, nil, func(n *model.Node) bool { return isList(n) && len(n.A) >= 2 }, &cand)
		var full []string
		if len(cand) > 0 && r.Intn(4) > 0 {
			q := cand[r.Intn(len(cand))]
			n := at(s.m, q)
			i := r.Intn(len(n.A) - 1) // never the last element: later ones must shift
			full = append(append([]string{}, q...), strconv.Itoa(i))
			s.listRemovals[join(q)] = true
			s.res.Ev("removals_from_middle_of_list", 1)
		} else {
			var dicts [][]string
			nodesOf(s.m, nil, func(n *model.Node) bool { return isDict(n) && len(n.D) > 0 }, &dicts)
			if len(dicts) == 0 {
				return false
			}
			q := dicts[r.Intn(len(dicts))]
			ks := at(s.m, q).SortedKeys()
			full = append(append([]string{}, q...), ks[r.Intn(len(ks))])
		}
		name, idx := s.address(full)
		ok, err := s.c.Remove(name, idx, opts...)
		s.res.Eval(1)
		s.log = append(s.log, fmt.Sprintf("Remove(%q,%d)", name, idx))
		if err != nil || !ok {
			s.fail("remove-outcome", "Remove(%v) returned (%v,%v), expected removal", full, ok, err)
			return true
		}
		var fs []model.Fld
		for _, sg := range full {
			fs = append(fs, model.ParseField(sg, 1024))
		}
		model.Remove(s.m, fs)
		s.muts++
		s.res.SetAdd("op", "remove")
	case op < 20: // merge a shape-compatible mutation
		pols := []struct {
			p model.Policy
			o ucfg.Option
		}{{model.PDefault, nil}, {model.PAppend, ucfg.AppendValues}, {model.PPrepend, ucfg.PrependValues}, {model.PReplace, ucfg.ReplaceValues}, {model.PArrReplace, ucfg.ReplaceArrValues}}
		pol := pols[r.Intn(len(pols))]
		b := compat(s.m, gen.MutateTop(r, treeOpts, s.m, 3))
		if !b.IsSub() || isList(b) {
			return false
		}
		mo := append([]ucfg.Option{}, opts...)
		if pol.o != nil {
			mo = append(mo, pol.o)
		}
		err := s.c.Merge(b.ToGo(), mo...)
		s.res.Eval(1)
		s.log = append(s.log, fmt.Sprintf("Merge[%v](%s)", pol.p, b))
		if err != nil {
			s.fail("merge-error", "Merge failed: %v", err)
			return true
		}
		model.Merge(s.m, b.Copy(), nil, model.Global(pol.p))
		s.muts++
		s.res.SetAdd("op", "merge-"+pol.p.String())
	default: // re-attach an already parented child somewhere else
		var subs, dicts [][]string
		nodesOf(s.m, nil, func(n *model.Node) bool { return n.IsSub() }, &subs)
		nodesOf(s.m, nil, func(n *model.Node) bool { return isDict(n) }, &dicts)
		var src, dst []string
		for try := 0; try < 20; try++ {
			a, b := subs[r.Intn(len(subs))], dicts[r.Intn(len(dicts))]
			if len(a) == 0 {
				continue
			}
			ja, jb := join(a), join(b)
			if jb == ja || strings.HasPrefix(jb+".", ja+".") {
				continue // never make a config its own ancestor
			}
			src, dst = a, b
			break
		}
		if src == nil {
			return false
		}
		name, idx := s.address(src)
		h, err := s.c.Child(name, idx, opts...)
		if err != nil {
			return false // e.g. an empty container that reads as nil
		}
		key := "r"
		full := append(append([]string{}, dst...), key)
		err = s.c.SetChild(join(full), -1, h, opts...)
		s.res.Eval(2)
		s.log = append(s.log, fmt.Sprintf("SetChild(%q,-1, Child(%q,%d))", join(full), name, idx))
		if err != nil {
			s.fail("set-error", "re-attachment failed: %v", err)
			return true
		}
		sub := at(s.m, src)
		at(s.m, dst).Set(key, sub) // the same node now sits in both places
		s.reattached = append(s.reattached, join(full))
		s.reattachSrc = append(s.reattachSrc, join(src))
		s.muts++
		s.res.SetAdd("op", "reattach")
		s.verify(prev)
		return true
	}
	s.verify(prev)
	return false
}

func (s *state) verify(prev *model.Node) {
	if s.failed {
		return
	}
	// (1) hook walk: stored field names and parent links
	walk := ucfg.VerifWalk(s.c)
	s.res.Ev("hook_nodes_walked", int64(len(walk)))
	if len(walk) == 0 {
		s.res.Inconc("VerifWalk returned nothing")
	}
	for _, n := range walk {
		if n.Walk == "" {
			if n.Field != "" || n.Parent != 0 {
				s.fail("root-has-context", "root stores field %q parent %#x", n.Field, n.Parent)
				return
			}
			continue
		}
		lastSeg := n.Walk[strings.LastIndex(n.Walk, ".")+1:]
		if n.Field != lastSeg {
			s.fail(s.classify(n.Walk, "stored-field-name-wrong"), "node reached at %q stores field name %q", n.Walk, n.Field)
			return
		}
		if n.Parent != n.Holder {
			s.fail(s.classify(n.Walk, "stored-parent-wrong"), "node reached at %q is held by config %#x but stores parent %#x", n.Walk, n.Holder, n.Parent)
			return
		}
	}
	// (2) API walk
	s.apiWalk(s.c, s.m, nil)
	if s.failed {
		return
	}
	// (3) FlattenedKeys
	var want []string
	leafPaths(s.m, nil, &want)
	sort.Strings(want)
	got := s.c.FlattenedKeys(opts...)
	s.res.Eval(1)
	if strings.Join(got, "\n") != strings.Join(want, "\n") {
		sig := "flattenedkeys-mismatch"
		// attribute to a known shape if every differing key lies under one
		diffKeys := symdiff(got, want)
		all := len(diffKeys) > 0
		cls := ""
		for _, k := range diffKeys {
			c := s.classify(k, "")
			if c == "" || (cls != "" && c != cls) {
				all = false
				break
			}
			cls = c
		}
		if all {
			sig = cls
		}
		s.fail(sig, "FlattenedKeys=%v want %v", got, want)
		return
	}
	s.res.Ev("flattened_keys_compared", int64(len(want)))
	// (4) CompareConfigs
	cp, err := ucfg.NewFrom(s.m.ToGo(), opts...)
	if err == nil && len(s.reattached) == 0 {
		d := diff.CompareConfigs(s.c, cp, opts...)
		s.res.Eval(1)
		if d.HasChanged() || len(d[diff.Keep]) != len(want) {
			s.fail("diff-equal-configs-changed", "CompareConfigs(x, equal copy) = %v, expected no change and %d kept keys", d, len(want))
			return
		}
		if prev != nil {
			pc, err := ucfg.NewFrom(prev.ToGo(), opts...)
			if err == nil {
				var old []string
				leafPaths(prev, nil, &old)
				d := diff.CompareConfigs(pc, s.c, opts...)
				s.res.Eval(1)
				wk, wa, wr := partition(old, want)
				gk, ga, gr := sorted(d[diff.Keep]), sorted(d[diff.Add]), sorted(d[diff.Remove])
				if !eq(gk, wk) || !eq(ga, wa) || !eq(gr, wr) {
					s.fail("diff-partition-mismatch", "CompareConfigs(prev, cur): keep=%v add=%v remove=%v; want keep=%v add=%v remove=%v", gk, ga, gr, wk, wa, wr)
					return
				}
				s.res.Ev("diffs_compared", 1)
				if len(wa) > 0 && len(wr) > 0 {
					s.res.Ev("diffs_with_added_and_removed", 1)
				}
			}
		}
	}
}

func (s *state) apiWalk(c *ucfg.Config, n *model.Node, q []string) {
	if s.failed {
		return
	}
	if p := c.Path("."); p != join(q) {
		s.fail(s.classify(join(q), "path-wrong"), "config reached via %v reports Path()=%q", q, p)
		return
	}
	s.res.Eval(1)
	visit := func(seg string, v *model.Node, name string, idx int) {
		if s.failed || !v.IsSub() || (len(v.D) == 0 && len(v.A) == 0) {
			return
		}
		ch, err := c.Child(name, idx, opts...)
		s.res.Eval(1)
		if err != nil {
			s.fail("child-error", "Child(%q,%d) below %v failed: %v", name, idx, q, err)
			return
		}
		w := join(append(append([]string{}, q...), seg))
		if ch.Parent() != c {
			s.fail(s.classify(w, "parent-wrong"), "config reached at %q: Parent() is not the config it was reached from (Parent path %q)", w, pathOf(ch.Parent()))
			return
		}
		s.apiWalk(ch, v, append(append([]string{}, q...), seg))
	}
	for _, k := range n.SortedKeys() {
		visit(k, n.D[k], k, -1)
	}
	for i, v := range n.A {
		visit(strconv.Itoa(i), v, "", i)
	}
}

func pathOf(c *ucfg.Config) string {
	if c == nil {
		return "<nil>"
	}
	return c.Path(".")
}

func sorted(l []string) []string {
	o := append([]string{}, l...)
	sort.Strings(o)
	return o
}

func eq(a, b []string) bool { return strings.Join(a, "\n") == strings.Join(b, "\n") }

func partition(old, cur []string) (keep, add, remove []string) {
	o := map[string]bool{}
	for _, k := range old {
		o[k] = true
	}
	c := map[string]bool{}
	for _, k := range cur {
		c[k] = true
		if o[k] {
			keep = append(keep, k)
		} else {
			add = append(add, k)
		}
	}
	for _, k := range old {
		if !c[k] {
			remove = append(remove, k)
		}
	}
	return sorted(keep), sorted(add), sorted(remove)
}

func symdiff(a, b []string) []string {
	ca, cb := map[string]int{}, map[string]int{}
	for _, k := range a {
		ca[k]++
	}
	for _, k := range b {
		cb[k]++
	}
	var out []string
	for k, n := range ca {
		if cb[k] != n {
			out = append(out, k)
		}
	}
	for k := range cb {
		if _, ok := ca[k]; !ok {
			out = append(out, k)
		}
	}
	sort.Strings(out)
	return out
}
