// Package c15: see DESIGN.md section 3 C15.
package c15
