package c15

import (
	"fmt"
	"sort"
	"strconv"
	"strings"

	ucfg "github.com/elastic/go-ucfg"

	"verif/internal/gen"
	"verif/internal/model"
)

// Sixth wave, two dimensions of the histories:
//
//  1. merge steps draw, next to the global policy, 0-2 per-field options
//     (Field{Merge,Replace,Append,Prepend}Values) on paths of 1-3 names/indices
//     that exist below the receiver or in the operand. Which VALUES such a merge
//     yields is the subject of C16; C15 reads the structure that is there
//     afterwards with the non-evaluating walk (names and indices actually
//     followed, kinds, primitive values) and demands that every stored name,
//     every parent, Path, Parent, FlattenedKeys and the diffs describe it.
//  2. refused writes: a SetChild / Set* that returns an error must leave the
//     tree as it was and the child handed in parentless with an empty path.

type fieldOpt struct {
	o    ucfg.Option
	path []string
	name string
}

var fieldPolicies = []struct {
	name string
	p    model.Policy
	mk   func(...string) ucfg.Option
}{
	{"FieldMergeValues", model.PDefault, ucfg.FieldMergeValues},
	{"FieldReplaceValues", model.PReplace, ucfg.FieldReplaceValues},
	{"FieldAppendValues", model.PAppend, ucfg.FieldAppendValues},
	{"FieldPrependValues", model.PPrepend, ucfg.FieldPrependValues},
}

func describe(fos []fieldOpt) string {
	out := ""
	for _, f := range fos {
		out += "+" + f.name
	}
	return out
}

// optionPath: a path a per-field option can name in dot notation.
func optionPath(q []string) bool {
	if len(q) < 1 || len(q) > 3 {
		return false
	}
	for _, sg := range q {
		if sg == "" || strings.ContainsAny(sg, ".*") {
			return false
		}
	}
	return true
}

// dictsOnTheWay: every proper prefix of q leads to a dictionary with settings.
func dictsOnTheWay(n *model.Node, q []string) bool {
	for i := 0; i < len(q); i++ {
		x := at(n, q[:i])
		if !isDict(x) || len(x.D) == 0 {
			return false
		}
	}
	return true
}

func (s *state) fieldOptions(t int, rq []string, rm, b *model.Node, gp model.Policy) []fieldOpt {
	r := s.r
	if r.Intn(2) == 0 {
		return nil
	}
	// the walk that reads the structure back goes 64 levels down
	if height(s.trees[t].m) > 48 || len(rq)+height(b) > 48 {
		return nil
	}
	any := func(*model.Node) bool { return true }
	var inRm, inB, both, all [][]string
	nodesOf(rm, nil, any, &inRm)
	nodesOf(b, nil, any, &inB)
	seen := map[string]bool{}
	for _, q := range inB {
		if optionPath(q) {
			seen[join(q)] = true
			all = append(all, q)
		}
	}
	for _, q := range inRm {
		if !optionPath(q) {
			continue
		}
		if seen[join(q)] {
			both = append(both, q)
		} else {
			all = append(all, q)
		}
	}
	if len(all) == 0 {
		return nil
	}
	var out []fieldOpt
	for i := 1 + r.Intn(3)/2; i > 0; i-- {
		pool := all
		if len(both) > 0 && r.Intn(4) > 0 {
			pool = both
		}
		q := pool[r.Intn(len(pool))]
		if len(q) < 2 && r.Intn(2) == 0 {
			q = pool[r.Intn(len(pool))]
		}
		clash := false
		for _, f := range out {
			if model.HasPrefix(q, f.path) || model.HasPrefix(f.path, q) {
				clash = true // one option's subtree inside the other's: C16
			}
		}
		if clash {
			continue
		}
		fp := fieldPolicies[r.Intn(len(fieldPolicies))]
		name := join(q)
		out = append(out, fieldOpt{fp.mk(name), q, fp.name + "(" + name + ")"})
		s.res.Ev("merges_field_options_given", 1)
		s.res.SetAdd("field_option", fmt.Sprintf("%s under global %s at depth %d", fp.name, gp, len(q)))
		inBoth := at(rm, q) != nil && at(b, q) != nil
		if inBoth {
			s.res.Ev("field_options_on_a_path_both_operands_hold", 1)
		}
		if at(rm, q).IsSub() && at(b, q).IsSub() && len(at(rm, q).A) > 0 && len(at(b, q).A) > 0 {
			s.res.Ev("field_options_on_a_list_both_operands_hold", 1)
		}
		if gp == model.PReplace && fp.p != model.PReplace && len(q) >= 2 && inBoth && dictsOnTheWay(rm, q) && dictsOnTheWay(b, q) {
			s.res.Ev("replace_merges_with_other_field_policy_two_or_more_levels_down_dictionaries_on_the_way_in_both_operands", 1)
		}
		if gp != model.PReplace && fp.p == model.PReplace {
			s.res.Ev("merges_with_field_replace_inside_another_global_policy", 1)
		}
	}
	if len(out) > 0 {
		s.res.Ev("merges_with_field_options", 1)
		if len(rq) > 0 {
			s.res.Ev("merges_with_field_options_into_handle", 1)
		}
	}
	if len(out) > 1 {
		s.res.Ev("merges_with_two_field_options", 1)
	}
	return out
}

// readBack turns the non-evaluating walk of a config (pre-order: a container,
// then its named settings in key order, then its elements) into a model tree.
func readBack(w []ucfg.VerifNode) (*model.Node, bool) {
	i := 0
	var parse func() (*model.Node, bool)
	parse = func() (*model.Node, bool) {
		if i >= len(w) {
			return nil, false
		}
		n := w[i]
		i++
		switch n.Kind {
		case "sub":
			out := &model.Node{Kind: model.KSub}
			if n.NDict > 0 || n.NArr == 0 {
				out.D = map[string]*model.Node{}
			}
			for k := 0; k < n.NDict; k++ {
				if i >= len(w) || w[i].Holder != n.Addr {
					return nil, false
				}
				name := w[i].Walk
				if n.Walk != "" {
					if len(name) < len(n.Walk)+1 {
						return nil, false
					}
					name = name[len(n.Walk)+1:]
				}
				c, ok := parse()
				if !ok {
					return nil, false
				}
				out.D[name] = c
			}
			for k := 0; k < n.NArr; k++ {
				if i >= len(w) || w[i].Holder != n.Addr {
					return nil, false
				}
				c, ok := parse()
				if !ok {
					return nil, false
				}
				out.A = append(out.A, c)
			}
			out.HasA = n.NArr > 0
			return out, true
		case "bool":
			return model.P(n.Text == "true"), true
		case "int":
			v, err := strconv.ParseInt(n.Text, 10, 64)
			return model.P(v), err == nil
		case "uint":
			v, err := strconv.ParseUint(n.Text, 10, 64)
			return model.P(v), err == nil
		case "float":
			v, err := strconv.ParseFloat(n.Text, 64)
			return model.P(v), err == nil
		case "string":
			return model.P(n.Text), true
		case "nil":
			return model.Nil(), true
		}
		return nil, false
	}
	m, ok := parse()
	return m, ok && i == len(w)
}

// refusedWrite issues a write that must be refused: the position given with the
// idx argument lies beyond MaxIdx (the default one, or one given with the
// call) and beyond the end of the list it names - an existing container or one
// the write would have had to create 1-3 levels below the container at q.
func (s *state) refusedWrite(t int, prev *model.Node, recv *ucfg.Config, rq, q []string, n *model.Node, kind, pfx string) bool {
	r := s.r
	path := append([]string{}, q...)
	levels := 0
	if !isList(n) || blank(n) {
		levels = r.Intn(4)
		for i := 0; i < levels; i++ {
			seg := s.key(len(path) == 0)
			if i == 0 && n.D[seg] != nil {
				levels = 0
				break
			}
			path = append(path, seg)
		}
	}
	if len(path) > 0 && (!addressable(path) || s.nm(path) == "") {
		return false
	}
	if len(rq)+len(path)+1 > maxDepth {
		return false
	}
	opts := s.o()
	idx, form := 1025+r.Intn(3000), "default MaxIdx"
	if r.Intn(2) == 0 {
		m := r.Intn(6)
		idx = m + 1 + r.Intn(5)
		if l := len(n.A); idx <= l {
			idx = l + 1 + r.Intn(3)
		}
		if l := len(at(s.trees[t].m, rq).A); idx <= l {
			idx = l + 1 + r.Intn(3)
		}
		opts = append(opts, ucfg.MaxIdx(int64(m)))
		form = "MaxIdx option"
	}
	name := s.nm(path)
	var fresh *ucfg.Config
	var val *model.Node
	var err error
	if r.Intn(3) > 0 {
		val = gen.Tree(r, s.topts, 2)
		for !val.IsSub() {
			val = gen.Tree(r, s.topts, 2)
		}
		eitherOr(val)
		fresh = ucfg.New()
		if e := fresh.Merge(val.ToGo(), s.o()...); e != nil {
			return false
		}
		if fresh.Parent() != nil || fresh.Path(".") != "" {
			s.fail("fresh-config-has-context", "a config made with New and Merge has Path %q", fresh.Path("."))
			return true
		}
		err = recv.SetChild(name, idx, fresh, opts...)
		s.log = append(s.log, fmt.Sprintf("%sSetChild(%q,%d,%s) [%s]", pfx, name, idx, val, form))
		form += ", SetChild of a parentless config"
	} else {
		err = recv.SetString(name, idx, "w", opts...)
		s.log = append(s.log, fmt.Sprintf("%sSetString(%q,%d) [%s]", pfx, name, idx, form))
		form += ", primitive"
	}
	s.res.Eval(1)
	if err == nil {
		// whether such a write is refused is not C15's to judge (C12); the
		// model does not follow it, the history ends here
		s.res.Ev("writes_beyond_maxidx_that_were_accepted", 1)
		return true
	}
	s.res.Ev("writes_refused", 1)
	s.res.SetAdd("refused_write", fmt.Sprintf("%s, %d levels to create, into %s", form, levels, kind))
	if fresh != nil {
		var want []string
		leafPaths(val, nil, &want)
		sort.Strings(want)
		p, par, keys := fresh.Path("."), fresh.Parent(), fresh.FlattenedKeys()
		if p != "" || par != nil || !eq(keys, want) {
			s.fail("refused-setchild-leaves-context-on-the-child-handed-in", "SetChild(%q,%d) below %v was refused (%v); the parentless config handed in now has Path()=%q, Parent()!=nil: %v, FlattenedKeys()=%v want %v", name, idx, rq, err, p, par != nil, keys, want)
			return true
		}
		s.res.Ev("children_of_refused_setchild_found_untouched", 1)
	}
	// the tree is as before: same model, no difference to the state before
	s.events = append(s.events, event{t, join(cat(rq, q)), "refused-write-changes-the-tree"})
	s.verify(t, prev)
	s.events = s.events[:len(s.events)-1]
	return false
}

// shape spells what a tree holds: names, elements, primitive values, nils.
func shape(n *model.Node) string {
	switch {
	case n == nil:
		return "<absent>"
	case n.Kind == model.KNil:
		return "null"
	case n.Kind == model.KPrim:
		return model.PrimCanon(n.Prim)
	}
	var parts []string
	for _, k := range n.SortedKeys() {
		parts = append(parts, strconv.Quote(k)+":"+shape(n.D[k]))
	}
	var el []string
	for _, v := range n.A {
		el = append(el, shape(v))
	}
	return "{" + strings.Join(parts, ",") + "}[" + strings.Join(el, ",") + "]"
}
