//go:build !only || only_c05

package checks

import _ "verif/internal/checks/c05"
