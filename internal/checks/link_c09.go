//go:build !only || only_c09

package checks

import _ "verif/internal/checks/c09"
