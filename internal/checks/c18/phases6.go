package c18

import (
	"fmt"
	"math"
	"math/big"
	"math/rand"
	"os"
	"path/filepath"
	"reflect"
	"sort"
	"strconv"
	"strings"
	"time"

	ucfg "github.com/elastic/go-ucfg"

	"verif/internal/harness"
	"verif/internal/model"
)

// ---------------------------------------------------------------------------
// time.Duration targets fed with numbers and strings. A number is a number of
// seconds. YAML delivers an integral number as an integer, JSON and HJSON
// deliver every number as float64: two different conversions inside go-ucfg
// that have to arrive at the same duration over the WHOLE range of
// time.Duration (about +-292 years = +-9223372036 s), not only for the
// everyday values. Every integer of that range is exact in float64, so the
// number of seconds written in the document is not in doubt:
//   - three-way: same outcome and same nanoseconds from all front-ends,
//     file loaders like in-memory loaders;
//   - integral seconds n inside the range mean exactly n*time.Second, a
//     string means what time.ParseDuration says; fractional seconds mean
//     f*1e9 ns within 1 ns (the exact rational value of the float64 written).
// Numbers outside the range, strings time.ParseDuration refuses, named
// duration types (by reflection an int64) and references are compared between
// the front-ends only.

// seconds is a named duration type.
type seconds time.Duration

var (
	tDur     = reflect.TypeOf(time.Duration(0))
	tSeconds = reflect.TypeOf(seconds(0))
)

// maxDurSeconds is the largest whole number of seconds a time.Duration holds.
const maxDurSeconds = int64(math.MaxInt64 / int64(time.Second))

var durStrings = []string{"1h", "90m", "1.5s", "-2h45m", "100ms", "1us", "1µs", "250ns", "0", "+5s", ".5s", "0.000000001s",
	"1h0m0.000000001s", "2562047h47m16.854775807s", "-2562047h47m16.854775807s", "2562047h", "106751d", "2562048h", "9223372036s",
	"7000000001s", "10", "1d", "", "abc", " 1s", "1 s", "1H", "1e3s", "1.s", "1h-5m"}

// durExpect is what one value of the document has to become.
type durExpect struct {
	pinned bool
	ns     *big.Rat // exact nanoseconds
	tol    *big.Rat // allowed absolute deviation in ns
}

var (
	ratZero   = new(big.Rat)
	ratFrac   = big.NewRat(1000001, 1000000) // truncation (<1 ns) plus float rounding of the fraction
	ratSecond = new(big.Rat).SetInt64(int64(time.Second))
)

// durIntegral draws a whole number of seconds; class names where it sits.
func durIntegral(r *rand.Rand, res *harness.R) int64 {
	var n int64
	switch r.Intn(7) {
	case 0: // everyday values
		n = int64(r.Intn(100000))
	case 1, 2: // every magnitude up to the limit, random low bits
		bits := uint(1 + r.Intn(33))
		n = int64(1)<<(bits-1) | r.Int63n(int64(1)<<(bits-1))
	case 3: // uniform over the upper half of the range
		n = maxDurSeconds/2 + r.Int63n(maxDurSeconds/2+1)
	case 4: // at the limit, from inside
		n = maxDurSeconds - int64(r.Intn(5))
	case 5: // beyond the limit
		if r.Intn(2) == 0 {
			n = maxDurSeconds + 1 + int64(r.Intn(4))
		} else {
			n = maxDurSeconds + 1 + r.Int63n(int64(1)<<53-maxDurSeconds-1)
		}
	default: // round numbers
		n = int64(1+r.Intn(99)) * []int64{1, 10, 60, 3600, 86400, 1000000, 100000000}[r.Intn(7)]
	}
	if r.Intn(2) == 0 {
		n |= 1
	}
	if r.Intn(3) == 0 {
		n = -n
	}
	a := n
	if a < 0 {
		a = -a
	}
	switch {
	case a > maxDurSeconds:
		res.Ev("duration_integral_seconds_beyond_the_limit", 1)
	case a >= maxDurSeconds-4:
		res.Ev("duration_integral_seconds_at_the_limit", 1)
	case a >= int64(1)<<32:
		res.Ev("duration_integral_seconds_2^32_to_limit", 1)
		if a&1 == 1 {
			res.Ev("duration_integral_seconds_2^32_to_limit_odd", 1)
		}
	case a >= int64(1)<<20:
		res.Ev("duration_integral_seconds_2^20_to_2^32", 1)
	default:
		res.Ev("duration_integral_seconds_below_2^20", 1)
	}
	return n
}

// durFraction draws a number of seconds with a fraction (float64).
func durFraction(r *rand.Rand) float64 {
	var f float64
	switch r.Intn(5) {
	case 0:
		f = float64(r.Intn(2000000)) / []float64{2, 4, 8, 10, 100, 1000}[r.Intn(6)]
	case 1: // large with a binary fraction float64 holds
		f = float64(r.Int63n(maxDurSeconds)) + []float64{0.5, 0.25, 0.75, 0.125}[r.Intn(4)]
	case 2:
		f = r.Float64() * math.Pow(10, float64(r.Intn(12)-11))
	case 3:
		f = r.NormFloat64() * math.Pow(10, float64(r.Intn(20)-10))
	default:
		f = float64(r.Intn(1000)) + r.Float64()
	}
	if r.Intn(3) == 0 {
		f = -f
	}
	return f
}

// durValue draws one scalar value: the node, its class and its expectation.
func durValue(r *rand.Rand, res *harness.R) (*model.Node, string, durExpect) {
	integral := func(n int64, class string) (string, durExpect) {
		if n > maxDurSeconds || n < -maxDurSeconds {
			return class + "-beyond-limit", durExpect{}
		}
		return class, durExpect{pinned: true, ns: new(big.Rat).Mul(new(big.Rat).SetInt64(n), ratSecond), tol: ratZero}
	}
	switch x := r.Intn(10); {
	case x < 4:
		n := durIntegral(r, res)
		class, e := integral(n, "integral-seconds")
		return model.P(n), class, e
	case x < 6:
		// the same numbers written as floats (7000000001.0, 7.000000001e+09):
		// a float for all three front-ends
		n := durIntegral(r, res)
		class, e := integral(n, "integral-float-seconds")
		return model.P(float64(n)), class, e
	case x < 8:
		f := durFraction(r)
		if f == math.Trunc(f) {
			class, e := integral(int64(f), "integral-float-seconds")
			return model.P(f), class, e
		}
		if math.Abs(f) >= float64(maxDurSeconds) {
			return model.P(f), "fractional-seconds-beyond-limit", durExpect{}
		}
		ns := new(big.Rat).Mul(new(big.Rat).SetFloat64(f), ratSecond)
		return model.P(f), "fractional-seconds", durExpect{pinned: true, ns: ns, tol: ratFrac}
	default:
		s := durStrings[r.Intn(len(durStrings))]
		d, err := time.ParseDuration(s)
		if err != nil {
			return model.P(s), "string-no-duration", durExpect{}
		}
		return model.P(s), "duration-string", durExpect{pinned: true, ns: new(big.Rat).SetInt64(int64(d)), tol: ratZero}
	}
}

// durations lists the durations of an unpacked field in document order
// (scalar, pointer, list order, map by sorted key).
func durations(v reflect.Value) (out []int64, ok bool) {
	switch v.Kind() {
	case reflect.Ptr:
		if v.IsNil() {
			return nil, false
		}
		return durations(v.Elem())
	case reflect.Int64:
		return []int64{v.Int()}, true
	case reflect.Slice:
		for i := 0; i < v.Len(); i++ {
			out = append(out, v.Index(i).Int())
		}
		return out, true
	case reflect.Map:
		keys := v.MapKeys()
		sort.Slice(keys, func(i, j int) bool { return keys[i].String() < keys[j].String() })
		for _, k := range keys {
			out = append(out, v.MapIndex(k).Int())
		}
		return out, true
	}
	return nil, false
}

func durationPhase(res *harness.R, r *rand.Rand, dir, stem string, verbose bool) {
	cb := combos[r.Intn(len(combos))]
	doc := model.Dict()
	type entry struct {
		key    string
		class  string
		shape  string // "", "pointer", "in-list", "in-map"
		target reflect.Type
		t      reflect.Type // the single-field struct
		expect []durExpect  // one per duration of the field, document order
		eclass []string     // their classes
		pinned bool
	}
	var entries []entry
	n := 4 + r.Intn(4)
	for i := 0; i < n; i++ {
		key := "d" + strconv.Itoa(i)
		e := entry{key: key, target: tDur, pinned: true}
		if r.Intn(6) == 0 {
			e.target = tSeconds
		}
		classes := map[string]bool{}
		add := func() *model.Node {
			nd, class, ex := durValue(r, res)
			classes[class] = true
			e.expect = append(e.expect, ex)
			e.eclass = append(e.eclass, class)
			e.pinned = e.pinned && ex.pinned
			return nd
		}
		ft := e.target
		switch r.Intn(6) {
		case 0:
			e.shape = "in-list"
			l := model.List()
			for j, c := 0, 1+r.Intn(3); j < c; j++ {
				l.A = append(l.A, add())
			}
			doc.D[key] = l
			ft = reflect.SliceOf(ft)
		case 1:
			e.shape = "in-map"
			m := model.Dict()
			ks := append([]string{}, plainKeys[:1+r.Intn(3)]...)
			sort.Strings(ks)
			for _, k := range ks {
				m.D[k] = add()
			}
			doc.D[key] = m
			ft = reflect.MapOf(tString, ft)
		case 2:
			e.shape = "pointer"
			doc.D[key] = add()
			ft = reflect.PtrTo(ft)
		default:
			doc.D[key] = add()
		}
		var cs []string
		for c := range classes {
			cs = append(cs, c)
		}
		sort.Strings(cs)
		e.class = strings.Join(cs, "+")
		if e.target != tDur {
			e.pinned = false // by reflection an int64: what a number means there is not a duration's business
		}
		e.t = reflect.StructOf([]reflect.StructField{{Name: "F", Type: ft, Tag: reflect.StructTag(`config:"` + key + `"`)}})
		entries = append(entries, e)
	}
	// with VarExp: a setting that stands for a number or string of the document
	if cb.varExp {
		for i, e := range append([]entry{}, entries...) {
			if e.shape != "" && e.shape != "pointer" || r.Intn(2) == 0 {
				continue
			}
			key := "r" + strconv.Itoa(i)
			doc.D[key] = model.P("${" + e.key + "}")
			re := entry{key: key, class: "reference-to-" + e.class, target: tDur}
			re.t = reflect.StructOf([]reflect.StructField{{Name: "F", Type: tDur, Tag: reflect.StructTag(`config:"` + key + `"`)}})
			entries = append(entries, re)
		}
	}
	text := render(r, res, doc)
	if why := prefilter(text, doc); why != "" {
		res.Ev("prefilter_rejected_duration_document", 1)
		reason, _, _ := strings.Cut(why, "|")
		res.SetAdd("prefilter_reason", reason)
		return
	}
	res.Ev("duration_documents", 1)
	ctxBase := fmt.Sprintf("options=%s document=%q", cb.name, clip(string(text)))
	if verbose {
		fmt.Println("durations:", ctxBase)
	}

	var out [2][3][]string // [file|memory][loader][entry]: "error" or "ok <rendering>"
	var errs [2][3][]error
	var vals [3][]reflect.Value // memory loads
	for i, l := range loaders {
		l := l
		p := filepath.Join(dir, "dur-"+stem+"."+l.ext)
		if err := os.WriteFile(p, text, 0o644); err != nil {
			res.Inconc("cannot write %s: %v", p, err)
			return
		}
		for k, fromFile := range []bool{true, false} {
			who := l.name + ".NewConfig"
			fn := func() (*ucfg.Config, error) { return l.mem(text, cb.opts...) }
			if fromFile {
				who = l.name + ".NewConfigWithFile"
				fn = func() (*ucfg.Config, error) { return l.file(p, cb.opts...) }
			}
			c, err, ok := load(res, who, fn, ctxBase)
			if !ok {
				return
			}
			if err != nil || c == nil {
				res.Violate("loader-error:"+l.name, "%s returned (%v, %v); %s", who, c, err, ctxBase)
				return
			}
			for _, e := range entries {
				pv := reflect.New(e.t)
				var uerr error
				panicked, pval, where := harness.Safe(func() { uerr = c.Unpack(pv.Interface(), cb.opts...) })
				res.Eval(1)
				if panicked {
					res.Violate("panic:Unpack", "%s: panic %q at %s unpacking %q into %v; %s", who, pval, where, e.key, e.t, ctxBase)
					return
				}
				s := "error"
				if uerr == nil {
					var b strings.Builder
					renderTyped(&b, pv.Elem().Field(0))
					s = "ok " + b.String()
				}
				out[k][i] = append(out[k][i], s)
				errs[k][i] = append(errs[k][i], uerr)
				if !fromFile {
					vals[i] = append(vals[i], pv.Elem().Field(0))
				}
			}
		}
	}
	for ei, e := range entries {
		tname := strings.ReplaceAll(e.target.String(), " ", "")
		pairing := e.class + "-into-" + tname
		if e.shape != "" {
			pairing += ":" + e.shape
		}
		res.SetAdd("duration_pairing", pairing)
		res.Ev("duration_settings", 1)
		y, j, h := out[1][0][ei], out[1][1][ei], out[1][2][ei]
		if strings.HasPrefix(y, "ok") {
			res.Ev("duration_settings_converted_by_yaml", 1)
		} else {
			res.Ev("duration_settings_rejected_by_yaml", 1)
		}
		detail := fmt.Sprintf("setting %q = %s into %v: yaml %s (%v) | json %s (%v) | hjson %s (%v)", e.key, doc.D[e.key], e.t.Field(0).Type, y, errs[1][0][ei], j, errs[1][1][ei], h, errs[1][2][ei])
		if y != j || j != h {
			what := "data"
			if strings.HasPrefix(y, "error") != strings.HasPrefix(j, "error") || strings.HasPrefix(j, "error") != strings.HasPrefix(h, "error") {
				what = "outcome"
			}
			// the class of the first value the front-ends disagree on, where it can be told
			class := e.class
			if what == "data" && len(e.eclass) > 1 {
				dy, ok1 := durations(vals[0][ei])
				dj, ok2 := durations(vals[1][ei])
				dh, ok3 := durations(vals[2][ei])
				if ok1 && ok2 && ok3 && len(dy) == len(e.eclass) && len(dj) == len(dy) && len(dh) == len(dy) {
					for k := range dy {
						if dy[k] != dj[k] || dj[k] != dh[k] {
							class = e.eclass[k]
							break
						}
					}
				}
			}
			res.Violate("frontends-disagree:duration:"+class+"-into-"+tname+":"+what, "%s; %s", detail, ctxBase)
		}
		for i, l := range loaders {
			if out[0][i][ei] != out[1][i][ei] {
				res.Violate("withfile-differs-from-memory:"+l.name+":duration", "setting %q into %v: file %s (%v), memory %s (%v); %s", e.key, e.t.Field(0).Type, out[0][i][ei], errs[0][i][ei], out[1][i][ei], errs[1][i][ei], ctxBase)
			}
		}
		if !e.pinned {
			continue
		}
		// what the document says, independent of the other front-ends
		res.Ev("duration_settings_compared_with_the_document", 1)
		for i, l := range loaders {
			dev, class := "", e.class
			if errs[1][i][ei] != nil {
				dev = "rejected"
			} else if got, ok := durations(vals[i][ei]); !ok || len(got) != len(e.expect) {
				dev = "shape"
			} else {
				for k, g := range got {
					diff := new(big.Rat).Sub(new(big.Rat).SetInt64(g), e.expect[k].ns)
					diff.Abs(diff)
					if diff.Cmp(e.expect[k].tol) <= 0 {
						continue
					}
					class = e.eclass[k]
					if diff.Cmp(big.NewRat(1000000, 1)) < 0 {
						dev = "off-by-less-than-1ms"
					} else {
						dev = "off-by-1ms-or-more"
					}
					break
				}
			}
			if dev != "" {
				res.Violate("duration-differs-from-document:"+class+":"+l.name+":"+dev, "%s front-end; %s; %s", l.name, detail, ctxBase)
			}
		}
	}
}
