// Package c18: see DESIGN.md section 3 C18.
package c18
