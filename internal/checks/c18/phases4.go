package c18

import (
	stdjson "encoding/json"
	"fmt"
	"math/rand"
	"reflect"
	"strconv"

	ucfg "github.com/elastic/go-ucfg"
	rawhjson "gopkg.in/hjson/hjson-go.v3"
	rawyaml "gopkg.in/yaml.v2"

	"verif/internal/harness"
	"verif/internal/model"
	"verif/internal/obs"
)

// rawReadsNull tells, per front-end (order of loaders), whether its RAW
// decoder reads the text as the value null. A decoder that fails on it is the
// decoder's business (pre-filter rule), the other front-ends are still held to
// the property.
func rawReadsNull(text []byte) [3]bool {
	var out [3]bool
	var y, j, h interface{} = 1, 1, 1
	out[0] = rawyaml.Unmarshal(text, &y) == nil && y == nil
	out[1] = stdjson.Unmarshal(text, &j) == nil && j == nil
	func() {
		defer func() { recover() }()
		out[2] = rawhjson.Unmarshal(text, &h) == nil && h == nil
	}()
	return out
}

// ---------------------------------------------------------------------------
// lists spelled by dotted index keys with gaps ("l.2": 5 alone makes a list of
// three elements): the elements nobody wrote are settings of the file all the
// same - the list means [null, null, 5], and errors about the fillers name the
// file.

func gapPhase(res *harness.R, r *rand.Rand, dir, stem string, verbose bool) {
	seps := []combo{combos[1], combos[3], combos[4]}
	cb := seps[r.Intn(len(seps))]
	g2 := &docGen{r: r, res: res}
	logical := g2.dict(1, r.Intn(3)) // what the document means
	spelled := logical.Copy()        // what the file says
	// holder of the list: the root or an object below 1-2 plain keys, itself
	// spelled nested or dotted
	var steps []step
	hl, hs := logical, spelled
	dottedPrefix := ""
	for i, c := 0, r.Intn(3); i < c; i++ {
		k := []string{"srv", "tls", "out", "grp"}[r.Intn(4)] + strconv.Itoa(i)
		steps = append(steps, step{k, false})
		nl := model.Dict()
		hl.D[k] = nl
		hl = nl
		if dottedPrefix != "" || r.Intn(2) == 0 {
			dottedPrefix += k + "." // folded into the keys below
		} else {
			ns := model.Dict()
			hs.D[k] = ns
			hs = ns
		}
	}
	steps = append(steps, step{"gl", false})
	n := 2 + r.Intn(4)
	explicit := make([]bool, n)
	explicit[n-1] = true
	gaps := 0
	for i := 0; i < n-1; i++ {
		explicit[i] = r.Intn(2) == 0
		if !explicit[i] {
			gaps++
		}
	}
	if gaps == 0 {
		explicit[r.Intn(n-1)] = false
	}
	firstGap := 0
	for explicit[firstGap] {
		firstGap++
	}
	objects := r.Intn(3) == 0 // elements are objects {"b": n}
	list := model.List()
	for i := 0; i < n; i++ {
		if !explicit[i] {
			list.A = append(list.A, model.Nil())
			continue
		}
		v := model.P(int64(1 + r.Intn(9)))
		key := dottedPrefix + "gl." + strconv.Itoa(i)
		if objects {
			list.A = append(list.A, model.Dict().Set("b", v))
			if r.Intn(2) == 0 {
				hs.D[key+".b"] = v
			} else {
				hs.D[key] = model.Dict().Set("b", v)
			}
		} else {
			list.A = append(list.A, v)
			hs.D[key] = v
		}
	}
	hl.D["gl"] = list

	text := render(r, res, spelled)
	if why := prefilter(text, spelled); why != "" {
		res.Ev("prefilter_rejected_fault_document", 1)
		return
	}
	res.Ev("gap_list_documents", 1)
	res.SetAdd("gap_list", fmt.Sprintf("len=%d gaps=%d depth=%d objects=%v", n, gaps, len(steps)-1, objects))
	ctx := fmt.Sprintf("list %q spelled by index keys with gaps (first gap at %d) options=%s document=%q", joinSteps(steps), firstGap, cb.name, clip(string(text)))
	if verbose {
		fmt.Println("gap list:", ctx)
	}

	// data: the three front-ends agree with each other and with the meaning
	want := logical.Canon()
	if cb.varExp {
		e, ok := expandTree(logical, map[string]string{}, map[string]bool{})
		if !ok {
			return
		}
		want = e.Canon()
	}
	var got [3]string
	okAll := true
	for i, l := range loaders {
		l := l
		c, err, ok := load(res, l.name+".NewConfig", func() (*ucfg.Config, error) { return l.mem(text, cb.opts...) }, ctx)
		if !ok {
			return
		}
		if err != nil || c == nil {
			res.Violate("loader-error:"+l.name, "%s.NewConfig returned (%v, %v); %s", l.name, c, err, ctx)
			return
		}
		panicked, pv, where := harness.Safe(func() {
			s, err := obs.Dict(c, cb.opts...)
			if err != nil {
				s = "error"
			}
			got[i] = s
		})
		res.Eval(1)
		if panicked {
			res.Violate("panic:Unpack", "%s: panic %q at %s; %s", l.name, pv, where, ctx)
			okAll = false
		}
	}
	if okAll {
		switch {
		case got[0] != got[1] || got[1] != got[2]:
			res.Violate("frontends-disagree:list-with-index-gaps", "yaml=%s json=%s hjson=%s; %s", got[0], got[1], got[2], ctx)
		case got[0] != want:
			res.Violate("all-frontends-differ-from-document:list-with-index-gaps", "all three give %s, the document means %s; %s", got[0], want, ctx)
		}
	}

	// faults about the first element nobody wrote
	gapSteps := append(append([]step{}, steps...), step{strconv.Itoa(firstGap), true})
	gapPath := joinSteps(gapSteps)
	var known []string
	allPaths(logical, "", &known)
	var probes []probe
	withTag := func(leaf reflect.Type, tag string) reflect.Type {
		t := reflect.StructOf([]reflect.StructField{{Name: "F", Type: leaf, Tag: reflect.StructTag(`config:"gl"` + tag)}})
		return pathStruct(steps[:len(steps)-1], t)
	}
	unpack := func(t reflect.Type) func(c *ucfg.Config, opts []ucfg.Option) error {
		return func(c *ucfg.Config, opts []ucfg.Option) error { return c.Unpack(reflect.New(t).Interface(), opts...) }
	}
	if objects {
		elem := reflect.StructOf([]reflect.StructField{{Name: "B", Type: tInt64, Tag: `config:"b" validate:"required"`}})
		probes = append(probes, probe{label: "required field below the filler", kind: "required-below-gap", class: "list-gap-filler", path: gapPath + ".b",
			run: unpack(withTag(reflect.SliceOf(elem), ""))})
	} else {
		probes = append(probes, probe{label: "min=1 on the list", kind: "validate-min-on-gap", class: "list-gap-filler", path: gapPath,
			run: unpack(withTag(reflect.SliceOf(tInt64), ` validate:"min=1"`))})
	}
	getter := r.Intn(4)
	probes = append(probes, probe{label: "getter " + []string{"Int", "Bool", "Uint", "Float"}[getter], kind: "getter-on-gap", class: "list-gap-filler", path: gapPath,
		run: func(c *ucfg.Config, opts []ucfg.Option) error {
			var err error
			switch getter {
			case 0:
				_, err = c.Int(gapPath, -1, opts...)
			case 1:
				_, err = c.Bool(gapPath, -1, opts...)
			case 2:
				_, err = c.Uint(gapPath, -1, opts...)
			default:
				_, err = c.Float(gapPath, -1, opts...)
			}
			return err
		}})
	runProbes(res, text, "gap-", dir, stem, cb, probes, known, ctx)
}
