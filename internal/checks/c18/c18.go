// Package c18: YAML, JSON and HJSON front-ends agree and record where
// settings came from.
//
// One case = one generated JSON document in the subset that is valid and means
// the same in all three syntaxes. The document is pre-filtered on the three
// RAW decoders (gopkg.in/yaml.v2, encoding/json, hjson-go) so that decoder
// quirks never reach the verdict; what is left is go-ucfg's own work:
// normalising interface-keyed maps / int (YAML) and string-keyed maps / float64
// (JSON, HJSON) into the same configuration, passing the options through, and
// attaching the file name in the *WithFile loaders.
package c18

import (
	stdjson "encoding/json"
	"errors"
	"fmt"
	"math"
	"math/rand"
	"os"
	"path/filepath"
	"reflect"
	"sort"
	"strconv"
	"strings"
	"unicode"
	"unicode/utf8"

	ucfg "github.com/elastic/go-ucfg"
	uhjson "github.com/elastic/go-ucfg/hjson"
	ujson "github.com/elastic/go-ucfg/json"
	uyaml "github.com/elastic/go-ucfg/yaml"
	rawhjson "gopkg.in/hjson/hjson-go.v3"
	rawyaml "gopkg.in/yaml.v2"

	"verif/internal/harness"
	"verif/internal/model"
	"verif/internal/obs"
)

type check struct{}

func init() { harness.Register(check{}) }

func (check) ID() string { return "C18" }

func (check) Cases(tier string) int {
	if tier == "thorough" {
		return 100000
	}
	return 1500
}

func (check) Rule() string {
	return "one JSON document per case: top-level object (1 in 12: list) of depth <= 4 over a pool of plain keys, odd keys (spaces, unicode, punctuation, YAML look-alikes such as true, ~, #c) and, in 1 document of 8, keys containing '.'; leaves: strings over a wide alphabet (ASCII punctuation, control characters, DEL/C1, NEL, NBSP, LS/PS, BOM, U+FFFE/FFFF, Latin-1, combining marks, CJK, non-BMP) or from a pool of look-alikes (true, null, ~, 1e3, 0x1F, 2001-12-14, '# c', '[1,2]', triple quotes ...), integers within +-2^53, floats (fractions, tiny, huge, integral, -0), booleans, nulls, {} and []; lists of one leaf kind, of objects, or mixed; half of the object documents carry top-level string variables (plain words, or wide-alphabet text for pure references) that other strings reference as ${name} -- pure, or spliced behind a literal prefix, one or two names per string -- plus $$ escapes, $${x} and lone $; rendered compact / spaced / indented 1-8 / loose (random blanks) with sorted or shuffled keys, floats in g/e/f/f.0 form, and only the escapes all three grammars share (backslash-quote, double backslash, \\b \\f \\n \\r \\t, \\uXXXX for BMP). The document is used only if yaml.v2, encoding/json and hjson-go decode it to the same data as the generating tree (else prefilter_rejected). It is loaded by the three NewConfig and the three NewConfigWithFile functions under none / PathSep / VarExp / PathSep+VarExp / VarExp+PathSep (PathSep skipped when a key contains '.'), observed by Unpack into map, slice and two types fitted to the document with reflect.StructOf (struct / *struct with config tags, map[string]T, []T, [N]T, int64 int int32 uint64 uint float64 string bool, pointers to them, interface{}), and compared three-way, with the tree (VarExp: with the expanded tree), and file against memory. Where the document nests objects, a second spelling with dictionary (and some list) edges folded at random depth into dotted keys (server.tls.port, l.0, l.1) is loaded too under every PathSep combination and must mean exactly the same. Missing files must give an error and no config. Then two faults (23 kinds: conversions, overflow, negative into unsigned, min/max/positive/nonzero/required validators, and faults reported at containers -- object or list for a primitive, wrong array length, a failing struct Validate(), nonzero/required on empty lists and objects, a required field whose key is absent below an object, a String getter for an absent key through Child handles) are grafted at random paths of 1-5 keys/indices; each is loaded once without and once with PathSep, the latter with keys folded preferably along the path so that the containers exist only implicitly; the six loaders' errors must name the full dotted path as a delimited token, the file loaders' errors must contain the file name (or its base name), the in-memory ones must not. One more fault per case is reported against the TOP-LEVEL config of a document whose top level has no named keys ({}, [] or a list of generated elements): a required key that is absent, a String getter for an absent key, the top level unpacked into an array of another length or into a struct whose Validate() fails; the file loaders' errors must name the file there too. Finally one option slice with spare capacity (make(n, n+k) with or without sentinel options behind len, or grown by append; the combination's options possibly between options restating the defaults) is reused for a sequence of 3-6 loads drawn from the six loader functions: after every call the caller's backing array up to cap must be bit-identical, and every load must unpack (generic, typed, error text of a missing required key) exactly like the same load done alone with a fresh option list. One fault of a VarExp document per case (holder object at depth 0-3, below the root only with PathSep): a reference cycle of 1-3 settings, a missing reference, a reference through a primitive (pure or spliced), unpacked into a generic target and into a typed target along the path (string, interface{}, int64, *string): raised by all six loads or none, file errors name the file, one of the settings involved is named; or a spliced string that parses into a list / object with the fault at one of ITS elements (list element, object entry, nested element), whose error must name the exact path and the file. Finally a document of 4-7 settings meeting deliberately NON-matching but convertible targets (integers 0/1, small, 7+ digits, integral / fractional floats, numeric / boolean / other strings, booleans -- scalar, in lists, in maps -- into bool, int64, int8, uint64, uint8, float64, float32, string, *bool, *string, time.Duration; with VarExp also pure references to and splices of these scalars into interface{} / string): the outcome (error, or success with this rendering) must be the same for all three front-ends and for file and memory; no expectation is involved. The non-matching pairings also cover the negative zero (an integer literal for YAML, the float -0 for the others), the low-level getter of the target's kind next to every scalar Unpack, and numbers meeting min= / max= validators whose parameter is negative, fractional, hexadecimal, with exponent, leading zero or explicit sign, on int64 / uint64 / float64 fields and on interface{} fields (which hold whatever number type the front-end delivered). The documents without top-level keys include the single word null, loaded by the front-ends whose raw decoder reads it. One more document per case (PathSep only) spells a list of 2-5 elements by dotted index keys with gaps (below 0-2 keys, nested or dotted; integers or objects): it must mean the list with nulls in the gaps for all three front-ends, and errors about the first element nobody wrote (min=1 on the list, a required field below it, an Int/Bool/Uint/Float getter) must name its path and the file. One document per case is valid in all three syntaxes but REFUSED by go-ucfg under the options of the load: one setting spelled twice in one object (a primitive and a dotted child / grandchild, the same leaf nested and dotted one or two levels down, a list element and its dotted index) under PathSep, or a malformed expansion under VarExp, in an object at depth 0-3 (also inside list elements): all six loads must agree on refusing, return no config, the file loaders' load errors must name the file, the in-memory ones none, and one of the settings involved must be named (relative to the object it sits in is enough); without the option the same bytes must load everywhere. One document per case of 4-7 settings unpacked into time.Duration, *time.Duration, []time.Duration, map[string]time.Duration and a named duration type: whole numbers of seconds of every magnitude up to the limit of +-9223372036 s (random low bits, odd values, at and beyond the limit, round numbers) written as integers (an int for YAML, a float64 for JSON / HJSON) or as floats, fractional seconds (tiny, everyday, large with binary fractions), duration strings (also at the limits of time.Duration) and strings that are none, with VarExp also pure references to them: same outcome and same nanoseconds from all six loads; inside the range a whole number n means exactly n*time.Second, a string what time.ParseDuration says, a fraction f*1e9 ns within 1 ns. One document per case of 5-8 settings (plus, with VarExp, pure references to them) meeting fields tagged validate:required / nonzero / positive of type interface{}, a typed field matching the value, a pointer to it, *interface{} or a foreign typed field, at top level or one object down: half of the values are the zero numbers 0, 0.0, -0 (an int for YAML, a float64 for JSON / HJSON), the others small positive / negative numbers, empty and non-empty strings, lists, objects (also holding only zeros), null and booleans: all six loads must give the same verdict and, where they accept, the same data; no expectation is involved. Non-trivial = at least one nested container and at least 3 leaves; distinct = distinct document text."
}

func (check) Assumptions() []string {
	return []string{
		"the three raw decoders are trusted: a document they do not decode identically (up to number type and map key type) and equal to the generating tree is discarded and counted (prefilter_rejected)",
		"canonical comparison: numbers by value (all integers within +-2^53, so float64 is exact), nil == {} == [] == absent key inside dictionaries; typed targets compared three-way exactly (nil/empty kept apart, numbers inside interface{} by value) and with the tree leniently where the tree holds null or nothing",
		"keys are never numeric and never empty; literal keys with '.' only without PathSep; folded keys (only with PathSep) never overlap: an edge is folded as a whole, so no key is spelled both nested and dotted (C09 covers overlaps); each ${name} names a top-level plain string of the same document and every variable is referenced at most once per document (a second evaluation of one name inside one Unpack call is C08's open defect); splices are built so that their expansion is returned unchanged as a string by parse.Value",
		"typed targets never put pointers inside slices or maps and never point to maps, slices or arrays (C06/C07 report those shapes); numbers are never unpacked into strings, floats never into integers",
		"errors are inspected only for containing the file name (full or base name) and the dotted path as a delimited token (neighbours are not letters, digits, _ . -), independent of wording, reason or type (C14); an error naming another known path of the document instead is error-names-wrong-path, none error-lacks-path; whether a fault is raised at all is C03/C04's business: if no front-end raises it the case is only counted (fault_not_raised_by_any_frontend)",
		"list elements before the faulty one are null or conform to the target, because Unpack reports the first error in list order",
		"func values of the option slice are compared as machine words (unsafe); the sentinel options behind len are never meant to be read by a correct loader",
		"a number meeting a time.Duration is a number of seconds (README, reifyDuration's contract in C03); beyond +-9223372036 s, for strings time.ParseDuration refuses, for the named duration type (by reflection an int64) and for references only agreement between the front-ends is demanded; fractional seconds may be off by 1 ns (truncation)",
		"cross-type pairings are compared between the front-ends only (same outcome class and same data), never with an expectation; for reference cycles any of the settings of the cycle may be named",
		"what a value-sensitive validator (required, nonzero, positive) makes of a value is C14's business; here only that its verdict and the accepted data do not depend on the syntax the document was read in (an interface{} field holds an int64 from YAML where JSON / HJSON deliver a float64) nor on file vs memory",
		"a document the raw decoder of a front-end does not read (hjson-go fails on a top-level null) is that decoder's business: the other front-ends are still checked with it",
		"not generated (other properties): names with thousands of dotted segments (nesting limit, C07); a dotted key that passes through a setting holding a reference or is spelled both nested and dotted (order dependence at load time, C09); which of several faulty settings of one document is reported",
		"errors raised AT load are about settings of the file as well; whether a colliding document has to be refused is C05/C09's business (if all six loads accept it the case is only counted), and a load error may name the path relative to the object being built",
		"not demanded: integers beyond +-2^53 (an integral float is never printed as a plain integer literal beyond 2^53), decoder syntax errors, YAML-only or HJSON-only syntax, which MetaData wins when the caller passes one to a *WithFile loader",
	}
}

// ---------------------------------------------------------------------------
// document generator

var plainKeys = []string{"a", "b", "c", "name", "host", "port", "items", "cfg_1", "Key", "x9", "enabled", "path"}
var oddKeys = []string{"a b", "ünï", "日本", "with-dash", "sp ace d", "q?", "a:b", "#c", "k/1", "[x]", "{y}", "a,b", "it's", "tr\"q", "back\\slash", "true", "null", "~", "yes", "😀k", "e1", "x=y", "@at", "%p", "&r", "*s", "!t", "|u", ">v", "-w"}
var dotKeys = []string{"a.b", "x.y.z", "dot.", "a.0"}

var safeVarNames = []string{"v0", "v1", "home", "user_name"}
var wildVarNames = []string{"w0", "Env"}
var safeVarValues = []string{"alpha", "Beta gamma", "x1", "é-ü", "/usr/local", "a.b:c", "v 1 2", "日本", "z_z", "10.0.0.1:9200", "q#r"}
var splicePrefixes = []string{"srv-", "x_", "pre ", "http://", "k=", "é:", "p-q-"}
var spliceTails = []string{"", "-end", "/p?q=1", " tail", ".d", ":9200", "_é"}

var lookalikes = []string{
	"", "true", "false", "null", "~", "123", "-5", "1.5", "1e3", "0x1F", "0o7", "010", "yes", "no", "on", "off", "y", "n",
	"2001-12-14", "12:30:45", "1_000", ".inf", ".nan", "<<", "=", "- a", "a: b", "k: v", "[1,2]", "{a: 1}", "# c", "// c", "/* c */",
	"'''", "'q'", "\"dq\"", " lead", "trail ", "  ", "a,b", "http://h:80/p?q=1&r=%20", "C:\\dir\\f", "line1\nline2", "tab\there",
	"\r\n", "é", "日本語", "😀", "\x00", "\x7f", "\u0085", "\u00a0", "\u2028", "\u2029", "\ufeff", "\uffff", "\ufffd", "&anchor", "*alias", "!tag",
	"|", ">", "%", "@", "`", "?", "-", ":", ",", "[", "]", "{", "}", "\\", "\\n", "\"", "'", "a\\\"b", "e\u0301", "notanumber",
}

var alphabet = []rune("abcxyzABZ019 _-.,:;/\\\"'#[]{}()<>|&*!?%@`~^+=\n\t\r\b\f\x00\x1f\x7f\u0080\u0085\u009f\u00a0éüßÿ\u0301λЖ日本語\u2028\u2029\ufeff\ufffd\ufffe\uffff😀𝄞")

var intPool = []int64{0, 1, -1, 2, 7, 10, 42, 255, 256, -128, 127, 128, 300, 65535, 1<<31 - 1, 1 << 31, -(1 << 31), -(1 << 31) - 1, 1 << 32, 1<<53 - 1, 1 << 53, -(1 << 53), -(1<<53 - 1), 1000000, 9200}
var floatPool = []float64{0.5, -0.5, 2.5, 0.1, 1.25, 3.0, -7.0, 0.0, math.Copysign(0, -1), 1e6, 1e15 + 0.5, 1e20, 1e21, 1e22, 1e100, 1e300, math.MaxFloat64, -math.MaxFloat64,
	math.SmallestNonzeroFloat64, 1e-7, 2.2250738585072014e-308, 123456.789, -273.15, 9007199254740992, 9007199254740994, 0.30000000000000004, 1.0 / 3.0, 4294967296.5}

type docGen struct {
	r        *rand.Rand
	res      *harness.R
	safeVars []string // variables not referenced yet whose value is safe inside splices
	wildVars []string // variables not referenced yet with wide-alphabet values (pure references only)
	allVars  []string // every variable name
	dotted   bool     // this document may use keys containing '.'
	hasDot   bool
	hasRef   bool
}

func (g *docGen) key(d *model.Node) string {
	for try := 0; try < 20; try++ {
		var k string
		switch x := g.r.Intn(20); {
		case x < 14:
			k = plainKeys[g.r.Intn(len(plainKeys))]
		case x < 19:
			k = oddKeys[g.r.Intn(len(oddKeys))]
		case g.dotted:
			k = dotKeys[g.r.Intn(len(dotKeys))]
		default:
			k = plainKeys[g.r.Intn(len(plainKeys))]
		}
		if _, dup := d.D[k]; dup {
			continue
		}
		if strings.Contains(k, ".") {
			g.hasDot = true
		}
		return k
	}
	return ""
}

func (g *docGen) chunk(max int) string {
	var b strings.Builder
	for i, n := 0, g.r.Intn(max+1); i < n; i++ {
		b.WriteRune(alphabet[g.r.Intn(len(alphabet))])
	}
	return b.String()
}

// str draws the raw text of a string leaf.
func (g *docGen) str(refs bool) string {
	r := g.r
	// every variable is referenced at most once per document: a second
	// evaluation of one name inside one Unpack call is C08's open defect
	take := func(l *[]string) string {
		i := r.Intn(len(*l))
		v := (*l)[i]
		*l = append((*l)[:i:i], (*l)[i+1:]...)
		return v
	}
	if refs && len(g.safeVars)+len(g.wildVars) > 0 && r.Intn(3) == 0 {
		g.hasRef = true
		if len(g.safeVars) == 0 || len(g.wildVars) > 0 && r.Intn(2) == 0 {
			g.res.SetAdd("leaf_kind", "string:pure-ref-wild")
			return "${" + take(&g.wildVars) + "}"
		}
		if r.Intn(3) == 0 {
			g.res.SetAdd("leaf_kind", "string:pure-ref")
			return "${" + take(&g.safeVars) + "}"
		}
		// splice: literal prefix + ${safe} [+ sep + ${other safe}] + tail
		s := splicePrefixes[r.Intn(len(splicePrefixes))]
		s += "${" + take(&g.safeVars) + "}"
		if len(g.safeVars) > 0 && r.Intn(3) == 0 {
			s += []string{".", "-", " ", "$$", "/"}[r.Intn(5)] + "${" + take(&g.safeVars) + "}"
			g.res.SetAdd("leaf_kind", "string:splice-2refs")
		} else {
			g.res.SetAdd("leaf_kind", "string:splice")
		}
		return s + spliceTails[r.Intn(len(spliceTails))]
	}
	var s string
	if r.Intn(3) == 0 {
		s = lookalikes[r.Intn(len(lookalikes))]
		g.res.SetAdd("leaf_kind", "string:lookalike")
	} else {
		s = g.chunk(12)
		g.res.SetAdd("leaf_kind", "string:wide")
	}
	switch r.Intn(12) {
	case 0:
		s = g.chunk(3) + "$$" + s
		g.res.SetAdd("leaf_kind", "string:$$")
	case 1:
		s = s + "$$" + g.chunk(3)
		g.res.SetAdd("leaf_kind", "string:$$")
	case 2:
		s = s + "$$" + "{" + plainKeys[r.Intn(3)] + "}"
		g.res.SetAdd("leaf_kind", "string:$${x}")
	case 3:
		s = s + "$" + string(rune('a'+r.Intn(26))) + g.chunk(2)
		g.res.SetAdd("leaf_kind", "string:lone-$")
	case 4:
		s = s + "$"
		g.res.SetAdd("leaf_kind", "string:trailing-$")
	}
	return s
}

func (g *docGen) intLeaf() *model.Node {
	r := g.r
	g.res.SetAdd("leaf_kind", "int")
	switch r.Intn(4) {
	case 0:
		return model.P(int64(r.Intn(200) - 100))
	case 1:
		v := r.Int63n(1 << 53)
		if r.Intn(2) == 0 {
			v = -v
		}
		return model.P(v)
	}
	return model.P(intPool[r.Intn(len(intPool))])
}

func (g *docGen) floatLeaf() *model.Node {
	r := g.r
	g.res.SetAdd("leaf_kind", "float")
	switch r.Intn(4) {
	case 0:
		return model.P(float64(r.Intn(2000)-1000) / []float64{2, 4, 8, 10, 100, 1000}[r.Intn(6)])
	case 1:
		return model.P(r.NormFloat64() * math.Pow(10, float64(r.Intn(60)-30)))
	}
	return model.P(floatPool[r.Intn(len(floatPool))])
}

func (g *docGen) leaf(kind int) *model.Node {
	switch kind {
	case 0:
		return model.P(g.str(true))
	case 1:
		return g.intLeaf()
	case 2:
		return g.floatLeaf()
	case 3:
		g.res.SetAdd("leaf_kind", "bool")
		return model.P(g.r.Intn(2) == 0)
	}
	g.res.SetAdd("leaf_kind", "null")
	return model.Nil()
}

func (g *docGen) node(depth int) *model.Node {
	r := g.r
	k := r.Intn(14)
	if depth <= 0 {
		k = r.Intn(8)
	}
	switch {
	case k < 3:
		return g.leaf(0)
	case k < 7:
		return g.leaf(k - 2) // int, float, bool, null
	case k == 7:
		if r.Intn(2) == 0 {
			g.res.SetAdd("leaf_kind", "{}")
			return model.Dict()
		}
		g.res.SetAdd("leaf_kind", "[]")
		return model.List()
	case k < 11:
		return g.dict(depth, r.Intn(5))
	default:
		n := model.List()
		c := r.Intn(5)
		switch r.Intn(3) {
		case 0: // same leaf kind throughout
			kind := r.Intn(4)
			for i := 0; i < c; i++ {
				if kind == 1 && r.Intn(4) == 0 {
					n.A = append(n.A, g.leaf(2)) // ints mixed with floats
				} else if r.Intn(8) == 0 {
					n.A = append(n.A, g.leaf(4))
				} else {
					n.A = append(n.A, g.leaf(kind))
				}
			}
		case 1: // list of objects
			for i := 0; i < c; i++ {
				n.A = append(n.A, g.dict(depth-1, 1+r.Intn(3)))
			}
		default:
			for i := 0; i < c; i++ {
				n.A = append(n.A, g.node(depth-1))
			}
		}
		return n
	}
}

func (g *docGen) dict(depth, nkeys int) *model.Node {
	n := model.Dict()
	for i := 0; i < nkeys; i++ {
		if k := g.key(n); k != "" {
			n.D[k] = g.node(depth - 1)
		}
	}
	return n
}

func (g *docGen) top() *model.Node {
	r := g.r
	depth := 1 + r.Intn(4)
	g.dotted = r.Intn(8) == 0
	if r.Intn(12) == 0 {
		n := model.List()
		for i, c := 0, r.Intn(5); i < c; i++ {
			n.A = append(n.A, g.node(depth-1))
		}
		return n
	}
	n := model.Dict()
	if r.Intn(2) == 0 {
		// variables first, so that strings drawn later can reference them
		for _, name := range safeVarNames {
			if r.Intn(2) == 0 {
				n.D[name] = model.P(safeVarValues[r.Intn(len(safeVarValues))])
				g.safeVars = append(g.safeVars, name)
				g.allVars = append(g.allVars, name)
			}
		}
		for _, name := range wildVarNames {
			if r.Intn(3) == 0 {
				n.D[name] = model.P(g.str(false)) // no references inside variable values
				g.wildVars = append(g.wildVars, name)
				g.allVars = append(g.allVars, name)
			}
		}
	}
	for i, c := 0, r.Intn(7); i < c; i++ {
		if k := g.key(n); k != "" {
			if i == 0 && r.Intn(2) == 0 {
				n.D[k] = g.dict(depth-1, 1+r.Intn(4)) // most documents nest
			} else {
				n.D[k] = g.node(depth - 1)
			}
		}
	}
	return n
}

// shape measures a tree: number of leaves and whether a container is nested.
func shape(n *model.Node, depth int) (leaves int, nested bool) {
	if !n.IsSub() {
		return 1, false
	}
	if depth > 0 {
		nested = true
	}
	for _, c := range n.D {
		l, ne := shape(c, depth+1)
		leaves += l
		nested = nested || ne
	}
	for _, c := range n.A {
		l, ne := shape(c, depth+1)
		leaves += l
		nested = nested || ne
	}
	return
}

// ---------------------------------------------------------------------------
// variable expansion model (only the subset the generator emits)

func isIdent(s string) bool {
	if s == "" {
		return false
	}
	for i, c := range s {
		if !(c == '_' || c >= 'a' && c <= 'z' || c >= 'A' && c <= 'Z' || i > 0 && c >= '0' && c <= '9') {
			return false
		}
	}
	return true
}

// staysString: the text of an expanded splice is handed to parse.Value; the
// generator only emits splices whose expansion that parser returns unchanged
// as a string. This predicate double-checks the construction.
func staysString(s string) bool {
	if s == "" || s != strings.TrimSpace(s) || strings.ContainsAny(s[:1], "[{\"'") || strings.Contains(s, ",") {
		return false
	}
	switch s {
	case "null", "t", "T", "true", "TRUE", "True", "on", "ON", "f", "F", "false", "FALSE", "False", "off", "OFF":
		return false
	}
	if _, err := strconv.ParseUint(s, 0, 64); err == nil {
		return false
	}
	if _, err := strconv.ParseInt(s, 0, 64); err == nil {
		return false
	}
	if _, err := strconv.ParseFloat(s, 64); err == nil {
		return false
	}
	return true
}

// expand evaluates a raw string under VarExp: "$$" -> "$", "$}" -> "}",
// "${name}" -> the expanded value of the top-level string name, any other "$"
// is literal. ok=false when the text leaves the modelled subset (seen: the
// names referenced so far in the document; a second reference is outside).
func expand(raw string, vars map[string]string, seen map[string]bool) (string, bool) {
	var b strings.Builder
	nref, other := 0, false
	for i := 0; i < len(raw); {
		c := raw[i]
		if c != '$' || i+1 >= len(raw) {
			b.WriteByte(c)
			other = true
			i++
			continue
		}
		switch raw[i+1] {
		case '{':
			j := strings.IndexByte(raw[i+2:], '}')
			if j < 0 || vars == nil {
				return "", false
			}
			name := raw[i+2 : i+2+j]
			v, ok := vars[name]
			if !ok || !isIdent(name) || seen[name] {
				return "", false
			}
			seen[name] = true
			ev, ok := expand(v, nil, nil)
			if !ok {
				return "", false
			}
			b.WriteString(ev)
			nref++
			i += j + 3
		case '$', '}':
			b.WriteByte(raw[i+1])
			other = true
			i += 2
		default:
			b.WriteByte('$')
			other = true
			i++
		}
	}
	s := b.String()
	if nref > 0 && (other || nref > 1) && !staysString(s) {
		return "", false
	}
	return s, true
}

func expandTree(n *model.Node, vars map[string]string, seen map[string]bool) (*model.Node, bool) {
	if n == nil {
		return nil, true
	}
	switch n.Kind {
	case model.KNil:
		return model.Nil(), true
	case model.KPrim:
		if s, ok := n.Prim.(string); ok {
			e, ok := expand(s, vars, seen)
			return model.P(e), ok
		}
		return model.P(n.Prim), true
	}
	m := &model.Node{Kind: model.KSub, HasA: n.HasA}
	if n.D != nil {
		m.D = map[string]*model.Node{}
		for k, c := range n.D {
			e, ok := expandTree(c, vars, seen)
			if !ok {
				return nil, false
			}
			m.D[k] = e
		}
	}
	for _, c := range n.A {
		e, ok := expandTree(c, vars, seen)
		if !ok {
			return nil, false
		}
		m.A = append(m.A, e)
	}
	return m, true
}

// ---------------------------------------------------------------------------
// JSON text in the shared subset

type style struct {
	name       string
	indent     int
	spaceColon bool
	spaceComma bool
	loose      bool
	shuffle    bool
}

type renderer struct {
	r   *rand.Rand
	res *harness.R
	st  style
	b   strings.Builder
}

func (w *renderer) quote(s string) {
	r := w.r
	w.b.WriteByte('"')
	for _, c := range s {
		u := func() {
			f := "\\u%04x"
			if r.Intn(2) == 0 {
				f = "\\u%04X"
			}
			fmt.Fprintf(&w.b, f, c)
		}
		switch {
		case c == '"':
			w.b.WriteString(`\"`)
			w.res.SetAdd("escape", `\"`)
		case c == '\\':
			w.b.WriteString(`\\`)
			w.res.SetAdd("escape", `\\`)
		case c == '\n' || c == '\t' || c == '\r' || c == '\b' || c == '\f':
			if r.Intn(4) == 0 {
				u()
				w.res.SetAdd("escape", `\u00XX(control)`)
			} else {
				e := map[rune]string{'\n': `\n`, '\t': `\t`, '\r': `\r`, '\b': `\b`, '\f': `\f`}[c]
				w.b.WriteString(e)
				w.res.SetAdd("escape", e)
			}
		case c < 0x20:
			u()
			w.res.SetAdd("escape", `\u00XX(control)`)
		case c >= 0x7f && c <= 0x9f, c == 0xfffe, c == 0xffff, c == 0x2028, c == 0x2029, c == 0xfeff:
			// not printable for YAML (rejected, or yaml.v2's reader trips over a
			// literal U+FEFF near a 512-byte chunk boundary), or read as a line
			// break and folded
			u()
			w.res.SetAdd("escape", `\uXXXX(yaml-nonprintable)`)
		case c > 0xffff:
			w.b.WriteRune(c)
			w.res.SetAdd("escape", "literal-nonBMP")
		case r.Intn(16) == 0:
			u()
			if c < 0x80 {
				w.res.SetAdd("escape", `\u00XX(ascii)`)
			} else {
				w.res.SetAdd("escape", `\uXXXX(bmp)`)
			}
		default:
			w.b.WriteRune(c)
			if c >= 0x80 {
				w.res.SetAdd("escape", "literal-nonASCII")
			}
		}
	}
	w.b.WriteByte('"')
}

func (w *renderer) float(f float64) {
	r := w.r
	var s string
	a := math.Abs(f)
	switch x := r.Intn(6); {
	case x == 0:
		s = strconv.FormatFloat(f, 'e', -1, 64)
		w.res.SetAdd("number_format", "float:e")
	case x == 1 && (a == 0 || a >= 1e-9 && a < 1<<53):
		// an integral float prints as an integer literal: beyond 2^53 YAML would
		// keep it exact while JSON rounds it (not demanded)
		s = strconv.FormatFloat(f, 'f', -1, 64)
		w.res.SetAdd("number_format", "float:f")
	case x == 2 && (a == 0 || a >= 1e-9 && a < 1e25):
		s = strconv.FormatFloat(f, 'f', -1, 64)
		if !strings.Contains(s, ".") {
			s += ".0"
		}
		w.res.SetAdd("number_format", "float:f.0")
	default:
		s = strconv.FormatFloat(f, 'g', -1, 64)
		w.res.SetAdd("number_format", "float:g")
	}
	if r.Intn(3) == 0 {
		s = strings.Replace(s, "e", "E", 1)
	}
	w.b.WriteString(s)
}

func (w *renderer) pad() {
	if w.st.loose {
		w.b.WriteString(strings.Repeat(" ", w.r.Intn(3)))
	}
}

func (w *renderer) nl(level int) {
	if w.st.indent > 0 {
		w.b.WriteByte('\n')
		w.b.WriteString(strings.Repeat(" ", w.st.indent*level))
	}
}

func (w *renderer) node(n *model.Node, level int) {
	switch {
	case n == nil || n.Kind == model.KNil:
		w.b.WriteString("null")
	case n.Kind == model.KPrim:
		switch p := n.Prim.(type) {
		case string:
			w.quote(p)
		case bool:
			w.b.WriteString(strconv.FormatBool(p))
		case int64:
			w.b.WriteString(strconv.FormatInt(p, 10))
		case float64:
			w.float(p)
		}
	case n.HasA:
		w.b.WriteByte('[')
		for i, c := range n.A {
			if i > 0 {
				w.pad()
				w.b.WriteByte(',')
				if w.st.spaceComma && w.st.indent == 0 {
					w.b.WriteByte(' ')
				}
			}
			w.nl(level + 1)
			w.pad()
			w.node(c, level+1)
		}
		if len(n.A) > 0 {
			w.nl(level)
		}
		w.pad()
		w.b.WriteByte(']')
	default:
		keys := n.SortedKeys()
		if w.st.shuffle {
			w.r.Shuffle(len(keys), func(i, j int) { keys[i], keys[j] = keys[j], keys[i] })
		}
		w.b.WriteByte('{')
		for i, k := range keys {
			if i > 0 {
				w.pad()
				w.b.WriteByte(',')
				if w.st.spaceComma && w.st.indent == 0 {
					w.b.WriteByte(' ')
				}
			}
			w.nl(level + 1)
			w.pad()
			w.quote(k)
			w.pad()
			w.b.WriteByte(':')
			if w.st.spaceColon {
				w.b.WriteByte(' ')
			}
			w.pad()
			w.node(n.D[k], level+1)
		}
		if len(keys) > 0 {
			w.nl(level)
		}
		w.pad()
		w.b.WriteByte('}')
	}
}

func render(r *rand.Rand, res *harness.R, n *model.Node) []byte {
	w := &renderer{r: r, res: res}
	switch r.Intn(5) {
	case 0:
		w.st = style{name: "compact"}
	case 1:
		w.st = style{name: "spaced", spaceColon: true, spaceComma: true}
	case 2:
		w.st = style{name: "indent2", indent: 2, spaceColon: true}
	case 3:
		w.st = style{name: "indent" + strconv.Itoa(1+r.Intn(8)), indent: 1, spaceColon: r.Intn(2) == 0}
		w.st.indent, _ = strconv.Atoi(w.st.name[6:])
	default:
		w.st = style{name: "loose", indent: r.Intn(2) * 3, spaceColon: r.Intn(2) == 0, spaceComma: r.Intn(2) == 0, loose: true}
	}
	w.st.shuffle = r.Intn(2) == 0
	res.SetAdd("style", w.st.name)
	w.b.WriteString([]string{"", "", "\n", " ", "\n\n  "}[r.Intn(5)])
	w.node(n, 0)
	w.b.WriteString([]string{"", "\n", "\n", " ", " \n\n"}[r.Intn(5)])
	return []byte(w.b.String())
}

// ---------------------------------------------------------------------------
// strict forms for the raw-decoder pre-filter

func strictNode(b *strings.Builder, n *model.Node) {
	switch {
	case n == nil || n.Kind == model.KNil:
		b.WriteString("null")
	case n.Kind == model.KPrim:
		b.WriteString(model.PrimCanon(n.Prim))
	case n.HasA:
		b.WriteByte('[')
		for i, c := range n.A {
			if i > 0 {
				b.WriteByte(',')
			}
			strictNode(b, c)
		}
		b.WriteByte(']')
	default:
		b.WriteByte('{')
		for i, k := range n.SortedKeys() {
			if i > 0 {
				b.WriteByte(',')
			}
			b.WriteString(strconv.Quote(k))
			b.WriteByte(':')
			strictNode(b, n.D[k])
		}
		b.WriteByte('}')
	}
}

func strictIfc(b *strings.Builder, v interface{}) {
	switch x := v.(type) {
	case nil:
		b.WriteString("null")
	case map[interface{}]interface{}:
		m := make(map[string]interface{}, len(x))
		for k, e := range x {
			ks, ok := k.(string)
			if !ok {
				ks = fmt.Sprintf("!nonstring-key(%T)%v", k, k)
			}
			m[ks] = e
		}
		strictIfc(b, m)
	case map[string]interface{}:
		keys := make([]string, 0, len(x))
		for k := range x {
			keys = append(keys, k)
		}
		sort.Strings(keys)
		b.WriteByte('{')
		for i, k := range keys {
			if i > 0 {
				b.WriteByte(',')
			}
			b.WriteString(strconv.Quote(k))
			b.WriteByte(':')
			strictIfc(b, x[k])
		}
		b.WriteByte('}')
	case []interface{}:
		b.WriteByte('[')
		for i, e := range x {
			if i > 0 {
				b.WriteByte(',')
			}
			strictIfc(b, e)
		}
		b.WriteByte(']')
	default:
		b.WriteString(model.PrimCanon(v))
	}
}

// prefilter returns "" when the three raw decoders agree with each other and
// with the generating tree, else the reason the document is discarded.
func prefilter(text []byte, tree *model.Node) string {
	var want strings.Builder
	strictNode(&want, tree)
	var y, j, h interface{}
	if err := rawyaml.Unmarshal(text, &y); err != nil {
		return "yaml-decoder-error|" + err.Error()
	}
	if err := stdjson.Unmarshal(text, &j); err != nil {
		return "json-decoder-error|" + err.Error()
	}
	if err := rawhjson.Unmarshal(text, &h); err != nil {
		return "hjson-decoder-error|" + err.Error()
	}
	for i, v := range []interface{}{j, y, h} {
		var got strings.Builder
		strictIfc(&got, v)
		if g, w := got.String(), want.String(); g != w {
			k := 0
			for k < len(g) && k < len(w) && g[k] == w[k] {
				k++
			}
			lo := k - 12
			if lo < 0 {
				lo = 0
			}
			win := func(s string) string {
				hi := k + 12
				if hi > len(s) {
					hi = len(s)
				}
				return s[lo:hi]
			}
			return fmt.Sprintf("%s-decoder-differs-from-tree|decoded %q tree %q", []string{"json", "yaml", "hjson"}[i], win(g), win(w))
		}
	}
	return ""
}

// ---------------------------------------------------------------------------
// typed targets fitted to the document

var (
	tString  = reflect.TypeOf("")
	tBool    = reflect.TypeOf(true)
	tInt     = reflect.TypeOf(int(0))
	tInt8    = reflect.TypeOf(int8(0))
	tInt32   = reflect.TypeOf(int32(0))
	tInt64   = reflect.TypeOf(int64(0))
	tUint    = reflect.TypeOf(uint(0))
	tUint64  = reflect.TypeOf(uint64(0))
	tFloat64 = reflect.TypeOf(float64(0))
	tIface   = reflect.TypeOf((*interface{})(nil)).Elem()
)

func tagSafe(k string) bool {
	return k != "" && k != "-" && !strings.ContainsAny(k, ",\"`\\")
}

type fitter struct {
	r   *rand.Rand
	res *harness.R
}

func (f *fitter) note(k string) { f.res.SetAdd("typed_kind", k) }

func (f *fitter) pick(ts ...reflect.Type) reflect.Type {
	t := ts[f.r.Intn(len(ts))]
	f.note(t.String())
	return t
}

// fit returns one Go type able to hold every node of ns. elem: the type is a
// slice or map element (no pointers there); top: it is the Unpack target.
func (f *fitter) fit(ns []*model.Node, elem, top bool) reflect.Type {
	r := f.r
	var nn []*model.Node
	for _, n := range ns {
		if n != nil && n.Kind != model.KNil {
			nn = append(nn, n)
		}
	}
	if len(nn) == 0 {
		if elem {
			return f.pick(tIface, tIface, tString, tInt64)
		}
		return f.pick(tIface, tIface, reflect.PtrTo(tInt64), reflect.PtrTo(tString), reflect.PtrTo(tBool), tInt64, tString)
	}
	cls := map[byte]bool{}
	for _, n := range nn {
		switch {
		case n.Kind == model.KSub && n.HasA:
			cls['L'] = true
		case n.Kind == model.KSub:
			cls['D'] = true
		default:
			switch n.Prim.(type) {
			case string:
				cls['S'] = true
			case bool:
				cls['B'] = true
			case int64:
				cls['I'] = true
			case float64:
				cls['F'] = true
			}
		}
	}
	if len(cls) == 2 && cls['I'] && cls['F'] {
		delete(cls, 'I')
	}
	if len(cls) != 1 {
		f.note("interface{}(mixed)")
		return tIface
	}
	if !top && r.Intn(8) == 0 {
		f.note("interface{}(generic-subtree)")
		return tIface
	}
	ptr := func(t reflect.Type) reflect.Type {
		if !elem && !top && r.Intn(5) == 0 {
			f.note("*" + t.Kind().String())
			return reflect.PtrTo(t)
		}
		return t
	}
	switch {
	case cls['S']:
		return ptr(f.pick(tString))
	case cls['B']:
		return ptr(f.pick(tBool))
	case cls['F']:
		return ptr(f.pick(tFloat64))
	case cls['I']:
		cand := []reflect.Type{tInt64, tInt64, tInt, tFloat64}
		nonNeg, in32 := true, true
		for _, n := range nn {
			v := n.Prim.(int64)
			nonNeg = nonNeg && v >= 0
			in32 = in32 && v >= math.MinInt32 && v <= math.MaxInt32
		}
		if nonNeg {
			cand = append(cand, tUint64, tUint)
		}
		if in32 {
			cand = append(cand, tInt32)
		}
		return ptr(f.pick(cand...))
	case cls['L']:
		var elems []*model.Node
		for _, n := range nn {
			elems = append(elems, n.A...)
		}
		var et reflect.Type
		if len(elems) == 0 {
			et = f.pick(tIface, tString, tInt64)
		} else {
			et = f.fit(elems, true, false)
		}
		if !elem && !top && len(nn) == 1 && len(elems) > 0 && r.Intn(4) == 0 {
			switch et.Kind() {
			case reflect.String, reflect.Bool, reflect.Int, reflect.Int32, reflect.Int64, reflect.Uint, reflect.Uint64, reflect.Float64:
				f.note("[N]T")
				return reflect.ArrayOf(len(elems), et)
			}
		}
		f.note("[]T")
		return reflect.SliceOf(et)
	}
	// dictionaries
	keyset := map[string]bool{}
	safe := true
	for _, n := range nn {
		for k := range n.D {
			keyset[k] = true
			safe = safe && tagSafe(k)
		}
	}
	if safe && r.Intn(4) > 0 {
		keys := make([]string, 0, len(keyset))
		for k := range keyset {
			keys = append(keys, k)
		}
		sort.Strings(keys)
		r.Shuffle(len(keys), func(i, j int) { keys[i], keys[j] = keys[j], keys[i] })
		fields := make([]reflect.StructField, 0, len(keys))
		for i, k := range keys {
			var ch []*model.Node
			for _, n := range nn {
				if c, ok := n.D[k]; ok {
					ch = append(ch, c)
				}
			}
			fields = append(fields, reflect.StructField{
				Name: "F" + strconv.Itoa(i),
				Type: f.fit(ch, false, false),
				Tag:  reflect.StructTag(`config:"` + k + `"`),
			})
		}
		st := reflect.StructOf(fields)
		if !elem && !top && r.Intn(4) == 0 {
			f.note("*struct")
			return reflect.PtrTo(st)
		}
		f.note("struct")
		return st
	}
	var ch []*model.Node
	for _, n := range nn {
		for _, k := range n.SortedKeys() {
			ch = append(ch, n.D[k])
		}
	}
	et := tIface
	if len(ch) > 0 {
		et = f.fit(ch, true, false)
	}
	f.note("map[string]T")
	return reflect.MapOf(tString, et)
}

// renderTyped is an exact, DeepEqual-like rendering except that numbers are
// written by value (YAML yields int64/uint64 inside interface{}, JSON float64).
func renderTyped(b *strings.Builder, v reflect.Value) {
	switch v.Kind() {
	case reflect.Interface:
		if v.IsNil() {
			b.WriteString("nil")
			return
		}
		b.WriteString("i:")
		renderTyped(b, v.Elem())
	case reflect.Ptr:
		if v.IsNil() {
			b.WriteString("nilptr")
			return
		}
		b.WriteByte('&')
		renderTyped(b, v.Elem())
	case reflect.Struct:
		b.WriteByte('{')
		for i := 0; i < v.NumField(); i++ {
			if i > 0 {
				b.WriteByte(',')
			}
			b.WriteString(v.Type().Field(i).Name)
			b.WriteByte(':')
			renderTyped(b, v.Field(i))
		}
		b.WriteByte('}')
	case reflect.Map:
		if v.IsNil() {
			b.WriteString("nilmap")
			return
		}
		keys := v.MapKeys()
		sort.Slice(keys, func(i, j int) bool { return keys[i].String() < keys[j].String() })
		b.WriteString("map{")
		for i, k := range keys {
			if i > 0 {
				b.WriteByte(',')
			}
			b.WriteString(strconv.Quote(k.String()))
			b.WriteByte(':')
			renderTyped(b, v.MapIndex(k))
		}
		b.WriteByte('}')
	case reflect.Slice, reflect.Array:
		if v.Kind() == reflect.Slice && v.IsNil() {
			b.WriteString("nilslice")
			return
		}
		b.WriteByte('[')
		for i := 0; i < v.Len(); i++ {
			if i > 0 {
				b.WriteByte(',')
			}
			renderTyped(b, v.Index(i))
		}
		b.WriteByte(']')
	case reflect.String:
		b.WriteString(strconv.Quote(v.String()))
	case reflect.Bool:
		b.WriteString(strconv.FormatBool(v.Bool()))
	case reflect.Int, reflect.Int8, reflect.Int16, reflect.Int32, reflect.Int64:
		b.WriteString(strconv.FormatInt(v.Int(), 10))
	case reflect.Uint, reflect.Uint8, reflect.Uint16, reflect.Uint32, reflect.Uint64:
		b.WriteString(strconv.FormatUint(v.Uint(), 10))
	case reflect.Float32, reflect.Float64:
		b.WriteString(model.NumCanon(v.Float()))
	default:
		fmt.Fprintf(b, "?%s", v.Kind())
	}
}

func canonNil(n *model.Node) bool { return n == nil || n.Canon() == "nil" }

// matchTyped compares a typed value with the expected tree. Where the tree
// holds null / nothing the typed slot is not pinned (zero value, nil or a
// pointer to zero are all accepted). Returns "" or a description.
func matchTyped(v reflect.Value, n *model.Node, path string) string {
	switch v.Kind() {
	case reflect.Interface:
		if v.IsNil() {
			if canonNil(n) {
				return ""
			}
			return fmt.Sprintf("%s: nil, want %s", path, n.Canon())
		}
		want := "nil"
		if n != nil {
			want = n.Canon()
		}
		if got := model.CanonIfc(v.Interface()); got != want {
			return fmt.Sprintf("%s: %s, want %s", path, got, want)
		}
		return ""
	case reflect.Ptr:
		if v.IsNil() {
			if canonNil(n) {
				return ""
			}
			return fmt.Sprintf("%s: nil pointer, want %s", path, n.Canon())
		}
		return matchTyped(v.Elem(), n, path)
	}
	if n == nil || n.Kind == model.KNil {
		return ""
	}
	if n.Kind == model.KPrim {
		var got string
		switch v.Kind() {
		case reflect.String:
			got = strconv.Quote(v.String())
		case reflect.Bool:
			got = strconv.FormatBool(v.Bool())
		case reflect.Int, reflect.Int8, reflect.Int16, reflect.Int32, reflect.Int64:
			got = model.NumCanon(v.Int())
		case reflect.Uint, reflect.Uint8, reflect.Uint16, reflect.Uint32, reflect.Uint64:
			got = model.NumCanon(v.Uint())
		case reflect.Float32, reflect.Float64:
			got = model.NumCanon(v.Float())
		default:
			got = "<" + v.Kind().String() + ">"
		}
		if want := model.PrimCanon(n.Prim); got != want {
			return fmt.Sprintf("%s: %s, want %s", path, got, want)
		}
		return ""
	}
	if n.HasA {
		if v.Kind() != reflect.Slice && v.Kind() != reflect.Array {
			return fmt.Sprintf("%s: %s for a list", path, v.Kind())
		}
		if v.Len() != len(n.A) {
			return fmt.Sprintf("%s: length %d, want %d", path, v.Len(), len(n.A))
		}
		for i, c := range n.A {
			if d := matchTyped(v.Index(i), c, path+"."+strconv.Itoa(i)); d != "" {
				return d
			}
		}
		return ""
	}
	switch v.Kind() {
	case reflect.Struct:
		for i := 0; i < v.NumField(); i++ {
			k := v.Type().Field(i).Tag.Get("config")
			if d := matchTyped(v.Field(i), n.D[k], path+"."+k); d != "" {
				return d
			}
		}
	case reflect.Map:
		for _, k := range n.SortedKeys() {
			mv := v.MapIndex(reflect.ValueOf(k))
			if !mv.IsValid() {
				if canonNil(n.D[k]) {
					continue
				}
				return fmt.Sprintf("%s.%s: missing, want %s", path, k, n.D[k].Canon())
			}
			if d := matchTyped(mv, n.D[k], path+"."+k); d != "" {
				return d
			}
		}
		for _, k := range v.MapKeys() {
			if _, ok := n.D[k.String()]; !ok {
				return fmt.Sprintf("%s.%s: entry not in the document", path, k.String())
			}
		}
	default:
		return fmt.Sprintf("%s: %s for an object", path, v.Kind())
	}
	return ""
}

// ---------------------------------------------------------------------------
// loaders

type loader struct {
	name string
	ext  string
	mem  func([]byte, ...ucfg.Option) (*ucfg.Config, error)
	file func(string, ...ucfg.Option) (*ucfg.Config, error)
}

var loaders = []loader{
	{"yaml", "yaml", uyaml.NewConfig, uyaml.NewConfigWithFile},
	{"json", "json", ujson.NewConfig, ujson.NewConfigWithFile},
	{"hjson", "hjson", uhjson.NewConfig, uhjson.NewConfigWithFile},
}

type combo struct {
	name    string
	pathSep bool
	varExp  bool
	opts    []ucfg.Option
}

var combos = []combo{
	{"none", false, false, nil},
	{"PathSep", true, false, []ucfg.Option{ucfg.PathSep(".")}},
	{"VarExp", false, true, []ucfg.Option{ucfg.VarExp}},
	{"PathSep+VarExp", true, true, []ucfg.Option{ucfg.PathSep("."), ucfg.VarExp}},
	{"VarExp+PathSep", true, true, []ucfg.Option{ucfg.VarExp, ucfg.PathSep(".")}},
}

func tmpRootDir() string { return filepath.Join(harness.Root, "work", "C18tmp") }

var fileStems = []string{"doc", "doc", "my conf", "cfg-ü", "a.b", "x(1)"}

// variant is one spelling of the case's document (nested, or with folded
// dotted keys) and the files holding it.
type variant struct {
	label string
	text  []byte
	paths map[string]string
}

// view is one way of looking at a loaded config: [0] the generic targets
// (obs.Top), [1..] the fitted typed targets.
type view struct {
	err error
	s   string
	val reflect.Value
}

type observed struct {
	ok    bool // loaded and observed without panic
	views []view
}

func clip(s string) string {
	if len(s) > 700 {
		return s[:700] + "...(clipped)"
	}
	return s
}

// observe unpacks an already loaded config into the generic targets and into
// a fresh value of every fitted type.
func observe(res *harness.R, c *ucfg.Config, types []reflect.Type, opts []ucfg.Option, who, ctx string) (o observed) {
	panicked, pv, where := harness.Safe(func() {
		top, err := obs.Top(c, opts...)
		res.Eval(2)
		o.views = append(o.views, view{err: err, s: top})
		for _, tt := range types {
			pv := reflect.New(tt)
			err := c.Unpack(pv.Interface(), opts...)
			res.Eval(1)
			v := view{err: err}
			if err == nil {
				var b strings.Builder
				renderTyped(&b, pv.Elem())
				v.s, v.val = b.String(), pv.Elem()
			}
			o.views = append(o.views, v)
		}
		o.ok = true
	})
	if panicked {
		res.Violate("panic:Unpack", "%s: panic %q at %s; types %v; %s", who, pv, where, types, ctx)
		o.ok = false
	}
	return
}

func load(res *harness.R, who string, f func() (*ucfg.Config, error), ctx string) (c *ucfg.Config, err error, ok bool) {
	panicked, pv, where := harness.Safe(func() { c, err = f() })
	res.Eval(1)
	if panicked {
		res.Violate("panic:"+who, "panic %q at %s; %s", pv, where, ctx)
		return nil, nil, false
	}
	return c, err, true
}

// ---------------------------------------------------------------------------
// the case

func (check) Run(seed int64, tier string, idx int, verbose bool) harness.Result {
	res := harness.NewR(idx)
	r := rand.New(rand.NewSource(harness.Mix(seed, "C18", idx)))

	g := &docGen{r: r, res: res}
	tree := g.top()
	text := render(r, res, tree)
	if verbose {
		fmt.Printf("document:\n%s\ntree: %s\n", text, tree)
	}
	if why := prefilter(text, tree); why != "" {
		res.Ev("prefilter_rejected", 1)
		reason, example, _ := strings.Cut(why, "|")
		res.SetAdd("prefilter_reason", reason)
		if example != "" {
			res.SetAdd("prefilter_example", reason+": "+example)
		}
		if verbose {
			fmt.Println("prefilter:", why)
		}
		return res.Done()
	}
	res.Ev("documents", 1)

	tmpRoot := tmpRootDir()
	if err := os.MkdirAll(tmpRoot, 0o755); err != nil {
		res.Inconc("cannot create %s: %v", tmpRoot, err)
		return res.Done()
	}
	dir, err := os.MkdirTemp(tmpRoot, fmt.Sprintf("c%d-", idx))
	if err != nil {
		res.Inconc("cannot create case directory: %v", err)
		return res.Done()
	}
	defer os.RemoveAll(dir)

	// expected trees
	vars := map[string]string{}
	if !tree.HasA {
		for _, name := range g.allVars {
			vars[name], _ = tree.D[name].Prim.(string)
		}
	}
	expanded, expOK := expandTree(tree, vars, map[string]bool{})
	if !expOK {
		res.Ev("varexp_outside_model", 1)
	}

	ft := &fitter{r: r, res: res}
	types := []reflect.Type{ft.fit([]*model.Node{tree}, false, true), ft.fit([]*model.Node{tree}, false, true)}
	viewName := func(k int) string {
		if k == 0 {
			return "generic"
		}
		return "typed"
	}
	viewDesc := func(k int) string {
		if k == 0 {
			return "Unpack into map and slice"
		}
		return fmt.Sprintf("Unpack into %v", types[k-1])
	}

	stem := fileStems[r.Intn(len(fileStems))]
	res.SetAdd("file_stem", stem)
	paths := map[string]string{}
	for _, l := range loaders {
		p := filepath.Join(dir, stem+"."+l.ext)
		if err := os.WriteFile(p, text, 0o644); err != nil {
			res.Inconc("cannot write %s: %v", p, err)
			return res.Done()
		}
		paths[l.name] = p
	}

	// the same document with dictionary edges folded into dotted keys, for the
	// loads with PathSep: there it must mean exactly what the nested text means
	variants := []variant{{"nested", text, paths}}
	if !g.hasDot {
		fo := &folder{r: r, objOdds: 2, listOdds: 3}
		ftree := fo.fold(tree, nil, false)
		if fo.folded > 0 {
			ftext := render(r, res, ftree)
			if why := prefilter(ftext, ftree); why != "" {
				res.Ev("prefilter_rejected_folded_document", 1)
				reason, _, _ := strings.Cut(why, "|")
				res.SetAdd("prefilter_reason", reason)
			} else {
				fpaths := map[string]string{}
				for _, l := range loaders {
					p := filepath.Join(dir, "folded-"+stem+"."+l.ext)
					if err := os.WriteFile(p, ftext, 0o644); err != nil {
						res.Inconc("cannot write %s: %v", p, err)
						return res.Done()
					}
					fpaths[l.name] = p
				}
				variants = append(variants, variant{"folded-keys", ftext, fpaths})
				res.Ev("documents_with_folded_keys", 1)
				res.Ev("folded_edges", int64(fo.folded))
			}
		}
	}

	leaves, nested := shape(tree, 0)
	if nested && leaves >= 3 {
		res.Key(string(text))
	}
	if idx < 2 {
		res.Sample = map[string]interface{}{"document": string(text), "typed_targets": fmt.Sprint(types), "vars": g.allVars}
	}

	for _, cb := range combos {
		if cb.pathSep && g.hasDot {
			res.Ev("pathsep_skipped_dotted_key", 1)
			continue
		}
		want := tree
		if cb.varExp {
			if !expOK {
				continue
			}
			want = expanded
		}
		res.SetAdd("options", cb.name)
		if cb.varExp && g.hasRef {
			res.Ev("varexp_documents_with_references", 1)
		}
		wantTop := want.CanonTop()
		for _, vr := range variants {
			if vr.label != "nested" && !cb.pathSep {
				continue
			}
			text, paths := vr.text, vr.paths
			res.SetAdd("spelling", vr.label)
			ctx := fmt.Sprintf("options=%s keys=%s document=%q", cb.name, vr.label, clip(string(text)))

			var mem [3]observed
			okAll := true
			for i, l := range loaders {
				l := l
				c, err, ok := load(res, l.name+".NewConfig", func() (*ucfg.Config, error) { return l.mem(text, cb.opts...) }, ctx)
				if !ok {
					okAll = false
					continue
				}
				if err != nil || c == nil {
					res.Violate("loader-error:"+l.name, "%s.NewConfig returned (%v, %v) for a document all three raw decoders accept; %s", l.name, c, err, ctx)
					okAll = false
					continue
				}
				mem[i] = observe(res, c, types, cb.opts, l.name+".NewConfig", ctx)
				okAll = okAll && mem[i].ok
			}
			for k := 0; okAll && k <= len(types); k++ {
				// three-way, then against the generating tree
				y, j, h := mem[0].views[k], mem[1].views[k], mem[2].views[k]
				nerr := 0
				for _, v := range []view{y, j, h} {
					if v.err != nil {
						nerr++
					}
				}
				switch {
				case nerr == 3:
					res.Violate(viewName(k)+"-unpack-error:all-loaders", "%s fails for all three front-ends: yaml=%v json=%v hjson=%v; %s", viewDesc(k), y.err, j.err, h.err, ctx)
				case nerr > 0:
					res.Violate("frontends-disagree:"+viewName(k)+"-error", "%s: yaml err=%v json err=%v hjson err=%v; %s", viewDesc(k), y.err, j.err, h.err, ctx)
				case y.s != j.s || j.s != h.s:
					res.Violate("frontends-disagree:"+viewName(k), "%s: yaml=%s json=%s hjson=%s; %s", viewDesc(k), y.s, j.s, h.s, ctx)
				case k == 0:
					if y.s != wantTop {
						sig := "all-frontends-differ-from-document:generic"
						if cb.varExp && g.hasRef {
							sig += "-varexp"
						}
						res.Violate(sig, "all three give %s, the document says %s; %s", y.s, wantTop, ctx)
					}
				default:
					if d := matchTyped(y.val, want, ""); d != "" {
						sig := "all-frontends-differ-from-document:typed"
						if cb.varExp && g.hasRef {
							sig += "-varexp"
						}
						res.Violate(sig, "%s: %s; value %s; %s", viewDesc(k), d, y.s, ctx)
					}
				}
			}

			// *WithFile twins
			for i, l := range loaders {
				l := l
				c, err, ok := load(res, l.name+".NewConfigWithFile", func() (*ucfg.Config, error) { return l.file(paths[l.name], cb.opts...) }, ctx)
				if !ok {
					continue
				}
				if err != nil || c == nil {
					res.Violate("loader-error:"+l.name+"-withfile", "%s.NewConfigWithFile returned (%v, %v); %s", l.name, c, err, ctx)
					continue
				}
				fo := observe(res, c, types, cb.opts, l.name+".NewConfigWithFile", ctx)
				if !fo.ok || !mem[i].ok {
					continue
				}
				for k := range fo.views {
					f, m := fo.views[k], mem[i].views[k]
					if (f.err != nil) != (m.err != nil) {
						res.Violate("withfile-differs-from-memory:"+l.name, "%s: file err=%v memory err=%v; %s", viewDesc(k), f.err, m.err, ctx)
					} else if f.err == nil && f.s != m.s {
						res.Violate("withfile-differs-from-memory:"+l.name, "%s: file=%s memory=%s; %s", viewDesc(k), f.s, m.s, ctx)
					}
				}
			}
		}
	}

	// missing file
	for _, l := range loaders {
		l := l
		p := filepath.Join(dir, "missing-"+stem+"."+l.ext)
		cb := combos[r.Intn(len(combos))]
		c, err, ok := load(res, l.name+".NewConfigWithFile", func() (*ucfg.Config, error) { return l.file(p, cb.opts...) }, "missing file "+p)
		if !ok {
			continue
		}
		if err == nil {
			res.Violate("missing-file-no-error:"+l.name, "%s.NewConfigWithFile(%q) returned no error", l.name, p)
		}
		if c != nil {
			res.Violate("missing-file-returns-config:"+l.name, "%s.NewConfigWithFile(%q) returned a config (err=%v)", l.name, p, err)
		}
		res.Ev("missing_file_checked", 1)
	}

	for f := 0; f < 2; f++ {
		faultPhase(res, r, g, tree, dir, stem, verbose)
	}
	topLevelPhase(res, r, tree, g.hasDot, dir, stem, verbose)
	sequencePhase(res, r, g, variants, types[0], dir, verbose)
	refFaultPhase(res, r, g, tree, dir, stem, verbose)
	crossPhase(res, r, dir, stem, verbose)
	gapPhase(res, r, dir, stem, verbose)
	refusedLoadPhase(res, r, dir, stem, verbose)
	// own random stream: the earlier phases keep their draws
	durationPhase(res, rand.New(rand.NewSource(harness.Mix(seed, "C18/duration", idx))), dir, stem, verbose)
	validatorPhase(res, rand.New(rand.NewSource(harness.Mix(seed, "C18/value-sensitive-validators", idx))), dir, stem, verbose)
	return res.Done()
}

// ---------------------------------------------------------------------------
// source check: grafted faults

// picky is a target whose Validate method rejects everything but k: "ok"; the
// error is raised for the object as a whole (a container, not a leaf).
type picky struct {
	K string `config:"k"`
}

func (p picky) Validate() error {
	if p.K != "ok" {
		return errors.New("k is not ok")
	}
	return nil
}

type faultKind struct {
	name       string
	class      string             // input class used in the signatures
	good       func() *model.Node // a value the target accepts (for the list elements before the fault)
	val        func() *model.Node
	leaf       reflect.Type
	tag        string // validate tag; needs a dictionary key as last step
	needKey    bool
	strictPred bool // null is not accepted by the target: earlier list elements must conform
	absent     bool // the last key is removed from its object instead of receiving a value
	getter     bool // observed through Child(...).String(last) instead of Unpack
}

func nInt(v int64) func() *model.Node  { return func() *model.Node { return model.P(v) } }
func nStr(v string) func() *model.Node { return func() *model.Node { return model.P(v) } }
func nObj(k string, v interface{}) func() *model.Node {
	return func() *model.Node { return model.Dict().Set(k, model.P(v)) }
}
func nList(v ...interface{}) func() *model.Node {
	return func() *model.Node {
		n := model.List()
		for _, e := range v {
			n.A = append(n.A, model.P(e))
		}
		return n
	}
}

var faultKinds = []faultKind{
	{name: "string-into-int", class: "conversion", good: nInt(5), val: nStr("notanumber"), leaf: tInt64},
	{name: "string-into-bool", class: "conversion", good: func() *model.Node { return model.P(true) }, val: nStr("maybe"), leaf: tBool},
	{name: "string-into-float", class: "conversion", good: func() *model.Node { return model.P(1.5) }, val: nStr("1.2.3"), leaf: tFloat64},
	{name: "string-into-uint", class: "conversion", good: nInt(7), val: nStr("x y"), leaf: tUint},
	{name: "negative-into-uint", class: "conversion", good: nInt(7), val: nInt(-7), leaf: tUint64},
	{name: "overflow-int8", class: "conversion", good: nInt(100), val: nInt(300), leaf: tInt8},
	{name: "bool-into-int", class: "conversion", good: nInt(5), val: func() *model.Node { return model.P(true) }, leaf: tInt64},
	{name: "string-into-object", class: "conversion", good: nObj("k", int64(1)), val: nStr("text"), leaf: reflect.StructOf([]reflect.StructField{{Name: "K", Type: tInt64, Tag: `config:"k"`}})},
	{name: "validate-min", class: "validator", good: nInt(50), val: nInt(3), leaf: tInt64, tag: "min=10", needKey: true},
	{name: "validate-max-float", class: "validator", good: func() *model.Node { return model.P(0.5) }, val: func() *model.Node { return model.P(2.5) }, leaf: tFloat64, tag: "max=1", needKey: true},
	{name: "validate-positive", class: "validator", good: nInt(5), val: nInt(-1), leaf: tInt64, tag: "positive", needKey: true},
	{name: "validate-nonzero-string", class: "validator", good: nStr("s"), val: nStr(""), leaf: tString, tag: "nonzero", needKey: true},
	{name: "validate-required-null", class: "required-null", good: nStr("s"), val: func() *model.Node { return model.Nil() }, leaf: reflect.PtrTo(tString), tag: "required", needKey: true},
	// faults reported AT a container (an object or a list as a whole) or about
	// a key missing below it: with PathSep and folded keys the container
	// exists only implicitly ("server.tls.port": 1 creates server and server.tls)
	{name: "validate-nonzero-list", class: "container", good: nList(int64(1)), val: nList(), leaf: reflect.SliceOf(tInt64), tag: "nonzero", needKey: true},
	{name: "validate-required-list", class: "container", good: nList("s"), val: nList(), leaf: reflect.SliceOf(tString), tag: "required", needKey: true},
	{name: "validate-nonzero-object", class: "container", good: nObj("k", int64(1)), val: func() *model.Node { return model.Dict() }, leaf: reflect.MapOf(tString, tIface), tag: "nonzero", needKey: true},
	{name: "object-into-int", class: "container", good: nInt(5), val: nObj("k", int64(1)), leaf: tInt64},
	{name: "object-into-int", class: "container", good: nInt(5), val: func() *model.Node {
		return model.Dict().Set("k", model.P(int64(1))).Set("m", model.Dict().Set("n", model.P("s")))
	}, leaf: tInt64},
	{name: "object-into-string", class: "container", good: nStr("s"), val: nObj("k", "v"), leaf: tString},
	{name: "list-into-bool", class: "container", good: func() *model.Node { return model.P(true) }, val: nList(int64(1), int64(2)), leaf: tBool},
	{name: "array-length", class: "container", good: nList(int64(1), int64(2), int64(3)), val: nList(int64(1), int64(2)), leaf: reflect.ArrayOf(3, tInt64), strictPred: true},
	{name: "array-length", class: "container", good: nList("a", "b"), val: nList("a", "b", "c", "d"), leaf: reflect.ArrayOf(2, tString), strictPred: true},
	{name: "struct-validate-fails", class: "container", good: nObj("k", "ok"), val: nObj("k", "bad"), leaf: reflect.TypeOf(picky{}), strictPred: true},
	{name: "required-key-absent", class: "absent-key", good: nStr("s"), leaf: reflect.PtrTo(tString), tag: "required", needKey: true, absent: true},
	{name: "required-key-absent", class: "absent-key", good: nInt(1), leaf: reflect.PtrTo(tInt64), tag: "required", needKey: true, absent: true},
	{name: "getter-key-absent", class: "getter-missing-key", needKey: true, absent: true, getter: true},
	{name: "getter-key-absent", class: "getter-missing-key", needKey: true, absent: true, getter: true},
}

type step struct {
	key   string
	index bool
}

func joinSteps(steps []step) string {
	names := make([]string, len(steps))
	for i, s := range steps {
		names[i] = s.key
	}
	return strings.Join(names, ".")
}

// folder folds dictionary edges of a tree: the entries of a folded child
// object, or the elements of a folded child list, move into the parent under
// "key.sub" / "key.<index>". Under PathSep(".") the folded document means what
// the original means; the folded containers exist only implicitly.
type folder struct {
	r          *rand.Rand
	objOdds    int // an object edge off the marked path is folded with probability 1/objOdds
	listOdds   int // a list edge with 1/listOdds
	folded     int // edges folded
	pathFolded int // of those, edges on the marked path
}

// fold copies n. onPath are the remaining steps of a marked path starting at
// n (nil: none); edges on it are folded with probability 3/4, the others
// with 1/objOdds and 1/listOdds.
func (f *folder) fold(n *model.Node, onPath []step, marked bool) *model.Node {
	if !n.IsSub() {
		return n.Copy()
	}
	next := func(key string, index bool) ([]step, bool) {
		if marked && len(onPath) > 0 && onPath[0].key == key && onPath[0].index == index {
			return onPath[1:], true
		}
		return nil, false
	}
	if n.HasA {
		m := model.List()
		for i, e := range n.A {
			rest, on := next(strconv.Itoa(i), true)
			m.A = append(m.A, f.fold(e, rest, on))
		}
		return m
	}
	m := model.Dict()
	for _, k := range n.SortedKeys() {
		rest, on := next(k, false)
		c := f.fold(n.D[k], rest, on)
		foldable := k != "" && !strings.Contains(k, ".") && c.IsSub() && (len(c.D) > 0 || len(c.A) > 0) && !(len(c.D) > 0 && len(c.A) > 0)
		want := false
		if foldable {
			switch {
			case on:
				want = f.r.Intn(4) > 0
			case c.HasA:
				want = f.r.Intn(f.listOdds) == 0
			default:
				want = f.r.Intn(f.objOdds) == 0
			}
		}
		if !want {
			m.D[k] = c
			continue
		}
		f.folded++
		if on {
			f.pathFolded++
		}
		if c.HasA {
			for i, e := range c.A {
				m.D[k+"."+strconv.Itoa(i)] = e
			}
		} else {
			for sk, sc := range c.D {
				m.D[k+"."+sk] = sc
			}
		}
	}
	return m
}

func allPaths(n *model.Node, prefix string, out *[]string) {
	if !n.IsSub() {
		return
	}
	add := func(k string, c *model.Node) {
		p := k
		if prefix != "" {
			p = prefix + "." + k
		}
		*out = append(*out, p)
		allPaths(c, p, out)
	}
	for k, c := range n.D {
		add(k, c)
	}
	for i, c := range n.A {
		add(strconv.Itoa(i), c)
	}
}

func tokenRune(r rune) bool {
	return r == '_' || r == '.' || r == '-' || unicode.IsLetter(r) || unicode.IsDigit(r)
}

// namesToken reports whether msg contains tok delimited: the characters
// directly before and after it are not letters, digits, '_', '.', '-'.
func namesToken(msg, tok string) bool {
	if tok == "" {
		return false
	}
	for from := 0; from < len(msg); {
		i := strings.Index(msg[from:], tok)
		if i < 0 {
			return false
		}
		i += from
		before, _ := utf8.DecodeLastRuneInString(msg[:i])
		after, _ := utf8.DecodeRuneInString(msg[i+len(tok):])
		if (i == 0 || !tokenRune(before)) && (i+len(tok) == len(msg) || !tokenRune(after)) {
			return true
		}
		_, w := utf8.DecodeRuneInString(msg[i:])
		from = i + w
	}
	return false
}

// namesFile: the message contains the name given to NewConfigWithFile, or at
// least its base name.
func namesFile(msg, file string) bool {
	return strings.Contains(msg, file) || strings.Contains(msg, filepath.Base(file))
}

func withoutFile(msg, file string) string {
	return strings.ReplaceAll(strings.ReplaceAll(msg, file, " "), filepath.Base(file), " ")
}

// getterErr walks to the object holding the last step with Child handles and
// asks it for the (missing) last key as a string.
func getterErr(c *ucfg.Config, steps []step, joined bool, opts []ucfg.Option) (err error, nav bool) {
	cur := c
	n := len(steps) - 1
	if joined && n > 0 {
		child, e := cur.Child(joinSteps(steps[:n]), -1, opts...)
		if e != nil {
			return e, true
		}
		cur = child
	} else {
		for i := 0; i < n; {
			name, idx := "", -1
			if !steps[i].index {
				name = steps[i].key
				i++
			}
			if i < n && steps[i].index {
				idx, _ = strconv.Atoi(steps[i].key)
				i++
			}
			child, e := cur.Child(name, idx, opts...)
			if e != nil {
				return e, true
			}
			cur = child
		}
	}
	_, err = cur.String(steps[n].key, -1, opts...)
	return err, false
}

func faultPhase(res *harness.R, r *rand.Rand, g *docGen, tree *model.Node, dir, stem string, verbose bool) {
	ft := tree.Copy()
	isVar := map[string]bool{}
	for _, v := range g.allVars {
		isVar[v] = true
	}
	var steps []step
	maxLen := 1 + r.Intn(5)
	cur := ft
	var set func(*model.Node)
	var del func()
	type listStep struct {
		list  *model.Node
		index int
		depth int
	}
	var lists []listStep
	for {
		var child *model.Node
		holder := cur
		if cur.HasA {
			if len(cur.A) == 0 {
				cur.A = append(cur.A, model.Nil())
			}
			i := r.Intn(len(cur.A))
			lists = append(lists, listStep{cur, i, len(steps)})
			steps = append(steps, step{strconv.Itoa(i), true})
			child = cur.A[i]
			set = func(n *model.Node) { holder.A[i] = n }
			del = nil
		} else {
			var have []string
			for _, k := range cur.SortedKeys() {
				if tagSafe(k) && !strings.Contains(k, ".") && !(len(steps) == 0 && isVar[k]) {
					have = append(have, k)
				}
			}
			var k string
			if len(have) > 0 && r.Intn(4) > 0 {
				k = have[r.Intn(len(have))]
			} else {
				pool := append(append([]string{}, plainKeys...), "a b", "ünï", "with-dash", "it's", "a:b")
				k = pool[r.Intn(len(pool))]
			}
			if cur.D == nil {
				cur.D = map[string]*model.Node{}
			}
			if _, ok := cur.D[k]; !ok {
				cur.D[k] = model.Nil()
			}
			steps = append(steps, step{k, false})
			child = cur.D[k]
			set = func(n *model.Node) { holder.D[k] = n }
			del = func() {
				delete(holder.D, k)
				if len(holder.D) == 0 {
					holder.D["zz"] = model.P(int64(1)) // the object stays, only the key is missing
				}
			}
		}
		if len(steps) < maxLen {
			if child.IsSub() && r.Intn(5) > 0 {
				cur = child
				continue
			}
			if r.Intn(3) == 0 {
				// lengthen the path with a fresh container
				nc := model.Dict()
				if r.Intn(2) == 0 {
					nc = model.List()
				}
				set(nc)
				cur = nc
				continue
			}
		}
		break
	}
	last := steps[len(steps)-1]
	var fk faultKind
	for {
		fk = faultKinds[r.Intn(len(faultKinds))]
		if !fk.needKey || !last.index {
			break
		}
	}
	if fk.absent {
		del()
	} else {
		set(fk.val())
	}
	// Unpack walks a list in order and stops at the first error: the elements
	// before the path must be accepted by the target. null is accepted by most
	// types without validators; otherwise build a conforming element.
	var goodTree func(rest []step) *model.Node
	goodTree = func(rest []step) *model.Node {
		if len(rest) == 0 {
			return fk.good()
		}
		if !rest[0].index {
			return model.Dict().Set(rest[0].key, goodTree(rest[1:]))
		}
		n := model.List()
		i, _ := strconv.Atoi(rest[0].key)
		for j := 0; j <= i; j++ {
			n.A = append(n.A, goodTree(rest[1:]))
		}
		return n
	}
	if !fk.getter {
		for _, ls := range lists {
			for j := 0; j < ls.index; j++ {
				if fk.tag == "" && !fk.strictPred && r.Intn(2) == 0 {
					ls.list.A[j] = model.Nil()
				} else {
					ls.list.A[j] = goodTree(steps[ls.depth+1:])
				}
			}
		}
	}

	// typed target along the path only
	var t reflect.Type
	if !fk.getter {
		t = fk.leaf
		for i := len(steps) - 1; i >= 0; i-- {
			s := steps[i]
			if s.index {
				t = reflect.SliceOf(t)
			} else {
				tag := `config:"` + s.key + `"`
				if i == len(steps)-1 && fk.tag != "" {
					tag += ` validate:"` + fk.tag + `"`
				}
				st := reflect.StructOf([]reflect.StructField{{Name: "F", Type: t, Tag: reflect.StructTag(tag)}})
				if i > 0 && !steps[i-1].index && r.Intn(4) == 0 {
					t = reflect.PtrTo(st)
				} else {
					t = st
				}
			}
		}
	}
	path := joinSteps(steps)
	var known []string
	allPaths(ft, "", &known)
	sort.Slice(known, func(i, j int) bool {
		return len(known[i]) > len(known[j]) || len(known[i]) == len(known[j]) && known[i] < known[j]
	})

	shapeName := ""
	for _, s := range steps {
		if s.index {
			shapeName += "i"
		} else {
			shapeName += "k"
		}
	}
	res.SetAdd("fault_kind", fk.name)
	res.SetAdd("fault_path_shape", shapeName)

	// one load without and one with PathSep (there the document is written with
	// folded keys, preferably along the path)
	plain := []combo{combos[0], combos[2]}
	seps := []combo{combos[1], combos[3], combos[4]}
	cbs := []combo{plain[r.Intn(len(plain))]}
	if !g.hasDot {
		cbs = append(cbs, seps[r.Intn(len(seps))])
	}
	for _, cb := range cbs {
		doc := ft
		foldedOnPath := false
		if cb.pathSep {
			fo := &folder{r: r, objOdds: 3, listOdds: 6}
			doc = fo.fold(ft, steps, true)
			foldedOnPath = fo.pathFolded > 0
			if fo.folded > 0 {
				res.Ev("fault_documents_with_folded_keys", 1)
			}
			if foldedOnPath {
				res.Ev("fault_documents_folded_on_the_path", 1)
			}
		}
		text := render(r, res, doc)
		if why := prefilter(text, doc); why != "" {
			res.Ev("prefilter_rejected_fault_document", 1)
			reason, example, _ := strings.Cut(why, "|")
			res.SetAdd("prefilter_reason", reason)
			if example != "" {
				res.SetAdd("prefilter_example", reason+": "+example)
			}
			if verbose {
				fmt.Printf("fault document rejected by the prefilter (%s):\n%s\n", why, text)
			}
			continue
		}
		res.Ev("fault_documents", 1)
		if cb.varExp {
			// the fault document must stay inside the expansion model
			vars := map[string]string{}
			if !ft.HasA {
				for _, name := range g.allVars {
					vars[name], _ = ft.D[name].Prim.(string)
				}
			}
			if _, ok := expandTree(ft, vars, map[string]bool{}); !ok {
				continue
			}
		}
		joined := fk.getter && cb.pathSep && !strings.Contains(shapeName, "i") && r.Intn(2) == 0
		how := "Unpack"
		if fk.getter {
			how = "Child+String"
			if joined {
				how = "Child(dotted)+String"
			}
		}
		ctx := fmt.Sprintf("fault=%s via %s path=%q target=%v options=%s document=%q", fk.name, how, path, t, cb.name, clip(string(text)))
		if verbose {
			fmt.Println("fault:", ctx)
		}
		var fileOut, memOut [3]outcome
		var files [3]string
		for i, l := range loaders {
			l := l
			p := filepath.Join(dir, "fault-"+stem+"."+l.ext)
			files[i] = p
			if err := os.WriteFile(p, text, 0o644); err != nil {
				res.Inconc("cannot write %s: %v", p, err)
				return
			}
			for k, fromFile := range []bool{true, false} {
				who := l.name + ".NewConfig"
				fn := func() (*ucfg.Config, error) { return l.mem(text, cb.opts...) }
				if fromFile {
					who = l.name + ".NewConfigWithFile"
					fn = func() (*ucfg.Config, error) { return l.file(p, cb.opts...) }
				}
				c, err, ok := load(res, who, fn, ctx)
				if !ok {
					continue
				}
				if err != nil || c == nil {
					res.Violate("loader-error:"+l.name, "%s returned (%v, %v) for the fault document; %s", who, c, err, ctx)
					continue
				}
				var uerr error
				nav := false
				panicked, pv, where := harness.Safe(func() {
					if fk.getter {
						uerr, nav = getterErr(c, steps, joined, cb.opts)
					} else {
						uerr = c.Unpack(reflect.New(t).Interface(), cb.opts...)
					}
				})
				res.Eval(1)
				if panicked {
					res.Violate("panic:"+how, "%s: panic %q at %s; %s", who, pv, where, ctx)
					continue
				}
				if nav {
					res.Inconc("%s: cannot walk to the object of the missing key: %v; %s", who, uerr, clip(ctx))
					continue
				}
				if k == 0 {
					fileOut[i] = outcome{true, uerr}
				} else {
					memOut[i] = outcome{true, uerr}
				}
			}
		}
		// input class of the fault for the signatures
		class := fk.class
		if len(steps) == 1 {
			class += ":top-level-setting"
		} else {
			class += ":nested-setting"
		}
		if foldedOnPath {
			class += ":dotted-key"
		}
		faultVerdict(res, fk.name, class, path, known, fileOut, memOut, files, dir, ctx)
	}
}

type outcome struct {
	loaded bool
	err    error
}

// faultVerdict judges the errors of the six loads of one fault document:
// raised by all or none; file loads name their file, memory loads no file;
// the dotted path (if the fault has one) is named as a delimited token.
func faultVerdict(res *harness.R, kind, class, path string, known []string, fileOut, memOut [3]outcome, files [3]string, dir, ctx string) {
	// was the fault raised at all? (raising it is C03/C04's business; the
	// front-ends only have to agree about it)
	raised := 0
	total := 0
	for i := range loaders {
		for _, o := range []outcome{fileOut[i], memOut[i]} {
			if o.loaded {
				total++
				if o.err != nil {
					raised++
				}
			}
		}
	}
	if total == 0 {
		return
	}
	if raised == 0 {
		res.Ev("fault_not_raised_by_any_frontend", 1)
		res.SetAdd("fault_not_raised", kind)
		return
	}
	if raised != total {
		var l []string
		for i, ld := range loaders {
			l = append(l, fmt.Sprintf("%s: file=%v memory=%v", ld.name, fileOut[i].err, memOut[i].err))
		}
		res.Violate("frontends-disagree:fault-raised", "the fault is reported by %d of %d loads: %s; %s", raised, total, strings.Join(l, " | "), ctx)
		return
	}
	res.SetAdd("fault_class", class)
	var lacking []int
	nLoaded := 0
	for i := range loaders {
		if fileOut[i].loaded {
			nLoaded++
			if !namesFile(fileOut[i].err.Error(), files[i]) {
				lacking = append(lacking, i)
			}
		}
	}
	for k, i := range lacking {
		who := loaders[i].name
		if len(lacking) == nLoaded && nLoaded > 1 {
			// every front-end that loaded the file is affected: go-ucfg's core, not a front-end
			if k > 0 {
				continue
			}
			who = "all-loaders"
		}
		res.Violate("error-lacks-source:"+who+":"+class, "%s.NewConfigWithFile(%q): error %q does not mention the file (%d of %d loaders affected); %s",
			loaders[i].name, files[i], fileOut[i].err.Error(), len(lacking), nLoaded, ctx)
	}
	for i, l := range loaders {
		if fileOut[i].loaded {
			if path != "" {
				pathVerdict(res, l.name+"-withfile", withoutFile(fileOut[i].err.Error(), files[i]), path, known, ctx)
			}
			res.Ev("source_checked", 1)
		}
		if memOut[i].loaded {
			msg := memOut[i].err.Error()
			if namesFile(msg, files[i]) || strings.Contains(msg, dir) {
				res.Violate("memory-error-mentions-source:"+l.name, "%s.NewConfig: error %q names the file although the bytes were passed in memory; %s", l.name, msg, ctx)
			}
			if path != "" {
				pathVerdict(res, l.name, msg, path, known, ctx)
			}
		}
	}
}

// pathVerdict classifies an error text that should name the dotted path as a
// delimited token, whatever the wording around it.
func pathVerdict(res *harness.R, who, msg, path string, known []string, ctx string) {
	if namesToken(msg, path) {
		return
	}
	for _, other := range known {
		if other != path && namesToken(msg, other) {
			res.Violate("error-names-wrong-path:"+who, "error %q names %q, the faulty setting is %q; %s", msg, other, path, ctx)
			return
		}
	}
	res.Violate("error-lacks-path:"+who, "error %q does not name the setting %q; %s", msg, path, ctx)
}
