package c18

import (
	"fmt"
	"math"
	"math/rand"
	"os"
	"path/filepath"
	"reflect"
	"strconv"
	"strings"
	"time"

	ucfg "github.com/elastic/go-ucfg"

	"verif/internal/harness"
	"verif/internal/model"
)

// ---------------------------------------------------------------------------
// shared: load one document six ways and run several probes on each config

// probe is one way of provoking / reading the fault of a document.
type probe struct {
	label  string
	kind   string
	class  string   // signature class
	path   string   // the one setting the error is about ("" if several are equally guilty)
	guilty []string // if path == "": the error has to name one of these
	run    func(c *ucfg.Config, opts []ucfg.Option) error
}

func runProbes(res *harness.R, text []byte, prefix, dir, stem string, cb combo, probes []probe, known []string, ctxBase string) {
	fileOut := make([][3]outcome, len(probes))
	memOut := make([][3]outcome, len(probes))
	var files [3]string
	for i, l := range loaders {
		l := l
		p := filepath.Join(dir, prefix+stem+"."+l.ext)
		files[i] = p
		if err := os.WriteFile(p, text, 0o644); err != nil {
			res.Inconc("cannot write %s: %v", p, err)
			return
		}
		for k, fromFile := range []bool{true, false} {
			who := l.name + ".NewConfig"
			fn := func() (*ucfg.Config, error) { return l.mem(text, cb.opts...) }
			if fromFile {
				who = l.name + ".NewConfigWithFile"
				fn = func() (*ucfg.Config, error) { return l.file(p, cb.opts...) }
			}
			c, err, ok := load(res, who, fn, ctxBase)
			if !ok {
				continue
			}
			if err != nil || c == nil {
				res.Violate("loader-error:"+l.name, "%s returned (%v, %v); %s", who, c, err, ctxBase)
				continue
			}
			for pi, pr := range probes {
				pr := pr
				var uerr error
				panicked, pv, where := harness.Safe(func() { uerr = pr.run(c, cb.opts) })
				res.Eval(1)
				if panicked {
					res.Violate("panic:Unpack", "%s, %s: panic %q at %s; %s", who, pr.label, pv, where, ctxBase)
					continue
				}
				if k == 0 {
					fileOut[pi][i] = outcome{true, uerr}
				} else {
					memOut[pi][i] = outcome{true, uerr}
				}
			}
		}
	}
	for pi, pr := range probes {
		ctx := fmt.Sprintf("probe=%s path=%q %s", pr.label, pr.path, ctxBase)
		faultVerdict(res, pr.kind, pr.class, pr.path, known, fileOut[pi], memOut[pi], files, dir, ctx)
		if pr.path != "" || len(pr.guilty) == 0 {
			continue
		}
		// several settings are equally guilty: one of them has to be named
		for i, l := range loaders {
			for k, o := range []outcome{fileOut[pi][i], memOut[pi][i]} {
				if !o.loaded || o.err == nil {
					continue
				}
				msg := withoutFile(o.err.Error(), files[i])
				named := false
				for _, gp := range pr.guilty {
					named = named || namesToken(msg, gp)
				}
				if !named {
					who := l.name
					if k == 0 {
						who += "-withfile"
					}
					res.Violate("error-lacks-path:"+who+":"+pr.class, "error %q names none of the settings involved %q; %s", o.err.Error(), pr.guilty, ctx)
				}
			}
		}
	}
}

// pathStruct builds the target that follows steps and ends in leaf.
func pathStruct(steps []step, leaf reflect.Type) reflect.Type {
	t := leaf
	for i := len(steps) - 1; i >= 0; i-- {
		if steps[i].index {
			t = reflect.SliceOf(t)
		} else {
			t = reflect.StructOf([]reflect.StructField{{Name: "F", Type: t, Tag: reflect.StructTag(`config:"` + steps[i].key + `"`)}})
		}
	}
	return t
}

func refSafe(k string) bool { return tagSafe(k) && !strings.ContainsAny(k, "$:}{.") }

// ---------------------------------------------------------------------------
// faults of VarExp documents: reference cycles, missing references,
// references through primitives, and faults at elements of lists / objects
// that only exist as the parsed expansion of a spliced string.

func refFaultPhase(res *harness.R, r *rand.Rand, g *docGen, tree *model.Node, dir, stem string, verbose bool) {
	var doc *model.Node
	if tree.HasA {
		g2 := &docGen{r: r, res: res}
		doc = g2.dict(2, 1+r.Intn(3))
	} else {
		doc = tree.Copy()
	}
	// the object holding the faulty settings: the root, or an object reached
	// over reference-safe keys (lists only through an element 0 that is an object)
	var steps []step
	holder := doc
	wantDepth := r.Intn(4)
	if g.hasDot {
		wantDepth = 0 // below the root references need PathSep
	}
	for len(steps) < wantDepth {
		var cand []string
		for _, k := range holder.SortedKeys() {
			c := holder.D[k]
			if !refSafe(k) || !c.IsSub() {
				continue
			}
			if !c.HasA || len(c.A) > 0 && c.A[0].IsSub() && !c.A[0].HasA {
				cand = append(cand, k)
			}
		}
		if len(cand) == 0 {
			// make one
			k := plainKeys[r.Intn(len(plainKeys))]
			if _, ok := holder.D[k]; ok && len(steps) == 0 {
				break // never overwrite a top-level variable or setting
			}
			holder.D[k] = model.Dict()
			cand = []string{k}
		}
		k := cand[r.Intn(len(cand))]
		steps = append(steps, step{k, false})
		holder = holder.D[k]
		if holder.HasA {
			steps = append(steps, step{"0", true})
			holder = holder.A[0]
		}
		if holder.D == nil {
			holder.D = map[string]*model.Node{}
		}
	}
	prefix := ""
	if len(steps) > 0 {
		prefix = joinSteps(steps) + "."
	}
	ref := func(k string) string { return "${" + prefix + k + "}" }
	at := func(k string) []step { return append(append([]step{}, steps...), step{k, false}) }
	deco := func(s string) string {
		switch r.Intn(3) {
		case 0:
			return s
		case 1:
			return "pre-" + s
		}
		return "x " + s + "-y"
	}

	needSep := len(steps) > 0
	var probes []probe
	kind := ""
	genericRun := func(c *ucfg.Config, opts []ucfg.Option) error {
		var m map[string]interface{}
		return c.Unpack(&m, opts...)
	}
	typedRun := func(t reflect.Type) func(c *ucfg.Config, opts []ucfg.Option) error {
		return func(c *ucfg.Config, opts []ucfg.Option) error { return c.Unpack(reflect.New(t).Interface(), opts...) }
	}
	refProbes := func(class string, members ...string) {
		var guilty []string
		for _, m := range members {
			guilty = append(guilty, prefix+m)
		}
		probes = append(probes, probe{label: "generic target", kind: kind, class: class + ":generic-target", guilty: guilty, run: genericRun})
		leaf := []reflect.Type{tString, tIface, tInt64, reflect.PtrTo(tString)}[r.Intn(4)]
		probes = append(probes, probe{label: "typed target " + leaf.String(), kind: kind, class: class + ":typed-target", guilty: guilty,
			run: typedRun(pathStruct(at(members[0]), leaf))})
	}
	switch x := r.Intn(10); {
	case x == 0:
		kind = "cycle-of-1"
		holder.D["ra"] = model.P(deco(ref("ra")))
		refProbes("cyclic-reference", "ra")
	case x == 1:
		kind = "cycle-of-2"
		holder.D["ra"] = model.P(deco(ref("rb")))
		holder.D["rb"] = model.P(deco(ref("ra")))
		refProbes("cyclic-reference", "ra", "rb")
	case x == 2:
		kind = "cycle-of-3"
		holder.D["ra"] = model.P(deco(ref("rb")))
		holder.D["rb"] = model.P(deco(ref("rc")))
		holder.D["rc"] = model.P(deco(ref("ra")))
		refProbes("cyclic-reference", "ra", "rb", "rc")
	case x == 3:
		kind = "missing-reference"
		holder.D["ra"] = model.P(deco(ref("zz_nosuch")))
		refProbes("missing-reference", "ra")
	case x == 4:
		kind = "reference-through-primitive"
		needSep = true
		holder.D["rb"] = []*model.Node{model.P(int64(5)), model.P("text"), model.P(true), model.P(2.5)}[r.Intn(4)]
		holder.D["ra"] = model.P(deco(ref("rb.x")))
		refProbes("reference-through-primitive", "ra")
	default:
		// a spliced string that parses into a list or an object; the fault sits
		// at one of ITS elements, which no line of the file spells out
		src := "zz_src"
		var leaf reflect.Type
		var sub []step
		switch r.Intn(5) {
		case 0:
			kind = "spliced-list-element"
			doc.D[src] = model.P("5,6")
			holder.D["rb"] = model.P("${" + src + "},x")
			leaf, sub = reflect.SliceOf(tBool), []step{{"0", true}}
		case 1:
			kind = "spliced-list-element"
			doc.D[src] = model.P("7")
			holder.D["rb"] = model.P("[${" + src + "}, {z: q}]")
			leaf, sub = reflect.SliceOf(tBool), []step{{"0", true}}
		case 2:
			kind = "spliced-list-element"
			doc.D[src] = model.P("q")
			holder.D["rb"] = model.P("[1, 2, ${" + src + "}]")
			leaf, sub = reflect.SliceOf(tInt64), []step{{"2", true}}
		case 3:
			kind = "spliced-object-entry"
			doc.D[src] = model.P("5")
			holder.D["rb"] = model.P("{k: ${" + src + "}, z: q}")
			leaf = reflect.StructOf([]reflect.StructField{{Name: "Z", Type: tInt64, Tag: `config:"z"`}})
			sub = []step{{"z", false}}
		default:
			kind = "spliced-nested-element"
			doc.D[src] = model.P("4")
			holder.D["rb"] = model.P("{m: [${" + src + "}, q]}")
			leaf = reflect.StructOf([]reflect.StructField{{Name: "M", Type: reflect.SliceOf(tInt64), Tag: `config:"m"`}})
			sub = []step{{"m", false}, {"1", true}}
		}
		full := append(at("rb"), sub...)
		probes = append(probes, probe{label: "typed target", kind: kind, class: "spliced-value-element", path: joinSteps(full), run: typedRun(pathStruct(at("rb"), leaf))})
	}

	var cands []combo
	for _, cb := range combos {
		if cb.varExp && (!needSep || cb.pathSep) && !(cb.pathSep && g.hasDot) {
			cands = append(cands, cb)
		}
	}
	if len(cands) == 0 {
		return
	}
	cb := cands[r.Intn(len(cands))]
	text := render(r, res, doc)
	if why := prefilter(text, doc); why != "" {
		res.Ev("prefilter_rejected_fault_document", 1)
		return
	}
	res.Ev("reference_fault_documents", 1)
	res.SetAdd("reference_fault", fmt.Sprintf("%s depth=%d", kind, len(steps)))
	var known []string
	allPaths(doc, "", &known)
	ctx := fmt.Sprintf("fault=%s holder=%q options=%s document=%q", kind, strings.TrimSuffix(prefix, "."), cb.name, clip(string(text)))
	if verbose {
		fmt.Println("reference fault:", ctx)
	}
	runProbes(res, text, "ref-", dir, stem, cb, probes, known, ctx)
}

// ---------------------------------------------------------------------------
// convertible but NON-matching pairings of settings and targets: whatever the
// library makes of a number meeting a bool, a numeric string meeting a
// number, a number meeting a string ... , it has to make the same of it for
// all three front-ends and for the file / in-memory twins. Nothing is
// compared with an expectation here.

type crossValue struct {
	class string
	node  func() *model.Node
}

func cv(class string, vals ...interface{}) []crossValue {
	var out []crossValue
	for _, v := range vals {
		v := v
		out = append(out, crossValue{class, func() *model.Node { return model.P(v) }})
	}
	return out
}

var crossValues = func() [][]crossValue {
	return [][]crossValue{
		cv("int-0or1", int64(0), int64(1)),
		cv("int-small", int64(2), int64(-1), int64(7), int64(42), int64(255), int64(300), int64(-128), int64(65535), int64(99999), int64(999999)),
		cv("int-7+digits", int64(1000000), int64(1234567), int64(12345678), int64(-1000000), int64(2147483648), int64(1)<<40, int64(1)<<53),
		// -0 is an integer literal for YAML (the int 0) and the float -0 for the other two
		cv("negative-zero", math.Copysign(0, -1)),
		cv("float-integral", 0.0, 1.0, 2.0, -3.0, 100.0, 65536.0),
		cv("float-integral-7+digits", 1e6, 1e7+1, 1e15, 1e20, 1e21, 1e22),
		cv("float-fraction", 0.5, 1.5, -2.25, 1e-7, 0.1, 1234567.5),
		cv("string-integer", "0", "1", "12", "-7", "+5", "007", "0x10", "1000000"),
		cv("string-float", "1.5", "1e3", ".5", "1.0", "1e+06", "-0.25"),
		cv("string-bool", "true", "false", "on", "off", "T", "f", "TRUE", "yes"),
		cv("string-other", "", "abc", " 5", "5 ", "1,2", "10s", "1h5m"),
		cv("bool", true, false),
	}
}()

var crossTargets = []reflect.Type{tBool, tInt64, tInt8, tUint64, reflect.TypeOf(uint8(0)), tFloat64, reflect.TypeOf(float32(0)), tString,
	reflect.PtrTo(tBool), reflect.PtrTo(tString), reflect.TypeOf(time.Duration(0))}

func crossPhase(res *harness.R, r *rand.Rand, dir, stem string, verbose bool) {
	cb := combos[r.Intn(len(combos))]
	doc := model.Dict()
	type entry struct {
		key    string
		class  string // value class
		shape  string // "", "in-list", "in-map"
		target reflect.Type
		t      reflect.Type // the single-field struct
		sig    string       // signature class if not the pairing
	}
	var entries []entry
	n := 4 + r.Intn(4)
	for i := 0; i < n; i++ {
		key := "p" + strconv.Itoa(i)
		group := crossValues[r.Intn(len(crossValues))]
		pick := func() *model.Node { return group[r.Intn(len(group))].node() }
		target := crossTargets[r.Intn(len(crossTargets))]
		e := entry{key: key, class: group[0].class, target: target}
		ft := target
		switch r.Intn(5) {
		case 0:
			e.shape = "in-list"
			l := model.List()
			for j, c := 0, 1+r.Intn(3); j < c; j++ {
				l.A = append(l.A, pick())
			}
			doc.D[key] = l
			if target.Kind() == reflect.Ptr {
				ft = target.Elem()
				e.target = ft
			}
			ft = reflect.SliceOf(ft)
		case 1:
			e.shape = "in-map"
			m := model.Dict()
			for j, c := 0, 1+r.Intn(2); j < c; j++ {
				m.D[plainKeys[j]] = pick()
			}
			doc.D[key] = m
			if target.Kind() == reflect.Ptr {
				ft = target.Elem()
				e.target = ft
			}
			ft = reflect.MapOf(tString, ft)
		default:
			doc.D[key] = pick()
		}
		e.t = reflect.StructOf([]reflect.StructField{{Name: "F", Type: ft, Tag: reflect.StructTag(`config:"` + key + `"`)}})
		entries = append(entries, e)
	}
	// numbers meeting min= / max= validators whose parameter is written as a
	// negative, fractional, hexadecimal ... number, on fields that fix the
	// number type and on interface{} fields that take what the front-end brings
	for i, c := 0, 1+r.Intn(2); i < c; i++ {
		key := "v" + strconv.Itoa(i)
		numeric := [][]crossValue{crossValues[0], crossValues[1], crossValues[4], crossValues[6]}
		group := numeric[r.Intn(len(numeric))]
		doc.D[key] = group[r.Intn(len(group))].node()
		params := []struct{ text, class string }{{"-1", "negative"}, {"-2.5", "negative-fraction"}, {"0", "integer"}, {"3", "integer"}, {"10", "integer"},
			{"1.5", "fraction"}, {"0x10", "hexadecimal"}, {"1e2", "exponent"}, {"010", "leading-zero"}, {"+4", "explicit-sign"}}
		pm := params[r.Intn(len(params))]
		op := []string{"min", "max"}[r.Intn(2)]
		target := []reflect.Type{tIface, tIface, tIface, tInt64, tUint64, tFloat64, reflect.PtrTo(tInt64)}[r.Intn(7)]
		tk := target
		if tk.Kind() == reflect.Ptr {
			tk = tk.Elem()
		}
		res.SetAdd("validator_parameter", op+"="+pm.class+" on "+tk.String())
		e := entry{key: key, class: group[0].class + "-validated-" + op + "=" + pm.text, target: target,
			sig: "validator-parameter-on-" + strings.ReplaceAll(tk.String(), " ", "") + "-field"}
		e.t = reflect.StructOf([]reflect.StructField{{Name: "F", Type: target, Tag: reflect.StructTag(`config:"` + key + `" validate:"` + op + "=" + pm.text + `"`)}})
		entries = append(entries, e)
		res.Ev("validator_parameter_pairings", 1)
	}
	// with VarExp: settings that embed a scalar of the document in a string,
	// or stand for it; every setting is referenced at most once
	if cb.varExp {
		for i, e := range append([]entry{}, entries...) {
			if e.shape != "" || e.sig != "" || r.Intn(2) == 0 {
				continue
			}
			key := "s" + strconv.Itoa(i)
			se := entry{key: key, target: []reflect.Type{tIface, tIface, tString}[r.Intn(3)]}
			if r.Intn(3) == 0 {
				doc.D[key] = model.P("${" + e.key + "}")
				se.class = "reference-to-" + e.class
			} else {
				doc.D[key] = model.P("x${" + e.key + "}y")
				se.class = "splice-of-" + e.class
			}
			se.t = reflect.StructOf([]reflect.StructField{{Name: "F", Type: se.target, Tag: reflect.StructTag(`config:"` + key + `"`)}})
			entries = append(entries, se)
		}
	}
	text := render(r, res, doc)
	if why := prefilter(text, doc); why != "" {
		res.Ev("prefilter_rejected_cross_type_document", 1)
		reason, _, _ := strings.Cut(why, "|")
		res.SetAdd("prefilter_reason", reason)
		return
	}
	res.Ev("cross_type_documents", 1)
	ctxBase := fmt.Sprintf("options=%s document=%q", cb.name, clip(string(text)))
	if verbose {
		fmt.Println("cross-type:", ctxBase)
	}

	// outcome of one Unpack: "ok <rendering>" or "error"
	var out [2][3][]string // [file|memory][loader][entry]
	var errs [2][3][]error
	for i, l := range loaders {
		l := l
		p := filepath.Join(dir, "cross-"+stem+"."+l.ext)
		if err := os.WriteFile(p, text, 0o644); err != nil {
			res.Inconc("cannot write %s: %v", p, err)
			return
		}
		for k, fromFile := range []bool{true, false} {
			who := l.name + ".NewConfig"
			fn := func() (*ucfg.Config, error) { return l.mem(text, cb.opts...) }
			if fromFile {
				who = l.name + ".NewConfigWithFile"
				fn = func() (*ucfg.Config, error) { return l.file(p, cb.opts...) }
			}
			c, err, ok := load(res, who, fn, ctxBase)
			if !ok {
				return
			}
			if err != nil || c == nil {
				res.Violate("loader-error:"+l.name, "%s returned (%v, %v); %s", who, c, err, ctxBase)
				return
			}
			for _, e := range entries {
				pv := reflect.New(e.t)
				var uerr error
				panicked, pval, where := harness.Safe(func() { uerr = c.Unpack(pv.Interface(), cb.opts...) })
				res.Eval(1)
				if panicked {
					res.Violate("panic:Unpack", "%s: panic %q at %s unpacking %q into %v; %s", who, pval, where, e.key, e.t, ctxBase)
					return
				}
				s := "error"
				if uerr == nil {
					var b strings.Builder
					renderTyped(&b, pv.Elem().Field(0))
					s = "ok " + b.String()
				}
				if e.shape == "" && e.sig == "" {
					// the low-level getter of the same kind has to agree as well
					s += " / getter " + getterOutcome(c, e.key, e.target, cb.opts)
					res.Eval(1)
				}
				out[k][i] = append(out[k][i], s)
				errs[k][i] = append(errs[k][i], uerr)
			}
		}
	}
	for ei, e := range entries {
		pairing := e.class + "-into-" + e.target.String()
		if e.shape != "" {
			pairing += ":" + e.shape
		}
		res.SetAdd("cross_type_pairing", pairing)
		// signature class: the conversion, not where it happens (pointer,
		// list element, map entry) nor how the value got there (a pure
		// reference converts the referenced value itself)
		tk := e.target
		if tk.Kind() == reflect.Ptr {
			tk = tk.Elem()
		}
		sigClass := strings.TrimPrefix(e.class, "reference-to-") + "-into-" + strings.ReplaceAll(tk.String(), " ", "")
		if strings.HasPrefix(e.class, "splice-of-") {
			sigClass = e.class // the text of the splice differs, whatever receives it
		}
		if e.sig != "" {
			sigClass = e.sig
		}
		y, j, h := out[1][0][ei], out[1][1][ei], out[1][2][ei]
		if strings.HasPrefix(y, "ok") {
			res.Ev("cross_type_pairings_converted", 1)
		} else {
			res.Ev("cross_type_pairings_rejected", 1)
		}
		detail := fmt.Sprintf("setting %q = %s into %v: yaml %s (%v) | json %s (%v) | hjson %s (%v)", e.key, doc.D[e.key], e.t.Field(0).Type, y, errs[1][0][ei], j, errs[1][1][ei], h, errs[1][2][ei])
		if y != j || j != h {
			what := "data"
			if strings.HasPrefix(y, "error") != strings.HasPrefix(j, "error") || strings.HasPrefix(j, "error") != strings.HasPrefix(h, "error") {
				what = "outcome"
			}
			res.Violate("frontends-disagree:cross-type:"+sigClass+":"+what, "%s; %s", detail, ctxBase)
		}
		for i, l := range loaders {
			if out[0][i][ei] != out[1][i][ei] {
				res.Violate("withfile-differs-from-memory:"+l.name+":cross-type", "setting %q into %v: file %s (%v), memory %s (%v); %s", e.key, e.t.Field(0).Type, out[0][i][ei], errs[0][i][ei], out[1][i][ei], errs[1][i][ei], ctxBase)
			}
		}
	}
}

// getterOutcome reads a scalar with the getter matching the target kind.
func getterOutcome(c *ucfg.Config, key string, target reflect.Type, opts []ucfg.Option) (out string) {
	defer func() {
		if p := recover(); p != nil {
			out = fmt.Sprintf("panic %v", p)
		}
	}()
	if target.Kind() == reflect.Ptr {
		target = target.Elem()
	}
	var v interface{}
	var err error
	switch target.Kind() {
	case reflect.Bool:
		v, err = c.Bool(key, -1, opts...)
	case reflect.String:
		v, err = c.String(key, -1, opts...)
	case reflect.Int8, reflect.Int64:
		v, err = c.Int(key, -1, opts...)
	case reflect.Uint8, reflect.Uint64:
		v, err = c.Uint(key, -1, opts...)
	case reflect.Float32, reflect.Float64:
		v, err = c.Float(key, -1, opts...)
	default:
		return "-"
	}
	if err != nil {
		return "error"
	}
	if s, ok := v.(string); ok {
		return strconv.Quote(s)
	}
	if b, ok := v.(bool); ok {
		return strconv.FormatBool(b)
	}
	return model.NumCanon(v)
}
